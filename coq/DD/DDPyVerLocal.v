(** C12, the "locality" claims: what [tsimplify_pv] returns depends only on the behaviour of its
    argument inside the window, and the two composition laws hold as identities of diagrams.

    The key notion is a *proxy*: a value [x'] inside the window that lies on the same side as [x] of
    every cut strictly inside the window.  The simplified diagram cannot tell [x] from [x']
    ([simplify_proxy], no density needed), and proxies exist as soon as the admissible values of
    [pk] are dense relative to the window bounds together with the cuts of the diagrams
    ([proxy_exists]).  The density involving the *window bounds* is essential: see
    Marker/PyVerLocal.v for a counterexample when a bound and a cut enclose no value. *)
From Coq Require Import List Bool.
From PV Require Import Base.Order Base.CutDef Base.CutLemmas DD.DDModel DD.DDBasics DD.DDAnd DD.DDWf DD.DDWfOps
  DD.DDCanon DD.DDPyVer DD.DDPyVerProofs.
Import ListNotations.

(** * partitions *)
Section Part.
Context {V : Type} `{TotalOrder V}.
Notation cutV := (cut V).
Variable Tv : V -> Prop.

Definition optl {B : Type} (o : option B) : list B := match o with None => [] | Some b => [b] end.

(** the bounds of a window, as a list of cuts *)
Definition wcuts (w : option cutV * option cutV) : list cutV := optl (fst w) ++ optl (snd w).

Definition optlt (a b : option cutV) : Prop :=
  match a, b with Some a', Some b' => cut_cmp a' b' = Lt | _, _ => True end.
Definition before (hi : option cutV) (x : V) : Prop :=
  match hi with None => True | Some c => left_of x c = true end.
Definition optin (o : option cutV) (C : list cutV) : Prop :=
  match o with None => True | Some c => In c C end.

Lemma optlt_dec (a b : option cutV) : optlt a b \/ ~ optlt a b.
Proof.
  destruct a as [a|], b as [b|]; cbn; auto.
  destruct (cut_cmp a b); [right; discriminate|left; reflexivity|right; discriminate].
Qed.

Lemma pick (C : list cutV) (D : dense_on Tv C) (lo hi : option cutV) :
  optin lo C -> optin hi C -> optlt lo hi -> exists x, Tv x /\ after lo x /\ before hi x.
Proof.
  intros Il Ih L. destruct lo as [lo|], hi as [hi|]; cbn in *.
  - destruct (d_between _ _ D lo hi Il Ih L) as (x & Tx & X1 & X2). exists x; auto.
  - destruct (d_above _ _ D lo Il) as (x & Tx & X). exists x; auto.
  - destruct (d_below _ _ D hi Ih) as (x & Tx & X). exists x; auto.
  - destruct (d_some _ _ D) as (x & Tx). exists x; auto.
Qed.

(** a value just right of [lo]: left of [m] and of every listed cut that is above [lo] *)
Lemma squeeze_left (C : list cutV) (D : dense_on Tv C) (lo : option cutV) : optin lo C ->
  forall L, incl L C -> forall m, optin m C -> optlt lo m ->
  exists x, Tv x /\ after lo x /\ before m x /\ forall c, In c L -> optlt lo (Some c) -> left_of x c = true.
Proof.
  intros Il. induction L as [|c L IH]; intros IL m Im Lm.
  - destruct (pick C D lo m Il Im Lm) as (x & Tx & X1 & X2). exists x.
    split; [exact Tx|split; [exact X1|split; [exact X2|]]]. intros c [].
  - assert (In c C) as Ic by (apply IL; left; reflexivity).
    assert (incl L C) as IL' by (intros z Hz; apply IL; right; exact Hz).
    destruct (optlt_dec lo (Some c)) as [Lc | Nc].
    + destruct m as [m|].
      * destruct (cut_cmp c m) eqn:E.
        -- apply cut_cmp_eq in E; subst m.
           destruct (IH IL' (Some c) Ic Lc) as (x & Tx & X1 & X2 & X3). exists x.
           split; [exact Tx|split; [exact X1|split; [exact X2|]]].
           intros c' [<- | I'] L'; [exact X2|apply X3; assumption].
        -- destruct (IH IL' (Some c) Ic Lc) as (x & Tx & X1 & X2 & X3). exists x.
           split; [exact Tx|split; [exact X1|split; [exact (left_of_mono x c m E X2)|]]].
           intros c' [<- | I'] L'; [exact X2|apply X3; assumption].
        -- apply cut_cmp_gt in E.
           destruct (IH IL' (Some m) Im Lm) as (x & Tx & X1 & X2 & X3). exists x.
           split; [exact Tx|split; [exact X1|split; [exact X2|]]].
           intros c' [<- | I'] L'; [exact (left_of_mono x m c E X2)|apply X3; assumption].
      * destruct (IH IL' (Some c) Ic Lc) as (x & Tx & X1 & X2 & X3). exists x.
        split; [exact Tx|split; [exact X1|split; [exact I|]]].
        intros c' [<- | I'] L'; [exact X2|apply X3; assumption].
    + destruct (IH IL' m Im Lm) as (x & Tx & X1 & X2 & X3). exists x.
      split; [exact Tx|split; [exact X1|split; [exact X2|]]].
      intros c' [<- | I'] L'; [contradiction|apply X3; assumption].
Qed.

(** a value just left of [hi]: right of [m] and of every listed cut that is below [hi] *)
Lemma squeeze_right (C : list cutV) (D : dense_on Tv C) (hi : option cutV) : optin hi C ->
  forall L, incl L C -> forall m, optin m C -> optlt m hi ->
  exists x, Tv x /\ after m x /\ before hi x /\ forall c, In c L -> optlt (Some c) hi -> left_of x c = false.
Proof.
  intros Ih. induction L as [|c L IH]; intros IL m Im Lm.
  - destruct (pick C D m hi Im Ih Lm) as (x & Tx & X1 & X2). exists x.
    split; [exact Tx|split; [exact X1|split; [exact X2|]]]. intros c [].
  - assert (In c C) as Ic by (apply IL; left; reflexivity).
    assert (incl L C) as IL' by (intros z Hz; apply IL; right; exact Hz).
    destruct (optlt_dec (Some c) hi) as [Lc | Nc].
    + destruct m as [m|].
      * destruct (cut_cmp c m) eqn:E.
        -- apply cut_cmp_eq in E; subst m.
           destruct (IH IL' (Some c) Ic Lc) as (x & Tx & X1 & X2 & X3). exists x.
           split; [exact Tx|split; [exact X1|split; [exact X2|]]].
           intros c' [<- | I'] L'; [exact X1|apply X3; assumption].
        -- destruct (IH IL' (Some m) Im Lm) as (x & Tx & X1 & X2 & X3). exists x.
           split; [exact Tx|split; [exact X1|split; [exact X2|]]].
           intros c' [<- | I'] L'; [exact (not_left_mono x c m E X1)|apply X3; assumption].
        -- apply cut_cmp_gt in E.
           destruct (IH IL' (Some c) Ic Lc) as (x & Tx & X1 & X2 & X3). exists x.
           split; [exact Tx|split; [exact (not_left_mono x m c E X1)|split; [exact X2|]]].
           intros c' [<- | I'] L'; [exact X1|apply X3; assumption].
      * destruct (IH IL' (Some c) Ic Lc) as (x & Tx & X1 & X2 & X3). exists x.
        split; [exact Tx|split; [exact I|split; [exact X2|]]].
        intros c' [<- | I'] L'; [exact X1|apply X3; assumption].
    + destruct (IH IL' m Im Lm) as (x & Tx & X1 & X2 & X3). exists x.
      split; [exact Tx|split; [exact X1|split; [exact X2|]]].
      intros c' [<- | I'] L'; [contradiction|apply X3; assumption].
Qed.

(** [c] lies strictly between the bounds of [w] *)
Definition inside (w : option cutV * option cutV) (c : cutV) : Prop :=
  optlt (fst w) (Some c) /\ optlt (Some c) (snd w).

(** [x'] is in the window and on the same side as [x] of every cut of [C] strictly inside the window *)
Definition proxy (w : option cutV * option cutV) (C : list cutV) (x x' : V) : Prop :=
  in_win w x' = true /\ forall c, In c C -> inside w c -> left_of x' c = left_of x c.

Lemma proxy_incl w (C C' : list cutV) x x' : incl C' C -> proxy w C x x' -> proxy w C' x x'.
Proof. intros Ic [X P]. split; [exact X|]. intros c I'. apply P. apply Ic. exact I'. Qed.

Lemma window_optlt (lo hi : option cutV) : window_empty (lo, hi) = false -> optlt lo hi.
Proof.
  destruct lo as [lo|], hi as [hi|]; cbn; auto. destruct (cut_cmp lo hi); congruence.
Qed.

(** every value has a proxy, provided the admissible values are dense relative to the bounds and [C] *)
Theorem proxy_exists (w : option cutV * option cutV) (C : list cutV) :
  dense_on Tv (wcuts w ++ C) -> window_empty w = false ->
  forall x, exists x', (x' = x \/ Tv x') /\ proxy w C x x'.
Proof.
  intros D NE x. destruct (in_win w x) eqn:X.
  - exists x. split; [left; reflexivity|]. split; [exact X|]. intros c _ _. reflexivity.
  - destruct w as [lo hi]. pose proof (window_optlt lo hi NE) as Llh.
    assert (optin lo (wcuts (lo, hi) ++ C)) as Il.
    { destruct lo as [lo|]; cbn; auto. }
    assert (optin hi (wcuts (lo, hi) ++ C)) as Ih.
    { destruct hi as [hi|]; cbn; [|exact I]. apply in_or_app. left. unfold wcuts. cbn [fst snd]. apply in_or_app. right. left. reflexivity. }
    assert (incl C (wcuts (lo, hi) ++ C)) as IC by (apply incl_appr, incl_refl).
    assert ((exists l, lo = Some l /\ left_of x l = true) \/ (after lo x /\ exists h, hi = Some h /\ left_of x h = false)) as [(l & -> & Xl) | (Xl & h & -> & Xh)].
    { unfold in_win in X. cbn [fst snd] in X. destruct lo as [l|].
      - destruct (left_of x l) eqn:Xl; [left; exists l; auto|]. right. split; [exact Xl|].
        cbn [negb andb] in X. destruct hi as [h|]; [exists h; auto|discriminate].
      - right. split; [exact I|]. cbn [andb] in X. destruct hi as [h|]; [exists h; auto|discriminate]. }
    + (* left of the lower bound *)
      destruct (squeeze_left _ D (Some l) Il C IC hi Ih Llh) as (x' & Tx & X1 & X2 & X3).
      exists x'. split; [right; exact Tx|]. split.
      * unfold in_win. cbn [fst snd]. cbn in X1. rewrite X1. cbn [negb andb].
        destruct hi as [h|]; [exact X2|reflexivity].
      * intros c Ic [L1 _]. cbn [fst] in L1. rewrite (X3 c Ic L1). symmetry. exact (left_of_mono x l c L1 Xl).
    + (* right of the upper bound *)
      destruct (squeeze_right _ D (Some h) Ih C IC lo Il Llh) as (x' & Tx & X1 & X2 & X3).
      exists x'. split; [right; exact Tx|]. split.
      * unfold in_win. cbn [fst snd]. cbn in X2. rewrite X2, andb_true_r.
        destruct lo as [l|]; [cbn in X1; now rewrite X1|reflexivity].
      * intros c Ic [_ L2]. cbn [snd] in L2. rewrite (X3 c Ic L2). symmetry. exact (not_left_mono x c h L2 Xh).
Qed.

Section Lookup.
Context {A : Type}.

Lemma lookup_same_side (x x' : V) : forall (l : list (cutV * A)) cur,
  (forall c, In c (map fst l) -> left_of x' c = left_of x c) -> lookup_from x' cur l = lookup_from x cur l.
Proof.
  induction l as [|[c a] l IH]; intros cur Hs; cbn [lookup_from]; [reflexivity|].
  rewrite (Hs c (or_introl eq_refl)). destruct (left_of x c); [reflexivity|].
  apply IH. intros c' I'. apply Hs. right. exact I'.
Qed.

Lemma sorted_from_lt : forall (l : list (cutV * A)) lo, sorted_from (Some lo) l ->
  forall c, In c (map fst l) -> cut_cmp lo c = Lt.
Proof.
  induction l as [|[c a] l IH]; intros lo S c' I'; [contradiction|].
  cbn [sorted_from] in S. destruct S as [L S]. destruct I' as [<- | I']; [exact L|].
  eapply cut_cmp_lt_trans; [exact L|]. exact (IH c S c' I').
Qed.

(** the cuts kept by [restrict_window] are cuts of the node, strictly inside the window *)
Lemma restrict_inside (w : option cutV * option cutV) (d0 : A) (ds : list (cutV * A)) : sorted_from None ds ->
  forall c, In c (map fst (snd (restrict_window w d0 ds))) -> inside w c /\ In c (map fst ds).
Proof.
  intros S c Ic. destruct (restrict_window_spec w d0 ds S) as (S1 & _ & _ & C1 & F1).
  destruct (restrict_window w d0 ds) as [d0' ds']. cbn [fst snd] in *.
  split; [split|].
  - destruct (fst w) as [lo|]; cbn; [|exact I]. exact (sorted_from_lt ds' lo S1 c Ic).
  - destruct (snd w) as [hi|]; cbn; [|exact I]. rewrite Forall_forall in F1.
    apply in_map_iff in Ic as (p & <- & Ip). apply F1. exact Ip.
  - apply in_map_iff in Ic as (p & <- & Ip). apply in_map. apply C1. exact Ip.
Qed.
End Lookup.
End Part.

(** * diagrams *)
Section DD.
Context {var val : Type} `{TotalOrder var} `{TotalOrder val}.
Notation cutV := (cut val).
Notation dd := (dd var val).
Notation valuation := (valuation var val).
Variable is_range : var -> bool.
Variable vok : var -> val -> bool.
Variable dflt : var -> val.
Hypothesis dflt_ok : forall k, is_range k = true -> vok k (dflt k) = true.
Notation wf := (wf is_range).
Notation wfa := (wfa is_range).
Notation tval := (tval is_range vok).
Notation dense_pair := (dense_pair is_range vok).

(** ** the simplified diagram cannot tell a value from its proxy *)
Theorem simplify_proxy (pk : var) (w : window) : forall t : dd, wf t -> forall (r : valuation) (x' : val),
  (forall c, In c (all_cuts pk t) -> inside w c -> left_of x' c = left_of (rv r pk) c) ->
  eval (upd_r r pk x') (tsimplify_pv pk w t) = eval r (tsimplify_pv pk w t).
Proof.
  induction t as [b|k d0 ds IH0 IHl|k hi lo IHh IHl] using dd_ind2; intros W r x' P; rewrite tsimplify_eq.
  - reflexivity.
  - pose proof (wf_children_rnode _ _ _ _ W) as (R & S & [W0 A0] & F). rewrite Forall_forall in IHl, F.
    destruct (eqb_of k pk) eqn:E.
    + apply (proj1 (eqb_of_spec k pk)) in E; subst k.
      pose proof (restrict_inside w d0 ds S) as Hin.
      destruct (restrict_window_spec w d0 ds S) as (S1 & _ & I1 & C1 & _).
      destruct (restrict_window w d0 ds) as [d0' ds'] eqn:Er. cbn [fst snd] in *.
      assert (sorted_from None ds') as S1' by (eapply sorted_none; eauto).
      rewrite !eval_mk_rnode by exact S1'. rewrite !eval_rnode. cbn [rv upd_r]. rewrite eqb_of_refl.
      rewrite (lookup_same_side (rv r pk) x' ds' d0').
      2:{ intros c Ic. destruct (Hin c Ic) as [Ins Icd]. apply P; [|exact Ins]. apply all_cuts_own. exact Icd. }
      assert (wfa pk (lookup_from (rv r pk) d0' ds')) as [Wd Ad].
      { destruct (lookup_in (rv r pk) ds' d0') as [-> | I].
        - destruct I1 as [-> | I]; [split; auto|apply F; auto].
        - apply F. apply in_map_iff in I as ([c d'] & <- & I). apply in_map_iff. exists (c, d'). split; auto. }
      destruct (indep_above is_range _ Wd pk Ad) as [Ir _]. apply Ir.
    + assert (sorted_from None (map_snd (tsimplify_pv pk w) ds)) as S' by (now apply sorted_map_snd_iff).
      rewrite !eval_mk_rnode by exact S'. rewrite !eval_rnode, !lookup_map_snd. cbn [rv upd_r]. rewrite E.
      assert (forall d, d = d0 \/ In d (map snd ds) ->
              eval (upd_r r pk x') (tsimplify_pv pk w d) = eval r (tsimplify_pv pk w d)) as Hd.
      { intros d Hd.
        assert (forall c, In c (all_cuts pk d) -> inside w c -> left_of x' c = left_of (rv r pk) c) as P'.
        { intros c Ic. apply P. exact (all_cuts_child pk k d0 ds d Hd c Ic). }
        destruct Hd as [-> | I]; [apply IH0; auto|]. destruct (F d I) as [Wd _]. apply IHl; auto. }
      apply Hd. destruct (lookup_in (rv r k) ds d0) as [-> | I]; auto.
  - pose proof (wf_children_bnode _ _ _ _ W) as (R & [Wh Ah] & [Wl Al]).
    assert (forall c, In c (all_cuts pk hi) -> inside w c -> left_of x' c = left_of (rv r pk) c) as Ph.
    { intros c Ic. apply P. cbn [all_cuts]. apply in_or_app. left. exact Ic. }
    assert (forall c, In c (all_cuts pk lo) -> inside w c -> left_of x' c = left_of (rv r pk) c) as Pl.
    { intros c Ic. apply P. cbn [all_cuts]. apply in_or_app. right. exact Ic. }
    rewrite !eval_mk_bnode. cbn [eval bv upd_r]. rewrite (IHh Wh r x' Ph), (IHl Wl r x' Pl). reflexivity.
Qed.

(** ** 1. outside the window the simplified diagram takes the value it has at a point inside:
       one point serves every diagram whose [pk]-cuts are in [C] *)
Theorem simplify_outside_gen (pk : var) (w : window) (C : list cutV) :
  dense_on (T vok pk) (wcuts w ++ C) -> window_empty w = false ->
  forall r : valuation, exists x' : val,
    (x' = rv r pk \/ vok pk x' = true) /\ in_win w x' = true /\
    forall t : dd, wf t -> incl (all_cuts pk t) C ->
      eval (upd_r r pk x') (tsimplify_pv pk w t) = eval r (tsimplify_pv pk w t).
Proof.
  intros D NE r. destruct (proxy_exists (T vok pk) w C D NE (rv r pk)) as (x' & Tx & X & P).
  exists x'. split; [exact Tx|]. split; [exact X|].
  intros t W Ic. apply simplify_proxy; [exact W|]. intros c I'. apply P. apply Ic. exact I'.
Qed.

Lemma in_win_upd (pk : var) (w : window) (r : valuation) (x' : val) : in_win w (rv (upd_r r pk x') pk) = in_win w x'.
Proof. cbn [rv upd_r]. now rewrite eqb_of_refl. Qed.

Lemma tval_upd_proxy (pk : var) (r : valuation) (x' : val) : is_range pk = true -> tval r ->
  (x' = rv r pk \/ vok pk x' = true) -> tval (upd_r r pk x').
Proof. intros Rp Tr [-> | Tx]; apply tval_upd_r; auto. Qed.

(** the statement for one diagram: the value anywhere is the value of [t] at a point [r'] inside the window
    that differs from [r] only on [pk] (and is well-typed if [r] is) *)
Theorem simplify_outside (pk : var) (w : window) (t : dd) :
  is_range pk = true -> window_empty w = false -> wf t ->
  dense_on (T vok pk) (wcuts w ++ all_cuts pk t) ->
  forall r : valuation, exists x' : val,
    in_win w x' = true /\ (tval r -> tval (upd_r r pk x')) /\
    eval r (tsimplify_pv pk w t) = eval (upd_r r pk x') (tsimplify_pv pk w t) /\
    eval r (tsimplify_pv pk w t) = eval (upd_r r pk x') t.
Proof.
  intros Rp NE W D r. destruct (simplify_outside_gen pk w _ D NE r) as (x' & Tx & X & Hx).
  exists x'. split; [exact X|]. split; [intros Tr; now apply tval_upd_proxy|].
  pose proof (Hx t W (incl_refl _)) as E. split; [symmetry; exact E|].
  rewrite <- E. apply (simplify_sem is_range pk w t (wf_ok is_range t W)). now rewrite in_win_upd.
Qed.

(** ** 2. markers that agree inside the window simplify to the same diagram *)
Theorem simplify_local (pk : var) (w : window) (a b : dd) :
  is_range pk = true -> window_empty w = false -> wf a -> wf b ->
  dense_on (T vok pk) (wcuts w ++ all_cuts pk a ++ all_cuts pk b) ->
  dense_pair (tsimplify_pv pk w a) (tsimplify_pv pk w b) ->
  (forall r : valuation, tval r -> in_win w (rv r pk) = true -> eval r a = eval r b) ->
  tsimplify_pv pk w a = tsimplify_pv pk w b.
Proof.
  intros Rp NE Wa Wb Dw Dp Hag.
  destruct (simplify_wf is_range pk w a Wa) as [Wa' _]. destruct (simplify_wf is_range pk w b Wb) as [Wb' _].
  apply (canon_complete is_range vok dflt dflt_ok); auto.
  intros r Tr.
  destruct (simplify_outside_gen pk w _ Dw NE r) as (x' & Tx & X & Hx).
  pose proof (tval_upd_proxy pk r x' Rp Tr Tx) as Tr'.
  assert (in_win w (rv (upd_r r pk x') pk) = true) as X' by (now rewrite in_win_upd).
  rewrite <- (Hx a Wa (incl_appl _ (incl_refl _))), <- (Hx b Wb (incl_appr _ (incl_refl _))).
  destruct (simplify_sem is_range pk w a (wf_ok is_range a Wa)) as [_ Ea].
  destruct (simplify_sem is_range pk w b (wf_ok is_range b Wb)) as [_ Eb].
  rewrite (Ea _ X'), (Eb _ X'). apply Hag; assumption.
Qed.

(** ** 3. the composition laws, as identities of diagrams *)
Theorem simplify_complexify_eq (pk : var) (w : window) (t : dd) :
  is_range pk = true -> window_empty w = false -> wf t ->
  dense_on (T vok pk) (wcuts w ++ all_cuts pk (tcomplexify_pv pk w t) ++ all_cuts pk t) ->
  dense_pair (tsimplify_pv pk w (tcomplexify_pv pk w t)) (tsimplify_pv pk w t) ->
  tsimplify_pv pk w (tcomplexify_pv pk w t) = tsimplify_pv pk w t.
Proof.
  intros Rp NE W Dw Dp.
  destruct (complexify_wf is_range pk w Rp NE t W) as [Wc _].
  apply simplify_local; auto.
  intros r _ X. destruct (complexify_sem is_range pk w Rp NE t (wf_ok is_range t W)) as [_ Ec].
  now rewrite Ec, X, andb_true_r.
Qed.

Theorem complexify_simplify_eq (pk : var) (w : window) (t : dd) :
  is_range pk = true -> window_empty w = false -> wf t ->
  dense_pair (tcomplexify_pv pk w (tsimplify_pv pk w t)) (tcomplexify_pv pk w t) ->
  tcomplexify_pv pk w (tsimplify_pv pk w t) = tcomplexify_pv pk w t.
Proof.
  intros Rp NE W Dp.
  destruct (simplify_wf is_range pk w t W) as [Ws _].
  destruct (complexify_wf is_range pk w Rp NE t W) as [Wc _].
  destruct (complexify_wf is_range pk w Rp NE _ Ws) as [Wcs _].
  apply (canon_complete is_range vok dflt dflt_ok); auto.
  intros r _. apply (complexify_simplify_sem is_range); auto. now apply wf_ok.
Qed.

(** ** the cuts of the simplified diagram are cuts of the argument, so density can be stated on the arguments *)
Lemma all_cuts_go_in (k : var) (ds : list (cutV * dd)) (c : cutV) :
  In c ((fix go (l : list (cutV * dd)) := match l with [] => [] | (_, d) :: l' => all_cuts k d ++ go l' end) ds) <->
  exists d, In d (map snd ds) /\ In c (all_cuts k d).
Proof.
  induction ds as [|[c' d'] ds IH]; cbn [map snd In].
  - split; [intros []|intros (d & [] & _)].
  - rewrite in_app_iff, IH. split.
    + intros [I | (d & Id & Ic)]; [exists d'; auto|exists d; auto].
    + intros (d & [<- | Id] & Ic); [left; exact Ic|right; exists d; auto].
Qed.

Lemma all_cuts_rnode_in (k k' : var) (d0 : dd) (ds : list (cutV * dd)) (c : cutV) :
  In c (all_cuts k (RNode k' d0 ds)) <->
  (k = k' /\ In c (map fst ds)) \/ exists d, (d = d0 \/ In d (map snd ds)) /\ In c (all_cuts k d).
Proof.
  cbn [all_cuts]. rewrite !in_app_iff, all_cuts_go_in. split.
  - intros [I | [I | (d & Id & Ic)]].
    + destruct (eqb_of k k') eqn:E; [|contradiction]. left. split; [now apply eqb_of_spec|exact I].
    + right. exists d0. auto.
    + right. exists d. auto.
  - intros [[-> I] | (d & [-> | Id] & Ic)].
    + left. now rewrite eqb_of_refl.
    + right. left. exact Ic.
    + right. right. exists d. auto.
Qed.

Lemma all_cuts_rnode_mono (k k' : var) (d0 d0' : dd) (ds ds' : list (cutV * dd)) :
  incl (map fst ds') (map fst ds) ->
  (forall d', d' = d0' \/ In d' (map snd ds') ->
     exists d, (d = d0 \/ In d (map snd ds)) /\ incl (all_cuts k d') (all_cuts k d)) ->
  incl (all_cuts k (RNode k' d0' ds')) (all_cuts k (RNode k' d0 ds)).
Proof.
  intros If Ich c I. apply all_cuts_rnode_in in I. apply all_cuts_rnode_in.
  destruct I as [[-> I] | (d' & Hd' & I)].
  - left. split; [reflexivity|]. apply If. exact I.
  - right. destruct (Ich d' Hd') as (d & Hd & Id). exists d. split; [exact Hd|]. apply Id. exact I.
Qed.

Lemma coalesce_incl {A : Type} (eqb : A -> A -> bool) : forall (l : list (cutV * A)) cur, incl (coalesce eqb cur l) l.
Proof.
  induction l as [|[c a] l IH]; intros cur; cbn [coalesce]; [apply incl_refl|].
  destruct (eqb cur a); [apply incl_tl, IH|]. apply incl_cons; [left; reflexivity|apply incl_tl, IH].
Qed.

Lemma all_cuts_mk_rnode (k k' : var) (d0 : dd) (ds : list (cutV * dd)) :
  incl (all_cuts k (mk_rnode k' d0 ds)) (all_cuts k (RNode k' d0 ds)).
Proof.
  unfold mk_rnode. pose proof (coalesce_incl dd_eqb ds d0) as Ic.
  destruct (coalesce dd_eqb d0 ds) as [|p l].
  - apply (all_cuts_child k k' d0 ds d0). left. reflexivity.
  - apply all_cuts_rnode_mono.
    + intros c I. apply in_map_iff in I as (q & <- & Iq). apply in_map. apply Ic. exact Iq.
    + intros d' [-> | Id].
      * exists d0. split; [left; reflexivity|apply incl_refl].
      * exists d'. split; [|apply incl_refl]. right.
        apply in_map_iff in Id as (q & <- & Iq). apply in_map. apply Ic. exact Iq.
Qed.

Lemma all_cuts_mk_bnode (k k' : var) (hi lo : dd) :
  incl (all_cuts k (mk_bnode k' hi lo)) (all_cuts k (BNode k' hi lo)).
Proof.
  unfold mk_bnode. destruct (dd_eqb hi lo); [|apply incl_refl]. cbn [all_cuts]. apply incl_appl, incl_refl.
Qed.

Theorem all_cuts_simplify (k pk : var) (w : window) : forall t : dd, wf t ->
  incl (all_cuts k (tsimplify_pv pk w t)) (all_cuts k t).
Proof.
  induction t as [b|k0 d0 ds IH0 IHl|k0 hi lo IHh IHl] using dd_ind2; intros W; rewrite tsimplify_eq.
  - apply incl_refl.
  - pose proof (wf_children_rnode _ _ _ _ W) as (R & S & [W0 A0] & F). rewrite Forall_forall in IHl, F.
    destruct (eqb_of k0 pk) eqn:E.
    + destruct (restrict_window_spec w d0 ds S) as (_ & _ & I1 & C1 & _).
      destruct (restrict_window w d0 ds) as [d0' ds']. cbn [fst snd] in *.
      eapply incl_tran; [apply all_cuts_mk_rnode|]. apply all_cuts_rnode_mono.
      * intros c I. apply in_map_iff in I as (q & <- & Iq). apply in_map. apply C1. exact Iq.
      * intros d' [-> | Id].
        -- exists d0'. split; [|apply incl_refl]. destruct I1 as [-> | I1]; auto.
        -- exists d'. split; [|apply incl_refl]. right.
           apply in_map_iff in Id as (q & <- & Iq). apply in_map. apply C1. exact Iq.
    + eapply incl_tran; [apply all_cuts_mk_rnode|]. apply all_cuts_rnode_mono.
      * rewrite map_snd_cuts. apply incl_refl.
      * intros d' [-> | Id].
        -- exists d0. split; [left; reflexivity|]. now apply IH0.
        -- rewrite map_snd_children in Id. apply in_map_iff in Id as (d & <- & Id).
           exists d. split; [right; exact Id|]. apply IHl; [exact Id|]. now destruct (F d Id).
  - pose proof (wf_children_bnode _ _ _ _ W) as (R & [Wh Ah] & [Wl Al]).
    eapply incl_tran; [apply all_cuts_mk_bnode|]. cbn [all_cuts].
    apply incl_app; [apply incl_appl; now apply IHh|apply incl_appr; now apply IHl].
Qed.

Lemma dense_pair_simplify (pk : var) (w : window) (a b : dd) : wf a -> wf b ->
  dense_pair a b -> dense_pair (tsimplify_pv pk w a) (tsimplify_pv pk w b).
Proof.
  intros Wa Wb. apply dense_pair_incl; intros k; [apply incl_appl|apply incl_appr]; now apply all_cuts_simplify.
Qed.

(** [simplify_local] with the density hypotheses on the arguments *)
Corollary simplify_local_src (pk : var) (w : window) (a b : dd) :
  is_range pk = true -> window_empty w = false -> wf a -> wf b ->
  dense_on (T vok pk) (wcuts w ++ all_cuts pk a ++ all_cuts pk b) ->
  dense_pair a b ->
  (forall r : valuation, tval r -> in_win w (rv r pk) = true -> eval r a = eval r b) ->
  tsimplify_pv pk w a = tsimplify_pv pk w b.
Proof. intros Rp NE Wa Wb Dw Dp. apply simplify_local; auto. now apply dense_pair_simplify. Qed.

(** ** the cuts of a conjunction, and of the complexified diagram, come from the arguments *)
Lemma merge_cuts {A B C : Type} (f : A -> B -> C) : forall (la : list (cutV * A)) ca (lb : list (cutV * B)) cb,
  incl (map fst (merge f ca la cb lb)) (map fst la ++ map fst lb).
Proof.
  induction la as [|[c1 a] la IHa]; intros ca lb.
  - induction lb as [|[c2 b] lb IHb]; intros cb; cbn [merge map fst app]; [apply incl_refl|].
    apply incl_cons; [left; reflexivity|]. apply incl_tl. apply IHb.
  - induction lb as [|[c2 b] lb IHb]; intros cb.
    + cbn [merge map fst]. rewrite app_nil_r. apply incl_cons; [left; reflexivity|]. apply incl_tl.
      specialize (IHa a [] cb). cbn [map] in IHa. rewrite app_nil_r in IHa. exact IHa.
    + cbn [merge]. destruct (cut_cmp c1 c2) eqn:E.
      * apply cut_cmp_eq in E; subst c2. cbn [map fst]. apply incl_cons; [left; reflexivity|].
        eapply incl_tran; [apply IHa|]. apply incl_app; [apply incl_tl, incl_appl, incl_refl|].
        apply incl_appr. cbn [map fst]. apply incl_tl, incl_refl.
      * cbn [map fst]. apply incl_cons; [left; reflexivity|].
        eapply incl_tran; [apply IHa|]. apply incl_app; [apply incl_tl, incl_appl, incl_refl|apply incl_appr, incl_refl].
      * cbn [map fst]. apply incl_cons; [apply in_or_app; right; left; reflexivity|].
        change (incl (map fst (merge f ca ((c1, a) :: la) b lb)) (map fst ((c1, a) :: la) ++ c2 :: map fst lb)).
        eapply incl_tran; [apply IHb|]. apply incl_app; [apply incl_appl, incl_refl|apply incl_appr, incl_tl, incl_refl].
Qed.

Lemma all_cuts_rnode_le (k k' : var) (x0 : dd) (xs : list (cutV * dd)) (S : list cutV) :
  (k = k' -> incl (map fst xs) S) ->
  (forall d, d = x0 \/ In d (map snd xs) -> incl (all_cuts k d) S) ->
  incl (all_cuts k (mk_rnode k' x0 xs)) S.
Proof.
  intros Hf Hc. eapply incl_tran; [apply all_cuts_mk_rnode|]. intros c I. apply all_cuts_rnode_in in I.
  destruct I as [[E I] | (d & Hd & I)]; [exact (Hf E c I)|exact (Hc d Hd c I)].
Qed.

Lemma all_cuts_bnode_le (k k' : var) (h l : dd) (S : list cutV) :
  incl (all_cuts k h) S -> incl (all_cuts k l) S -> incl (all_cuts k (mk_bnode k' h l)) S.
Proof. intros Hh Hl. eapply incl_tran; [apply all_cuts_mk_bnode|]. cbn [all_cuts]. now apply incl_app. Qed.

Lemma incl_two (X A' B' A B : list cutV) : incl X (A' ++ B') -> incl A' A -> incl B' B -> incl X (A ++ B).
Proof. intros IX IA IB. eapply incl_tran; [exact IX|]. apply incl_app; [apply incl_appl, IA|apply incl_appr, IB]. Qed.

Lemma all_cuts_bnode_hi (k k' : var) (h l : dd) : incl (all_cuts k h) (all_cuts k (BNode k' h l)).
Proof. cbn [all_cuts]. apply incl_appl, incl_refl. Qed.
Lemma all_cuts_bnode_lo (k k' : var) (h l : dd) : incl (all_cuts k l) (all_cuts k (BNode k' h l)).
Proof. cbn [all_cuts]. apply incl_appr, incl_refl. Qed.

Theorem all_cuts_tand (k : var) : forall a b : dd, incl (all_cuts k (tand a b)) (all_cuts k a ++ all_cuts k b).
Proof.
  induction a as [x|ka a0 la IHa0 IHla|ka ha la IHha IHla] using dd_ind2;
  induction b as [y|kb b0 lb IHb0 IHlb|kb hb lb IHhb IHlb] using dd_ind2;
  rewrite tand_eq; unfold tand_step;
  match goal with |- context [is_true ?a] => destruct (is_true a); [apply incl_appr, incl_refl|] end;
  match goal with |- context [is_true ?a] => destruct (is_true a); [apply incl_appl, incl_refl|] end;
  match goal with |- context [dd_eqb ?a ?b] => destruct (dd_eqb a b); [apply incl_appl, incl_refl|] end;
  match goal with |- context [is_false ?a || is_false ?b] => destruct (is_false a || is_false b); [apply incl_nil_l|] end;
  match goal with |- context [dd_eqb ?a ?b] => destruct (dd_eqb a b); [apply incl_nil_l|] end;
  unfold tand_core; try apply incl_nil_l.
  - (* RNode / RNode *)
    rewrite Forall_forall in IHla, IHlb.
    destruct (cmp ka kb) eqn:C.
    + apply cmp_eq in C; subst kb.
      assert (forall a' b', (a' = a0 \/ In a' (map snd la)) -> (b' = b0 \/ In b' (map snd lb)) ->
              incl (all_cuts k (tand a' b')) (all_cuts k (RNode ka a0 la) ++ all_cuts k (RNode ka b0 lb))) as Hc.
      { intros a' b' Ha' Hb'.
        apply (incl_two _ (all_cuts k a') (all_cuts k b')); [|now apply all_cuts_child|now apply all_cuts_child].
        destruct Ha' as [-> | I]; [apply IHa0|now apply IHla]. }
      apply all_cuts_rnode_le.
      * intros ->. eapply incl_tran; [apply merge_cuts|]. rewrite map_snd_cuts.
        apply incl_app; [apply incl_appl, all_cuts_own|apply incl_appr, all_cuts_own].
      * intros d [-> | Id]; [apply Hc; left; reflexivity|].
        assert (Forall (fun d => incl (all_cuts k d) (all_cuts k (RNode ka a0 la) ++ all_cuts k (RNode ka b0 lb)))
                  (map snd (merge appf (tand a0) (map_snd tand la) b0 lb))) as F.
        { apply merge_children. intros g b' Hg Hb'. unfold appf.
          destruct Hg as [-> | I]; [apply Hc; auto|].
          rewrite map_snd_children, in_map_iff in I. destruct I as (a' & <- & I). apply Hc; auto. }
        rewrite Forall_forall in F. now apply F.
    + apply all_cuts_rnode_le.
      * intros ->. rewrite map_snd_cuts. apply incl_appl, all_cuts_own.
      * intros d [-> | Id].
        -- apply (incl_two _ _ _ _ _ (IHa0 _)); [|apply incl_refl]. apply all_cuts_child. left. reflexivity.
        -- rewrite map_snd_children, in_map_iff in Id. destruct Id as (a' & <- & Ia').
           apply (incl_two _ _ _ _ _ (IHla a' Ia' _)); [|apply incl_refl]. apply all_cuts_child. right. exact Ia'.
    + apply all_cuts_rnode_le.
      * intros ->. rewrite map_snd_cuts. apply incl_appr, all_cuts_own.
      * intros d [-> | Id].
        -- apply (incl_two _ _ _ _ _ IHb0); [apply incl_refl|]. apply all_cuts_child. left. reflexivity.
        -- rewrite map_snd_children, in_map_iff in Id. destruct Id as (b' & <- & Ib').
           apply (incl_two _ _ _ _ _ (IHlb b' Ib')); [apply incl_refl|]. apply all_cuts_child. right. exact Ib'.
  - (* RNode / BNode *)
    rewrite Forall_forall in IHla.
    destruct (cmp ka kb) eqn:C; [apply incl_nil_l| |].
    + apply all_cuts_rnode_le.
      * intros ->. rewrite map_snd_cuts. apply incl_appl, all_cuts_own.
      * intros d [-> | Id].
        -- apply (incl_two _ _ _ _ _ (IHa0 _)); [|apply incl_refl]. apply all_cuts_child. left. reflexivity.
        -- rewrite map_snd_children, in_map_iff in Id. destruct Id as (a' & <- & Ia').
           apply (incl_two _ _ _ _ _ (IHla a' Ia' _)); [|apply incl_refl]. apply all_cuts_child. right. exact Ia'.
    + apply all_cuts_bnode_le.
      * apply (incl_two _ _ _ _ _ IHhb); [apply incl_refl|apply all_cuts_bnode_hi].
      * apply (incl_two _ _ _ _ _ IHlb); [apply incl_refl|apply all_cuts_bnode_lo].
  - (* BNode / RNode *)
    rewrite Forall_forall in IHlb.
    destruct (cmp ka kb) eqn:C; [apply incl_nil_l| |].
    + apply all_cuts_bnode_le.
      * apply (incl_two _ _ _ _ _ (IHha _)); [apply all_cuts_bnode_hi|apply incl_refl].
      * apply (incl_two _ _ _ _ _ (IHla _)); [apply all_cuts_bnode_lo|apply incl_refl].
    + apply all_cuts_rnode_le.
      * intros ->. rewrite map_snd_cuts. apply incl_appr, all_cuts_own.
      * intros d [-> | Id].
        -- apply (incl_two _ _ _ _ _ IHb0); [apply incl_refl|]. apply all_cuts_child. left. reflexivity.
        -- rewrite map_snd_children, in_map_iff in Id. destruct Id as (b' & <- & Ib').
           apply (incl_two _ _ _ _ _ (IHlb b' Ib')); [apply incl_refl|]. apply all_cuts_child. right. exact Ib'.
  - (* BNode / BNode *)
    destruct (cmp ka kb) eqn:C.
    + apply cmp_eq in C; subst kb. apply all_cuts_bnode_le.
      * apply (incl_two _ _ _ _ _ (IHha _)); [apply all_cuts_bnode_hi|apply all_cuts_bnode_hi].
      * apply (incl_two _ _ _ _ _ (IHla _)); [apply all_cuts_bnode_lo|apply all_cuts_bnode_lo].
    + apply all_cuts_bnode_le.
      * apply (incl_two _ _ _ _ _ (IHha _)); [apply all_cuts_bnode_hi|apply incl_refl].
      * apply (incl_two _ _ _ _ _ (IHla _)); [apply all_cuts_bnode_lo|apply incl_refl].
    + apply all_cuts_bnode_le.
      * apply (incl_two _ _ _ _ _ IHhb); [apply incl_refl|apply all_cuts_bnode_hi].
      * apply (incl_two _ _ _ _ _ IHlb); [apply incl_refl|apply all_cuts_bnode_lo].
Qed.

Lemma wcuts_window_node (pk : var) (w : window) : incl (wcuts w) (all_cuts pk (window_node pk w)).
Proof.
  destruct w as [[lo|] [hi|]]; unfold window_node, clip_window, restrict_window, wcuts, mk_rnode;
    cbn [fst snd optl app drop_le take_lt coalesce dd_eqb Bool.eqb all_cuts map]; rewrite ?eqb_of_refl;
    cbn [fst snd map app]; try apply incl_refl.
Qed.

Lemma clip_window_cuts (w : window) (d0 : dd) (ds : list (cutV * dd)) : sorted_from None ds ->
  incl (map fst (snd (clip_window w d0 ds))) (map fst ds ++ wcuts w).
Proof.
  intros S. unfold clip_window. destruct (restrict_window_spec w d0 ds S) as (_ & _ & _ & C1 & _).
  destruct (restrict_window w d0 ds) as [d0' ds']. cbn [fst snd] in C1.
  assert (incl (map fst ds') (map fst ds ++ wcuts w)) as I1.
  { intros c I. apply in_or_app. left. apply in_map_iff in I as (q & <- & Iq). apply in_map. apply C1. exact Iq. }
  destruct w as [[lo|] [hi|]]; unfold wcuts; cbn [fst snd optl app map]; rewrite ?map_app; cbn [map fst].
  - apply incl_cons; [apply in_or_app; right; left; reflexivity|].
    apply incl_app; [exact I1|]. apply incl_cons; [|apply incl_nil_l]. apply in_or_app. right. right. left. reflexivity.
  - apply incl_cons; [apply in_or_app; right; left; reflexivity|exact I1].
  - apply incl_app; [exact I1|]. apply incl_cons; [|apply incl_nil_l]. apply in_or_app. right. left. reflexivity.
  - exact I1.
Qed.

Theorem all_cuts_complexify (k pk : var) (w : window) : window_empty w = false -> forall t : dd, wf t ->
  incl (all_cuts k (tcomplexify_pv pk w t)) (all_cuts k t ++ all_cuts k (window_node pk w)).
Proof.
  intros NE.
  induction t as [b|k0 d0 ds IH0 IHl|k0 hi lo IHh IHl] using dd_ind2; intros W; rewrite tcomplexify_eq.
  - destruct b; [apply incl_appr, incl_refl|apply incl_nil_l].
  - pose proof (wf_children_rnode _ _ _ _ W) as (R & S & [W0 A0] & F). rewrite Forall_forall in IHl, F.
    destruct (cmp k0 pk) eqn:C.
    + apply cmp_eq in C; subst k0.
      pose proof (clip_window_cuts w d0 ds S) as Hcuts.
      destruct (clip_window_spec w d0 ds S NE) as (_ & _ & C1).
      destruct (clip_window w d0 ds) as [d0' ds']. cbn [fst snd] in *.
      apply all_cuts_rnode_le.
      * intros ->. eapply incl_tran; [exact Hcuts|].
        apply incl_app; [apply incl_appl, all_cuts_own|apply incl_appr, wcuts_window_node].
      * intros d Hd. apply incl_appl. destruct (C1 d Hd) as [-> | Hd']; [apply incl_nil_l|].
        apply all_cuts_child. exact Hd'.
    + apply all_cuts_rnode_le.
      * intros ->. rewrite map_snd_cuts. apply incl_appl, all_cuts_own.
      * intros d [-> | Id].
        -- apply (incl_two _ _ _ _ _ (IH0 W0)); [|apply incl_refl]. apply all_cuts_child. left. reflexivity.
        -- rewrite map_snd_children, in_map_iff in Id. destruct Id as (d' & <- & Id').
           destruct (F d' Id') as [Wd _].
           apply (incl_two _ _ _ _ _ (IHl d' Id' Wd)); [|apply incl_refl]. apply all_cuts_child. right. exact Id'.
    + apply all_cuts_tand.
  - pose proof (wf_children_bnode _ _ _ _ W) as (R & [Wh Ah] & [Wl Al]).
    assert (incl (all_cuts k (mk_bnode k0 (tcomplexify_pv pk w hi) (tcomplexify_pv pk w lo)))
              (all_cuts k (BNode k0 hi lo) ++ all_cuts k (window_node pk w))) as Rec.
    { apply all_cuts_bnode_le.
      - apply (incl_two _ _ _ _ _ (IHh Wh)); [apply all_cuts_bnode_hi|apply incl_refl].
      - apply (incl_two _ _ _ _ _ (IHl Wl)); [apply all_cuts_bnode_lo|apply incl_refl]. }
    destruct (cmp k0 pk); [exact Rec|exact Rec|apply all_cuts_tand].
Qed.

(** ** the composition laws from a single density hypothesis on the argument and the window *)
Section Src.
Variable pk : var.
Variable w : window (val:=val).
Variable t : dd.
Hypothesis Rp : is_range pk = true.
Hypothesis NE : window_empty w = false.
Hypothesis W : wf t.
Hypothesis D : dense_pair t (window_node pk w).

Let Cs (k : var) : list cutV := all_cuts k t ++ all_cuts k (window_node pk w).

Lemma src_cplx k : incl (all_cuts k (tcomplexify_pv pk w t)) (Cs k).
Proof. now apply all_cuts_complexify. Qed.
Lemma src_simp k : incl (all_cuts k (tsimplify_pv pk w t)) (Cs k).
Proof. apply incl_appl. now apply all_cuts_simplify. Qed.
Lemma src_simp_cplx k : incl (all_cuts k (tsimplify_pv pk w (tcomplexify_pv pk w t))) (Cs k).
Proof.
  eapply incl_tran; [|apply src_cplx]. apply all_cuts_simplify.
  now destruct (complexify_wf is_range pk w Rp NE t W).
Qed.
Lemma src_cplx_simp k : incl (all_cuts k (tcomplexify_pv pk w (tsimplify_pv pk w t))) (Cs k).
Proof.
  destruct (simplify_wf is_range pk w t W) as [Ws _].
  eapply incl_tran; [apply (all_cuts_complexify k pk w NE _ Ws)|].
  apply incl_app; [apply src_simp|apply incl_appr, incl_refl].
Qed.

Theorem simplify_complexify_eq_src : tsimplify_pv pk w (tcomplexify_pv pk w t) = tsimplify_pv pk w t.
Proof.
  apply simplify_complexify_eq; auto.
  - eapply dense_on_incl; [|exact (D pk Rp)].
    apply incl_app; [apply incl_appr, wcuts_window_node|]. apply incl_app; [apply src_cplx|apply incl_appl, incl_refl].
  - eapply dense_pair_incl; [| |exact D]; intros k; [apply src_simp_cplx|apply src_simp].
Qed.

Theorem complexify_simplify_eq_src : tcomplexify_pv pk w (tsimplify_pv pk w t) = tcomplexify_pv pk w t.
Proof.
  apply complexify_simplify_eq; auto.
  eapply dense_pair_incl; [| |exact D]; intros k; [apply src_cplx_simp|apply src_cplx].
Qed.

(** and [complexify_eq_and] with the same hypothesis *)
Theorem complexify_eq_and_src : tcomplexify_pv pk w t = tand t (window_node pk w).
Proof.
  apply (complexify_eq_and is_range vok dflt dflt_ok); auto.
  eapply dense_pair_incl; [| |exact D]; intros k; [apply src_cplx|apply all_cuts_tand].
Qed.
End Src.

(** ** the entry points [simplify_pv] / [complexify_pv] (unbounded and empty windows included) *)
Lemma simplify_pv_proper (pk : var) (w : window) (t : dd) : unbounded w = false -> window_empty w = false ->
  simplify_pv pk w t = tsimplify_pv pk w t.
Proof. intros U NE. unfold simplify_pv. now rewrite U, NE. Qed.

Lemma complexify_pv_proper (pk : var) (w : window) (t : dd) : unbounded w = false -> window_empty w = false ->
  complexify_pv pk w t = tcomplexify_pv pk w t.
Proof.
  intros U NE. unfold complexify_pv. rewrite U, NE, orb_false_r.
  destruct (is_false t) eqn:E; [|reflexivity]. apply is_false_eq in E. subst t. reflexivity.
Qed.

Theorem simplify_pv_local (pk : var) (w : window) (a b : dd) :
  is_range pk = true -> wf a -> wf b ->
  (unbounded w = false -> window_empty w = false ->
     dense_on (T vok pk) (wcuts w ++ all_cuts pk a ++ all_cuts pk b) /\
     dense_pair (simplify_pv pk w a) (simplify_pv pk w b)) ->
  (unbounded w = true -> dense_pair a b) ->
  (forall r : valuation, tval r -> in_win w (rv r pk) = true -> eval r a = eval r b) ->
  simplify_pv pk w a = simplify_pv pk w b.
Proof.
  intros Rp Wa Wb Hd Hu Hag. destruct (unbounded w) eqn:U.
  - unfold simplify_pv. rewrite U. apply (canon_complete is_range vok dflt dflt_ok); auto.
    intros r Tr. apply Hag; [exact Tr|]. destruct w as [[lo|] [hi|]]; try discriminate. reflexivity.
  - destruct (window_empty w) eqn:NE.
    + unfold simplify_pv. now rewrite U, NE.
    + destruct (Hd eq_refl eq_refl) as [Dw Dp]. rewrite !simplify_pv_proper in * by assumption.
      now apply simplify_local.
Qed.

Theorem simplify_complexify_pv_eq (pk : var) (w : window) (t : dd) :
  is_range pk = true -> wf t ->
  (unbounded w = false -> window_empty w = false ->
     dense_on (T vok pk) (wcuts w ++ all_cuts pk (complexify_pv pk w t) ++ all_cuts pk t) /\
     dense_pair (simplify_pv pk w (complexify_pv pk w t)) (simplify_pv pk w t)) ->
  simplify_pv pk w (complexify_pv pk w t) = simplify_pv pk w t.
Proof.
  intros Rp W Hd. destruct (unbounded w) eqn:U.
  - unfold simplify_pv, complexify_pv. now rewrite U, orb_true_r.
  - destruct (window_empty w) eqn:NE.
    + unfold simplify_pv. now rewrite U, NE.
    + destruct (Hd eq_refl eq_refl) as [Dw Dp].
      rewrite !simplify_pv_proper, !complexify_pv_proper in * by assumption.
      now apply simplify_complexify_eq.
Qed.

Theorem complexify_simplify_pv_eq (pk : var) (w : window) (t : dd) :
  is_range pk = true -> wf t ->
  (unbounded w = false -> window_empty w = false ->
     dense_pair (complexify_pv pk w (simplify_pv pk w t)) (complexify_pv pk w t)) ->
  complexify_pv pk w (simplify_pv pk w t) = complexify_pv pk w t.
Proof.
  intros Rp W Hd. destruct (unbounded w) eqn:U.
  - unfold simplify_pv, complexify_pv. now rewrite U, !orb_true_r.
  - destruct (window_empty w) eqn:NE.
    + unfold simplify_pv, complexify_pv. rewrite U, NE, !orb_false_r. cbn [is_false].
      destruct (is_false t) eqn:E; [|reflexivity]. apply is_false_eq in E. now subst t.
    + specialize (Hd eq_refl eq_refl).
      rewrite !complexify_pv_proper, !simplify_pv_proper in * by assumption.
      now apply complexify_simplify_eq.
Qed.

(** both laws for the entry points from the single hypothesis on the argument and the window *)
Theorem pv_laws_src (pk : var) (w : window) (t : dd) :
  is_range pk = true -> wf t ->
  (unbounded w = false -> window_empty w = false -> dense_pair t (window_node pk w)) ->
  simplify_pv pk w (complexify_pv pk w t) = simplify_pv pk w t /\
  complexify_pv pk w (simplify_pv pk w t) = complexify_pv pk w t.
Proof.
  intros Rp W Hd. destruct (unbounded w) eqn:U.
  - unfold simplify_pv, complexify_pv. rewrite U, !orb_true_r. split; reflexivity.
  - destruct (window_empty w) eqn:NE.
    + unfold simplify_pv, complexify_pv. rewrite U, NE, !orb_false_r. cbn [is_false]. split; [reflexivity|].
      destruct (is_false t) eqn:E; [|reflexivity]. apply is_false_eq in E. now subst t.
    + specialize (Hd eq_refl eq_refl).
      rewrite !complexify_pv_proper, !simplify_pv_proper by assumption.
      split; [now apply simplify_complexify_eq_src|now apply complexify_simplify_eq_src].
Qed.
End DD.

Print Assumptions proxy_exists.
Print Assumptions simplify_proxy.
Print Assumptions simplify_outside_gen.
Print Assumptions simplify_outside.
Print Assumptions simplify_local.
Print Assumptions all_cuts_simplify.
Print Assumptions simplify_local_src.
Print Assumptions all_cuts_tand.
Print Assumptions all_cuts_complexify.
Print Assumptions simplify_complexify_eq_src.
Print Assumptions complexify_simplify_eq_src.
Print Assumptions complexify_eq_and_src.
Print Assumptions pv_laws_src.
Print Assumptions simplify_complexify_eq.
Print Assumptions complexify_simplify_eq.
Print Assumptions simplify_pv_local.
Print Assumptions simplify_complexify_pv_eq.
Print Assumptions complexify_simplify_pv_eq.
