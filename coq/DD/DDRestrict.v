(** C11 (restriction) and C13 (environment-free evaluation). *)
From Coq Require Import List Bool.
From PV Require Import Base.Order Base.CutDef Base.CutLemmas DD.DDModel DD.DDBasics DD.DDAnd DD.DDWf DD.DDWfOps DD.DDCanon.
Import ListNotations.

Section DD.
Context {var val : Type} `{TotalOrder var} `{TotalOrder val}.
Notation cutV := (cut val).
Notation dd := (dd var val).
Notation valuation := (valuation var val).
Variable is_range : var -> bool.
Notation wf := (wf is_range).
Notation wfa := (wfa is_range).

Lemma trestrict_eq (f : var -> option bool) (t : dd) : trestrict f t =
  match t with
  | Leaf _ => t
  | RNode k d0 ds => mk_rnode k (trestrict f d0) (map_snd (trestrict f) ds)
  | BNode k hi lo =>
      match f k with
      | Some true => trestrict f hi
      | Some false => trestrict f lo
      | None => mk_bnode k (trestrict f hi) (trestrict f lo)
      end
  end.
Proof. destruct t; cbn [trestrict]; rewrite ?mapfix_eq; reflexivity. Qed.

(** the valuation in which the selected boolean variables are overridden *)
Definition override (r : valuation) (f : var -> option bool) : valuation :=
  {| rv := rv r; bv := fun k => match f k with Some b => b | None => bv r k end |}.

Theorem restrict_sem (f : var -> option bool) : forall t : dd, ok is_range t ->
  ok is_range (trestrict f t) /\ forall r : valuation, eval r (trestrict f t) = eval (override r f) t.
Proof.
  induction t as [b|k d0 ds IH0 IHl|k hi lo IHh IHl] using dd_ind2; intros O; rewrite trestrict_eq.
  - split; auto.
  - apply ok_rnode in O as (R & S & O0 & Oa). rewrite Forall_forall in IHl, Oa.
    assert (sorted_from None (map_snd (trestrict f) ds)) as S' by (now apply sorted_map_snd_iff).
    split.
    + apply ok_mk_rnode; auto. * now apply IH0.
      * rewrite map_snd_children, Forall_map, Forall_forall. intros d I. now apply IHl; auto.
    + intros r. rewrite eval_mk_rnode by exact S'. rewrite !eval_rnode, lookup_map_snd. cbn [rv override].
      destruct (lookup_in (rv r k) ds d0) as [-> | I]; [now apply IH0|]. apply IHl; auto.
  - apply ok_bnode in O as (R & Oh & Ol). destruct (IHh Oh) as [Oh' Eh], (IHl Ol) as [Ol' El].
    destruct (f k) as [[|]|] eqn:F.
    + split; auto. intros r. cbn [eval bv override]. now rewrite F.
    + split; auto. intros r. cbn [eval bv override]. now rewrite F.
    + split; [now apply ok_mk_bnode|]. intros r. rewrite eval_mk_bnode. cbn [eval bv override]. rewrite F.
      destruct (bv r k); auto.
Qed.

(** variables that label a node *)
Fixpoint occurs (k : var) (t : dd) : Prop :=
  match t with
  | Leaf _ => False
  | RNode k' d0 ds => k = k' \/ occurs k d0 \/
      (fix any (l : list (cutV * dd)) : Prop := match l with [] => False | (_, d) :: l' => occurs k d \/ any l' end) ds
  | BNode k' hi lo => k = k' \/ occurs k hi \/ occurs k lo
  end.

Lemma occurs_rnode k k' d0 (ds : list (cutV * dd)) :
  occurs k (RNode k' d0 ds) <-> k = k' \/ occurs k d0 \/ Exists (occurs k) (map snd ds).
Proof.
  cbn [occurs].
  assert ((fix any (l : list (cutV * dd)) : Prop := match l with [] => False | (_, d) :: l' => occurs k d \/ any l' end) ds
          <-> Exists (occurs k) (map snd ds)) as ->; [|tauto].
  induction ds as [|[c d] ds IH]; cbn; [split; [tauto|intros E; inversion E]|].
  rewrite IH. split; [intros [?|?]; [left|right]; auto|intros E; inversion E; auto].
Qed.

Lemma occurs_mk_rnode k k' d0 (ds : list (cutV * dd)) :
  occurs k (mk_rnode k' d0 ds) -> k = k' \/ occurs k d0 \/ Exists (occurs k) (map snd ds).
Proof.
  unfold mk_rnode. destruct (coalesce dd_eqb d0 ds) eqn:E; [auto|]. rewrite <- E.
  rewrite occurs_rnode. intros [?|[?|Ex]]; auto. right; right.
  rewrite Exists_exists in *. destruct Ex as (x & I & O). exists x. split; auto. eapply coalesce_children; eauto.
Qed.

Lemma occurs_mk_bnode k k' (hi lo : dd) : occurs k (mk_bnode k' hi lo) -> k = k' \/ occurs k hi \/ occurs k lo.
Proof. unfold mk_bnode. destruct (dd_eqb hi lo); cbn; auto. Qed.

(** the restricted diagram no longer mentions a selected variable (selection concerns boolean variables) *)
Theorem restrict_indep (f : var -> option bool) : (forall k, is_range k = true -> f k = None) ->
  forall t : dd, typed is_range t -> forall k, f k <> None -> ~ occurs k (trestrict f t).
Proof.
  intros Hf. induction t as [b|k' d0 ds IH0 IHl|k' hi lo IHh IHl] using dd_ind2; intros Ty k Fk; rewrite trestrict_eq.
  - exact (fun x => x).
  - apply typed_rnode in Ty as (R & T0 & Ta). rewrite Forall_forall in IHl, Ta.
    intros O. apply occurs_mk_rnode in O as [-> | [O | O]].
    + apply Fk. now apply Hf.
    + exact (IH0 T0 k Fk O).
    + rewrite map_snd_children, Exists_exists in O. destruct O as (x & I & O).
      apply in_map_iff in I as (d & <- & I). exact (IHl d I (Ta d I) k Fk O).
  - destruct Ty as (R & Th & Tl). destruct (f k') as [[|]|] eqn:F; auto.
    intros O. apply occurs_mk_bnode in O as [-> | [O | O]]; [congruence| |]; [exact (IHh Th k Fk O)|exact (IHl Tl k Fk O)].
Qed.

(** restriction keeps diagrams canonical *)
Theorem restrict_wf (f : var -> option bool) : forall t : dd, wf t ->
  wf (trestrict f t) /\ forall k, above_p k t -> above_p k (trestrict f t).
Proof.
  induction t as [b|k d0 ds IH0 IHl|k hi lo IHh IHl] using dd_ind2; intros W; rewrite trestrict_eq.
  - split; auto.
  - pose proof (wf_children_rnode _ _ _ _ W) as (R & S & [W0 A0] & F). rewrite Forall_forall in IHl, F.
    assert (sorted_from None (map_snd (trestrict f) ds)) as S' by (now apply sorted_map_snd_iff).
    assert (wfa k (trestrict f d0)) as O0 by (destruct (IH0 W0); split; auto).
    assert (Forall (wfa k) (map snd (map_snd (trestrict f) ds))) as F'.
    { apply wfa_map_children. intros d I. destruct (F d I) as [Wd Ad]. destruct (IHl d I Wd). split; auto. }
    destruct (wf_mk_rnode is_range k _ _ R S' O0 F') as [W' A'].
    split; [exact W'|]. intros k' Ak. apply A'. exact Ak.
  - pose proof (wf_children_bnode _ _ _ _ W) as (R & [Wh Ah] & [Wl Al]).
    destruct (IHh Wh) as [Wh' Ah'], (IHl Wl) as [Wl' Al'].
    destruct (f k) as [[|]|].
    + split; [exact Wh'|]. intros k' Ak. apply Ah'. exact (above_trans k k' hi Ak Ah).
    + split; [exact Wl'|]. intros k' Ak. apply Al'. exact (above_trans k k' lo Ak Al).
    + destruct (wf_mk_bnode is_range k (trestrict f hi) (trestrict f lo) R (conj Wh' (Ah' k Ah)) (conj Wl' (Al' k Al))) as [W' A'].
      split; [exact W'|]. intros k' Ak. apply A'. exact Ak.
Qed.

(** ** environment-free evaluation *)
Lemma anyfix_eq (g : dd -> bool) (ds : list (cutV * dd)) :
  (fix go (l : list (cutV * dd)) := match l with [] => false | (c, d) :: l' => g d || go l' end) ds
  = existsb g (map snd ds).
Proof. induction ds as [|[c d] ds IH]; cbn; [reflexivity|]. now rewrite IH. Qed.

Lemma eval_any_eq (f : var -> option bool) (t : dd) : eval_any f t =
  match t with
  | Leaf b => b
  | RNode k d0 ds => eval_any f d0 || existsb (eval_any f) (map snd ds)
  | BNode k hi lo =>
      match f k with
      | Some true => eval_any f hi
      | Some false => eval_any f lo
      | None => eval_any f hi || eval_any f lo
      end
  end.
Proof. destruct t; cbn [eval_any]; rewrite ?anyfix_eq; reflexivity. Qed.

Definition agrees (r : valuation) (f : var -> option bool) : Prop := forall k b, f k = Some b -> bv r k = b.

(** over-approximation: if some valuation that fixes the selected variables as [f] says satisfies the diagram, the answer is true *)
Theorem eval_any_sound (f : var -> option bool) : forall t : dd,
  forall r : valuation, agrees r f -> eval r t = true -> eval_any f t = true.
Proof.
  induction t as [b|k d0 ds IH0 IHl|k hi lo IHh IHl] using dd_ind2; intros r Ag E; rewrite eval_any_eq.
  - exact E.
  - rewrite eval_rnode in E. apply orb_true_iff.
    destruct (lookup_in (rv r k) ds d0) as [Eq | I].
    + left. rewrite Eq in E. eapply IH0; eauto.
    + right. apply existsb_exists. exists (lookup_from (rv r k) d0 ds). split; auto.
      rewrite Forall_forall in IHl. eapply IHl; eauto.
  - cbn [eval] in E. destruct (f k) as [[|]|] eqn:F.
    + rewrite (Ag k true F) in E. eauto.
    + rewrite (Ag k false F) in E. eauto.
    + apply orb_true_iff. destruct (bv r k); eauto.
Qed.

(** exactness on well-formed diagrams over dense domains: a positive answer has a witness *)
Variable vok : var -> val -> bool.
Variable dflt : var -> val.
Hypothesis dflt_ok : forall k, is_range k = true -> vok k (dflt k) = true.
Notation tval := (tval is_range vok).

Definition self_dense (t : dd) : Prop := dense_pair is_range vok t t.

Lemma agrees_upd_r r f k x : agrees r f -> agrees (upd_r r k x) f.
Proof. intros A k' b F. exact (A k' b F). Qed.

Theorem eval_any_exact (f : var -> option bool) : forall t : dd, wf t -> self_dense t ->
  eval_any f t = true -> exists r : valuation, tval r /\ agrees r f /\ eval r t = true.
Proof.
  induction t as [b|k d0 ds IH0 IHl|k hi lo IHh IHl] using dd_ind2; intros W D E; rewrite eval_any_eq in E.
  - exists (override (r0 dflt) f). split; [|split].
    + intros k R. cbn. now apply dflt_ok.
    + intros k b' F. cbn. now rewrite F.
    + exact E.
  - pose proof (wf_children_rnode _ _ _ _ W) as (R & S & [W0 A0] & F). rewrite Forall_forall in IHl, F.
    assert (exists d, (d = d0 \/ In d (map snd ds)) /\ eval_any f d = true) as (d & Hd & Ed).
    { apply orb_true_iff in E as [E | E]; [exists d0; auto|]. apply existsb_exists in E as (d & I & Ed). exists d; auto. }
    assert (wf d /\ above_p k d) as [Wd Ad] by (destruct Hd as [-> | I]; [split; auto|exact (F d I)]).
    assert (self_dense d) as Dd.
    { eapply dense_pair_incl; [| |exact D]; intros k'; apply incl_appl; now apply all_cuts_child. }
    assert (exists r, tval r /\ agrees r f /\ eval r d = true) as (r & Tr & Ag & Er).
    { destruct Hd as [-> | I]; [apply IH0; auto|apply IHl; auto]. }
    assert (dense_on (T vok k) (map fst ds)) as Dk.
    { eapply dense_on_incl; [|apply D; exact R]. apply incl_appl, all_cuts_own. }
    destruct (lookup_reach (T vok k) ds d0 Dk S d Hd) as (x & Tx & Lx).
    exists (upd_r r k x). split; [|split].
    + now apply tval_upd_r.
    + now apply agrees_upd_r.
    + rewrite eval_rnode. cbn [rv upd_r]. rewrite eqb_of_refl, Lx.
      destruct (indep_above is_range d Wd k Ad) as [Id _]. now rewrite Id.
  - pose proof (wf_children_bnode _ _ _ _ W) as (R & [Wh Ah] & [Wl Al]).
    assert (self_dense hi) as Dh by (eapply dense_pair_incl; [| |exact D]; intros k'; apply incl_appl; cbn [all_cuts]; apply incl_appl, incl_refl).
    assert (self_dense lo) as Dl by (eapply dense_pair_incl; [| |exact D]; intros k'; apply incl_appl; cbn [all_cuts]; apply incl_appr, incl_refl).
    destruct (f k) as [[|]|] eqn:Fk.
    + destruct (IHh Wh Dh E) as (r & Tr & Ag & Er). exists r. split; [exact Tr|split; [exact Ag|]]. cbn [eval]. now rewrite (Ag k true Fk).
    + destruct (IHl Wl Dl E) as (r & Tr & Ag & Er). exists r. split; [exact Tr|split; [exact Ag|]]. cbn [eval]. now rewrite (Ag k false Fk).
    + apply orb_true_iff in E as [E | E].
      * destruct (IHh Wh Dh E) as (r & Tr & Ag & Er). exists (upd_b r k true). split; [|split].
        -- now apply tval_upd_b.
        -- intros k' b F'. cbn. destruct (eqb_of k' k) eqn:Ek; auto. apply (proj1 (eqb_of_spec k' k)) in Ek. congruence.
        -- cbn [eval bv upd_b]. rewrite eqb_of_refl. destruct (indep_above is_range hi Wh k Ah) as [_ Ib]. now rewrite Ib.
      * destruct (IHl Wl Dl E) as (r & Tr & Ag & Er). exists (upd_b r k false). split; [|split].
        -- now apply tval_upd_b.
        -- intros k' b F'. cbn. destruct (eqb_of k' k) eqn:Ek; auto. apply (proj1 (eqb_of_spec k' k)) in Ek. congruence.
        -- cbn [eval bv upd_b]. rewrite eqb_of_refl. destruct (indep_above is_range lo Wl k Al) as [_ Ib]. now rewrite Ib.
Qed.
End DD.
