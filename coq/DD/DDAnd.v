(** C02: [tand] / [tor] / [tneg] are the pointwise boolean operations (needs only sorted cut lists). *)
From Coq Require Import List Bool.
From PV Require Import Base.Order Base.CutDef Base.CutLemmas DD.DDModel DD.DDBasics.
Import ListNotations.

Section DD.
Context {var val : Type} `{TotalOrder var} `{TotalOrder val}.
Notation cutV := (cut val).
Notation dd := (dd var val).
Notation valuation := (valuation var val).

Definition appf {B} (g : dd -> B) (b : dd) : B := g b.

(** the recursive step of [tand], with [map_snd] for the local loops *)
Definition tand_core (a b : dd) : dd :=
  match a, b with
  | RNode ka a0 la, RNode kb b0 lb =>
      match cmp ka kb with
      | Lt => mk_rnode ka (tand a0 b) (map_snd (fun d => tand d b) la)
      | Gt => mk_rnode kb (tand a b0) (map_snd (tand a) lb)
      | Eq => mk_rnode ka (tand a0 b0) (merge appf (tand a0) (map_snd tand la) b0 lb)
      end
  | RNode ka a0 la, BNode kb hb lb =>
      match cmp ka kb with
      | Lt => mk_rnode ka (tand a0 b) (map_snd (fun d => tand d b) la)
      | Gt => mk_bnode kb (tand a hb) (tand a lb)
      | Eq => Leaf false
      end
  | BNode ka ha la, RNode kb b0 lb =>
      match cmp ka kb with
      | Lt => mk_bnode ka (tand ha b) (tand la b)
      | Gt => mk_rnode kb (tand a b0) (map_snd (tand a) lb)
      | Eq => Leaf false
      end
  | BNode ka ha la, BNode kb hb lb =>
      match cmp ka kb with
      | Lt => mk_bnode ka (tand ha b) (tand la b)
      | Gt => mk_bnode kb (tand a hb) (tand a lb)
      | Eq => mk_bnode ka (tand ha hb) (tand la lb)
      end
  | Leaf _, _ | _, Leaf _ => Leaf false
  end.

Definition tand_step (a b : dd) : dd :=
  if is_true a then b else
  if is_true b then a else
  if dd_eqb a b then a else
  if is_false a || is_false b then Leaf false else
  if dd_eqb (tneg a) b then Leaf false else tand_core a b.

Lemma tand_eq (a b : dd) : tand a b = tand_step a b.
Proof.
  destruct a as [x|ka a0 la|ka ha la]; destruct b as [y|kb b0 lb|kb hb lb];
    unfold tand_step, tand_core, appf; rewrite <- ?mapfix_eq; reflexivity.
Qed.

Lemma tand_shortcuts (a b : dd) (r : valuation) :
  (is_true a = false -> is_true b = false -> is_false a = false -> is_false b = false ->
   eval r (tand_core a b) = eval r a && eval r b) ->
  eval r (tand_step a b) = eval r a && eval r b.
Proof.
  intros Hcore. unfold tand_step.
  destruct (is_true a) eqn:Ta. { apply is_true_eq in Ta; subst; reflexivity. }
  destruct (is_true b) eqn:Tb. { apply is_true_eq in Tb; subst; cbn [eval]; now rewrite andb_true_r. }
  destruct (dd_eqb a b) eqn:Eab. { apply dd_eqb_spec in Eab; subst; now rewrite andb_diag. }
  destruct (is_false a) eqn:Fa. { apply is_false_eq in Fa; subst; reflexivity. }
  destruct (is_false b) eqn:Fb. { apply is_false_eq in Fb; subst; cbn [eval orb]; now rewrite andb_false_r. }
  cbn [orb].
  destruct (dd_eqb (tneg a) b) eqn:Enab. { apply dd_eqb_spec in Enab; subst; rewrite tneg_sem; cbn [eval]; now rewrite andb_negb_r. }
  auto.
Qed.

(** typing: a variable is either range-partitioned or boolean *)
Variable is_range : var -> bool.
Fixpoint typed (t : dd) : Prop :=
  match t with
  | Leaf _ => True
  | RNode k d0 ds =>
      is_range k = true /\ typed d0 /\
      (fix all (l : list (cutV * dd)) : Prop := match l with [] => True | (_, d) :: l' => typed d /\ all l' end) ds
  | BNode k hi lo => is_range k = false /\ typed hi /\ typed lo
  end.

Lemma typed_rnode k d0 ds : typed (RNode k d0 ds) <-> is_range k = true /\ typed d0 /\ Forall typed (map snd ds).
Proof.
  cbn [typed].
  assert ((fix all (l : list (cutV * dd)) : Prop := match l with [] => True | (_, d) :: l' => typed d /\ all l' end) ds
          <-> Forall typed (map snd ds)) as ->; [|tauto].
  induction ds as [|[c d] ds IH]; cbn; [split; auto|]. rewrite IH. split.
  - intros [? ?]; constructor; auto. - intros F; inversion F; auto.
Qed.

Theorem tand_sem : forall a : dd, sorted a -> typed a -> forall b : dd, sorted b -> typed b ->
  forall r : valuation, eval r (tand a b) = eval r a && eval r b.
Proof.
  induction a as [x|ka a0 la IHa0 IHla|ka ha la IHha IHla] using dd_ind2; intros Sa Ta;
  induction b as [y|kb b0 lb IHb0 IHlb|kb hb lb IHhb IHlb] using dd_ind2; intros Sb Tb r;
  rewrite tand_eq; apply tand_shortcuts; intros T1 T2 F1 F2; unfold tand_core.
  all: try (destruct x; discriminate). all: try (destruct y; discriminate).
  - (* RNode / RNode *)
    apply sorted_rnode in Sa as (Sa0 & Sas & Saa). pose proof Sb as Sb'. apply sorted_rnode in Sb' as (Sb0 & Sbs & Sba).
    apply typed_rnode in Ta as (Tak & Ta0 & Taa). pose proof Tb as Tb'. apply typed_rnode in Tb' as (Tbk & Tb0 & Tba).
    rewrite Forall_forall in IHla, Saa, Taa, IHlb, Sba, Tba.
    destruct (cmp ka kb) eqn:C.
    + rewrite eval_mk_rnode by (apply merge_sorted; [now apply sorted_map_snd_iff|assumption]).
      apply cmp_eq in C; subst kb.
      rewrite !eval_rnode. change (tand a0 b0) with (appf (tand a0) b0).
      rewrite (merge_lookup appf (rv r ka) (map_snd tand la) (tand a0) lb b0 None) by
        (try (now apply sorted_map_snd_iff); try assumption; exact I).
      rewrite lookup_map_snd. unfold appf.
      assert (sorted (lookup_from (rv r ka) b0 lb) /\ typed (lookup_from (rv r ka) b0 lb)) as [Sl Tl].
      { destruct (lookup_in (rv r ka) lb b0) as [-> | I]; auto. }
      destruct (lookup_in (rv r ka) la a0) as [-> | I]; auto.
    + rewrite eval_mk_rnode by (now apply sorted_map_snd_iff).
      rewrite !eval_rnode. rewrite (lookup_map_snd (fun d => tand d (RNode kb b0 lb))).
      destruct (lookup_in (rv r ka) la a0) as [-> | I].
      * rewrite IHa0; auto. now rewrite eval_rnode.
      * rewrite IHla; auto. now rewrite eval_rnode.
    + rewrite eval_mk_rnode by (now apply sorted_map_snd_iff).
      rewrite (eval_rnode r kb). rewrite (lookup_map_snd (tand (RNode ka a0 la))).
      rewrite (eval_rnode r kb b0 lb).
      destruct (lookup_in (rv r kb) lb b0) as [-> | I]; auto.
  - (* RNode / BNode *)
    apply sorted_rnode in Sa as (Sa0 & Sas & Saa). pose proof Sb as Sb'. destruct Sb' as (Sbh & Sbl).
    apply typed_rnode in Ta as (Tak & Ta0 & Taa). pose proof Tb as Tb'. destruct Tb' as (Tbk & Tbh & Tbl).
    rewrite Forall_forall in IHla, Saa, Taa.
    destruct (cmp ka kb) eqn:C.
    + apply cmp_eq in C; subst kb. congruence.
    + rewrite eval_mk_rnode by (now apply sorted_map_snd_iff).
      rewrite !eval_rnode. rewrite (lookup_map_snd (fun d => tand d (BNode kb hb lb))).
      destruct (lookup_in (rv r ka) la a0) as [-> | I]; auto.
    + rewrite eval_mk_bnode. cbn [eval]. rewrite IHhb, IHlb; auto. cbn [eval]. destruct (bv r kb); reflexivity.
  - (* BNode / RNode *)
    destruct Sa as (Sah & Sal). pose proof Sb as Sb'. apply sorted_rnode in Sb' as (Sb0 & Sbs & Sba).
    destruct Ta as (Tak & Tah & Tal). pose proof Tb as Tb'. apply typed_rnode in Tb' as (Tbk & Tb0 & Tba).
    rewrite Forall_forall in IHlb, Sba, Tba.
    destruct (cmp ka kb) eqn:C.
    + apply cmp_eq in C; subst kb. congruence.
    + rewrite eval_mk_bnode. cbn [eval]. rewrite IHha, IHla; auto. destruct (bv r ka); reflexivity.
    + rewrite eval_mk_rnode by (now apply sorted_map_snd_iff).
      rewrite (eval_rnode r kb). rewrite (lookup_map_snd (tand (BNode ka ha la))).
      rewrite (eval_rnode r kb b0 lb).
      destruct (lookup_in (rv r kb) lb b0) as [-> | I]; auto.
  - (* BNode / BNode *)
    destruct Sa as (Sah & Sal). pose proof Sb as Sb'. destruct Sb' as (Sbh & Sbl).
    destruct Ta as (Tak & Tah & Tal). pose proof Tb as Tb'. destruct Tb' as (Tbk & Tbh & Tbl).
    destruct (cmp ka kb) eqn:C.
    + apply cmp_eq in C; subst kb. rewrite eval_mk_bnode. cbn [eval]. rewrite IHha, IHla; auto. destruct (bv r ka); reflexivity.
    + rewrite eval_mk_bnode. cbn [eval]. rewrite IHha, IHla; auto. destruct (bv r ka); reflexivity.
    + rewrite eval_mk_bnode. cbn [eval]. rewrite IHhb, IHlb; auto. cbn [eval]. destruct (bv r kb); reflexivity.
Qed.

(** ** the result is again sorted and typed, so operations compose *)
Definition ok (t : dd) : Prop := sorted t /\ typed t.

Lemma ok_rnode k d0 ds : ok (RNode k d0 ds) <->
  is_range k = true /\ sorted_from None ds /\ ok d0 /\ Forall ok (map snd ds).
Proof.
  unfold ok. rewrite sorted_rnode, typed_rnode. rewrite !Forall_forall. split.
  - intros ((S0 & Ss & Sa) & (Tk & T0 & Ta)). repeat split; auto.
  - intros (Tk & Ss & (S0 & T0) & F). repeat split; auto; intros x I; apply F; auto.
Qed.

Lemma ok_bnode k hi lo : ok (BNode k hi lo) <-> is_range k = false /\ ok hi /\ ok lo.
Proof. unfold ok. cbn. tauto. Qed.

Lemma ok_mk_rnode k d0 (ds : list (cutV * dd)) :
  is_range k = true -> sorted_from None ds -> ok d0 -> Forall ok (map snd ds) -> ok (mk_rnode k d0 ds).
Proof.
  intros Tk Ss O0 Oa. unfold mk_rnode. destruct (coalesce dd_eqb d0 ds) eqn:E; auto.
  rewrite <- E. apply ok_rnode. repeat split; auto; try apply O0.
  - now apply sorted_coalesce.
  - rewrite Forall_forall in *. intros x I. apply Oa. eapply coalesce_children; eauto.
Qed.

Lemma ok_mk_bnode k (hi lo : dd) : is_range k = false -> ok hi -> ok lo -> ok (mk_bnode k hi lo).
Proof. intros. unfold mk_bnode. destruct (dd_eqb hi lo); auto. apply ok_bnode; auto. Qed.

Lemma ok_leaf b : ok (Leaf b).
Proof. split; exact I. Qed.

Lemma tneg_typed : forall t : dd, typed t -> typed (tneg t).
Proof.
  induction t as [b|k d0 ds IH0 IHl|k h l IHh IHl] using dd_ind2; rewrite tneg_eq; auto.
  - rewrite !typed_rnode. intros (Tk & T0 & Ta). repeat split; auto.
    rewrite map_snd_children, Forall_map. rewrite Forall_forall in *. auto.
  - cbn. intros (? & ? & ?); auto.
Qed.

Lemma tneg_ok (t : dd) : ok t -> ok (tneg t).
Proof. intros [S T]. split; [now apply tneg_sorted|now apply tneg_typed]. Qed.

Theorem tand_ok : forall a : dd, ok a -> forall b : dd, ok b -> ok (tand a b).
Proof.
  induction a as [x|ka a0 la IHa0 IHla|ka ha la IHha IHla] using dd_ind2; intros Oa;
  induction b as [y|kb b0 lb IHb0 IHlb|kb hb lb IHhb IHlb] using dd_ind2; intros Ob;
  rewrite tand_eq; unfold tand_step;
  match goal with |- context [is_true ?a] => destruct (is_true a); [assumption|] end;
  match goal with |- context [is_true ?a] => destruct (is_true a); [assumption|] end;
  match goal with |- context [dd_eqb ?a ?b] => destruct (dd_eqb a b); [assumption|] end;
  match goal with |- context [is_false ?a || is_false ?b] => destruct (is_false a || is_false b); [apply ok_leaf|] end;
  match goal with |- context [dd_eqb ?a ?b] => destruct (dd_eqb a b); [apply ok_leaf|] end;
  unfold tand_core; try apply ok_leaf.
  - pose proof Oa as Oa'. pose proof Ob as Ob'.
    apply ok_rnode in Oa' as (Tak & Sas & Oa0 & Oaa). apply ok_rnode in Ob' as (Tbk & Sbs & Ob0 & Oba).
    rewrite Forall_forall in IHla, Oaa, IHlb, Oba.
    destruct (cmp ka kb) eqn:C.
    + apply ok_mk_rnode; auto.
      * apply merge_sorted; [now apply sorted_map_snd_iff|assumption].
      * apply merge_children. intros g b' Hg Hb'. unfold appf.
        assert (ok b') by (destruct Hb' as [-> | I]; auto).
        destruct Hg as [-> | I]; auto.
        rewrite map_snd_children, in_map_iff in I. destruct I as (a' & <- & I). auto.
    + apply ok_mk_rnode; auto.
      * now apply sorted_map_snd_iff.
      * rewrite map_snd_children, Forall_map, Forall_forall. auto.
    + apply ok_mk_rnode; auto.
      * now apply sorted_map_snd_iff.
      * rewrite map_snd_children, Forall_map, Forall_forall. auto.
  - pose proof Oa as Oa'. pose proof Ob as Ob'.
    apply ok_rnode in Oa' as (Tak & Sas & Oa0 & Oaa). apply ok_bnode in Ob' as (Tbk & Obh & Obl).
    rewrite Forall_forall in IHla, Oaa.
    destruct (cmp ka kb) eqn:C; [apply ok_leaf| |].
    + apply ok_mk_rnode; auto.
      * now apply sorted_map_snd_iff.
      * rewrite map_snd_children, Forall_map, Forall_forall. auto.
    + apply ok_mk_bnode; auto.
  - pose proof Oa as Oa'. pose proof Ob as Ob'.
    apply ok_bnode in Oa' as (Tak & Oah & Oal). apply ok_rnode in Ob' as (Tbk & Sbs & Ob0 & Oba).
    rewrite Forall_forall in IHlb, Oba.
    destruct (cmp ka kb) eqn:C; [apply ok_leaf| |].
    + apply ok_mk_bnode; auto.
    + apply ok_mk_rnode; auto.
      * now apply sorted_map_snd_iff.
      * rewrite map_snd_children, Forall_map, Forall_forall. auto.
  - pose proof Oa as Oa'. pose proof Ob as Ob'.
    apply ok_bnode in Oa' as (Tak & Oah & Oal). apply ok_bnode in Ob' as (Tbk & Obh & Obl).
    destruct (cmp ka kb) eqn:C; apply ok_mk_bnode; auto.
Qed.

Theorem tor_sem (a b : dd) (r : valuation) : ok a -> ok b -> eval r (tor a b) = eval r a || eval r b.
Proof.
  intros Oa Ob. unfold tor. apply tneg_ok in Oa, Ob.
  rewrite tneg_sem, tand_sem, !tneg_sem; try apply Oa; try apply Ob.
  now rewrite negb_andb, !negb_involutive.
Qed.

Lemma tor_ok (a b : dd) : ok a -> ok b -> ok (tor a b).
Proof. intros. unfold tor. apply tneg_ok, tand_ok; now apply tneg_ok. Qed.

(** any expression over and / or / negate, in any grouping, order and repetition *)
Inductive bexp :=
| BAtom (t : dd)
| BAnd (x y : bexp)
| BOr (x y : bexp)
| BNot (x : bexp).

Fixpoint build (e : bexp) : dd :=
  match e with
  | BAtom t => t
  | BAnd x y => tand (build x) (build y)
  | BOr x y => tor (build x) (build y)
  | BNot x => tneg (build x)
  end.

Fixpoint bsem (r : valuation) (e : bexp) : bool :=
  match e with
  | BAtom t => eval r t
  | BAnd x y => bsem r x && bsem r y
  | BOr x y => bsem r x || bsem r y
  | BNot x => negb (bsem r x)
  end.

Fixpoint atoms_ok (e : bexp) : Prop :=
  match e with
  | BAtom t => ok t
  | BAnd x y | BOr x y => atoms_ok x /\ atoms_ok y
  | BNot x => atoms_ok x
  end.

Theorem ops_sem : forall e, atoms_ok e -> ok (build e) /\ forall r, eval r (build e) = bsem r e.
Proof.
  induction e as [t|x IHx y IHy|x IHx y IHy|x IHx]; cbn [atoms_ok build bsem].
  - auto.
  - intros [Ax Ay]. destruct (IHx Ax) as [Ox Ex], (IHy Ay) as [Oy Ey]. split; [now apply tand_ok|].
    intros r. rewrite tand_sem, Ex, Ey; auto; try apply Ox; apply Oy.
  - intros [Ax Ay]. destruct (IHx Ax) as [Ox Ex], (IHy Ay) as [Oy Ey]. split; [now apply tor_ok|].
    intros r. now rewrite tor_sem, Ex, Ey.
  - intros Ax. destruct (IHx Ax) as [Ox Ex]. split; [now apply tneg_ok|].
    intros r. now rewrite tneg_sem, Ex.
Qed.

(** identities and annihilators hold as equalities of diagrams *)
Lemma tand_true_l (b : dd) : tand (Leaf true) b = b.
Proof. now rewrite tand_eq. Qed.
Lemma tand_true_r (a : dd) : tand a (Leaf true) = a.
Proof. rewrite tand_eq. unfold tand_step. destruct (is_true a) eqn:T; [now apply is_true_eq in T|reflexivity]. Qed.
Lemma tand_false_l (b : dd) : tand (Leaf false) b = Leaf false.
Proof.
  rewrite tand_eq. unfold tand_step. cbn [is_true is_false orb].
  destruct (is_true b) eqn:T; [reflexivity|]. destruct (dd_eqb (Leaf false) b) eqn:E; reflexivity.
Qed.
Lemma tand_false_r (a : dd) : tand a (Leaf false) = Leaf false.
Proof.
  rewrite tand_eq. unfold tand_step. cbn [is_true is_false].
  destruct (is_true a) eqn:T; [reflexivity|]. destruct (dd_eqb a (Leaf false)) eqn:E; [now apply dd_eqb_spec in E|].
  now rewrite orb_true_r.
Qed.
End DD.
