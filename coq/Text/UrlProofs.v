(** Where a URL ends, the ambiguity diagnosis, and environment variable expansion:
    theorems about [url_scan], [parse_url], [parse_tail], [expand] / [expand_go] / [subst], [verbatim_parse_url]
    of Text/ReqParse.v. *)
From Coq Require Import List Bool NArith Arith Lia String Ascii.
From PV Require Import Base.Order Base.CutDef DD.DDModel Names.NameModel Marker.Concrete Marker.Expr
  Marker.ExtrasProofs Text.Cursor Text.MarkerParse Text.ReqParse Text.SpanBase.
Import ListNotations.
Open Scope N_scope.
Arguments N.add : simpl never.
Arguments N.sub : simpl never.
Arguments N.eqb : simpl never.
Arguments N.ltb : simpl never.
Arguments N.leb : simpl never.

(** ** matching on a numeral is the equality test *)
Ltac dpos p := destruct p as [p|p|]; try reflexivity.

Lemma match36 {A} (a : N) (x y : A) : match a with 36 => x | _ => y end = if a =? 36 then x else y.
Proof. destruct a as [|p]; [reflexivity|]. do 6 (dpos p). Qed.
Lemma match123 {A} (a : N) (x y : A) : match a with 123 => x | _ => y end = if a =? 123 then x else y.
Proof. destruct a as [|p]; [reflexivity|]. do 7 (dpos p). Qed.
Lemma match125 {A} (a : N) (x y : A) : match a with 125 => x | _ => y end = if a =? 125 then x else y.
Proof. destruct a as [|p]; [reflexivity|]. do 7 (dpos p). Qed.
Lemma match59 {A} (a : N) (x y : A) : match a with 59 => x | _ => y end = if a =? 59 then x else y.
Proof. destruct a as [|p]; [reflexivity|]. do 6 (dpos p). Qed.

(** * 3. [${NAME}] expansion *)

(** does the text start with a complete reference ${NAME}?  NAME = one or more of A-Z 0-9 _ *)
Definition is_ref (s : text) : option (text * text) :=
  match s with
  | 36 :: 123 :: r => let (n, r') := take_while_aux var_char r in
                      match n, r' with _ :: _, 125 :: r'' => Some (n, r'') | _, _ => None end
  | _ => None
  end.

(** the same with equality tests instead of numeral patterns *)
Definition is_ref_b (s : text) : option (text * text) :=
  match s with
  | a :: b :: r =>
      if (a =? 36) && (b =? 123) then
        let (n, r') := take_while_aux var_char r in
        match n, r' with
        | _ :: _, x :: r'' => if x =? 125 then Some (n, r'') else None
        | _, _ => None
        end
      else None
  | _ => None
  end.

Lemma is_ref_eq (s : text) : is_ref s = is_ref_b s.
Proof.
  destruct s as [|a [|b r]].
  - reflexivity.
  - unfold is_ref, is_ref_b. rewrite match36. destruct (a =? 36); reflexivity.
  - unfold is_ref, is_ref_b. rewrite match36. destruct (a =? 36); [|reflexivity]. rewrite match123.
    destruct (b =? 123); [|reflexivity]. cbn [andb]. destruct (take_while_aux var_char r) as [n r'].
    destruct n as [|y n]; [reflexivity|]. destruct r' as [|x r'']; [reflexivity|]. apply match125.
Qed.

Lemma var_char_special (c : N) : var_char c = true -> c <> 36 /\ c <> 123 /\ c <> 125.
Proof. intros H. split; [|split]; intros ->; vm_compute in H; discriminate H. Qed.

(** the shape of a reference *)
Lemma is_ref_inv (s n rest : text) : is_ref s = Some (n, rest) ->
  s = 36 :: 123 :: n ++ 125 :: rest /\ forallb var_char n = true /\ n <> [].
Proof.
  rewrite is_ref_eq. destruct s as [|a [|b r]]; cbn [is_ref_b]; try discriminate.
  destruct (N.eqb_spec a 36) as [->|]; [|discriminate]. destruct (N.eqb_spec b 123) as [->|]; [|discriminate].
  cbn [andb]. destruct (take_while_aux var_char r) as [n' r'] eqn:E.
  destruct (take_while_aux_app _ _ _ _ E) as [-> F].
  destruct n' as [|y n']; [discriminate|]. destruct r' as [|x r'']; [discriminate|].
  destruct (N.eqb_spec x 125) as [->|]; [|discriminate]. intros [= <- <-]. split; [reflexivity|]. split; [exact F|discriminate].
Qed.

Lemma take_while_aux_intro (p : N -> bool) (a b : text) :
  forallb p a = true -> match b with [] => True | x :: _ => p x = false end -> take_while_aux p (a ++ b) = (a, b).
Proof.
  intros F St. induction a as [|x a IH]; cbn [app take_while_aux forallb] in *.
  - destruct b as [|y b]; [reflexivity|]. cbn [take_while_aux]. now rewrite St.
  - apply andb_true_iff in F as [Px F]. rewrite Px, (IH F). reflexivity.
Qed.

Lemma is_ref_intro (n rest : text) : forallb var_char n = true -> n <> [] -> is_ref (36 :: 123 :: n ++ 125 :: rest) = Some (n, rest).
Proof.
  intros F Ne. rewrite is_ref_eq. cbn [is_ref_b]. change ((36 =? 36) && (123 =? 123)) with true. cbv iota.
  rewrite (take_while_aux_intro var_char n (125 :: rest) F eq_refl).
  destruct n as [|y n]; [contradiction|]. reflexivity.
Qed.

Lemma is_ref_shorter (s n rest : text) : is_ref s = Some (n, rest) -> (List.length rest < List.length s)%nat.
Proof.
  intros H. destruct (is_ref_inv s n rest H) as (-> & _ & _). cbn [List.length]. rewrite app_length. cbn [List.length]. lia.
Qed.

Section Expand.
Variable getenv : text -> option text.
Variable project_root : text.
Notation xgo := (expand_go getenv project_root).
Notation xpand := (expand getenv project_root).
Notation sb := (subst getenv project_root).

(** ** the automaton states are positions inside a candidate reference *)
Lemma go_X1 (s : text) : xgo X1 s = xgo X0 (36 :: s).
Proof. reflexivity. Qed.

Lemma go_X2_app (a : text) : forall (m s : text), forallb var_char a = true -> xgo (X2 m) (a ++ s) = xgo (X2 (rev a ++ m)) s.
Proof.
  induction a as [|x a IH]; intros m s F; cbn [app rev forallb] in *; [reflexivity|].
  apply andb_true_iff in F as [Px F]. cbn [expand_go]. rewrite Px, (IH (x :: m) s F), <- app_assoc. reflexivity.
Qed.

Lemma go_X2 (n s : text) : forallb var_char n = true -> xgo (X2 n) s = xgo X0 (36 :: 123 :: rev n ++ s).
Proof.
  intros F. change (xgo X0 (36 :: 123 :: rev n ++ s)) with (xgo (X2 []) (rev n ++ s)).
  rewrite go_X2_app.
  - now rewrite rev_involutive, app_nil_r.
  - rewrite forallb_forall in *. intros x Hx. apply F. now apply in_rev.
Qed.

Lemma go_X0_var (a : text) : forall s : text, forallb var_char a = true -> xgo X0 (a ++ s) = a ++ xgo X0 s.
Proof.
  induction a as [|x a IH]; intros s F; cbn [app forallb] in *; [reflexivity|].
  apply andb_true_iff in F as [Px F]. cbn [expand_go]. destruct (var_char_special x Px) as (N36 & _).
  destruct (N.eqb_spec x 36) as [->|_]; [contradiction|]. now rewrite (IH s F).
Qed.

(** ** [expand] is leftmost, non-overlapping replacement of references *)
Theorem expand_nil : xpand [] = [].
Proof. reflexivity. Qed.

Theorem expand_ref (s n rest : text) : is_ref s = Some (n, rest) -> xpand s = sb n ++ xpand rest.
Proof.
  intros H. destruct (is_ref_inv s n rest H) as (-> & F & Ne). unfold expand.
  change (xgo X0 (36 :: 123 :: n ++ 125 :: rest)) with (xgo (X2 []) (n ++ 125 :: rest)).
  rewrite (go_X2_app n [] (125 :: rest) F), app_nil_r. cbn [expand_go].
  change (var_char 125) with false. change (125 =? 125) with true. cbv iota. cbn [andb].
  destruct (rev n) as [|y m] eqn:E.
  - exfalso. apply Ne. rewrite <- (rev_involutive n), E. reflexivity.
  - cbn [is_nil negb]. rewrite <- E, rev_involutive. reflexivity.
Qed.

Theorem expand_char (c : N) (s : text) : is_ref (c :: s) = None -> xpand (c :: s) = c :: xpand s.
Proof.
  rewrite is_ref_eq. unfold expand. intros H. cbn [expand_go].
  destruct (N.eqb_spec c 36) as [->|Hc]; [|reflexivity].
  destruct s as [|d s]; [reflexivity|]. cbn [expand_go]. cbn [is_ref_b] in H. change (36 =? 36) with true in H. cbn [andb] in H.
  destruct (N.eqb_spec d 123) as [->|Hd].
  - destruct (take_while_aux var_char s) as [n r'] eqn:E.
    destruct (take_while_aux_app _ _ _ _ E) as [-> F]. pose proof (take_while_aux_stop _ _ _ _ E) as St.
    rewrite (go_X2_app n [] r' F), app_nil_r.
    change (123 =? 36) with false. cbv iota. rewrite (go_X0_var n r' F).
    destruct r' as [|x r'']; cbn [expand_go].
    + now rewrite rev_involutive, app_nil_r.
    + rewrite St, rev_involutive.
      destruct ((x =? 125) && negb (is_nil (rev n))) eqn:Cl; [|reflexivity].
      exfalso. apply andb_true_iff in Cl as [Cx Cn]. rewrite Cx in H. destruct n as [|y n]; [discriminate Cn|discriminate H].
  - destruct (N.eqb_spec d 36) as [->|Hd']; reflexivity.
Qed.

(** ** the reference specification: scan from the left; at a complete reference substitute and continue behind it *)
Fixpoint expand_spec (fuel : nat) (s : text) : text :=
  match fuel with
  | O => []
  | S f => match s with
           | [] => []
           | c :: s' => match is_ref s with
                        | Some (n, rest) => sb n ++ expand_spec f rest
                        | None => c :: expand_spec f s'
                        end
           end
  end.

Theorem expand_is_spec (fuel : nat) : forall s : text, (List.length s <= fuel)%nat -> xpand s = expand_spec fuel s.
Proof.
  induction fuel as [|f IH]; intros s L.
  - destruct s; [reflexivity|cbn in L; lia].
  - destruct s as [|c s']; [reflexivity|]. cbn [expand_spec]. destruct (is_ref (c :: s')) as [[n rest]|] eqn:R.
    + rewrite (expand_ref _ _ _ R). f_equal. apply IH. pose proof (is_ref_shorter _ _ _ R). lia.
    + rewrite (expand_char _ _ R). f_equal. apply IH. cbn [List.length] in L. lia.
Qed.

Corollary expand_spec_len (s : text) : xpand s = expand_spec (List.length s) s.
Proof. apply expand_is_spec. lia. Qed.

(** ** corollaries *)
Lemma is_ref_not_dollar (c : N) (s : text) : c <> 36 -> is_ref (c :: s) = None.
Proof.
  intros Hc. rewrite is_ref_eq. destruct s as [|b r]; [reflexivity|]. cbn [is_ref_b].
  destruct (N.eqb_spec c 36) as [->|_]; [contradiction|reflexivity].
Qed.

Corollary expand_no_dollar (s : text) : (forall x, In x s -> x <> 36) -> xpand s = s.
Proof.
  induction s as [|c s IH]; intros H; [reflexivity|].
  rewrite expand_char.
  - f_equal. apply IH. intros x Hx. apply H. now right.
  - apply is_ref_not_dollar. apply H. now left.
Qed.

(** unset names stay verbatim, set names are replaced by their value *)
Corollary subst_unset (n : text) : getenv n = None -> str_eqb n (T "PROJECT_ROOT") = false -> sb n = 36 :: 123 :: n ++ [125].
Proof. intros G P. unfold subst. now rewrite G, P. Qed.

Corollary subst_set (n v : text) : getenv n = Some v -> sb n = v.
Proof. intros G. unfold subst. now rewrite G. Qed.

Corollary subst_project_root (n : text) : getenv n = None -> n = T "PROJECT_ROOT" -> sb n = project_root.
Proof. intros G ->. unfold subst. rewrite G. reflexivity. Qed.

(** a character that cannot be part of a reference survives expansion *)
Theorem expand_keeps (c : N) (s : text) :
  c <> 36 -> c <> 123 -> c <> 125 -> var_char c = false -> In c s -> In c (xpand s).
Proof.
  intros N36 N123 N125 Nv. remember (List.length s) as k eqn:Hk. assert (List.length s <= k)%nat as L by lia. clear Hk.
  revert s L. induction k as [|k IH]; intros s L Hin.
  - destruct s; [contradiction|cbn in L; lia].
  - destruct s as [|d s']; [contradiction|]. destruct (is_ref (d :: s')) as [[n rest]|] eqn:R.
    + rewrite (expand_ref _ _ _ R). apply in_or_app. right. apply IH.
      * pose proof (is_ref_shorter _ _ _ R). lia.
      * destruct (is_ref_inv _ _ _ R) as (E & F & _). rewrite E in Hin.
        destruct Hin as [H|[H|H]]; [congruence|congruence|]. apply in_app_or in H as [H|[H|H]]; [|congruence|exact H].
        rewrite forallb_forall in F. rewrite (F c H) in Nv. discriminate.
    + rewrite (expand_char _ _ R). destruct Hin as [->|H]; [now left|]. right. apply IH; [cbn [List.length] in L; lia|exact H].
Qed.

Corollary expand_keeps_slash (s : text) : In 47 s -> In 47 (xpand s).
Proof. apply expand_keeps; [discriminate|discriminate|discriminate|reflexivity]. Qed.

Corollary expand_keeps_backslash (s : text) : In 92 s -> In 92 (xpand s).
Proof. apply expand_keeps; [discriminate|discriminate|discriminate|reflexivity]. Qed.
End Expand.

Print Assumptions expand_ref.
Print Assumptions expand_char.
Print Assumptions expand_is_spec.
Print Assumptions expand_no_dollar.
Print Assumptions expand_keeps.

(** * cursor facts *)
Lemma eat_ws_stop (ws : N -> bool) (c : cursor) : match c_rest (c_eat_whitespace ws c) with [] => True | x :: _ => ws x = false end.
Proof.
  unfold c_eat_whitespace. destruct (c_take_while ws c) as [[[a st] len] c'] eqn:E.
  apply (c_take_while_adv ws c a st len c' E).
Qed.

Lemma eat_ws_noop (ws : N -> bool) (c : cursor) : match c_rest c with [] => True | x :: _ => ws x = false end -> c_eat_whitespace ws c = c.
Proof.
  destruct c as [p r]. unfold c_eat_whitespace, c_take_while. cbn [c_rest c_pos]. intros H.
  destruct r as [|x r]; cbn [take_while_aux].
  - cbn [text_len]. now rewrite N.add_0_r.
  - rewrite H. cbn [text_len]. now rewrite N.add_0_r.
Qed.

Lemma eat_ws_idem (ws : N -> bool) (c : cursor) : c_eat_whitespace ws (c_eat_whitespace ws c) = c_eat_whitespace ws c.
Proof. apply eat_ws_noop, eat_ws_stop. Qed.

Lemma c_next_cons (c : cursor) (x : N) (r : text) : c_rest c = x :: r ->
  c_next c = Some (c_pos c, x, {| c_pos := c_pos c + utf8_len x; c_rest := r |}).
Proof. intros E. unfold c_next. now rewrite E. Qed.

Lemma c_next_nil (c : cursor) : c_rest c = [] -> c_next c = None.
Proof. intros E. unfold c_next. now rewrite E. Qed.

Section Url.
Variables ws alpha alnum : N -> bool.
Variable kw : list (text * mvalue).
Variable vparse : text -> option rawversion.
Variable specpat : vop -> text -> option (vop * list N).
Variable specver : vop -> text -> option (vop * list N).
Variables pv pfv : N.
Variable url_oracle : ukind -> text -> option text.
Variable getenv : text -> option text.
Variable project_root : text.
Variables verbatim ext : bool.

Notation eat_ws := (c_eat_whitespace ws).
Notation tail := (parse_tail ws alpha alnum kw vparse specpat specver pv pfv).
Notation scan := (url_scan ws).
Notation purl := (parse_url ws url_oracle getenv project_root verbatim ext).
Notation purl_T := (parse_url_T url_oracle getenv project_root verbatim ext).
Notation vurl := (verbatim_parse_url url_oracle getenv project_root ext).
Notation dispatch := (dispatch_url url_oracle ext).
Notation xpand := (expand getenv project_root).

(** * 2. the tail: end of input, the ambiguity diagnosis, the generic error *)

(** when the next non-blank character is not ';', no marker is parsed: the tail only looks at that character *)
Lemma tail_no_marker (is_url : bool) (rend : N) (last : option N) (c : cursor) (x : N) (r' : text) :
  c_rest (eat_ws c) = x :: r' -> x <> 59 ->
  tail is_url rend last c =
    match (match last with Some l => if is_url && ((l =? 59) || (l =? 35)) then Some l else None | None => None end) with
    | Some l => PErr {| e_kind := EAmbiguous l; e_start := rend - 1; e_len := 1 |}
    | None => PErr {| e_kind := EEndOrSemi; e_start := c_pos (eat_ws c); e_len := utf8_len x |}
    end.
Proof.
  intros E Hx. unfold parse_tail. rewrite (c_next_cons _ _ _ E). cbv iota beta. rewrite match59.
  destruct (N.eqb_spec x 59) as [->|_]; [contradiction|]. cbv iota beta.
  rewrite eat_ws_idem, (c_next_cons _ _ _ E). cbv iota beta. unfold err. destruct last as [l|]; [|reflexivity].
  destruct (is_url && ((l =? 59) || (l =? 35))); reflexivity.
Qed.

Theorem glued_is_rejected (rend l : N) (c : cursor) (x : N) (r' : text) :
  (l = 59 \/ l = 35) ->
  c_rest (eat_ws c) = x :: r' -> x <> 59 ->
  tail true rend (Some l) c = PErr {| e_kind := EAmbiguous l; e_start := rend - 1; e_len := 1 |}.
Proof.
  intros Hl E Hx. rewrite (tail_no_marker true rend (Some l) c x r' E Hx).
  destruct Hl as [-> | ->]; reflexivity.
Qed.

Theorem tail_at_end (is_url : bool) (rend : N) (last : option N) (c : cursor) :
  c_rest (eat_ws c) = [] -> tail is_url rend last c = POk (None, []).
Proof.
  intros E. unfold parse_tail. rewrite (c_next_nil _ E). cbv iota beta. rewrite eat_ws_idem, (c_next_nil _ E). reflexivity.
Qed.

Theorem tail_end_or_semi (is_url : bool) (rend : N) (last : option N) (c : cursor) (x : N) (r' : text) :
  (is_url = false \/ last = None \/ exists l, last = Some l /\ l <> 59 /\ l <> 35) ->
  c_rest (eat_ws c) = x :: r' -> x <> 59 ->
  tail is_url rend last c = PErr {| e_kind := EEndOrSemi; e_start := c_pos (eat_ws c); e_len := utf8_len x |}.
Proof.
  intros Hl E Hx. rewrite (tail_no_marker is_url rend last c x r' E Hx).
  destruct Hl as [-> | [-> | (l & -> & H59 & H35)]].
  - destruct last; reflexivity.
  - reflexivity.
  - destruct (N.eqb_spec l 59) as [->|_]; [contradiction|]. destruct (N.eqb_spec l 35) as [->|_]; [contradiction|].
    now rewrite andb_false_r.
Qed.

(** the position reported is that of the offending character: a boundary of the input, after the blanks *)
Lemma tail_error_position (c : cursor) : adv c (eat_ws c).
Proof. apply eat_ws_adv. Qed.

(** * 1. where the URL ends *)

(** scanning stops in front of the text [r] without consuming a URL character *)
Definition end_here (r : text) : Prop :=
  r = [] \/
  (exists c r', r = c :: r' /\ (c = 13 \/ c = 10)) \/
  (exists c r', r = c :: r' /\ ws c = true /\ ws_then_end ws r' = true).
(** the URL character [c] is a ';' or '#' directly followed by white space *)
Definition glued (c : N) (r' : text) : Prop := (c = 59 \/ c = 35) /\ next_is_ws ws r' = true.

(** the five ways a scan step can go, as an induction principle *)
Lemma url_scan_cases (P : text -> N -> option N -> text -> cursor -> option N -> Prop) :
  (forall pos last, P [] pos last [] {| c_pos := pos; c_rest := [] |} last) ->
  (forall c r' pos last, (c = 13 \/ c = 10) ->
     P (c :: r') pos last [] {| c_pos := pos + utf8_len c; c_rest := r' |} (Some c)) ->
  (forall c r' pos last, c <> 13 -> c <> 10 -> ws c = true -> ws_then_end ws r' = true ->
     P (c :: r') pos last [] {| c_pos := pos + utf8_len c; c_rest := r' |} (Some c)) ->
  (forall c r' pos last, ~ end_here (c :: r') -> glued c r' ->
     P (c :: r') pos last [c] {| c_pos := pos + utf8_len c; c_rest := r' |} (Some c)) ->
  (forall c r' pos last u cur l, ~ end_here (c :: r') -> ~ glued c r' ->
     scan r' (pos + utf8_len c) (Some c) = (u, cur, l) -> P r' (pos + utf8_len c) (Some c) u cur l ->
     P (c :: r') pos last (c :: u) cur l) ->
  forall r pos last u cur l, scan r pos last = (u, cur, l) -> P r pos last u cur l.
Proof.
  intros H0 H1 H2 H3 H4. induction r as [|c r' IH]; intros pos last u cur l; cbn [url_scan].
  - intros [= <- <- <-]. apply H0.
  - destruct ((c =? 13) || (c =? 10)) eqn:B1.
    { intros [= <- <- <-]. apply H1. apply orb_true_iff in B1 as [B|B]; apply N.eqb_eq in B; auto. }
    apply orb_false_iff in B1 as [B13 B10]. apply N.eqb_neq in B13, B10.
    destruct (ws c && ws_then_end ws r') eqn:B2.
    { intros [= <- <- <-]. apply andb_true_iff in B2 as [Bw Be]. now apply H2. }
    assert (~ end_here (c :: r')) as NE.
    { intros [E|[(c0 & r0 & [= <- <-] & [E|E])|(c0 & r0 & [= <- <-] & Ew & Ee)]]; [discriminate|contradiction|contradiction|].
      rewrite Ew, Ee in B2. discriminate. }
    destruct (((c =? 59) || (c =? 35)) && next_is_ws ws r') eqn:B3.
    { intros [= <- <- <-]. apply H3; [exact NE|]. apply andb_true_iff in B3 as [Bc Bn]. split; [|exact Bn].
      apply orb_true_iff in Bc as [B|B]; apply N.eqb_eq in B; auto. }
    assert (~ glued c r') as NG.
    { intros [[-> | ->] Gn]; rewrite Gn in B3; discriminate. }
    destruct (scan r' (pos + utf8_len c) (Some c)) as [[u' cur'] l'] eqn:E. intros [= <- <- <-].
    apply (H4 c r' pos last u' cur' l' NE NG E). now apply IH.
Qed.

Lemma last_opt_cons (c : N) (u : text) : u <> [] -> last_opt (c :: u) = last_opt u.
Proof.
  intros Ne. unfold last_opt. cbn [rev]. destruct (rev u) as [|y m] eqn:E; [|reflexivity].
  exfalso. apply Ne. rewrite <- (rev_involutive u), E. reflexivity.
Qed.

Lemma last_opt_some_ne (u : text) (c : N) : last_opt u = Some c -> u <> [].
Proof. intros H ->. discriminate H. Qed.

Lemma last_opt_nth (u : text) (c : N) : last_opt u = Some c -> u <> [] /\ nth (List.length u - 1) u 0 = c.
Proof.
  unfold last_opt. destruct (rev u) as [|y m] eqn:E; [discriminate|]. intros [= ->].
  assert (u = rev m ++ [c]) as -> by (rewrite <- (rev_involutive u), E; reflexivity).
  split; [now destruct (rev m)|]. rewrite app_length. cbn [List.length]. rewrite app_nth2 by lia.
  replace (List.length (rev m) + 1 - 1 - List.length (rev m))%nat with 0%nat by lia. reflexivity.
Qed.

(** ** the full characterisation: the text, minimality, the reason for stopping, the cursor and [last] *)
Definition stop_state (pos : N) (last : option N) (u rest : text) (cur : cursor) (l : option N) : Prop :=
  (* the last URL character is a glued ';' / '#': it belongs to the URL, nothing else is consumed *)
  (exists c, last_opt u = Some c /\ glued c rest /\
             cur = {| c_pos := pos + text_len u; c_rest := rest |} /\ l = Some c) \/
  (* otherwise the scan stopped in front of [rest] *)
  ((forall c, last_opt u = Some c -> ~ glued c rest) /\
   ((* at the end of the input: nothing else is consumed *)
    (rest = [] /\ cur = {| c_pos := pos + text_len u; c_rest := [] |} /\
     l = match last_opt u with Some c => Some c | None => last end) \/
    (* at a line break, or at white space followed by blanks and then ';', '#' or the end: that one character is consumed *)
    (exists t rest', rest = t :: rest' /\
       ((t = 13 \/ t = 10) \/ (ws t = true /\ ws_then_end ws rest' = true)) /\
       cur = {| c_pos := pos + text_len u + utf8_len t; c_rest := rest' |} /\ l = Some t))).

Theorem url_scan_full (r : text) (pos : N) (last : option N) (u : text) (cur : cursor) (l : option N) :
  scan r pos last = (u, cur, l) ->
  exists rest,
    r = u ++ rest /\
    (forall i : nat, (i < List.length u)%nat -> ~ end_here (skipn i r)) /\
    (forall i : nat, (S i < List.length u)%nat -> ~ glued (nth i r 0) (skipn (S i) r)) /\
    stop_state pos last u rest cur l.
Proof.
  revert r pos last u cur l. apply url_scan_cases.
  - intros pos last. exists []. split; [reflexivity|]. split; [cbn; intros i Hi; lia|]. split; [cbn; intros i Hi; lia|].
    right. split; [intros c H; discriminate H|]. left. cbn [text_len last_opt rev]. rewrite N.add_0_r. auto.
  - intros c r' pos last Hc. exists (c :: r'). split; [reflexivity|]. split; [cbn; intros i Hi; lia|]. split; [cbn; intros i Hi; lia|].
    right. split; [intros c0 H; discriminate H|]. right. exists c, r'. cbn [text_len]. rewrite N.add_0_r. auto.
  - intros c r' pos last _ _ Hw He. exists (c :: r'). split; [reflexivity|]. split; [cbn; intros i Hi; lia|]. split; [cbn; intros i Hi; lia|].
    right. split; [intros c0 H; discriminate H|]. right. exists c, r'. cbn [text_len]. rewrite N.add_0_r. auto.
  - intros c r' pos last NE G. exists r'. split; [reflexivity|]. split; [|split].
    + intros i Hi. cbn [List.length] in Hi. assert (i = 0)%nat as -> by lia. exact NE.
    + intros i Hi. cbn [List.length] in Hi. lia.
    + left. exists c. cbn [text_len]. rewrite N.add_0_r. auto.
  - intros c r' pos last u cur l NE NG _ (rest & -> & Hmin & Hng & Hstop). exists rest. split; [reflexivity|]. split; [|split].
    + intros [|i] Hi; [exact NE|]. cbn [List.length] in Hi. cbn [app skipn]. apply Hmin. lia.
    + intros [|i] Hi; [exact NG|]. cbn [List.length] in Hi. cbn [app skipn nth]. apply Hng. lia.
    + assert (pos + utf8_len c + text_len u = pos + text_len (c :: u)) as Ep by (cbn [text_len]; lia).
      unfold stop_state in Hstop |- *. rewrite Ep in Hstop. destruct u as [|d u'].
      * (* the recursive scan consumed no URL character *)
        destruct Hstop as [(c0 & H & _)|(_ & Hs)]; [discriminate H|]. right. cbn [app] in NG. split.
        { intros c0 [= <-]. exact NG. }
        destruct Hs as [(-> & -> & ->)|(t & rest' & -> & Ht & -> & ->)].
        -- left. auto.
        -- right. exists t, rest'. auto.
      * rewrite (last_opt_cons c (d :: u')) by discriminate.
        destruct (last_opt (d :: u')) as [e|] eqn:El; [exact Hstop|].
        exfalso. unfold last_opt in El. destruct (rev (d :: u')) as [|y m] eqn:Er; [|discriminate El].
        apply (f_equal (@rev N)) in Er. rewrite rev_involutive in Er. discriminate Er.
Qed.

(** ** the statement of the task *)
Theorem url_scan_spec (r : text) (pos : N) (last : option N) (u : text) (cur : cursor) (l : option N) :
  scan r pos last = (u, cur, l) ->
  exists rest,
    r = u ++ rest /\
    (* minimal: no earlier stopping point *)
    (forall i : nat, (i < List.length u)%nat -> ~ end_here (skipn i r)) /\
    (forall i : nat, (S i < List.length u)%nat -> ~ glued (nth i r 0) (skipn (S i) r)) /\
    (* why it stopped *)
    (end_here rest \/ (exists c, last_opt u = Some c /\ glued c rest)).
Proof.
  intros H. destruct (url_scan_full r pos last u cur l H) as (rest & E & Hmin & Hng & Hstop).
  exists rest. split; [exact E|]. split; [exact Hmin|]. split; [exact Hng|].
  destruct Hstop as [(c & Hl & G & _)|(_ & [(-> & _)|(t & rest' & -> & Ht & _)])].
  - right. exists c. auto.
  - left. left. reflexivity.
  - left. right. destruct Ht as [Ht|[Hw He]]; [left|right]; exists t, rest'; auto.
Qed.

(** the cursor and the last consumed character *)
Theorem url_scan_cursor (r : text) (pos : N) (last : option N) (u : text) (cur : cursor) (l : option N) :
  scan r pos last = (u, cur, l) ->
  exists rest, r = u ++ rest /\ stop_state pos last u rest cur l.
Proof.
  intros H. destruct (url_scan_full r pos last u cur l H) as (rest & E & _ & _ & Hstop). exists rest. auto.
Qed.

(** in every case the cursor has moved forward along the input, and the URL text lies between *)
Corollary url_scan_adv (c : cursor) (u : text) (cur : cursor) (l : option N) :
  scan (c_rest c) (c_pos c) None = (u, cur, l) -> adv c cur /\ bnd c (c_pos c + text_len u) /\ c_pos c + text_len u <= c_pos cur.
Proof.
  intros H. destruct (url_scan_cursor _ _ _ _ _ _ H) as (rest & E & Hstop).
  assert (bnd c (c_pos c + text_len u)) as B.
  { apply (bnd_of_adv c {| c_pos := c_pos c + text_len u; c_rest := rest |}). now apply adv_app. }
  destruct Hstop as [(x & _ & _ & -> & _)|(_ & [(-> & -> & _)|(t & rest' & -> & _ & -> & _)])].
  - split; [now apply adv_app|]. split; [exact B|]. cbn [c_pos]. lia.
  - split; [now apply adv_app|]. split; [exact B|]. cbn [c_pos]. lia.
  - split; [|split; [exact B|cbn [c_pos]; lia]].
    replace (c_pos c + text_len u + utf8_len t) with (c_pos c + text_len (u ++ [t])) by (rewrite text_len_app; cbn [text_len]; lia).
    apply adv_app. rewrite E, <- app_assoc. reflexivity.
Qed.

(** ** the specification determines the URL: two splittings satisfying it coincide *)
Definition url_end (r u rest : text) : Prop :=
  r = u ++ rest /\
  (forall i : nat, (i < List.length u)%nat -> ~ end_here (skipn i r)) /\
  (forall i : nat, (S i < List.length u)%nat -> ~ glued (nth i r 0) (skipn (S i) r)) /\
  (end_here rest \/ (exists c, last_opt u = Some c /\ glued c rest)).

Lemma skipn_app_len {A} (a b : list A) : skipn (List.length a) (a ++ b) = b.
Proof. induction a as [|x a IH]; [reflexivity|exact IH]. Qed.

Lemma url_end_not_shorter (r u rest u' rest' : text) : url_end r u rest -> url_end r u' rest' -> ~ (List.length u < List.length u')%nat.
Proof.
  intros (E & _ & _ & Hstop) (E' & Hmin' & Hng' & _) Lt. destruct Hstop as [He|(c & Hl & G)].
  - apply (Hmin' (List.length u) Lt). rewrite E, skipn_app_len. exact He.
  - destruct (last_opt_nth u c Hl) as [Ne Hn]. assert (List.length u <> 0)%nat as Nz by (destruct u; [contradiction|discriminate]).
    apply (Hng' (List.length u - 1)%nat); [lia|].
    replace (S (List.length u - 1)) with (List.length u) by lia. rewrite E at 2. rewrite skipn_app_len.
    rewrite E, app_nth1 by lia. rewrite Hn. exact G.
Qed.

Theorem url_end_unique (r u rest u' rest' : text) : url_end r u rest -> url_end r u' rest' -> u = u' /\ rest = rest'.
Proof.
  intros H H'. pose proof (url_end_not_shorter _ _ _ _ _ H H') as L1. pose proof (url_end_not_shorter _ _ _ _ _ H' H) as L2.
  destruct H as (E & _). destruct H' as (E' & _). assert (List.length u = List.length u') as L by lia.
  clear L1 L2. rewrite E in E'. clear E. revert u' L E'. induction u as [|x u IH]; intros [|x' u'] L E'; try discriminate L.
  - auto.
  - cbn [app] in E'. injection E' as -> E'. injection L as L. destruct (IH u' L E') as [-> ->]. auto.
Qed.

Corollary url_scan_unique (r : text) (pos : N) (last : option N) (u : text) (cur : cursor) (l : option N) (u' rest' : text) :
  scan r pos last = (u, cur, l) -> url_end r u' rest' -> u' = u.
Proof.
  intros H H'. destruct (url_scan_spec _ _ _ _ _ _ H) as (rest & Hs). now destruct (url_end_unique r u' rest' u rest H' Hs).
Qed.

(** * 4. the verbatim text: [given] is the unexpanded source, the URL is parsed from the expanded one *)
Theorem verbatim_given (u d : text) (g : option text) :
  vurl u = Some (d, g) -> g = Some u /\ dispatch (xpand u) = Some d.
Proof.
  unfold verbatim_parse_url. destruct (dispatch (xpand u)) as [d'|]; [|discriminate]. intros [= <- <-]. auto.
Qed.

Theorem verbatim_given_iff (u d : text) (g : option text) :
  vurl u = Some (d, g) <-> g = Some u /\ dispatch (xpand u) = Some d.
Proof.
  split; [apply verbatim_given|]. intros [-> H]. unfold verbatim_parse_url. now rewrite H.
Qed.

Theorem parse_url_T_verbatim (u d : text) (g : option text) :
  verbatim = true -> purl_T u = Some (d, g) -> g = Some u /\ dispatch (xpand u) = Some d.
Proof. intros V. unfold parse_url_T. rewrite V. apply verbatim_given. Qed.

Theorem parse_url_T_plain (u d : text) (g : option text) :
  verbatim = false -> purl_T u = Some (d, g) -> g = None /\ url_oracle UParse u = Some d.
Proof.
  intros V. unfold parse_url_T. rewrite V. destruct (url_oracle UParse u) as [d'|]; [|discriminate]. intros [= <- <-]. auto.
Qed.

(** * 1+2 lifted to [parse_url] *)
Theorem parse_url_ok (c : cursor) (d : text) (g : option text) (c' : cursor) (l : option N) :
  purl c = POk (d, g, c', l) ->
  exists u, scan (c_rest (eat_ws c)) (c_pos (eat_ws c)) None = (u, c', l) /\ u <> [] /\ purl_T u = Some (d, g).
Proof.
  unfold parse_url. intros H. set (c1 := eat_ws c) in *.
  destruct (scan (c_rest c1) (c_pos c1) None) as [[u c2] last] eqn:E.
  destruct u as [|x u]; [discriminate H|].
  destruct (purl_T (x :: u)) as [[d' g']|] eqn:P; [|discriminate H].
  injection H as <- <- <- <-. exists (x :: u). split; [reflexivity|]. split; [discriminate|exact P].
Qed.

(** the errors of [parse_url]: no URL text at all, or the URL type rejects the scanned text *)
Theorem parse_url_err (c : cursor) (e : perr) :
  purl c = PErr e ->
  exists u c2 l, scan (c_rest (eat_ws c)) (c_pos (eat_ws c)) None = (u, c2, l) /\
    ((u = [] /\ e = {| e_kind := EExpectedUrl; e_start := c_pos (eat_ws c); e_len := 0 |}) \/
     (u <> [] /\ purl_T u = None /\ e = {| e_kind := EUrl; e_start := c_pos (eat_ws c); e_len := text_len u |})).
Proof.
  unfold parse_url. intros H. set (c1 := eat_ws c) in *.
  destruct (scan (c_rest c1) (c_pos c1) None) as [[u c2] last] eqn:E. exists u, c2, last. split; [reflexivity|].
  destruct u as [|x u].
  - left. injection H as <-. auto.
  - right. destruct (purl_T (x :: u)) as [[d' g']|] eqn:P; [discriminate H|]. injection H as <-.
    split; [discriminate|]. auto.
Qed.

(** the accepted URL is the text up to the URL end of the characterisation, and the URL value is parsed
    from that text (after expansion when the verbatim type is used) *)
Corollary parse_url_text (c : cursor) (d : text) (g : option text) (c' : cursor) (l : option N) :
  purl c = POk (d, g, c', l) ->
  exists u rest, c_rest (eat_ws c) = u ++ rest /\ u <> [] /\ url_end (c_rest (eat_ws c)) u rest /\
    stop_state (c_pos (eat_ws c)) None u rest c' l /\ purl_T u = Some (d, g) /\
    (verbatim = true -> g = Some u /\ dispatch (xpand u) = Some d) /\
    (verbatim = false -> g = None /\ url_oracle UParse u = Some d).
Proof.
  intros H. destruct (parse_url_ok c d g c' l H) as (u & E & Ne & P).
  destruct (url_scan_full _ _ _ _ _ _ E) as (rest & Er & Hmin & Hng & Hstop).
  destruct (url_scan_spec _ _ _ _ _ _ E) as (rest2 & Hs).
  assert (rest2 = rest) as ->.
  { destruct Hs as (Er2 & _). rewrite Er in Er2. now apply app_inv_head in Er2. }
  exists u, rest. split; [exact Er|]. split; [exact Ne|]. split; [exact Hs|]. split; [exact Hstop|]. split; [exact P|].
  split; intros V; [now apply parse_url_T_verbatim|now apply parse_url_T_plain].
Qed.

(** ** the scan and the tail together *)
Lemma eat_ws_nil (c : cursor) : c_rest c = [] -> c_rest (eat_ws c) = [].
Proof. intros E. rewrite eat_ws_noop; [exact E|]. now rewrite E. Qed.

(** a URL whose last character is a ';' or '#' followed by white space, when the next non-blank character is
    not ';': reported as ambiguous, the span being that ';' / '#' (the last byte of the URL text) *)
Theorem glued_scan_rejected (r : text) (pos : N) (last : option N) (u : text) (cur : cursor) (l : option N)
    (rest : text) (x y : N) (r' : text) :
  scan r pos last = (u, cur, l) -> r = u ++ rest ->
  last_opt u = Some x -> glued x rest ->
  c_rest (eat_ws cur) = y :: r' -> y <> 59 ->
  c_pos cur = pos + text_len u /\
  tail true (c_pos cur) l cur = PErr {| e_kind := EAmbiguous x; e_start := pos + text_len u - 1; e_len := 1 |}.
Proof.
  intros H Er Hl G Ey Hy. destruct (url_scan_cursor _ _ _ _ _ _ H) as (rest0 & Er0 & Hstop).
  assert (rest0 = rest) as -> by (rewrite Er in Er0; now apply app_inv_head in Er0).
  destruct Hstop as [(z & Hz & Gz & Ec & ->)|(Hn & _)].
  - rewrite Hl in Hz. injection Hz as <-. rewrite Ec in *. cbn [c_pos]. split; [reflexivity|].
    apply (glued_is_rejected _ x _ y r'); [apply G|exact Ey|exact Hy].
  - exfalso. exact (Hn x Hl G).
Qed.

(** otherwise (white space is not ';' or '#'), the same situation gives the generic error at the offending character *)
Theorem unglued_scan_tail (r : text) (pos : N) (last : option N) (u : text) (cur : cursor) (l : option N)
    (rest : text) (rend y : N) (r' : text) :
  ws 59 = false -> ws 35 = false ->
  scan r pos last = (u, cur, l) -> r = u ++ rest ->
  (forall x, last_opt u = Some x -> ~ glued x rest) ->
  c_rest (eat_ws cur) = y :: r' -> y <> 59 ->
  tail true rend l cur = PErr {| e_kind := EEndOrSemi; e_start := c_pos (eat_ws cur); e_len := utf8_len y |}.
Proof.
  intros W59 W35 H Er Hn Ey Hy. destruct (url_scan_cursor _ _ _ _ _ _ H) as (rest0 & Er0 & Hstop).
  assert (rest0 = rest) as -> by (rewrite Er in Er0; now apply app_inv_head in Er0).
  destruct Hstop as [(z & Hz & Gz & _)|(_ & [(_ & Ec & _)|(t & rest' & _ & Ht & _ & ->)])].
  - exfalso. exact (Hn z Hz Gz).
  - exfalso. rewrite eat_ws_nil in Ey; [discriminate Ey|]. now rewrite Ec.
  - apply (tail_end_or_semi true rend (Some t) cur y r'); [|exact Ey|exact Hy]. right. right. exists t. split; [reflexivity|].
    destruct Ht as [[-> | ->]|[Hw _]]; [split; discriminate|split; discriminate|].
    split; intros ->; congruence.
Qed.

(** ... and it is not an error when only blanks follow *)
Theorem scan_tail_at_end (r : text) (pos : N) (last : option N) (u : text) (cur : cursor) (l : option N) (rend : N) :
  scan r pos last = (u, cur, l) -> c_rest (eat_ws cur) = [] -> tail true rend l cur = POk (None, []).
Proof. intros _ E. now apply tail_at_end. Qed.

(** the same for an accepted [parse_url] followed by [parse_tail], as in [parse_requirement] *)
Corollary glued_url_rejected (c : cursor) (d : text) (g : option text) (c' : cursor) (l : option N) :
  purl c = POk (d, g, c', l) ->
  exists u rest, c_rest (eat_ws c) = u ++ rest /\ u <> [] /\ purl_T u = Some (d, g) /\
    forall (x y : N) (r' : text), last_opt u = Some x -> glued x rest -> c_rest (eat_ws c') = y :: r' -> y <> 59 ->
      tail true (c_pos c') l c' =
        PErr {| e_kind := EAmbiguous x; e_start := c_pos (eat_ws c) + text_len u - 1; e_len := 1 |}.
Proof.
  intros H. destruct (parse_url_ok c d g c' l H) as (u & E & Ne & P).
  destruct (url_scan_cursor _ _ _ _ _ _ E) as (rest & Er & _).
  exists u, rest. split; [exact Er|]. split; [exact Ne|]. split; [exact P|].
  intros x y r' Hl G Ey Hy. now apply (glued_scan_rejected _ _ _ _ _ _ rest x y r' E Er Hl G Ey Hy).
Qed.
End Url.

Print Assumptions glued_is_rejected.
Print Assumptions tail_at_end.
Print Assumptions tail_end_or_semi.
Print Assumptions url_scan_full.
Print Assumptions url_scan_spec.
Print Assumptions url_scan_cursor.
Print Assumptions url_scan_unique.
Print Assumptions verbatim_given.
Print Assumptions parse_url_T_verbatim.
Print Assumptions parse_url_ok.
Print Assumptions parse_url_err.
Print Assumptions parse_url_text.
Print Assumptions glued_scan_rejected.
Print Assumptions unglued_scan_tail.
Print Assumptions glued_url_rejected.

(** * executable checks (white space = space / tab) *)
Module UrlExamples.
Definition w (x : N) : bool := (x =? 32) || (x =? 9).
Definition env (n : text) : option text := if str_eqb n (T "HOME") then Some (T "/h") else None.
Definition tl := parse_tail w (fun _ => false) (fun _ => false) [] (fun _ => None) (fun _ _ => None) (fun _ _ => None) 0 0.

(** the URL ends at the blank before ';' *)
Example scan_semi : url_scan w (T "http://a/b ;x y") 0 None = (T "http://a/b", {| c_pos := 11; c_rest := T ";x y" |}, Some 32).
Proof. vm_compute. reflexivity. Qed.
(** a blank that is not followed by ';', '#' or the end belongs to the URL, and so does a ';' not followed by a blank *)
Example scan_inner : url_scan w (T "http://a/b;x y") 0 None = (T "http://a/b;x y", {| c_pos := 14; c_rest := [] |}, Some 121).
Proof. vm_compute. reflexivity. Qed.
(** a glued ';' is kept in the URL text and diagnosed by the tail *)
Example scan_glued : url_scan w (T "http://a/b; x") 0 None = (T "http://a/b;", {| c_pos := 11; c_rest := T " x" |}, Some 59).
Proof. vm_compute. reflexivity. Qed.
Example tail_glued : tl true 11 (Some 59) {| c_pos := 11; c_rest := T " x" |} = PErr {| e_kind := EAmbiguous 59; e_start := 10; e_len := 1 |}.
Proof. vm_compute. reflexivity. Qed.
(** oddity: a '#' after a blank ends the URL, but the tail then rejects the '#' itself *)
Example tail_hash : (let '(_, cur, l) := url_scan w (T "http://a/b #c") 0 None in tl true (c_pos cur) l cur)
  = PErr {| e_kind := EEndOrSemi; e_start := 11; e_len := 1 |}.
Proof. vm_compute. reflexivity. Qed.
(** expansion: set, doubled dollar + unset, lower case, empty name, PROJECT_ROOT, unterminated *)
Example expand_ex : expand env (T "/root") (T "${HOME}/$${X_1}/${a}/${}/${PROJECT_ROOT}${HOME")
  = T "/h/$${X_1}/${a}/${}//root${HOME".
Proof. vm_compute. reflexivity. Qed.
End UrlExamples.
