(** L4/L3: the marker text parser of src/marker/parse.rs (tokens, typed dispatch with report-then-drop
    branches, and/or folding), as repaired (F6a/b: byte lengths, F6c: `'x' ~= key` is reported and dropped,
    F7: `and` / `or` are read as words).  Definitions only.

    Oracles (answers of dependencies, supplied per case by the correspondence run and universally
    quantified in the theorems): Unicode classes [ws], [alpha], [alnum]; PEP 440 text syntax:
    [vparse] (Version::from_str), [specpat] (VersionPattern::from_str + VersionSpecifier::from_pattern),
    [specver] (Version::from_str + VersionSpecifier::from_version); the keyword table [kw]. *)
From Coq Require Import List Bool NArith.
From PV Require Import Base.Order Base.CutDef DD.DDModel Names.NameModel Marker.Concrete Marker.Expr Text.Cursor.
Import ListNotations.
Open Scope N_scope.

Inductive wkind := WDeprecated | WExtraInvalid | WLexicographic | WMarkerMarker | WPep440 | WStringString.

Inductive ekind :=
| EValueEnd            (* Expected marker value, found end of dependency specification *)
| EValueName           (* Expected a quoted string or a valid marker name, found `..` *)
| EOperator            (* Expected a valid marker operator (such as `>=` or `not in`), found `..` *)
| ENotEnd              (* Expected whitespace after 'not', found end of input *)
| ENotOther            (* Expected whitespace after `not`, found `x` *)
| ECharEnd (c : N)     (* Expected 'c', found end of dependency specification *)
| ECharOther (c : N)   (* Expected `c`, found `x` *)
| EUnexpectedAndOr     (* Unexpected character 'x', expected 'and', 'or' or end of input *)
| EUnexpectedEnd       (* Unexpected character 'x', expected end of input *)
(* requirement level (src/lib.rs, src/unnamed.rs) *)
| EEmpty               (* Empty field is not allowed for PEP508 *)
| ENameStart           (* Expected package name starting with an alphanumeric character, found `x` *)
| ENameEnd             (* Package name must end with an alphanumeric character, not 'x' *)
| EUnsupportedPath     (* UnsupportedRequirement: ... `package_name @ /path/to/file` *)
| EUnsupportedUrl      (* UnsupportedRequirement: ... `package_name @ https://...` *)
| EExtrasComma         (* Expected either alphanumerical character ... or `]` ..., found `,` *)
| EExtrasSep           (* Expected either `,` (separating extras) or `]` (ending the extras section), found `x` *)
| EExtrasEof           (* Missing closing bracket (expected ']', found end of dependency specification) *)
| EExtrasStart         (* Expected an alphanumeric character starting the extra name, found `x` *)
| EExtrasChar          (* Invalid character in extras name, expected ..., found `x` *)
| EExtrasEnd           (* Extra name must end with an alphanumeric character, not 'x' *)
| EExpectedUrl         (* Expected URL *)
| EUrl                 (* UrlError: the URL type's own error *)
| ESpec                (* the PEP 440 specifier parser's error *)
| EParenMissing        (* Missing closing parenthesis (expected ')', found end of dependency specification) *)
| EExpectedOneOf       (* Expected one of `@`, `(`, `<`, `=`, `>`, `~`, `!`, `;`, found `x` *)
| EAmbiguous (c : N)   (* Missing space before 'c', the end of the URL is ambiguous *)
| EEndOrSemi           (* Expected end of input or `;`, found `x` *)
| EEnd                 (* Expected end of input, found `x` *)
| EPanic.              (* an `expect` / `unwrap` site: never reached (theorem no_panic) *)

Record perr := { e_kind : ekind; e_start : N; e_len : N }.
Inductive pres (A : Type) := POk (a : A) | PErr (e : perr).
Arguments POk {A} a. Arguments PErr {A} e.

Inductive mvalue := MVVersion (k : N) | MVString (k : N) | MVExtra | MVQuoted (s : text).
Inductive mop := OpEq | OpNe | OpGt | OpGe | OpLt | OpLe | OpTilde | OpIn | OpNotIn.

Section Parser.
Variables ws alpha alnum : N -> bool.
Variable kw : list (text * mvalue).
Variable vparse : text -> option rawversion.
Variable specpat : vop -> text -> option (vop * list N).
Variable specver : vop -> text -> option (vop * list N).
Variables pv pfv : N.

Definition text_eqb (a b : text) : bool := str_eqb a b.
Fixpoint lookup_kw (l : list (text * mvalue)) (s : text) : option mvalue :=
  match l with [] => None | (k, v) :: l' => if text_eqb k s then Some v else lookup_kw l' s end.

Definition mem (c : N) (l : list N) : bool := existsb (N.eqb c) l.

Definition next_expect_char (expected span_start : N) (c : cursor) : pres cursor :=
  match c_next c with
  | None => PErr {| e_kind := ECharEnd expected; e_start := span_start; e_len := 1 |}
  | Some (pos, x, c') => if x =? expected then POk c'
                         else PErr {| e_kind := ECharOther expected; e_start := pos; e_len := utf8_len x |}
  end.

Definition op_of_text (s : text) : option mop :=
  if text_eqb s [61; 61] then Some OpEq else if text_eqb s [33; 61] then Some OpNe
  else if text_eqb s [62] then Some OpGt else if text_eqb s [62; 61] then Some OpGe
  else if text_eqb s [60] then Some OpLt else if text_eqb s [60; 61] then Some OpLe
  else if text_eqb s [126; 61] then Some OpTilde else if text_eqb s [105; 110] then Some OpIn
  else None.

Definition parse_marker_operator (c : cursor) : pres (mop * cursor) :=
  let is_alpha_first := match c_peek c with Some x => alpha x | None => false end in
  let '(opt, start, len, c1) :=
    if is_alpha_first then c_take_while (fun x => negb (ws x) && negb (x =? 39) && negb (x =? 34)) c
    else c_take_while (fun x => mem x [60; 61; 62; 126; 33]) c in
  if text_eqb opt [110; 111; 116] then
    match c_next c1 with
    | None => PErr {| e_kind := ENotEnd; e_start := c_pos c1; e_len := 1 |}
    | Some (pos, x, c2) =>
        if ws x then
          let c3 := c_eat_whitespace ws c2 in
          match next_expect_char 105 (c_pos c3) c3 with
          | PErr e => PErr e
          | POk c4 => match next_expect_char 110 (c_pos c4) c4 with
                      | PErr e => PErr e
                      | POk c5 => POk (OpNotIn, c5)
                      end
          end
        else PErr {| e_kind := ENotOther; e_start := pos; e_len := utf8_len x |}
    end
  else match op_of_text opt with
       | Some o => POk (o, c1)
       | None => PErr {| e_kind := EOperator; e_start := start; e_len := len |}
       end.

Definition parse_marker_value (c : cursor) : pres (mvalue * cursor) :=
  match c_peek c with
  | None => PErr {| e_kind := EValueEnd; e_start := c_pos c; e_len := 1 |}
  | Some q =>
      if (q =? 34) || (q =? 39) then
        match c_next c with
        | None => PErr {| e_kind := EValueEnd; e_start := c_pos c; e_len := 1 |}
        | Some (start_pos, _, c1) =>
            let '(value, _, _, c2) := c_take_while (fun x => negb (x =? q)) c1 in
            match next_expect_char q start_pos c2 with
            | PErr e => PErr e
            | POk c3 => POk (MVQuoted value, c3)
            end
        end
      else
        let '(key, start, len, c1) := c_take_while (fun x => negb (ws x) && negb (mem x [62; 61; 60; 33; 126; 41])) c in
        match lookup_kw kw key with
        | Some v => POk (v, c1)
        | None => PErr {| e_kind := EValueName; e_start := start; e_len := len |}
        end
  end.

Definition vop_of (o : mop) : option vop :=
  match o with
  | OpEq => Some OEq | OpNe => Some ONe | OpGt => Some OGt | OpGe => Some OGe
  | OpLt => Some OLt | OpLe => Some OLe | OpTilde => Some OTilde | OpIn | OpNotIn => None
  end.
Definition sop_of (o : mop) : option sop :=
  match o with
  | OpEq => Some SEq | OpNe => Some SNe | OpGt => Some SGt | OpGe => Some SGe
  | OpLt => Some SLt | OpLe => Some SLe | _ => None
  end.
Definition invert (o : mop) : mop :=
  match o with OpLt => OpGt | OpLe => OpGe | OpGt => OpLt | OpGe => OpLe | x => x end.

(** the white-space separated versions of an in-list; [None] as soon as one piece is not a version *)
Fixpoint version_list (fuel : nat) (c : cursor) : option (list rawversion) :=
  match fuel with
  | O => Some []
  | S f =>
      let c1 := c_eat_whitespace ws c in
      let '(piece, _, len, c2) := c_take_while (fun x => negb (ws x)) c1 in
      match piece with
      | [] => Some []
      | _ => match vparse piece with
             | None => None
             | Some v => match version_list f c2 with None => None | Some vs => Some (v :: vs) end
             end
      end
  end.

(** [ExtraName::from_str] on a marker value (names are ASCII: any other code point is invalid) *)
Definition extra_name (s : text) : option text :=
  if forallb (fun x => x <? 128) s then normalize_ref s else None.

Definition parse_extra_expr (o : mop) (s : text) : option mexpr * list wkind :=
  let '(arb, name, w1) := match extra_name s with
                         | Some n => (false, n, [])
                         | None => (true, s, [WExtraInvalid])
                         end in
  match o with
  | OpEq => (Some (EExtra false arb name), w1)
  | OpNe => (Some (EExtra true arb name), w1)
  | _ => (None, w1 ++ [WExtraInvalid])
  end.

Definition parse_version_expr (k : N) (o : mop) (s : text) : option mexpr * list wkind :=
  match vop_of o with
  | None => (None, [WPep440])
  | Some op => match specpat op s with
               | Some (op', rel) => (Some (EVersion k op' rel), [])
               | None => (None, [WPep440])
               end
  end.

Definition parse_inverted_version_expr (s : text) (o : mop) (k : N) : option mexpr * list wkind :=
  match vop_of (invert o) with
  | None => (None, [WPep440])
  | Some op => match specver op s with
               | Some (op', rel) => (Some (EVersion k op' rel), [])
               | None => (None, [WPep440])
               end
  end.

(** [parse_marker_key_op_value] after the three tokens: the typed expression, or a reported drop *)
Definition typed_of_cmp (l : mvalue) (o : mop) (r : mvalue) : option mexpr * list wkind :=
  match l with
  | MVVersion k =>
      match r with
      | MVQuoted s =>
          match o with
          | OpIn | OpNotIn =>
              match version_list (S (length s)) (c_new s) with
              | Some vs => (Some (EVersionIn k vs (match o with OpNotIn => true | _ => false end)), [])
              | None => let (e, w) := parse_version_expr k o s in (e, WPep440 :: w)
              end
          | _ => parse_version_expr k o s
          end
      | _ => (None, [WPep440])
      end
  | MVString k =>
      match r with
      | MVQuoted s =>
          match o with
          | OpTilde => (None, [WLexicographic])
          | OpIn => (Some (EIn k s false), [])
          | OpNotIn => (Some (EIn k s true), [])
          | _ => match sop_of o with Some so => (Some (EString k so s), []) | None => (None, []) end
          end
      | _ => (None, [WMarkerMarker])
      end
  | MVExtra =>
      match r with
      | MVQuoted s => parse_extra_expr o s
      | _ => (None, [WExtraInvalid])
      end
  | MVQuoted ls =>
      match r with
      | MVVersion k => parse_inverted_version_expr ls o k
      | MVString k =>
          match o with
          | OpTilde => (None, [WLexicographic])
          | OpIn => (Some (EContains k ls false), [])          (* 'v' in key *)
          | OpNotIn => (Some (EContains k ls true), [])
          | _ => match sop_of (invert o) with Some so => (Some (EString k so ls), []) | None => (None, []) end
          end
      | MVExtra => parse_extra_expr o ls
      | MVQuoted _ => (None, [WStringString])
      end
  end.

Definition parse_key_op_value (c : cursor) : pres (option mexpr * list wkind * cursor) :=
  let c0 := c_eat_whitespace ws c in
  match parse_marker_value c0 with
  | PErr e => PErr e
  | POk (l, c1) =>
      let c2 := c_eat_whitespace ws c1 in
      match parse_marker_operator c2 with
      | PErr e => PErr e
      | POk (o, c3) =>
          let c4 := c_eat_whitespace ws c3 in
          match parse_marker_value c4 with
          | PErr e => PErr e
          | POk (r, c5) => let (e, w) := typed_of_cmp l o r in POk (e, w, c5)
          end
      end
  end.

Definition word_char (x : N) : bool := alnum x || (x =? 95) || (x =? 46).

Definition combine (is_and : bool) (acc : option mdd) (x : option mdd) : option mdd :=
  match acc, x with
  | Some a, Some b => Some (if is_and then m_and a b else m_or a b)
  | None, Some b => Some b
  | a, None => a
  end.

(** or / and / expr descent; [fuel] bounds the nesting and the number of operands (the input length suffices) *)
Fixpoint parse_or (fuel : nat) (c : cursor) : pres (option mdd * list wkind * cursor) :=
  match fuel with
  | O => PErr {| e_kind := EPanic; e_start := 0; e_len := 0 |}    (* out of fuel: never (theorem no_panic) *)
  | S f =>
      let parse_expr (c : cursor) : pres (option mdd * list wkind * cursor) :=
        let c0 := c_eat_whitespace ws c in
        match c_eat_char 40 c0 with
        | Some (start_pos, c1) =>
            match parse_or f c1 with
            | PErr e => PErr e
            | POk (m, w, c2) => match next_expect_char 41 start_pos c2 with
                                | PErr e => PErr e
                                | POk c3 => POk (m, w, c3)
                                end
            end
        | None =>
            match parse_key_op_value c0 with
            | PErr e => PErr e
            | POk (e, w, c1) => POk (option_map (expression pv pfv) e, w, c1)
            end
        end in
      let chain (kwd : text) (is_and : bool) (inner : cursor -> pres (option mdd * list wkind * cursor)) :=
        fix loop (n : nat) (acc : option mdd) (w : list wkind) (c : cursor) : pres (option mdd * list wkind * cursor) :=
          match n with
          | O => POk (acc, w, c)
          | S n' =>
              let c0 := c_eat_whitespace ws c in
              let '(word, _, _) := c_peek_while word_char c0 in
              if text_eqb word kwd then
                let '(_, _, _, c1) := c_take_while word_char c0 in
                match inner c1 with
                | PErr e => PErr e
                | POk (x, w', c2) => loop n' (combine is_and acc x) (w ++ w') c2
                end
              else POk (acc, w, c0)
          end in
      let parse_and (c : cursor) : pres (option mdd * list wkind * cursor) :=
        match parse_expr c with
        | PErr e => PErr e
        | POk (x, w, c1) => chain [97; 110; 100] true parse_expr (S (length (c_rest c1))) x w c1
        end in
      match parse_and c with
      | PErr e => PErr e
      | POk (x, w, c1) => chain [111; 114] false parse_and (S (length (c_rest c1))) x w c1
      end
  end.

(** [parse_markers_cursor]: the rest of the input must be consumed *)
Definition parse_markers_cursor (c : cursor) : pres (option mdd * list wkind * cursor) :=
  match parse_or (S (length (c_rest c))) c with
  | PErr e => PErr e
  | POk (m, w, c1) =>
      let c2 := c_eat_whitespace ws c1 in
      match c_next c2 with
      | Some (pos, _, c3) =>
          PErr {| e_kind := EUnexpectedAndOr; e_start := pos; e_len := prefix_len (c_remaining c3) (c_rest c2) |}
      | None => POk (m, w, c2)
      end
  end.

(** [parse_markers]: a tree consisting entirely of dropped expressions is TRUE *)
Definition parse_markers (s : text) : pres (mdd * list wkind) :=
  match parse_markers_cursor (c_new s) with
  | PErr e => PErr e
  | POk (m, w, _) => POk (match m with Some t => t | None => Leaf true end, w)
  end.

(** [MarkerExpression::parse_reporter] *)
Definition parse_expression (s : text) : pres (option mexpr * list wkind) :=
  match parse_key_op_value (c_new s) with
  | PErr e => PErr e
  | POk (e, w, c1) =>
      let c2 := c_eat_whitespace ws c1 in
      match c_next c2 with
      | Some (pos, _, c3) =>
          PErr {| e_kind := EUnexpectedEnd; e_start := pos; e_len := prefix_len (c_remaining c3) (c_rest c2) |}
      | None => POk (e, w)
      end
  end.
End Parser.
