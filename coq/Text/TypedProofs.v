(** C17: meaningless comparisons are reported and dropped; meaningful ones are silent - for every
    answer the PEP 440 oracles may give. *)
From Coq Require Import List Bool NArith.
From PV Require Import Base.Order Base.CutDef DD.DDModel Names.NameModel Marker.Concrete Marker.Expr Text.Cursor Text.MarkerParse.
Import ListNotations.
Open Scope N_scope.

Section Typed.
Variable ws : N -> bool.
Variable vparse : text -> option rawversion.
Variable specpat : vop -> text -> option (vop * list N).
Variable specver : vop -> text -> option (vop * list N).
Notation typed := (typed_of_cmp ws vparse specpat specver).

Definition is_eq_ne (o : mop) : bool := match o with OpEq | OpNe => true | _ => false end.
Definition is_tilde (o : mop) : bool := match o with OpTilde => true | _ => false end.
Definition is_key (v : mvalue) : bool := match v with MVQuoted _ => false | _ => true end.

(** the comparisons that cannot be interpreted whatever the literal says, with the kind of warning due *)
Definition bogus (l : mvalue) (o : mop) (r : mvalue) : option wkind :=
  match l, r with
  | MVQuoted _, MVQuoted _ => Some WStringString                                   (* two literals *)
  | MVVersion _, MVQuoted _ | MVQuoted _, MVVersion _ => None                      (* depends on the literal: see below *)
  | MVVersion _, _ => Some WPep440                                                 (* version key against a key *)
  | MVString _, MVQuoted _ | MVQuoted _, MVString _ => if is_tilde o then Some WLexicographic else None
  | MVString _, _ => Some WMarkerMarker                                            (* two keys *)
  | MVExtra, MVQuoted _ | MVQuoted _, MVExtra => if is_eq_ne o then None else Some WExtraInvalid
  | MVExtra, _ => Some WExtraInvalid
  end.

Theorem drop_reported (l r : mvalue) (o : mop) (k : wkind) :
  bogus l o r = Some k -> fst (typed l o r) = None /\ In k (snd (typed l o r)).
Proof.
  destruct l as [kl|kl| |sl], r as [kr|kr| |sr]; cbn [bogus]; intros E; try discriminate; try (injection E as <-; cbn; auto).
  - destruct o; cbn in E; try discriminate. injection E as <-. cbn. auto.
  - unfold typed_of_cmp, parse_extra_expr. destruct (extra_name sr); destruct o; cbn in E; try discriminate; injection E as <-; cbn; auto.
  - destruct o; cbn in E; try discriminate. injection E as <-. cbn. auto.
  - unfold typed_of_cmp, parse_extra_expr. destruct (extra_name sl); destruct o; cbn in E; try discriminate; injection E as <-; cbn; auto.
Qed.

(** a version key against text that is not a version (or not valid with the operator) is dropped with a PEP 440 warning *)
Theorem drop_bad_version (k : N) (o : mop) (s : text) :
  (forall op, vop_of o = Some op -> specpat op s = None) -> (match o with OpIn | OpNotIn => version_list ws vparse (S (length s)) (c_new s) = None | _ => True end) ->
  fst (typed (MVVersion k) o (MVQuoted s)) = None /\ In WPep440 (snd (typed (MVVersion k) o (MVQuoted s))).
Proof.
  intros Hs Hl. unfold typed_of_cmp, parse_version_expr.
  destruct o; cbn [vop_of] in *; try (rewrite (Hs _ eq_refl); cbn; auto); rewrite Hl; cbn; auto.
Qed.

Theorem drop_bad_version_inverted (k : N) (o : mop) (s : text) :
  (forall op, vop_of (invert o) = Some op -> specver op s = None) ->
  fst (typed (MVQuoted s) o (MVVersion k)) = None /\ In WPep440 (snd (typed (MVQuoted s) o (MVVersion k))).
Proof.
  intros Hs. unfold typed_of_cmp, parse_inverted_version_expr.
  destruct (vop_of (invert o)) as [op|] eqn:E; [rewrite (Hs op eq_refl)|]; cbn; auto.
Qed.

(** comparisons that can be interpreted report nothing - except `extra` against text that is not a valid
    extra name, which is reported, kept, and marked arbitrary (it never matches: C11) *)
Theorem clean_silent (l r : mvalue) (o : mop) (e : mexpr) :
  fst (typed l o r) = Some e ->
  snd (typed l o r) = [] \/ (exists neg name, e = EExtra neg true name /\ snd (typed l o r) = [WExtraInvalid]).
Proof.
  destruct l as [kl|kl| |sl], r as [kr|kr| |sr]; cbn [typed_of_cmp fst snd]; try discriminate.
  - destruct o; unfold parse_version_expr; cbn [vop_of];
      try (destruct (specpat _ sr) as [[op' rel]|]; cbn; [auto|discriminate]).
    + destruct (version_list ws vparse (S (length sr)) (c_new sr)); cbn; [auto|discriminate].
    + destruct (version_list ws vparse (S (length sr)) (c_new sr)); cbn; [auto|discriminate].
  - destruct o; cbn; auto; discriminate.
  - unfold parse_extra_expr. destruct (extra_name sr) as [n|]; destruct o; cbn; try discriminate; auto;
      intros [= <-]; right; eauto.
  - unfold parse_inverted_version_expr. destruct (vop_of (invert o)) as [op|]; [|discriminate].
    destruct (specver op sl) as [[op' rel]|]; cbn; [auto|discriminate].
  - destruct o; cbn; auto; discriminate.
  - unfold parse_extra_expr. destruct (extra_name sl) as [n|]; destruct o; cbn; try discriminate; auto;
      intros [= <-]; right; eauto.
Qed.

(** the diagram built for a comparison does not depend on who listens to the warnings: [typed_of_cmp] is a
    function of the three tokens and the oracle answers only *)
End Typed.
