(** C07/C08: the acceptance theorem of the requirement parser: every string derivable from the
    grammar is accepted and decomposed into the derivation's components whatever the optional white
    space; corollary: the Display round trip. *)
From Coq Require Import List Bool NArith String Ascii Arith Lia ZifyBool ZifyN.
From PV Require Import Base.Order Base.CutDef DD.DDModel Names.NameModel Names.NameProofs Marker.Concrete Marker.Expr Text.Cursor Text.MarkerParse Text.ReqParse Text.SpanBase.
Import ListNotations.
Open Scope N_scope.
Arguments N.add : simpl never.
Arguments N.sub : simpl never.
Arguments N.eqb : simpl never.
Arguments N.ltb : simpl never.
Arguments N.leb : simpl never.
Arguments N.compare : simpl never.

(** ** generic facts *)
Definition hd_no (p : N -> bool) (r : text) : Prop := match r with [] => True | x :: _ => p x = false end.

Lemma twa_exact p a b : forallb p a = true -> hd_no p b -> take_while_aux p (a ++ b) = (a, b).
Proof.
  induction a as [|x a IH]; cbn [app forallb take_while_aux].
  - intros _ Hb. destruct b as [|y b]; [reflexivity|]. cbn in Hb. cbn [take_while_aux]. now rewrite Hb.
  - intros H Hb. apply andb_true_iff in H as [H1 H2]. rewrite H1, (IH H2 Hb). reflexivity.
Qed.

Lemma ctw_exact p pos a b : forallb p a = true -> hd_no p b ->
  c_take_while p {| c_pos := pos; c_rest := a ++ b |} = (a, pos, text_len a, {| c_pos := pos + text_len a; c_rest := b |}).
Proof. intros Ha Hb. unfold c_take_while. cbn [c_rest c_pos]. now rewrite (twa_exact p a b Ha Hb). Qed.

Lemma last_opt_last (x : N) l : last_opt (x :: l) = Some (last (x :: l) 0).
Proof.
  assert (x :: l <> []) as Hne by discriminate.
  destruct (exists_last Hne) as (l' & a & E). rewrite E. unfold last_opt. rewrite rev_app_distr. cbn [rev app].
  now rewrite last_last.
Qed.

Lemma alnum_not_punct x : NameModel.alnum x = true -> is_punct x = false.
Proof.
  unfold NameModel.alnum. intros H. apply orb_true_iff in H as [H|H].
  - apply orb_true_iff in H as [H|H]; [now apply upper_not_punct|]. apply lowdig_not_punct. now rewrite H.
  - apply lowdig_not_punct. rewrite H. apply orb_true_r.
Qed.

Lemma norm_valid s n : normalize_owned s = Some n -> valid_name s = true.
Proof. rewrite owned_eq_ref. intros H. apply accept_iff. now exists n. Qed.

Lemma valid_norm s : valid_name s = true -> exists n, normalize_owned s = Some n.
Proof. rewrite owned_eq_ref. apply accept_iff. Qed.

Lemma valid_name_dest name : valid_name name = true ->
  exists ch more, name = ch :: more /\ ascii_alnum ch = true /\ forallb name_char more = true /\ is_punct (last (ch :: more) 0) = false.
Proof.
  intros V. destruct name as [|ch more]; [discriminate|]. unfold valid_name in V.
  apply andb_true_iff in V as [V A2]. apply andb_true_iff in V as [F A1].
  cbn [forallb] in F. apply andb_true_iff in F as [_ Fm].
  exists ch, more. split; [reflexivity|]. split; [exact A1|]. split; [exact Fm|]. now apply alnum_not_punct.
Qed.

Lemma alnum_not_delim x : ascii_alnum x = true -> (x =? 93) = false /\ (x =? 44) = false.
Proof. unfold ascii_alnum, is_upper, is_lower, is_digit. lia. Qed.

Lemma alnum_name_char x : ascii_alnum x = true -> name_char x = true.
Proof. unfold name_char. now intros ->. Qed.

Lemma match93 {A} (x : N) (a b : A) : x <> 93 -> match x with 93 => a | _ => b end = b.
Proof.
  intros H. destruct x as [|p]; [reflexivity|].
  do 7 (try (destruct p as [p|p|]; try reflexivity)). congruence.
Qed.

Section Accept.
Variables ws alpha alnum : N -> bool.
Variable kw : list (text * mvalue).
Variable vparse : text -> option rawversion.
Variable specpat : vop -> text -> option (vop * list N).
Variable specver : vop -> text -> option (vop * list N).
Variables pv pfv : N.
Variable specparse : text -> option spec.
Variable url_oracle : ukind -> text -> option text.
Variable getenv : text -> option text.
Variable project_root : text.
Variables verbatim ext : bool.

(** real white space is never a name character nor one of the delimiters of the grammar *)
Hypothesis Hws_name : forall x, name_char x = true -> ws x = false.
Hypothesis Hws_delims : forall x, In x [91;93;44;64;40;41;59;60;61;62;126;33] -> ws x = false.

Notation eat_ws := (c_eat_whitespace ws).
Notation PName := (parse_name ws getenv project_root).
Notation PExtras := (parse_extras ws).
Notation ELoop := (extras_loop ws).
Notation SBareF := (specs_bare specparse).
Notation SParenF := (specs_paren specparse).
Notation UScan := (url_scan ws).
Notation PUrl := (parse_url ws url_oracle getenv project_root verbatim ext).
Notation PUrlT := (parse_url_T url_oracle getenv project_root verbatim ext).
Notation PMC := (parse_markers_cursor ws alpha alnum kw vparse specpat specver pv pfv).
Notation PTail := (parse_tail ws alpha alnum kw vparse specpat specver pv pfv).
Notation PReq := (parse_requirement ws alpha alnum kw vparse specpat specver pv pfv specparse url_oracle getenv project_root verbatim ext).

Definition blank (w : text) : Prop := forallb ws w = true.

Lemma blank_nil : blank []. Proof. reflexivity. Qed.
Lemma blank_app a b : blank a -> blank b -> blank (a ++ b).
Proof. unfold blank. intros Ha Hb. now rewrite forallb_app, Ha, Hb. Qed.
Lemma blank_cons x a : ws x = true -> blank a -> blank (x :: a).
Proof. unfold blank. intros Hx Ha. cbn [forallb]. now rewrite Hx, Ha. Qed.

(** a blank prefix does not change what the head of the text excludes, for classes disjoint from [ws] *)
Lemma hd_no_blank_app p w r : (forall x, ws x = true -> p x = false) -> blank w -> hd_no p r -> hd_no p (w ++ r).
Proof. intros Hp Hw Hr. destruct w as [|x w]; [exact Hr|]. cbn. apply Hp. unfold blank in Hw. cbn in Hw. now apply andb_true_iff in Hw as [Hx _]. Qed.

Lemma ws_not_name x : ws x = true -> name_char x = false.
Proof. intros H. destruct (name_char x) eqn:E; [|reflexivity]. rewrite (Hws_name x E) in H. discriminate. Qed.

(** ** [eat_ws] *)
Lemma eat_ws_exact pos w r : blank w -> hd_no ws r ->
  eat_ws {| c_pos := pos; c_rest := w ++ r |} = {| c_pos := pos + text_len w; c_rest := r |}.
Proof. intros Hw Hr. unfold c_eat_whitespace. now rewrite (ctw_exact ws pos w r Hw Hr). Qed.

Lemma eat_ws_stop c : hd_no ws (c_rest c) -> eat_ws c = c.
Proof.
  destruct c as [pos r]. cbn [c_rest]. intros Hr. pose proof (eat_ws_exact pos [] r blank_nil Hr) as E.
  cbn [app text_len] in E. rewrite E. f_equal. lia.
Qed.

Lemma eat_ws_all pos w : blank w -> eat_ws {| c_pos := pos; c_rest := w |} = {| c_pos := pos + text_len w; c_rest := [] |}.
Proof. intros Hw. rewrite <- (app_nil_r w) at 1. apply eat_ws_exact; [exact Hw|exact I]. Qed.

(** ** [parse_name] *)
Lemma parse_name_ok pos name n rest : normalize_owned name = Some n -> hd_no name_char rest ->
  PName {| c_pos := pos; c_rest := name ++ rest |} = POk (n, name, {| c_pos := pos + text_len name; c_rest := rest |}).
Proof.
  intros Hn Hr. destruct (valid_name_dest name (norm_valid name n Hn)) as (ch & more & -> & A1 & Fm & A2).
  unfold parse_name, c_next. cbn [c_rest c_pos app]. rewrite A1.
  rewrite (ctw_exact name_char _ more rest Fm Hr).
  rewrite last_opt_last, A2, Hn. cbn [text_len]. now rewrite N.add_assoc.
Qed.

(** ** extras *)
Definition item_text (it : text * text * text) : text := let '(a, id, b) := it in a ++ id ++ b.
Definition extras_text (x : option (text * list (text * text * text))) : text :=
  match x with None => [] | Some (w0, items) => 91 :: w0 ++ join [44] (map item_text items) ++ [93] end.

(** one iteration of [extras_loop] after the separator *)
Definition extras_item (f : nat) (bracket_pos : N) (c1 : cursor) (acc : list text) : pres (list text * cursor) :=
  let c2 := eat_ws c1 in
  match c_next c2 with
  | None => err EExtrasEof bracket_pos 1
  | Some (pos, a, c3) =>
      if ascii_alnum a then
        let '(more, _, _, c4) := c_take_while name_char c3 in
        let buffer := a :: more in
        let bad := match c_next c4 with
                   | Some (p, ch, _) => if negb (ch =? 44) && negb (ch =? 93) && negb (ws ch) then Some (p, ch) else None
                   | None => None
                   end in
        match bad with
        | Some (p, ch) => err EExtrasChar p (utf8_len ch)
        | None =>
            match last_opt buffer with
            | Some l =>
                if is_punct l then err EExtrasEnd (c_pos c4 - 1) 1
                else match normalize_owned buffer with
                     | Some n => ELoop f bracket_pos (eat_ws c4) (n :: acc) false
                     | None => err EPanic 0 0
                     end
            | None => err EPanic 0 0
            end
        end
      else err EExtrasStart pos (utf8_len a)
  end.

Lemma extras_loop_S f bp c acc first :
  ELoop (S f) bp c acc first =
  match c_next c with
  | None => extras_item f bp c acc
  | Some (pos, x, c') =>
      if x =? 93 then POk (rev acc, c')
      else if x =? 44 then (if first then err EExtrasComma pos 1 else extras_item f bp c' acc)
      else if first then extras_item f bp c acc else err EExtrasSep pos (utf8_len x)
  end.
Proof.
  cbn [extras_loop]. destruct (c_next c) as [[[pos x] c']|] eqn:E; [|reflexivity].
  destruct first.
  - destruct x as [|p]; [reflexivity|].
    do 7 (try (destruct p as [p|p|]; try (first [reflexivity | destruct (_ =? 44); reflexivity]))).
  - destruct x as [|p]; [reflexivity|].
    do 7 (try (destruct p as [p|p|]; try (first [reflexivity | destruct (_ =? 44); reflexivity]))).
Qed.

Definition item_ok (it : text * text * text) (n : text) : Prop :=
  let '(a, id, b) := it in blank a /\ blank b /\ normalize_owned id = Some n.
Definition items_ok (its : list (text * text * text)) (ids : list text) : Prop := Forall2 item_ok its ids.
Definition extras_ok (x : option (text * list (text * text * text))) (ids : list text) : Prop :=
  match x with None => ids = [] | Some (w0, its) => blank w0 /\ items_ok its ids end.

(** the text from a separator on *)
Fixpoint ext_tail (its : list (text * text * text)) (rest : text) : text :=
  match its with [] => 93 :: rest | (a, id, b) :: its' => 44 :: a ++ id ++ b ++ ext_tail its' rest end.

Definition sep_start (tl : text) : Prop := exists t, tl = 44 :: t \/ tl = 93 :: t.

Lemma ext_tail_sep its rest : sep_start (ext_tail its rest).
Proof. destruct its as [|[[a id] b] its]; cbn [ext_tail]; eexists; [right|left]; reflexivity. Qed.

Lemma sep_start_ws tl : sep_start tl -> hd_no ws tl.
Proof. intros (t & [->| ->]); cbn; apply Hws_delims; cbn; tauto. Qed.

Lemma sep_start_name tl : sep_start tl -> hd_no name_char tl.
Proof. intros (t & [->| ->]); reflexivity. Qed.

Lemma join_items a id b its rest :
  join [44] (map item_text ((a, id, b) :: its)) ++ 93 :: rest = a ++ id ++ b ++ ext_tail its rest.
Proof.
  revert a id b. induction its as [|[[a' id'] b'] its IH]; intros a id b.
  - cbn [map join item_text ext_tail]. now rewrite <- !app_assoc.
  - change (map item_text ((a, id, b) :: (a', id', b') :: its)) with (item_text (a, id, b) :: map item_text ((a', id', b') :: its)).
    cbn [join]. change (map item_text ((a', id', b') :: its)) with (item_text (a', id', b') :: map item_text its).
    cbv iota. fold (map item_text). 
    change (item_text (a', id', b') :: map item_text its) with (map item_text ((a', id', b') :: its)).
    rewrite <- !app_assoc. rewrite (IH a' id' b'). cbn [item_text ext_tail app]. now rewrite <- !app_assoc.
Qed.

Lemma bad_none pos b tl : blank b -> sep_start tl ->
  match c_next {| c_pos := pos; c_rest := b ++ tl |} with
  | Some (p, ch, _) => if negb (ch =? 44) && negb (ch =? 93) && negb (ws ch) then Some (p, ch) else None
  | None => None
  end = None.
Proof.
  intros Hb Htl. destruct b as [|x b].
  - destruct Htl as (t & [->| ->]); reflexivity.
  - unfold blank in Hb. cbn [forallb] in Hb. apply andb_true_iff in Hb as [Hx _].
    unfold c_next. cbn [app c_rest]. rewrite Hx. cbn [negb]. now rewrite andb_false_r.
Qed.

Lemma extras_item_ok f bp pos a id b n tl acc : blank a -> blank b -> normalize_owned id = Some n -> sep_start tl ->
  extras_item f bp {| c_pos := pos; c_rest := a ++ id ++ b ++ tl |} acc =
  ELoop f bp {| c_pos := pos + text_len a + text_len id + text_len b; c_rest := tl |} (n :: acc) false.
Proof.
  intros Ha Hb Hn Htl. destruct (valid_name_dest id (norm_valid id n Hn)) as (ch & more & -> & A1 & Fm & A2).
  unfold extras_item. rewrite (eat_ws_exact pos a ((ch :: more) ++ b ++ tl) Ha).
  2:{ cbn. apply Hws_name. now apply alnum_name_char. }
  unfold c_next at 1. cbn [c_rest c_pos app]. rewrite A1.
  assert (hd_no name_char (b ++ tl)) as Hh.
  { apply hd_no_blank_app; [exact ws_not_name|exact Hb|now apply sep_start_name]. }
  rewrite (ctw_exact name_char _ more (b ++ tl) Fm Hh).
  rewrite (bad_none _ b tl Hb Htl). rewrite last_opt_last, A2, Hn.
  rewrite (eat_ws_exact _ b tl Hb (sep_start_ws tl Htl)). cbn [text_len]. now rewrite !N.add_assoc.
Qed.

Lemma extras_loop_tail its : forall ids rest bp pos acc fuel, items_ok its ids ->
  (List.length (ext_tail its rest) < fuel)%nat ->
  exists p', ELoop fuel bp {| c_pos := pos; c_rest := ext_tail its rest |} acc false = POk (rev acc ++ ids, {| c_pos := p'; c_rest := rest |}).
Proof.
  induction its as [|[[a id] b] its IH]; intros ids rest bp pos acc fuel Hok Hf.
  - inversion Hok; subst. destruct fuel as [|f]; [inversion Hf|]. rewrite extras_loop_S.
    cbn [ext_tail]. unfold c_next. cbn [c_rest c_pos]. change (93 =? 93) with true. cbv iota.
    rewrite app_nil_r. eexists. reflexivity.
  - inversion Hok as [|it n its' ids' H1 H2]; subst. destruct H1 as (Ha & Hb & Hn).
    destruct fuel as [|f]; [inversion Hf|]. rewrite extras_loop_S.
    cbn [ext_tail]. unfold c_next. cbn [c_rest c_pos]. change (44 =? 93) with false. change (44 =? 44) with true. cbv iota.
    rewrite (extras_item_ok f bp _ a id b n (ext_tail its rest) acc Ha Hb Hn (ext_tail_sep its rest)).
    cbn [ext_tail List.length] in Hf. rewrite !app_length in Hf.
    destruct (IH ids' rest bp (pos + utf8_len 44 + text_len a + text_len id + text_len b) (n :: acc) f H2 ltac:(lia)) as [p' E].
    exists p'. etransitivity; [exact E|]. cbn [rev]. now rewrite <- app_assoc.
Qed.

Definition hd_ne (k : N) (r : text) : Prop := hd_no (fun x => x =? k) r.

Lemma parse_extras_none c : hd_ne 91 (c_rest c) -> PExtras c = POk ([], c).
Proof.
  unfold parse_extras, c_eat_char, hd_ne. destruct (c_rest c) as [|x r]; [reflexivity|]. cbn. now intros ->.
Qed.

Lemma parse_extras_some pos w0 its ids rest : blank w0 -> items_ok its ids ->
  exists p', PExtras {| c_pos := pos; c_rest := extras_text (Some (w0, its)) ++ rest |} = POk (ids, {| c_pos := p'; c_rest := rest |}).
Proof.
  intros Hw Hok. unfold extras_text. cbn [app]. rewrite <- !app_assoc. cbn [app].
  unfold parse_extras, c_eat_char. cbn [c_rest c_pos]. change (91 =? 91) with true. cbv iota zeta.
  destruct its as [|[[a id] b] its].
  - inversion Hok; subst. cbn [map join app].
    rewrite (eat_ws_exact _ w0 (93 :: rest) Hw). 2:{ apply sep_start_ws. eexists; right; reflexivity. }
    cbn [c_rest]. rewrite extras_loop_S. unfold c_next. cbn [c_rest c_pos]. change (93 =? 93) with true. cbv iota.
    eexists. reflexivity.
  - inversion Hok as [|it n its' ids' H1 H2]; subst. destruct H1 as (Ha & Hb & Hn).
    rewrite join_items.
    destruct (valid_name_dest id (norm_valid id n Hn)) as (ch & more & Eid & A1 & Fm & A2).
    assert (hd_no ws (id ++ b ++ ext_tail its rest)) as Hh.
    { rewrite Eid. cbn. apply Hws_name. now apply alnum_name_char. }
    rewrite (app_assoc w0 a). rewrite (eat_ws_exact _ (w0 ++ a) _ (blank_app _ _ Hw Ha) Hh).
    cbn [c_rest]. rewrite extras_loop_S.
    set (f := List.length (id ++ b ++ ext_tail its rest)).
    assert (List.length (ext_tail its rest) < f)%nat as Hf.
    { subst f. rewrite Eid. cbn [app List.length]. rewrite !app_length. lia. }
    clearbody f.
    pose proof (extras_item_ok f pos (pos + utf8_len 91 + text_len (w0 ++ a)) [] id b n (ext_tail its rest) [] blank_nil Hb Hn (ext_tail_sep its rest)) as E.
    subst id. cbn [app] in E |- *.
    unfold c_next at 1. cbn [c_rest c_pos].
    destruct (alnum_not_delim ch A1) as [-> ->]. rewrite E.
    destruct (extras_loop_tail its ids' rest pos (pos + utf8_len 91 + text_len (w0 ++ a) + text_len [] + text_len (ch :: more) + text_len b) [n] f H2 Hf) as [p' E2].
    exists p'. etransitivity; [exact E2|]. reflexivity.
Qed.

(** ** version specifiers *)
Definition piece_ok (stop : N) (pc : text) (sp : spec) : Prop := ~ In 44 pc /\ ~ In stop pc /\ specparse pc = Some sp.
Definition pieces_ok (stop : N) (ps : list text) (sps : list spec) : Prop := Forall2 (piece_ok stop) ps sps.

Lemma join_cons2 (sep x y : text) l : join sep (x :: y :: l) = x ++ sep ++ join sep (y :: l).
Proof. reflexivity. Qed.

Lemma not_in_cons_eqb (k c : N) pc : ~ In k (c :: pc) -> (c =? k) = false /\ ~ In k pc.
Proof. intros H. split; [apply N.eqb_neq; intros ->; apply H; now left|intros H'; apply H; now right]. Qed.

Lemma specs_bare_piece pc : forall r pos start buf acc, ~ In 44 pc -> ~ In 59 pc ->
  SBareF (pc ++ r) pos start buf acc = SBareF r (pos + text_len pc) start (rev pc ++ buf) acc.
Proof.
  induction pc as [|c pc IH]; intros r pos start buf acc H1 H2.
  - cbn [app rev text_len]. now rewrite N.add_0_r.
  - destruct (not_in_cons_eqb 44 c pc H1) as [E1 H1']. destruct (not_in_cons_eqb 59 c pc H2) as [E2 H2'].
    cbn [app specs_bare]. rewrite E1, E2. rewrite (IH r _ start (c :: buf) acc H1' H2').
    cbn [rev text_len]. now rewrite <- app_assoc, N.add_assoc.
Qed.

Lemma specs_paren_piece pc : forall r pos start bp buf acc, ~ In 44 pc -> ~ In 41 pc ->
  SParenF (pc ++ r) pos start bp buf acc = SParenF r (pos + text_len pc) start bp (rev pc ++ buf) acc.
Proof.
  induction pc as [|c pc IH]; intros r pos start bp buf acc H1 H2.
  - cbn [app rev text_len]. now rewrite N.add_0_r.
  - destruct (not_in_cons_eqb 44 c pc H1) as [E1 H1']. destruct (not_in_cons_eqb 41 c pc H2) as [E2 H2'].
    cbn [app specs_paren]. rewrite E1, E2. rewrite (IH r _ start bp (c :: buf) acc H1' H2').
    cbn [rev text_len]. now rewrite <- app_assoc, N.add_assoc.
Qed.

Lemma one_spec_ok pc sp start stop : specparse pc = Some sp -> one_spec specparse (rev pc ++ []) start stop = POk sp.
Proof. intros H. unfold one_spec. now rewrite app_nil_r, rev_involutive, H. Qed.

Definition tail_start (T : text) : Prop := T = [] \/ exists t, T = 59 :: t.

Lemma specs_bare_ok ps : forall sps T pos start acc, ps <> [] -> pieces_ok 59 ps sps -> tail_start T ->
  exists p', SBareF (join [44] ps ++ T) pos start [] acc = POk (rev acc ++ sps, {| c_pos := p'; c_rest := T |}).
Proof.
  induction ps as [|pc ps IH]; intros sps T pos start acc Hne Hok HT; [congruence|].
  inversion Hok as [|pc' sp ps' sps' H1 H2]; subst. destruct H1 as (N1 & N2 & Hsp).
  destruct ps as [|q ps].
  - inversion H2; subst. cbn [join]. rewrite (specs_bare_piece pc T pos start [] acc N1 N2).
    destruct HT as [->|[t ->]].
    + cbn [specs_bare]. rewrite (one_spec_ok pc sp _ _ Hsp). eexists. reflexivity.
    + cbn [specs_bare]. change (59 =? 44) with false. change (59 =? 59) with true. cbv iota.
      rewrite (one_spec_ok pc sp _ _ Hsp). eexists. reflexivity.
  - rewrite join_cons2. rewrite <- !app_assoc. cbn [app].
    rewrite (specs_bare_piece pc _ pos start [] acc N1 N2).
    cbn [specs_bare]. change (44 =? 44) with true. cbv iota. rewrite (one_spec_ok pc sp _ _ Hsp).
    destruct (IH sps' T (pos + text_len pc + 1) (pos + text_len pc + 1) (sp :: acc) ltac:(discriminate) H2 HT) as [p' E].
    exists p'. etransitivity; [exact E|]. cbn [rev]. now rewrite <- app_assoc.
Qed.

Lemma specs_paren_ok ps : forall sps rest pos start bp acc, ps <> [] -> pieces_ok 41 ps sps ->
  exists p', SParenF (join [44] ps ++ 41 :: rest) pos start bp [] acc = POk (rev acc ++ sps, {| c_pos := p'; c_rest := rest |}).
Proof.
  induction ps as [|pc ps IH]; intros sps rest pos start bp acc Hne Hok; [congruence|].
  inversion Hok as [|pc' sp ps' sps' H1 H2]; subst. destruct H1 as (N1 & N2 & Hsp).
  destruct ps as [|q ps].
  - inversion H2; subst. cbn [join]. rewrite (specs_paren_piece pc _ pos start bp [] acc N1 N2).
    cbn [specs_paren]. change (41 =? 44) with false. change (41 =? 41) with true. cbv iota.
    rewrite (one_spec_ok pc sp _ _ Hsp). eexists. reflexivity.
  - rewrite join_cons2. rewrite <- !app_assoc. cbn [app].
    rewrite (specs_paren_piece pc _ pos start bp [] acc N1 N2).
    cbn [specs_paren]. change (44 =? 44) with true. cbv iota. rewrite (one_spec_ok pc sp _ _ Hsp).
    destruct (IH sps' rest (pos + text_len pc + 1) (pos + text_len pc + 1) bp (sp :: acc) ltac:(discriminate) H2) as [p' E].
    exists p'. etransitivity; [exact E|]. cbn [rev]. now rewrite <- app_assoc.
Qed.

(** ** the URL *)
Definition url_char (c : N) : Prop := ws c = false /\ c <> 13 /\ c <> 10.

Lemma tail_start_ws T : tail_start T -> hd_no ws T.
Proof. intros [->|[t ->]]; [exact I|]. cbn. apply Hws_delims. cbn. tauto. Qed.

Lemma ws_then_end_ok B T : blank B -> tail_start T -> ws_then_end ws (B ++ T) = true.
Proof.
  intros HB HT. unfold ws_then_end. rewrite (eat_ws_exact 0 B T HB (tail_start_ws T HT)). cbn [c_rest].
  destruct HT as [->|[t ->]]; reflexivity.
Qed.

Lemma url_scan_ok u : forall B T pos last, Forall url_char u -> blank B -> tail_start T -> (T <> [] -> B <> []) ->
  exists B' p' l, UScan (u ++ B ++ T) pos last = (u, {| c_pos := p'; c_rest := B' ++ T |}, l) /\ blank B'.
Proof.
  induction u as [|c u IH]; intros B T pos last Hu HB HT HBT.
  - cbn [app]. destruct B as [|b B].
    + destruct HT as [->|[t ->]]; [|exfalso; apply HBT; [discriminate|reflexivity]].
      exists [], pos, last. split; [reflexivity|exact blank_nil].
    + pose proof HB as HB0. unfold blank in HB. cbn [forallb] in HB. apply andb_true_iff in HB as [Hb HB'].
      cbn [app url_scan]. exists B, (pos + utf8_len b), (Some b). split; [|exact HB'].
      destruct ((b =? 13) || (b =? 10)); [reflexivity|]. rewrite Hb, (ws_then_end_ok B T HB' HT). reflexivity.
  - inversion Hu as [|c' u' Hc Hu']; subst. destruct Hc as (Hw & H13 & H10).
    cbn [app url_scan]. apply N.eqb_neq in H13, H10. rewrite H13, H10, Hw. cbn [orb andb].
    destruct (((c =? 59) || (c =? 35)) && next_is_ws ws (u ++ B ++ T)) eqn:E.
    + apply andb_true_iff in E as [_ E]. destruct u as [|c2 u].
      * exists B, (pos + utf8_len c), (Some c). split; [reflexivity|exact HB].
      * exfalso. cbn [app next_is_ws] in E. inversion Hu' as [|c3 u3 Hc2 _]; subst. destruct Hc2 as (Hw2 & _). congruence.
    + destruct (IH B T (pos + utf8_len c) (Some c) Hu' HB HT HBT) as (B' & p' & l & E' & HB').
      rewrite E'. exists B', p', l. split; [reflexivity|exact HB'].
Qed.

Lemma parse_url_ok pos w u B T d g : blank w -> u <> [] -> Forall url_char u -> blank B -> tail_start T -> (T <> [] -> B <> []) ->
  PUrlT u = Some (d, g) ->
  exists B' p' l, PUrl {| c_pos := pos; c_rest := w ++ u ++ B ++ T |} = POk (d, g, {| c_pos := p'; c_rest := B' ++ T |}, l) /\ blank B'.
Proof.
  intros Hw Hne Hu HB HT HBT Hp. unfold parse_url. cbv zeta.
  assert (hd_no ws (u ++ B ++ T)) as Hh.
  { destruct u as [|c u]; [congruence|]. inversion Hu as [|c' u' Hc _]; subst. cbn. apply Hc. }
  rewrite (eat_ws_exact pos w _ Hw Hh). cbn [c_rest c_pos].
  destruct (url_scan_ok u B T (pos + text_len w) None Hu HB HT HBT) as (B' & p' & l & E & HB').
  rewrite E. destruct u as [|c u]; [congruence|]. rewrite Hp.
  exists B', p', l. split; [reflexivity|exact HB'].
Qed.

(** ** the tail *)
Lemma pmc_end c m w c' : PMC c = POk (m, w, c') -> c_rest c' = [].
Proof.
  unfold parse_markers_cursor. destruct (parse_or _ _ _ _ _ _ _ _ _ _ _) as [[[m1 w1] c1]|e]; [|discriminate].
  destruct (c_next (eat_ws c1)) as [[[p x] c3]|] eqn:E; [discriminate|]. intros [= <- <- <-].
  now apply c_next_none in E.
Qed.

Lemma parse_tail_none iu re last pos B : blank B -> PTail iu re last {| c_pos := pos; c_rest := B |} = POk (None, []).
Proof.
  intros HB. unfold parse_tail. rewrite (eat_ws_all pos B HB). unfold c_next at 1. cbn [c_rest]. cbv iota.
  rewrite (eat_ws_all _ [] blank_nil). reflexivity.
Qed.

Lemma parse_tail_some iu re last pos B mtext mo wm : blank B ->
  (forall p, exists cend, PMC {| c_pos := p; c_rest := mtext |} = POk (mo, wm, cend)) ->
  PTail iu re last {| c_pos := pos; c_rest := B ++ 59 :: mtext |} = POk (mo, wm).
Proof.
  intros HB Hm. unfold parse_tail.
  rewrite (eat_ws_exact pos B (59 :: mtext) HB). 2:{ cbn. apply Hws_delims. cbn. tauto. }
  unfold c_next at 1. cbn [c_rest c_pos]. cbv iota.
  destruct (Hm (pos + text_len B + utf8_len 59)) as [cend E]. rewrite E.
  pose proof (pmc_end _ _ _ _ E) as Hend. destruct cend as [pe r]. cbn [c_rest] in Hend. subst r.
  rewrite (eat_ws_all _ [] blank_nil). reflexivity.
Qed.

(** ** the driver, in stages *)
Definition kind_step (c_init c4 : cursor) : pres (rkind * cursor * option N) :=
  match c_next c4 with
  | None => POk (KNone, c4, None)
  | Some (p, x, c5) =>
      if x =? 64 then
        match PUrl c5 with
        | PErr e => PErr e
        | POk (d, g, c6, last) => POk (KUrl d g, c6, last)
        end
      else if x =? 40 then
        let c6 := eat_ws c5 in
        match SParenF (c_rest c6) (c_pos c6) (c_pos c6) p [] [] with
        | PErr e => PErr e
        | POk (l, c7) => POk (KSpecs (sort_specs l), c7, None)
        end
      else if is_spec_start x then
        match SBareF (c_rest c4) (c_pos c4) (c_pos c4) [] [] with
        | PErr e => PErr e
        | POk (l, c7) => POk (KSpecs (sort_specs l), c7, None)
        end
      else if x =? 59 then POk (KNone, c4, None)
      else
        let (b, len) := looks_like_unnamed ws getenv project_root c_init in
        if b then err EUnsupportedUrl 0 len else err EExpectedOneOf p (utf8_len x)
  end.

Definition finish (name raw : text) (extras : list text) (kind : pres (rkind * cursor * option N)) : pres (requirement * list wkind) :=
  match kind with
  | PErr e => PErr e
  | POk (k, c8, last) =>
      if match k with KNone => looks_like_archive raw | _ => false end then err EUnsupportedUrl 0 0
      else
        match PTail (match k with KUrl _ _ => true | _ => false end) (c_pos c8) last c8 with
        | PErr e => PErr e
        | POk (m, w) => POk ({| r_name := name; r_extras := extras; r_kind := k; r_marker := m |}, w)
        end
  end.

Lemma parse_requirement_eq s :
  PReq s = match PName (eat_ws (c_new s)) with
           | PErr e => PErr e
           | POk (name, raw, c1) =>
               match PExtras (eat_ws c1) with
               | PErr e => PErr e
               | POk (extras, c3) => finish name raw extras (kind_step (c_new s) (eat_ws c3))
               end
           end.
Proof. reflexivity. Qed.

(** what may follow the name / extras part *)
Definition stop_char (x : N) : bool := ws x || name_char x || (x =? 91).

Lemma stop_char_split K : hd_no stop_char K -> hd_no ws K /\ hd_no name_char K /\ hd_ne 91 K.
Proof.
  destruct K as [|x K]; cbn; [auto|]. unfold stop_char. intros H.
  apply orb_false_iff in H as [H H3]. apply orb_false_iff in H as [H1 H2]. auto.
Qed.

Lemma stop_const x : In x [64;40;59;60;61;62;126;33] -> stop_char x = false.
Proof.
  intros H. unfold stop_char. rewrite (Hws_delims x) by (cbn in *; tauto). cbn [orb].
  cbn [In] in H. repeat (destruct H as [<-|H]; [reflexivity|]). contradiction.
Qed.

Lemma spec_start_in x : is_spec_start x = true -> In x [60;61;62;126;33].
Proof. unfold is_spec_start, mem. cbn [existsb In]. lia. Qed.

Lemma spec_start_not x : is_spec_start x = true -> (x =? 64) = false /\ (x =? 40) = false.
Proof. unfold is_spec_start, mem. cbn [existsb]. lia. Qed.

Lemma tail_start_stop T : tail_start T -> hd_no stop_char T.
Proof. intros [->|[t ->]]; [exact I|]. cbn. apply stop_const. cbn. tauto. Qed.

Lemma prefix_ok w0 name n w1 x ids w2 K :
  blank w0 -> normalize_owned name = Some n -> blank w1 -> extras_ok x ids -> blank w2 -> hd_no stop_char K ->
  exists p, PReq (w0 ++ name ++ w1 ++ extras_text x ++ w2 ++ K) =
            finish n name ids (kind_step (c_new (w0 ++ name ++ w1 ++ extras_text x ++ w2 ++ K)) {| c_pos := p; c_rest := K |}).
Proof.
  intros H0 Hn H1 Hx H2 HK. destruct (stop_char_split K HK) as (K1 & K2 & K3).
  rewrite parse_requirement_eq.
  generalize (kind_step (c_new (w0 ++ name ++ w1 ++ extras_text x ++ w2 ++ K))). intros ks.
  unfold c_new.
  assert (hd_no ws (name ++ w1 ++ extras_text x ++ w2 ++ K)) as Hh.
  { destruct (valid_name_dest name (norm_valid name n Hn)) as (ch & more & -> & A1 & _). cbn. apply Hws_name. now apply alnum_name_char. }
  rewrite (eat_ws_exact 0 w0 _ H0 Hh).
  destruct x as [[w its]|].
  - destruct Hx as [Hw Hits].
    assert (hd_no ws (extras_text (Some (w, its)) ++ w2 ++ K)) as He.
    { cbn. apply Hws_delims. cbn. tauto. }
    rewrite (parse_name_ok _ name n _ Hn).
    2:{ apply hd_no_blank_app; [exact ws_not_name|exact H1|reflexivity]. }
    rewrite (eat_ws_exact _ w1 _ H1 He).
    destruct (parse_extras_some (0 + text_len w0 + text_len name + text_len w1) w its ids (w2 ++ K) Hw Hits) as [p' E].
    rewrite E. rewrite (eat_ws_exact p' w2 K H2 K1). eexists. reflexivity.
  - cbn in Hx. subst ids. cbn [extras_text app].
    rewrite (parse_name_ok _ name n _ Hn).
    2:{ apply hd_no_blank_app; [exact ws_not_name|exact H1|]. apply hd_no_blank_app; [exact ws_not_name|exact H2|exact K2]. }
    rewrite (app_assoc w1 w2 K). rewrite (eat_ws_exact _ (w1 ++ w2) K (blank_app _ _ H1 H2) K1).
    rewrite parse_extras_none by exact K3. rewrite eat_ws_stop by exact K1.
    eexists. reflexivity.
Qed.

(** the four kinds *)
Lemma kind_none ci p K : tail_start K -> kind_step ci {| c_pos := p; c_rest := K |} = POk (KNone, {| c_pos := p; c_rest := K |}, None).
Proof. intros [->|[t ->]]; reflexivity. Qed.

Definition bare_first (ps : list text) : Prop := exists x pc ps', ps = (x :: pc) :: ps' /\ is_spec_start x = true.

Lemma kind_bare ci p ps sps T : pieces_ok 59 ps sps -> tail_start T -> bare_first ps ->
  exists p', kind_step ci {| c_pos := p; c_rest := join [44] ps ++ T |} = POk (KSpecs (sort_specs sps), {| c_pos := p'; c_rest := T |}, None).
Proof.
  intros Hok HT (x & pc & ps' & -> & Hx).
  destruct (specs_bare_ok ((x :: pc) :: ps') sps T p p [] ltac:(discriminate) Hok HT) as [p' E].
  exists p'. unfold kind_step. cbn [c_rest c_pos]. rewrite E.
  assert (exists tl, join [44] ((x :: pc) :: ps') ++ T = x :: tl) as [tl Etl].
  { destruct ps'; cbn [join app]; eexists; reflexivity. }
  unfold c_next. cbn [c_rest c_pos]. rewrite Etl. destruct (spec_start_not x Hx) as [-> ->]. rewrite Hx. reflexivity.
Qed.

Lemma join_hd_no ps r : ps <> [] -> hd_no ws (hd [] ps) -> sep_start r \/ (exists t, r = 41 :: t) -> hd_no ws (join [44] ps ++ r).
Proof.
  intros Hne Hh Hr. destruct ps as [|pc ps]; [congruence|]. cbn [hd] in Hh.
  destruct pc as [|c pc].
  - destruct ps as [|q ps].
    + cbn [join app]. destruct Hr as [Hr|[t ->]]; [now apply sep_start_ws|]. cbn. apply Hws_delims. cbn. tauto.
    + rewrite join_cons2. cbn. apply Hws_delims. cbn. tauto.
  - destruct ps as [|q ps]; [cbn [join]|rewrite join_cons2]; exact Hh.
Qed.

Lemma kind_paren ci p w ps sps rest : blank w -> ps <> [] -> pieces_ok 41 ps sps -> hd_no ws (hd [] ps) ->
  exists p', kind_step ci {| c_pos := p; c_rest := 40 :: w ++ join [44] ps ++ 41 :: rest |} = POk (KSpecs (sort_specs sps), {| c_pos := p'; c_rest := rest |}, None).
Proof.
  intros Hw Hne Hok Hh.
  unfold kind_step, c_next. cbn [c_rest c_pos]. change (40 =? 64) with false. change (40 =? 40) with true. cbv iota zeta.
  rewrite (eat_ws_exact _ w _ Hw (join_hd_no ps (41 :: rest) Hne Hh (or_intror (ex_intro _ rest eq_refl)))).
  cbn [c_rest c_pos].
  destruct (specs_paren_ok ps sps rest (p + utf8_len 40 + text_len w) (p + utf8_len 40 + text_len w) p [] Hne Hok) as [p' E].
  exists p'. rewrite E. reflexivity.
Qed.

Lemma kind_url ci p w u B T d g : blank w -> u <> [] -> Forall url_char u -> blank B -> tail_start T -> (T <> [] -> B <> []) ->
  PUrlT u = Some (d, g) ->
  exists B' p' l, kind_step ci {| c_pos := p; c_rest := 64 :: w ++ u ++ B ++ T |} = POk (KUrl d g, {| c_pos := p'; c_rest := B' ++ T |}, l) /\ blank B'.
Proof.
  intros Hw Hne Hu HB HT HBT Hp.
  unfold kind_step, c_next. cbn [c_rest c_pos]. change (64 =? 64) with true. cbv iota.
  destruct (parse_url_ok (p + utf8_len 64) w u B T d g Hw Hne Hu HB HT HBT Hp) as (B' & p' & l & E & HB').
  exists B', p', l. rewrite E. split; [reflexivity|exact HB'].
Qed.

Lemma finish_ok n raw ids k p R last mo wm :
  (k = KNone -> looks_like_archive raw = false) ->
  (forall iu re, PTail iu re last {| c_pos := p; c_rest := R |} = POk (mo, wm)) ->
  finish n raw ids (POk (k, {| c_pos := p; c_rest := R |}, last)) = POk ({| r_name := n; r_extras := ids; r_kind := k; r_marker := mo |}, wm).
Proof.
  intros Ha Ht. unfold finish. rewrite Ht. destruct k; [rewrite (Ha eq_refl)|..]; reflexivity.
Qed.

(** ** the source syntax *)
Inductive kind_src :=
| SNone
| SBare (pieces : list text)
| SParen (w : text) (pieces : list text)
| SUrl (w : text) (u : text) (sep : text).
Definition kind_text (k : kind_src) : text :=
  match k with
  | SNone => []
  | SBare ps => join [44] ps
  | SParen w ps => 40 :: w ++ join [44] ps ++ [41]
  | SUrl w u sep => 64 :: w ++ u ++ sep
  end.
Definition marker_text (m : option text) : text := match m with None => [] | Some t => 59 :: t end.

Definition source (w0 name w1 : text) (x : option (text * list (text * text * text))) (w2 : text) (k : kind_src)
  (w3 : text) (m : option text) (w4 : text) : text :=
  w0 ++ name ++ w1 ++ extras_text x ++ w2 ++ kind_text k ++ w3 ++ marker_text m ++ w4.

(** the core statement: the text after the kind part is a blank [B3] followed by [T], the end or ";" marker *)
Definition kind_core_ok (k : kind_src) (kd : rkind) (name B3 T : text) : Prop :=
  match k with
  | SNone => kd = KNone /\ looks_like_archive name = false
  | SBare ps => exists sps, kd = KSpecs (sort_specs sps) /\ pieces_ok 59 ps sps /\ bare_first ps /\ B3 = []
  | SParen w ps => exists sps, kd = KSpecs (sort_specs sps) /\ blank w /\ ps <> [] /\ pieces_ok 41 ps sps /\ hd_no ws (hd [] ps)
  | SUrl w u sep => exists d g, kd = KUrl d g /\ blank w /\ blank sep /\ u <> [] /\ Forall url_char u /\
                                PUrlT u = Some (d, g) /\ (T <> [] -> sep ++ B3 <> [])
  end.

Lemma accept_core w0 name n w1 x ids w2 k kd B3 T mo wm :
  blank w0 -> normalize_owned name = Some n -> blank w1 -> extras_ok x ids -> blank w2 -> blank B3 -> tail_start T ->
  (forall iu re last p B, blank B -> PTail iu re last {| c_pos := p; c_rest := B ++ T |} = POk (mo, wm)) ->
  kind_core_ok k kd name B3 T ->
  PReq (w0 ++ name ++ w1 ++ extras_text x ++ w2 ++ kind_text k ++ B3 ++ T) =
  POk ({| r_name := n; r_extras := ids; r_kind := kd; r_marker := mo |}, wm).
Proof.
  intros H0 Hn H1 Hx H2 H3 HT Htail Hk. destruct k as [|ps|w ps|w u sep].
  - destruct Hk as [-> Ha]. cbn [kind_text app]. rewrite (app_assoc w2 B3 T).
    destruct (prefix_ok w0 name n w1 x ids (w2 ++ B3) T H0 Hn H1 Hx (blank_app _ _ H2 H3) (tail_start_stop T HT)) as [p E].
    rewrite E, (kind_none _ p T HT). apply finish_ok; [intros _; exact Ha|].
    intros iu re. exact (Htail iu re None p [] blank_nil).
  - destruct Hk as (sps & -> & Hok & Hf & ->). cbn [kind_text app].
    assert (hd_no stop_char (join [44] ps ++ T)) as HK.
    { destruct Hf as (c & pc & ps' & -> & Hc). apply spec_start_in in Hc.
      assert (stop_char c = false) as Hs by (apply stop_const; cbn in *; tauto).
      destruct ps'; cbn [join app]; exact Hs. }
    destruct (prefix_ok w0 name n w1 x ids w2 _ H0 Hn H1 Hx H2 HK) as [p E]. rewrite E.
    destruct (kind_bare (c_new (w0 ++ name ++ w1 ++ extras_text x ++ w2 ++ join [44] ps ++ T)) p ps sps T Hok HT Hf) as [p' E2].
    rewrite E2. apply finish_ok; [discriminate|]. intros iu re. exact (Htail iu re None p' [] blank_nil).
  - destruct Hk as (sps & -> & Hw & Hne & Hok & Hh).
    assert (kind_text (SParen w ps) ++ B3 ++ T = 40 :: w ++ join [44] ps ++ 41 :: (B3 ++ T)) as Ek.
    { cbn [kind_text app]. rewrite <- !app_assoc. reflexivity. }
    rewrite Ek.
    assert (hd_no stop_char (40 :: w ++ join [44] ps ++ 41 :: (B3 ++ T))) as HK.
    { cbn. apply stop_const. cbn. tauto. }
    destruct (prefix_ok w0 name n w1 x ids w2 _ H0 Hn H1 Hx H2 HK) as [p E]. rewrite E.
    destruct (kind_paren (c_new (w0 ++ name ++ w1 ++ extras_text x ++ w2 ++ 40 :: w ++ join [44] ps ++ 41 :: (B3 ++ T))) p w ps sps (B3 ++ T) Hw Hne Hok Hh) as [p' E2].
    rewrite E2. apply finish_ok; [discriminate|]. intros iu re. exact (Htail iu re None p' B3 H3).
  - destruct Hk as (d & g & -> & Hw & Hsep & Hne & Hu & Hp & HBT).
    assert (kind_text (SUrl w u sep) ++ B3 ++ T = 64 :: w ++ u ++ (sep ++ B3) ++ T) as Ek.
    { cbn [kind_text app]. rewrite <- !app_assoc. reflexivity. }
    rewrite Ek.
    assert (hd_no stop_char (64 :: w ++ u ++ (sep ++ B3) ++ T)) as HK.
    { cbn. apply stop_const. cbn. tauto. }
    destruct (prefix_ok w0 name n w1 x ids w2 _ H0 Hn H1 Hx H2 HK) as [p E]. rewrite E.
    destruct (kind_url (c_new (w0 ++ name ++ w1 ++ extras_text x ++ w2 ++ 64 :: w ++ u ++ (sep ++ B3) ++ T)) p w u (sep ++ B3) T d g
                Hw Hne Hu (blank_app _ _ Hsep H3) HT HBT Hp) as (B' & p' & l & E2 & HB').
    rewrite E2. apply finish_ok; [discriminate|]. intros iu re. exact (Htail iu re l p' B' HB').
Qed.

(** ** the acceptance theorem *)
Definition kind_ok (k : kind_src) (kd : rkind) (name w3 : text) (m : option text) (w4 : text) : Prop :=
  match k with
  | SNone => kd = KNone /\ looks_like_archive name = false
  | SBare ps => exists sps, kd = KSpecs (sort_specs sps) /\ pieces_ok 59 ps sps /\ bare_first ps /\ w3 = [] /\ (m = None -> w4 = [])
  | SParen w ps => exists sps, kd = KSpecs (sort_specs sps) /\ blank w /\ ps <> [] /\ pieces_ok 41 ps sps /\ hd_no ws (hd [] ps)
  | SUrl w u sep => exists d g, kd = KUrl d g /\ blank w /\ blank sep /\ u <> [] /\ Forall url_char u /\
                                PUrlT u = Some (d, g) /\ (m <> None -> sep ++ w3 <> [])
  end.

(** the marker parser is a black box whose answer is assumed not to depend on the position *)
Definition marker_ok (m : option text) (w4 : text) (mo : option mdd) (wm : list wkind) : Prop :=
  match m with
  | None => blank w4 /\ mo = None /\ wm = []
  | Some mtext => w4 = [] /\ forall p, exists cend, PMC {| c_pos := p; c_rest := mtext |} = POk (mo, wm, cend)
  end.

Theorem accept w0 name n w1 x ids w2 k kd w3 m w4 mo wm :
  blank w0 -> normalize_owned name = Some n -> blank w1 -> extras_ok x ids -> blank w2 ->
  kind_ok k kd name w3 m w4 -> blank w3 -> marker_ok m w4 mo wm ->
  PReq (source w0 name w1 x w2 k w3 m w4) =
  POk ({| r_name := n; r_extras := ids; r_kind := kd; r_marker := mo |}, wm).
Proof.
  intros H0 Hn H1 Hx H2 Hk H3 Hm. unfold source. destruct m as [mtext|].
  - destruct Hm as [-> Hm]. cbn [marker_text app]. rewrite app_nil_r.
    apply (accept_core w0 name n w1 x ids w2 k kd w3 (59 :: mtext) mo wm H0 Hn H1 Hx H2 H3).
    + right. now exists mtext.
    + intros iu re last p B HB. now apply parse_tail_some.
    + destruct k as [|ps|w ps|w u sep]; cbn [kind_ok kind_core_ok] in *.
      * exact Hk.
      * destruct Hk as (sps & Hkd & Hok & Hf & Hw3 & _). exists sps. auto.
      * exact Hk.
      * destruct Hk as (d & g & Hkd & Hw & Hsep & Hne & Hu & Hp & HBT). exists d, g.
        split; [exact Hkd|]. split; [exact Hw|]. split; [exact Hsep|]. split; [exact Hne|]. split; [exact Hu|]. split; [exact Hp|].
        intros _. apply HBT. discriminate.
  - destruct Hm as (H4 & -> & ->). cbn [marker_text app]. rewrite <- (app_nil_r w4). rewrite (app_assoc w3 w4 []).
    apply (accept_core w0 name n w1 x ids w2 k kd (w3 ++ w4) [] None [] H0 Hn H1 Hx H2 (blank_app _ _ H3 H4)).
    + now left.
    + intros iu re last p B HB. rewrite app_nil_r. now apply parse_tail_none.
    + destruct k as [|ps|w ps|w u sep]; cbn [kind_ok kind_core_ok] in *.
      * exact Hk.
      * destruct Hk as (sps & Hkd & Hok & Hf & -> & Hw4). rewrite (Hw4 eq_refl). exists sps. auto.
      * exact Hk.
      * destruct Hk as (d & g & Hkd & Hw & Hsep & Hne & Hu & Hp & _). exists d, g.
        split; [exact Hkd|]. split; [exact Hw|]. split; [exact Hsep|]. split; [exact Hne|]. split; [exact Hu|]. split; [exact Hp|].
        intros C. congruence.
Qed.

(** ** white space never changes the result *)
Definition mid (it : text * text * text) : text := snd (fst it).
Definition same_extras (x x' : option (text * list (text * text * text))) : Prop :=
  match x, x' with
  | None, None => True
  | Some (_, its), Some (_, its') => map mid its = map mid its'
  | _, _ => False
  end.
Definition same_kind_src (k k' : kind_src) : Prop :=
  match k, k' with
  | SNone, SNone => True
  | SBare ps, SBare ps' => ps = ps'
  | SParen _ ps, SParen _ ps' => ps = ps'
  | SUrl _ u _, SUrl _ u' _ => u = u'
  | _, _ => False
  end.

Lemma pieces_fun stop ps : forall sps sps', pieces_ok stop ps sps -> pieces_ok stop ps sps' -> sps = sps'.
Proof.
  induction ps as [|pc ps IH]; intros sps sps' H H'; inversion H; inversion H'; subst; [reflexivity|].
  match goal with A : piece_ok _ pc ?a, B : piece_ok _ pc ?b |- _ => destruct A as (_ & _ & A); destruct B as (_ & _ & B); assert (a = b) as -> by congruence end.
  f_equal. now apply IH.
Qed.

Lemma items_fun its : forall its' ids ids', items_ok its ids -> items_ok its' ids' -> map mid its = map mid its' -> ids = ids'.
Proof.
  induction its as [|[[a id] b] its IH]; intros its' ids ids' H H' E; destruct its' as [|[[a' id'] b'] its']; try discriminate;
    inversion H; inversion H'; subst; [reflexivity|].
  cbn [map mid fst snd] in E. injection E as E1 E2. subst id'.
  match goal with A : item_ok (a, id, b) ?x, B : item_ok (a', id, b') ?y |- _ =>
    destruct A as (_ & _ & A); destruct B as (_ & _ & B); assert (x = y) as -> by congruence end.
  f_equal. eapply IH; eassumption.
Qed.

Lemma marker_fun m w4 w4' mo wm mo' wm' : marker_ok m w4 mo wm -> marker_ok m w4' mo' wm' -> mo = mo' /\ wm = wm'.
Proof.
  destruct m as [t|]; cbn [marker_ok].
  - intros [_ H] [_ H']. destruct (H 0) as [c E]. destruct (H' 0) as [c' E']. rewrite E in E'. now injection E' as -> ->.
  - intros (_ & -> & ->) (_ & -> & ->). auto.
Qed.

Lemma kind_fun k k' kd kd' name w3 w3' m w4 w4' : same_kind_src k k' ->
  kind_ok k kd name w3 m w4 -> kind_ok k' kd' name w3' m w4' -> kd = kd'.
Proof.
  destruct k as [|ps|w ps|w u sep]; destruct k' as [|ps'|w' ps'|w' u' sep']; cbn [same_kind_src]; try contradiction; intros S H H'; cbn [kind_ok] in H, H'.
  - destruct H as [-> _]. destruct H' as [-> _]. reflexivity.
  - subst ps'. destruct H as (sps & -> & Hok & _). destruct H' as (sps' & -> & Hok' & _). now rewrite (pieces_fun 59 ps sps sps' Hok Hok').
  - subst ps'. destruct H as (sps & -> & _ & _ & Hok & _). destruct H' as (sps' & -> & _ & _ & Hok' & _). now rewrite (pieces_fun 41 ps sps sps' Hok Hok').
  - subst u'. destruct H as (d & g & -> & _ & _ & _ & _ & Hp & _). destruct H' as (d' & g' & -> & _ & _ & _ & _ & Hp' & _). congruence.
Qed.

(** two derivations with the same name, extras identifiers, specifier pieces / URL and marker text, but
    arbitrary (legal) white space, give the same result *)
Corollary accept_ws_irrelevant name m
  w0 w1 x w2 k w3 w4 n ids kd mo wm
  w0' w1' x' w2' k' w3' w4' n' ids' kd' mo' wm' :
  blank w0 -> normalize_owned name = Some n -> blank w1 -> extras_ok x ids -> blank w2 ->
  kind_ok k kd name w3 m w4 -> blank w3 -> marker_ok m w4 mo wm ->
  blank w0' -> normalize_owned name = Some n' -> blank w1' -> extras_ok x' ids' -> blank w2' ->
  kind_ok k' kd' name w3' m w4' -> blank w3' -> marker_ok m w4' mo' wm' ->
  same_extras x x' -> same_kind_src k k' ->
  PReq (source w0 name w1 x w2 k w3 m w4) = PReq (source w0' name w1' x' w2' k' w3' m w4').
Proof.
  intros H0 Hn H1 Hx H2 Hk H3 Hm H0' Hn' H1' Hx' H2' Hk' H3' Hm' Sx Sk.
  rewrite (accept w0 name n w1 x ids w2 k kd w3 m w4 mo wm H0 Hn H1 Hx H2 Hk H3 Hm).
  rewrite (accept w0' name n' w1' x' ids' w2' k' kd' w3' m w4' mo' wm' H0' Hn' H1' Hx' H2' Hk' H3' Hm').
  assert (n = n') as <- by congruence.
  destruct (marker_fun m w4 w4' mo wm mo' wm' Hm Hm') as [<- <-].
  rewrite (kind_fun k k' kd kd' name w3 w3' m w4 w4' Sk Hk Hk').
  assert (ids = ids') as <-; [|reflexivity].
  destruct x as [[w its]|]; destruct x' as [[w' its']|]; cbn [same_extras extras_ok] in *; try contradiction.
  - destruct Hx as [_ Hx]. destruct Hx' as [_ Hx']. exact (items_fun its its' ids ids' Hx Hx' Sx).
  - congruence.
Qed.

(** ** Display round trip (C08) *)
Definition same_kind (a b : rkind) : Prop :=
  match a, b with
  | KNone, KNone => True
  | KSpecs l, KSpecs l' => l = l'
  | KUrl d _, KUrl d' _ => d = d'
  | _, _ => False
  end.

Definition disp_items (l : list text) : list (text * text * text) := map (fun e => ([], e, [])) l.
Definition disp_x (l : list text) : option (text * list (text * text * text)) :=
  match l with [] => None | _ => Some ([], disp_items l) end.

Lemma map_item_disp l : map item_text (disp_items l) = l.
Proof. unfold disp_items. induction l as [|e l IH]; [reflexivity|]. cbn [map item_text app]. now rewrite app_nil_r, IH. Qed.

Lemma extras_text_disp l : extras_text (disp_x l) = show_extras l.
Proof. destruct l as [|e l]; [reflexivity|]. unfold disp_x, extras_text, show_extras. now rewrite map_item_disp. Qed.

Lemma extras_ok_disp l : Forall (fun e => normalize_owned e = Some e) l -> extras_ok (disp_x l) l.
Proof.
  intros H. assert (items_ok (disp_items l) l) as Hi.
  { induction H as [|e l He _ IH]; [constructor|]. constructor; [|exact IH]. split; [exact blank_nil|]. split; [exact blank_nil|exact He]. }
  destruct l as [|e l]; [reflexivity|]. split; [exact blank_nil|exact Hi].
Qed.

(** the last piece of a bare specifier list takes the blank before the ";" *)
Fixpoint add_last (s : text) (ps : list text) : list text :=
  match ps with [] => [] | [x] => [x ++ s] | x :: ps' => x :: add_last s ps' end.

Lemma add_last_cons s y ps : exists z zs, add_last s (y :: ps) = z :: zs.
Proof. destruct ps; cbn [add_last]; eexists; eexists; reflexivity. Qed.

Lemma join_add_last sep s ps : ps <> [] -> join sep (add_last s ps) = join sep ps ++ s.
Proof.
  induction ps as [|x ps IH]; [congruence|]. intros _. destruct ps as [|y ps]; [reflexivity|].
  change (add_last s (x :: y :: ps)) with (x :: add_last s (y :: ps)).
  destruct (add_last_cons s y ps) as (z & zs & E). rewrite E, join_cons2, <- E, IH by discriminate.
  rewrite join_cons2. now rewrite <- !app_assoc.
Qed.

Definition spec_disp_ok (mt : option text) (sp : spec) : Prop :=
  ~ In 44 (sp_text sp) /\ ~ In 59 (sp_text sp) /\ specparse (sp_text sp) = Some sp /\
  (mt <> None -> specparse (sp_text sp ++ [32]) = Some sp).

Lemma pieces_disp_none l : Forall (spec_disp_ok None) l -> pieces_ok 59 (map sp_text l) l.
Proof. induction 1 as [|sp l (A & B & C & _) _ IH]; constructor; [|exact IH]. split; [exact A|]. split; [exact B|exact C]. Qed.

Lemma pieces_disp_some t l : Forall (spec_disp_ok (Some t)) l -> pieces_ok 59 (add_last [32] (map sp_text l)) l.
Proof.
  induction 1 as [|sp l (A & B & C & D) Hl IH]; [constructor|].
  destruct l as [|sp2 l].
  - cbn [map add_last]. constructor; [|constructor]. split; [|split].
    + intros H. apply in_app_or in H as [H|H]; [now apply A|]. cbn in H. destruct H as [H|[]]. discriminate.
    + intros H. apply in_app_or in H as [H|H]; [now apply B|]. cbn in H. destruct H as [H|[]]. discriminate.
    + apply D. discriminate.
  - change (add_last [32] (map sp_text (sp :: sp2 :: l))) with (sp_text sp :: add_last [32] (map sp_text (sp2 :: l))).
    constructor; [|exact IH]. split; [exact A|]. split; [exact B|exact C].
Qed.

Lemma bare_first_add_last s ps : bare_first ps -> bare_first (add_last s ps).
Proof.
  intros (x & pc & ps' & -> & Hx). destruct ps' as [|q ps'].
  - exists x, (pc ++ s), []. split; [reflexivity|exact Hx].
  - exists x, pc, (add_last s (q :: ps')). split; [reflexivity|exact Hx].
Qed.

Definition disp_ok (r : requirement) (mt : option text) (wm : list wkind) : Prop :=
  normalize_owned (r_name r) = Some (r_name r) /\
  Forall (fun e => normalize_owned e = Some e) (r_extras r) /\
  match r_kind r with
  | KNone => looks_like_archive (r_name r) = false
  | KSpecs l => sort_specs l = l /\ bare_first (map sp_text l) /\ Forall (spec_disp_ok mt) l
  | KUrl d g => d <> [] /\ Forall url_char d /\ exists g', PUrlT d = Some (d, g')
  end /\
  match mt with
  | None => r_marker r = None /\ wm = []
  | Some t => forall p, exists cend, PMC {| c_pos := p; c_rest := 32 :: t |} = POk (r_marker r, wm, cend)
  end.

Theorem display_roundtrip r mt wm : ws 32 = true -> disp_ok r mt wm ->
  exists r', PReq (display_req r mt) = POk (r', wm) /\
             r_name r' = r_name r /\ r_extras r' = r_extras r /\ r_marker r' = r_marker r /\ same_kind (r_kind r') (r_kind r).
Proof.
  intros H32 (Hn & Hex & Hk & Hm). destruct r as [name exs kd mo]. cbn [r_name r_extras r_kind r_marker] in *.
  unfold display_req. cbn [r_name r_extras r_kind r_marker]. rewrite <- extras_text_disp.
  pose proof (extras_ok_disp exs Hex) as Hx.
  assert (blank [32]) as B32 by (apply blank_cons; [exact H32|exact blank_nil]).
  destruct kd as [|l|d g].
  - destruct mt as [t|].
    + assert (name ++ extras_text (disp_x exs) ++ [] ++ show_marker (Some t) =
              source [] name [] (disp_x exs) [] SNone [32] (Some (32 :: t)) []) as E.
      { unfold source. cbn [kind_text marker_text show_marker app]. now rewrite app_nil_r. }
      rewrite E, (accept [] name name [] (disp_x exs) exs [] SNone KNone [32] (Some (32 :: t)) [] mo wm
                    blank_nil Hn blank_nil Hx blank_nil (conj eq_refl Hk) B32 (conj eq_refl Hm)).
      eexists. split; [reflexivity|]. cbn. auto.
    + destruct Hm as [-> ->].
      assert (name ++ extras_text (disp_x exs) ++ [] ++ show_marker None =
              source [] name [] (disp_x exs) [] SNone [] None []) as E.
      { unfold source. cbn [kind_text marker_text show_marker app]. reflexivity. }
      rewrite E, (accept [] name name [] (disp_x exs) exs [] SNone KNone [] None [] None []
                    blank_nil Hn blank_nil Hx blank_nil (conj eq_refl Hk) blank_nil (conj blank_nil (conj eq_refl eq_refl))).
      eexists. split; [reflexivity|]. cbn. auto.
  - destruct Hk as (Hs & Hf & Hl).
    assert (map sp_text l <> []) as Hne by (destruct Hf as (c & pc & ps' & E & _); rewrite E; discriminate).
    destruct mt as [t|].
    + assert (name ++ extras_text (disp_x exs) ++ join [44] (map sp_text l) ++ show_marker (Some t) =
              source [] name [] (disp_x exs) [] (SBare (add_last [32] (map sp_text l))) [] (Some (32 :: t)) []) as E.
      { unfold source. cbn [kind_text marker_text show_marker app]. rewrite (join_add_last [44] [32] _ Hne), app_nil_r, <- app_assoc. reflexivity. }
      rewrite E, (accept [] name name [] (disp_x exs) exs [] (SBare (add_last [32] (map sp_text l))) (KSpecs (sort_specs l)) [] (Some (32 :: t)) [] mo wm
                    blank_nil Hn blank_nil Hx blank_nil).
      * eexists. split; [reflexivity|]. cbn. rewrite Hs. auto.
      * exists l. split; [reflexivity|]. split; [exact (pieces_disp_some t l Hl)|]. split; [now apply bare_first_add_last|]. split; [reflexivity|discriminate].
      * exact blank_nil.
      * exact (conj eq_refl Hm).
    + destruct Hm as [-> ->].
      assert (name ++ extras_text (disp_x exs) ++ join [44] (map sp_text l) ++ show_marker None =
              source [] name [] (disp_x exs) [] (SBare (map sp_text l)) [] None []) as E.
      { unfold source. cbn [kind_text marker_text show_marker app]. reflexivity. }
      rewrite E, (accept [] name name [] (disp_x exs) exs [] (SBare (map sp_text l)) (KSpecs (sort_specs l)) [] None [] None []
                    blank_nil Hn blank_nil Hx blank_nil).
      * eexists. split; [reflexivity|]. cbn. rewrite Hs. auto.
      * exists l. split; [reflexivity|]. split; [exact (pieces_disp_none l Hl)|]. split; [exact Hf|]. split; reflexivity.
      * exact blank_nil.
      * exact (conj blank_nil (conj eq_refl eq_refl)).
  - destruct Hk as (Hne & Hu & g' & Hp).
    destruct mt as [t|].
    + assert (name ++ extras_text (disp_x exs) ++ (32 :: 64 :: 32 :: d) ++ show_marker (Some t) =
              source [] name [] (disp_x exs) [32] (SUrl [32] d [32]) [] (Some (32 :: t)) []) as E.
      { unfold source. cbn [kind_text marker_text show_marker app]. now rewrite app_nil_r, <- app_assoc. }
      rewrite E, (accept [] name name [] (disp_x exs) exs [32] (SUrl [32] d [32]) (KUrl d g') [] (Some (32 :: t)) [] mo wm
                    blank_nil Hn blank_nil Hx B32).
      * eexists. split; [reflexivity|]. cbn. auto.
      * exists d, g'. split; [reflexivity|]. split; [exact B32|]. split; [exact B32|]. split; [exact Hne|]. split; [exact Hu|]. split; [exact Hp|]. intros _. discriminate.
      * exact blank_nil.
      * exact (conj eq_refl Hm).
    + destruct Hm as [-> ->].
      assert (name ++ extras_text (disp_x exs) ++ (32 :: 64 :: 32 :: d) ++ show_marker None =
              source [] name [] (disp_x exs) [32] (SUrl [32] d []) [] None []) as E.
      { unfold source. cbn [kind_text marker_text show_marker app]. now rewrite !app_nil_r. }
      rewrite E, (accept [] name name [] (disp_x exs) exs [32] (SUrl [32] d []) (KUrl d g') [] None [] None []
                    blank_nil Hn blank_nil Hx B32).
      * eexists. split; [reflexivity|]. cbn. auto.
      * exists d, g'. split; [reflexivity|]. split; [exact B32|]. split; [exact blank_nil|]. split; [exact Hne|]. split; [exact Hu|]. split; [exact Hp|]. intros C. congruence.
      * exact blank_nil.
      * exact (conj blank_nil (conj eq_refl eq_refl)).
Qed.

End Accept.
Print Assumptions accept.
Print Assumptions accept_ws_irrelevant.
Print Assumptions display_roundtrip.

(** ** non-vacuity: the hypotheses are satisfiable (space and tab as white space, a toy specifier oracle) *)
Module AcceptExample.
Definition ws0 (x : N) : bool := (x =? 32) || (x =? 9).
Definition sp0 (t : text) : option spec := Some {| sp_key := t; sp_text := t |}.
Lemma ws0_name x : name_char x = true -> ws0 x = false.
Proof. unfold name_char, ascii_alnum, is_upper, is_lower, is_digit, is_punct, ws0. lia. Qed.
Lemma ws0_delims x : In x [91;93;44;64;40;41;59;60;61;62;126;33] -> ws0 x = false.
Proof. cbn [In]. intros H. repeat (destruct H as [<-|H]; [reflexivity|]). contradiction. Qed.

Example ex_paren alpha alnum kw vparse specpat specver pv pfv url_oracle getenv project_root verbatim ext :
  parse_requirement ws0 alpha alnum kw vparse specpat specver pv pfv sp0 url_oracle getenv project_root verbatim ext
    (T "  Foo_.bar [ a ,B-b ]	( >=1 , <2 )  ") =
  POk ({| r_name := T "foo-bar"; r_extras := [T "a"; T "b-b"];
          r_kind := KSpecs [{| sp_key := T " <2 "; sp_text := T " <2 " |}; {| sp_key := T ">=1 "; sp_text := T ">=1 " |}];
          r_marker := None |}, []).
Proof.
  apply (accept ws0 alpha alnum kw vparse specpat specver pv pfv sp0 url_oracle getenv project_root verbatim ext ws0_name ws0_delims
           (T "  ") (T "Foo_.bar") (T "foo-bar") (T " ")
           (Some (T " ", [([], T "a", T " "); ([], T "B-b", T " ")])) [T "a"; T "b-b"]
           (T "	") (SParen (T " ") [T ">=1 "; T " <2 "]) _ (T "  ") None [] None []).
  - reflexivity.
  - reflexivity.
  - reflexivity.
  - split; [reflexivity|]. constructor; [|constructor; [|constructor]]; (split; [reflexivity|split; reflexivity]).
  - reflexivity.
  - exists [{| sp_key := T ">=1 "; sp_text := T ">=1 " |}; {| sp_key := T " <2 "; sp_text := T " <2 " |}].
    split; [reflexivity|]. split; [reflexivity|]. split; [discriminate|]. split; [|reflexivity].
    constructor; [|constructor; [|constructor]]; (split; [|split; [|reflexivity]]); cbn; intuition discriminate.
  - reflexivity.
  - split; [reflexivity|]. split; reflexivity.
Qed.

Example ex_url alpha alnum kw vparse specpat specver pv pfv getenv project_root ext :
  parse_requirement ws0 alpha alnum kw vparse specpat specver pv pfv sp0 (fun _ u => Some u) getenv project_root false ext
    (T "pkg[x] @ https://h/p;q#f; ") =
  POk ({| r_name := T "pkg"; r_extras := [T "x"]; r_kind := KUrl (T "https://h/p;q#f;") None; r_marker := None |}, []).
Proof.
  apply (accept ws0 alpha alnum kw vparse specpat specver pv pfv sp0 (fun _ u => Some u) getenv project_root false ext ws0_name ws0_delims
           [] (T "pkg") (T "pkg") []
           (Some ([], [([], T "x", [])])) [T "x"]
           (T " ") (SUrl (T " ") (T "https://h/p;q#f;") (T " ")) _ [] None [] None []).
  - reflexivity.
  - reflexivity.
  - reflexivity.
  - split; [reflexivity|]. constructor; [|constructor]. split; [reflexivity|split; reflexivity].
  - reflexivity.
  - exists (T "https://h/p;q#f;"), None. split; [reflexivity|]. split; [reflexivity|]. split; [reflexivity|]. split; [discriminate|].
    split; [|split; [reflexivity|congruence]].
    repeat (constructor; [split; [reflexivity|split; discriminate]|]). constructor.
  - reflexivity.
  - split; [reflexivity|]. split; reflexivity.
Qed.
End AcceptExample.
