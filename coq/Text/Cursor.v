(** L4: the byte-offset cursor of src/cursor.rs over a string given as code points.
    Positions are byte offsets into the UTF-8 encoding; a cursor is (byte position, remaining code points).
    Character classes that the crate takes from the Rust standard library (Unicode White_Space,
    Alphabetic, Alphanumeric) are parameters. *)
From Coq Require Import List Bool NArith.
Import ListNotations.
Open Scope N_scope.

Definition text := list N.

Definition utf8_len (c : N) : N :=
  if c <? 128 then 1 else if c <? 2048 then 2 else if c <? 65536 then 3 else 4.

Fixpoint text_len (s : text) : N := match s with [] => 0 | c :: s' => utf8_len c + text_len s' end.

Record cursor := { c_pos : N; c_rest : text }.

Definition c_new (s : text) : cursor := {| c_pos := 0; c_rest := s |}.
Definition c_peek (c : cursor) : option N := match c_rest c with [] => None | x :: _ => Some x end.
Definition c_next (c : cursor) : option (N * N * cursor) :=      (* (pos, char, cursor') *)
  match c_rest c with
  | [] => None
  | x :: r => Some (c_pos c, x, {| c_pos := c_pos c + utf8_len x; c_rest := r |})
  end.

(** [take_while]: the consumed characters, their start and byte length, and the cursor after them *)
Fixpoint take_while_aux (p : N -> bool) (r : text) : text * text :=
  match r with
  | [] => ([], [])
  | x :: r' => if p x then let (a, b) := take_while_aux p r' in (x :: a, b) else ([], r)
  end.
Definition c_take_while (p : N -> bool) (c : cursor) : text * N * N * cursor :=
  let (a, b) := take_while_aux p (c_rest c) in
  (a, c_pos c, text_len a, {| c_pos := c_pos c + text_len a; c_rest := b |}).
(** [peek_while] (byte length, as repaired) *)
Definition c_peek_while (p : N -> bool) (c : cursor) : text * N * N :=
  let (a, _) := take_while_aux p (c_rest c) in (a, c_pos c, text_len a).

Definition c_eat_whitespace (ws : N -> bool) (c : cursor) : cursor :=
  let '(_, _, _, c') := c_take_while ws c in c'.

Definition c_eat_char (t : N) (c : cursor) : option (N * cursor) :=
  match c_rest c with
  | x :: r => if x =? t then Some (c_pos c, {| c_pos := c_pos c + utf8_len x; c_rest := r |}) else None
  | [] => None
  end.

(** number of characters left *)
Definition c_remaining (c : cursor) : nat := length (c_rest c).

(** byte length of the first [n] characters of [s] *)
Definition prefix_len (n : nat) (s : text) : N := text_len (firstn n s).
