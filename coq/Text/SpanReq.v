(** C06, requirement part: every error of the requirement-level parsers carries a renderable span
    (both ends on character boundaries of the input, at most one byte past the end) and no
    `expect` / out-of-fuel site is reached.  The marker sub-parser is a section hypothesis
    (proved in SpanMarker.v). *)
From Coq Require Import List Bool NArith Arith Lia String Ascii.
From PV Require Import Base.Order Base.CutDef DD.DDModel Names.NameModel Names.NameProofs Marker.Concrete Marker.Expr
  Text.Cursor Text.MarkerParse Text.ReqParse Text.SpanBase.
Import ListNotations.
Open Scope N_scope.
Arguments N.add : simpl never. Arguments N.sub : simpl never. Arguments N.eqb : simpl never.
Arguments N.ltb : simpl never. Arguments N.leb : simpl never. Arguments N.compare : simpl never.

Ltac np := unfold no_panic; cbn [e_kind]; discriminate.

(** ** spans strictly inside the input *)
Definition sspan (c : cursor) (e : perr) : Prop :=
  bnd c (e_start e) /\ bnd c (e_start e + e_len e) /\ e_start e <> endpos c.
(** a one-byte character at [p] *)
Definition cell (c : cursor) (p : N) : Prop := bnd c p /\ bnd c (p + 1) /\ p <> endpos c.

Lemma sspan_span_from c e : sspan c e -> span_from c e.
Proof. intros (B1 & B2 & Ne). split; [exact B1|]. split; [intros E; contradiction|intros _; exact B2]. Qed.

Lemma sspan_adv a b e : adv a b -> sspan b e -> sspan a e.
Proof.
  intros A (B1 & B2 & Ne). rewrite (adv_endpos a b A) in Ne. split; [|split].
  - now apply (bnd_adv a b).
  - now apply (bnd_adv a b).
  - exact Ne.
Qed.

Lemma cell_sspan c p k : cell c p -> sspan c {| e_kind := k; e_start := p; e_len := 1 |}.
Proof. intros H. exact H. Qed.

Lemma cell_adv a b p : adv a b -> cell b p -> cell a p.
Proof. intros A H. exact (sspan_adv a b {| e_kind := EPanic; e_start := p; e_len := 1 |} A H). Qed.

Lemma sspan_at_next c pos x c' k : c_next c = Some (pos, x, c') ->
  sspan c {| e_kind := k; e_start := pos; e_len := utf8_len x |}.
Proof.
  intros H. destruct (bnd_next c pos x c' H) as [B Ne]. destruct (c_next_adv c pos x c' H) as (_ & E & _).
  split; [|split]; cbn [e_start e_len]; [|exact B|exact Ne]. rewrite E. apply bnd_pos.
Qed.

Lemma cell_at_next c pos x c' : c_next c = Some (pos, x, c') -> x < 128 -> cell c pos.
Proof.
  intros H Hx. pose proof (sspan_at_next c pos x c' EPanic H) as S. rewrite (utf8_len_ascii x Hx) in S. exact S.
Qed.

Lemma bnd_prefix c a b : c_rest c = a ++ b -> bnd c (c_pos c + text_len a).
Proof. intros E. exact (bnd_of_adv c _ (adv_app c a b E)). Qed.

(** an error spanning a prefix of the remaining text *)
Lemma span_prefix c a b k : c_rest c = a ++ b ->
  span_from c {| e_kind := k; e_start := c_pos c; e_len := text_len a |}.
Proof.
  intros E. split; [apply bnd_pos|]. cbn [e_start e_len]. split.
  - unfold endpos. rewrite E, text_len_app. lia.
  - intros _. now apply (bnd_prefix c a b).
Qed.

Lemma last_opt_snoc (a : text) l : last_opt a = Some l -> exists a', a = a' ++ [l].
Proof.
  unfold last_opt. destruct (rev a) as [|x r] eqn:E; [discriminate|]. intros [= ->]. exists (rev r).
  rewrite <- (rev_involutive a), E. reflexivity.
Qed.

Lemma last_opt_cons (x : N) (a : text) : last_opt (x :: a) <> None.
Proof.
  unfold last_opt. cbn [rev]. destruct (rev a ++ [x]) eqn:E; [|discriminate]. now destruct (rev a).
Qed.

(** the last character of a scanned piece, when ASCII, occupies the byte before its end *)
Lemma cell_last_ascii c a b l : c_rest c = a ++ b -> last_opt a = Some l -> l < 128 ->
  cell c (c_pos c + text_len a - 1).
Proof.
  intros E L Hl. destruct (last_opt_snoc a l L) as [a' ->].
  assert (text_len (a' ++ [l]) = text_len a' + 1) as T.
  { rewrite text_len_app. cbn [text_len]. rewrite (utf8_len_ascii l Hl). lia. }
  assert (c_pos c + text_len (a' ++ [l]) - 1 = c_pos c + text_len a') as -> by lia.
  assert (bnd c (c_pos c + text_len a' + 1)) as B2.
  { replace (c_pos c + text_len a' + 1) with (c_pos c + text_len (a' ++ [l])) by lia. now apply (bnd_prefix c _ b). }
  split; [|split].
  - apply (bnd_prefix c a' ([l] ++ b)). rewrite E, <- app_assoc. reflexivity.
  - exact B2.
  - pose proof (bnd_le_end c _ B2). lia.
Qed.

(** ** names *)
Lemma is_punct_ascii x : is_punct x = true -> x < 128.
Proof. unfold is_punct. rewrite !orb_true_iff, !N.eqb_eq. lia. Qed.

Lemma scanned_name_valid ch more l : ascii_alnum ch = true -> forallb name_char more = true ->
  last_opt (ch :: more) = Some l -> is_punct l = false -> normalize_owned (ch :: more) <> None.
Proof.
  intros Hc Hm L Hp. rewrite owned_eq_ref.
  assert (valid_name (ch :: more) = true) as V.
  { unfold valid_name. destruct (last_opt_snoc _ l L) as [a' Ea]. rewrite Ea, last_last.
    assert (forallb allowed (a' ++ [l]) = true) as F.
    { rewrite <- Ea. change (forallb name_char (ch :: more) = true). cbn [forallb]. unfold name_char at 1. rewrite Hc, Hm. reflexivity. }
    rewrite F. change (NameModel.alnum ch) with (ascii_alnum ch). rewrite Hc.
    rewrite forallb_app in F. apply andb_true_iff in F as [_ Fl]. cbn [forallb] in Fl. rewrite andb_true_r in Fl.
    rewrite <- (allowed_alnum l Fl), Hp. reflexivity. }
  apply accept_iff in V. destruct V as [n Hn]. rewrite Hn. discriminate.
Qed.

(** ** [split_extras] *)
Lemma find_open_app : forall r acc b e, find_open r acc = Some (b, e) -> rev r ++ acc = rev b ++ e.
Proof.
  induction r as [|c r IH]; intros acc b e; cbn [find_open]; [discriminate|].
  destruct (c =? 93); [discriminate|]. destruct (N.eqb_spec c 91) as [->|_].
  - intros [= <- <-]. cbn [rev]. rewrite <- app_assoc. reflexivity.
  - intros H. rewrite <- (IH _ _ _ H). cbn [rev]. rewrite <- app_assoc. reflexivity.
Qed.

Lemma split_extras_app url u e : split_extras url = Some (u, e) -> url = u ++ e.
Proof.
  unfold split_extras. destruct (rev url) as [|x r] eqn:E; [discriminate|].
  destruct (N.eq_dec x 93) as [->|Hx].
  - destruct (find_open r [93]) as [[b e']|] eqn:F; [|discriminate]. intros [= <- <-].
    rewrite <- (find_open_app _ _ _ _ F). rewrite <- (rev_involutive url), E. reflexivity.
  - intros H. exfalso. revert H. destruct x as [|q]; [discriminate|].
    do 7 (destruct q as [q|q|]; try discriminate). congruence.
Qed.

(** a boundary of a piece [e] of the remaining text is a boundary of the whole *)
Lemma bnd_rebase c (u e t : text) q : c_rest c = u ++ e ++ t -> bnd (c_new e) q -> bnd c (c_pos c + text_len u + q).
Proof.
  intros E (k & Hk & ->). cbn [c_new c_pos c_rest] in *.
  replace (c_pos c + text_len u + (0 + text_len (firstn k e))) with (c_pos c + text_len (u ++ firstn k e)) by (rewrite text_len_app; lia).
  apply (bnd_prefix c _ (skipn k e ++ t)). rewrite E, <- app_assoc. f_equal. rewrite app_assoc, firstn_skipn. reflexivity.
Qed.

Section SpanReq.
Variables ws alpha alnum : N -> bool.
Variable kw : list (text * mvalue).
Variable vparse : text -> option rawversion.
Variable specpat : vop -> text -> option (vop * list N).
Variable specver : vop -> text -> option (vop * list N).
Variables pv pfv : N.
Variable specparse : text -> option spec.
Variable url_oracle : ukind -> text -> option text.
Variable getenv : text -> option text.
Variable project_root : text.
Variables verbatim ext : bool.

Hypothesis Hmarker : forall c : cursor,
  match parse_markers_cursor ws alpha alnum kw vparse specpat specver pv pfv c with
  | POk (_, _, c') => adv c c' /\ c_rest c' = []
  | PErr e => span_from c e /\ no_panic e
  end.

Ltac slia :=
  try clear Hmarker; try clear alpha; try clear alnum; try clear kw; try clear vparse; try clear specpat;
  try clear specver; try clear pv; try clear pfv; try clear specparse; try clear url_oracle; try clear getenv;
  try clear project_root; try clear verbatim; try clear ext; try clear ws; lia.

Notation eat_ws := (c_eat_whitespace ws).

(** ** [looks_like_unnamed] *)
Lemma looks_like_unnamed_len c b len : looks_like_unnamed ws getenv project_root c = (b, len) ->
  exists a t, c_rest c = a ++ t /\ len = text_len a.
Proof.
  unfold looks_like_unnamed. destruct (c_take_while (fun x => negb (ws x)) c) as [[[url st] l] c'] eqn:E.
  destruct (c_take_while_adv _ _ _ _ _ _ E) as (_ & _ & L & R & _). intros [= _ <-]. exists url, (c_rest c'). auto.
Qed.

(** ** [parse_name] *)
Lemma parse_name_ok c0 c : adv c0 c ->
  match parse_name ws getenv project_root c with
  | POk (_, _, c') => adv c c'
  | PErr e => span_from c0 e /\ no_panic e
  end.
Proof.
  intros A0. unfold parse_name, err.
  destruct (c_next c) as [[[index ch] c1]|] eqn:Enx.
  2:{ destruct (c_next_none c Enx) as [R _]. split; [|np]. apply (span_from_adv c0 c _ A0). now apply span_at_end. }
  destruct (c_next_adv c index ch c1 Enx) as (A1 & -> & R1 & P1).
  destruct (ascii_alnum ch) eqn:Hal.
  - destruct (c_take_while name_char c1) as [[[more st] len] c2] eqn:Etw.
    destruct (c_take_while_adv _ _ _ _ _ _ Etw) as (A2 & _ & _ & R2 & P2 & F2 & _).
    destruct (last_opt (ch :: more)) as [l|] eqn:El; [|exfalso; exact (last_opt_cons _ _ El)].
    destruct (is_punct l) eqn:Hp.
    + split; [|np]. apply (span_from_adv c0 c _ A0). apply sspan_span_from. apply cell_sspan.
      assert (c_pos c2 - 1 = c_pos c + text_len (ch :: more) - 1) as -> by (cbn [text_len]; slia).
      apply (cell_last_ascii c (ch :: more) (c_rest c2) l); [|exact El|now apply is_punct_ascii].
      rewrite R1, R2. reflexivity.
    + destruct (normalize_owned (ch :: more)) as [n|] eqn:En.
      * exact (adv_trans _ _ _ A1 A2).
      * exfalso. exact (scanned_name_valid ch more l Hal F2 El Hp En).
  - destruct (looks_like_unnamed ws getenv project_root c) as [b len] eqn:Elu.
    destruct (looks_like_unnamed_len c b len Elu) as (a & t & Ra & ->).
    destruct b.
    + split; [|np]. apply (span_from_adv c0 c _ A0). now apply (span_prefix c a t).
    + split; [|np]. apply (span_from_adv c0 c _ A0). apply (span_at_next c (c_pos c) ch c1). exact Enx.
Qed.

(** ** [parse_extras]: all spans are strictly inside the input *)
Definition eres {A} (c0 c : cursor) (r : pres (A * cursor)) : Prop :=
  match r with
  | POk (_, c') => adv c c'
  | PErr e => sspan c0 e /\ no_panic e
  end.

Definition extras_sep (first : bool) (c : cursor) (nx : option (N * N * cursor)) : pres cursor :=
  match nx with
  | Some (pos, x, c') =>
      if x =? 44 then (if first then err EExtrasComma pos 1 else POk c')
      else if first then POk c else err EExtrasSep pos (utf8_len x)
  | None => POk c
  end.

Definition extras_item (rec : cursor -> list text -> bool -> pres (list text * cursor)) (bracket_pos : N)
    (acc : list text) (c1 : cursor) : pres (list text * cursor) :=
  let c2 := eat_ws c1 in
  match c_next c2 with
  | None => err EExtrasEof bracket_pos 1
  | Some (pos, a, c3) =>
      if ascii_alnum a then
        let '(more, _, _, c4) := c_take_while name_char c3 in
        let buffer := a :: more in
        let bad := match c_next c4 with
                   | Some (p, ch, _) => if negb (ch =? 44) && negb (ch =? 93) && negb (ws ch) then Some (p, ch) else None
                   | None => None
                   end in
        match bad with
        | Some (p, ch) => err EExtrasChar p (utf8_len ch)
        | None =>
            match last_opt buffer with
            | Some l =>
                if is_punct l then err EExtrasEnd (c_pos c4 - 1) 1
                else match normalize_owned buffer with
                     | Some n => rec (eat_ws c4) (n :: acc) false
                     | None => err EPanic 0 0
                     end
            | None => err EPanic 0 0
            end
        end
      else err EExtrasStart pos (utf8_len a)
  end.

Definition extras_step (rec : cursor -> list text -> bool -> pres (list text * cursor)) (bracket_pos : N)
    (c : cursor) (acc : list text) (first : bool) : pres (list text * cursor) :=
  let rest := match extras_sep first c (c_next c) with
              | PErr e => PErr e
              | POk c1 => extras_item rec bracket_pos acc c1
              end in
  match c_next c with
  | Some (_, x, c') => if x =? 93 then POk (rev acc, c') else rest
  | None => rest
  end.

Lemma extras_loop_S f bp c acc first :
  extras_loop ws (S f) bp c acc first = extras_step (extras_loop ws f bp) bp c acc first.
Proof.
  cbn [extras_loop]. unfold extras_step, extras_sep, extras_item.
  destruct (c_next c) as [[[p x] c']|]; [|reflexivity].
  destruct x as [|q]; [reflexivity|]. do 7 (destruct q as [q|q|]; try reflexivity).
Qed.

Lemma extras_sep_ok c0 c first : adv c0 c ->
  match extras_sep first c (c_next c) with
  | POk c1 => adv c c1
  | PErr e => sspan c0 e /\ no_panic e
  end.
Proof.
  intros A0. unfold extras_sep, err. destruct (c_next c) as [[[pos x] c']|] eqn:Enx; [|apply adv_refl].
  destruct (c_next_adv c pos x c' Enx) as (A1 & _).
  destruct (N.eqb_spec x 44) as [->|Hx].
  - destruct first; [|exact A1]. split; [|np]. apply (sspan_adv c0 c _ A0). exact (sspan_at_next c pos 44 c' _ Enx).
  - destruct first; [apply adv_refl|]. split; [|np]. apply (sspan_adv c0 c _ A0). exact (sspan_at_next c pos x c' _ Enx).
Qed.

Lemma extras_item_ok c0 rec bp acc c1 : adv c0 c1 -> cell c0 bp ->
  (forall c' acc' first', adv c1 c' -> (List.length (c_rest c') < List.length (c_rest c1))%nat -> eres c0 c' (rec c' acc' first')) ->
  eres c0 c1 (extras_item rec bp acc c1).
Proof using ws.
  intros A0 Hbp Hrec. unfold extras_item, err.
  pose proof (eat_ws_adv ws c1) as A2. set (c2 := eat_ws c1) in A2 |- *.
  pose proof (adv_trans _ _ _ A0 A2) as A02.
  destruct (c_next c2) as [[[pos a] c3]|] eqn:Enx.
  2:{ split; [|np]. now apply cell_sspan. }
  destruct (c_next_adv c2 pos a c3 Enx) as (A3 & -> & R3 & P3).
  destruct (ascii_alnum a) eqn:Hal.
  2:{ split; [|np]. apply (sspan_adv c0 c2 _ A02). exact (sspan_at_next c2 _ a c3 _ Enx). }
  destruct (c_take_while name_char c3) as [[[more st] len] c4] eqn:Etw.
  destruct (c_take_while_adv _ _ _ _ _ _ Etw) as (A4 & _ & _ & R4 & P4 & F4 & _).
  pose proof (adv_trans _ _ _ A3 A4) as A24.
  destruct (match c_next c4 with
            | Some (p, ch, _) => if negb (ch =? 44) && negb (ch =? 93) && negb (ws ch) then Some (p, ch) else None
            | None => None
            end) as [[p ch]|] eqn:Ebad.
  { split; [|np]. destruct (c_next c4) as [[[p' ch'] c5]|] eqn:En4; [|discriminate].
    destruct (negb (ch' =? 44) && negb (ch' =? 93) && negb (ws ch')); [|discriminate]. injection Ebad as -> ->.
    apply (sspan_adv c0 c4 _ (adv_trans _ _ _ A02 A24)). exact (sspan_at_next c4 p ch c5 _ En4). }
  destruct (last_opt (a :: more)) as [l|] eqn:El; [|exfalso; exact (last_opt_cons _ _ El)].
  destruct (is_punct l) eqn:Hp.
  { split; [|np]. apply cell_sspan. apply (cell_adv c0 c2 _ A02).
    assert (c_pos c4 - 1 = c_pos c2 + text_len (a :: more) - 1) as -> by (cbn [text_len]; clear - P3 P4; slia).
    apply (cell_last_ascii c2 (a :: more) (c_rest c4) l); [|exact El|now apply is_punct_ascii].
    rewrite R3, R4. reflexivity. }
  destruct (normalize_owned (a :: more)) as [n|] eqn:En.
  2:{ exfalso. exact (scanned_name_valid a more l Hal F4 El Hp En). }
  pose proof (eat_ws_adv ws c4) as A5. set (c5 := eat_ws c4) in A5 |- *.
  assert (adv c1 c5) as A15 by exact (adv_trans _ _ _ A2 (adv_trans _ _ _ A24 A5)).
  assert (List.length (c_rest c5) < List.length (c_rest c1))%nat as Hlen.
  { pose proof (adv_length _ _ A2) as L2. pose proof (adv_length _ _ (adv_trans _ _ _ A4 A5)) as L5.
    rewrite R3 in L2. cbn [List.length] in L2. clear - L2 L5. slia. }
  specialize (Hrec c5 (n :: acc) false A15 Hlen). unfold eres in Hrec |- *.
  destruct (rec c5 (n :: acc) false) as [[l' c']|e']; [|exact Hrec]. exact (adv_trans _ _ _ A15 Hrec).
Qed.

Lemma extras_loop_ok c0 bp : cell c0 bp -> forall fuel c acc first,
  adv c0 c -> (List.length (c_rest c) < fuel)%nat -> eres c0 c (extras_loop ws fuel bp c acc first).
Proof using ws.
  intros Hbp. induction fuel as [|f IH]; intros c acc first A0 Hf; [clear - Hf; slia|].
  rewrite extras_loop_S. unfold extras_step.
  assert (eres c0 c (match extras_sep first c (c_next c) with
                     | PErr e => PErr e
                     | POk c1 => extras_item (extras_loop ws f bp) bp acc c1
                     end)) as Hrest.
  { pose proof (extras_sep_ok c0 c first A0) as Hs. destruct (extras_sep first c (c_next c)) as [c1|e]; [|exact Hs].
    pose proof (extras_item_ok c0 (extras_loop ws f bp) bp acc c1 (adv_trans _ _ _ A0 Hs) Hbp) as Hi.
    assert (eres c0 c1 (extras_item (extras_loop ws f bp) bp acc c1)) as Hi'.
    { apply Hi. intros c' acc' first' A' L'. apply IH; [exact (adv_trans _ _ _ A0 (adv_trans _ _ _ Hs A'))|].
      pose proof (adv_length _ _ Hs) as Ls. clear - Ls L' Hf. slia. }
    unfold eres in Hi' |- *. destruct (extras_item (extras_loop ws f bp) bp acc c1) as [[l' c']|e']; [|exact Hi'].
    exact (adv_trans _ _ _ Hs Hi'). }
  destruct (c_next c) as [[[p x] c']|] eqn:Enx; [|exact Hrest].
  destruct (x =? 93); [|exact Hrest]. exact (proj1 (c_next_adv c p x c' Enx)).
Qed.

Lemma parse_extras_ok c0 c : adv c0 c -> eres c0 c (parse_extras ws c).
Proof using ws.
  intros A0. unfold parse_extras. destruct (c_eat_char 91 c) as [[bp c1]|] eqn:Eb; [|apply adv_refl].
  destruct (c_eat_char_adv 91 c bp c1 Eb) as (A1 & -> & R1 & P1).
  pose proof (eat_ws_adv ws c1) as A2. set (c2 := eat_ws c1) in A2 |- *.
  assert (cell c0 (c_pos c)) as Hbp.
  { apply (cell_adv c0 c _ A0). apply (cell_at_next c (c_pos c) 91 c1); [|reflexivity]. unfold c_next. rewrite R1.
    destruct c1 as [p1 r1]. cbn [c_pos c_rest] in P1 |- *. rewrite P1. reflexivity. }
  pose proof (extras_loop_ok c0 (c_pos c) Hbp (S (List.length (c_rest c2))) c2 [] true
                (adv_trans _ _ _ A0 (adv_trans _ _ _ A1 A2)) (Nat.lt_succ_diag_r _)) as H.
  unfold eres in H |- *. destruct (extras_loop ws (S (List.length (c_rest c2))) (c_pos c) c2 [] true) as [[l c']|e]; [|exact H].
  exact (adv_trans _ _ _ A1 (adv_trans _ _ _ A2 H)).
Qed.

(** ** version specifiers *)
Lemma adv_cons pos x r : adv {| c_pos := pos; c_rest := x :: r |} {| c_pos := pos + utf8_len x; c_rest := r |}.
Proof.
  pose proof (adv_app {| c_pos := pos; c_rest := x :: r |} [x] r eq_refl) as H. cbn [c_pos text_len] in H.
  replace (pos + utf8_len x) with (pos + (utf8_len x + 0)) by slia. exact H.
Qed.

Lemma one_spec_ok c0 buf start pos : bnd c0 start -> start <= pos -> bnd c0 pos ->
  match one_spec specparse buf start pos with
  | POk _ => True
  | PErr e => span_from c0 e /\ no_panic e
  end.
Proof.
  intros Bs Hle Bp. unfold one_spec, err. destruct (specparse (rev buf)); [exact I|]. split; [|np].
  split; [exact Bs|]. cbn [e_start e_len]. split.
  - intros E. pose proof (bnd_le_end c0 pos Bp). slia.
  - intros _. replace (start + (pos - start)) with pos by slia. exact Bp.
Qed.

Lemma specs_bare_ok c0 : forall r pos start buf acc,
  bnd c0 start -> start <= pos -> adv c0 {| c_pos := pos; c_rest := r |} ->
  res_ok c0 {| c_pos := pos; c_rest := r |} (specs_bare specparse r pos start buf acc).
Proof using specparse.
  induction r as [|c r IH]; intros pos start buf acc Bs Hle A0; cbn [specs_bare].
  - pose proof (one_spec_ok c0 buf start pos Bs Hle (bnd_of_adv _ _ A0)) as H1.
    destruct (one_spec specparse buf start pos) as [sp|e]; [|exact H1]. apply adv_refl.
  - pose proof (one_spec_ok c0 buf start pos Bs Hle (bnd_of_adv _ _ A0)) as H1.
    pose proof (adv_cons pos c r) as A1.
    destruct (N.eqb_spec c 44) as [->|H44].
    + destruct (one_spec specparse buf start pos) as [sp|e]; [|exact H1].
      change (pos + 1) with (pos + utf8_len 44).
      pose proof (adv_trans _ _ _ A0 A1) as A01.
      specialize (IH (pos + utf8_len 44) (pos + utf8_len 44) [] (sp :: acc) (bnd_of_adv _ _ A01) (N.le_refl _) A01).
      unfold res_ok in IH |- *. destruct (specs_bare specparse r (pos + utf8_len 44) (pos + utf8_len 44) [] (sp :: acc)) as [[l c']|e]; [|exact IH].
      exact (adv_trans _ _ _ A1 IH).
    + destruct (c =? 59).
      * destruct (one_spec specparse buf start pos) as [sp|e]; [|exact H1]. apply adv_refl.
      * pose proof (adv_trans _ _ _ A0 A1) as A01.
        assert (start <= pos + utf8_len c) as Hle' by slia.
        specialize (IH (pos + utf8_len c) start (c :: buf) acc Bs Hle' A01).
        unfold res_ok in IH |- *. destruct (specs_bare specparse r (pos + utf8_len c) start (c :: buf) acc) as [[l c']|e]; [|exact IH].
        exact (adv_trans _ _ _ A1 IH).
Qed.

Lemma specs_paren_ok c0 bp : cell c0 bp -> forall r pos start buf acc,
  bnd c0 start -> start <= pos -> adv c0 {| c_pos := pos; c_rest := r |} ->
  res_ok c0 {| c_pos := pos; c_rest := r |} (specs_paren specparse r pos start bp buf acc).
Proof using specparse.
  intros Hbp. induction r as [|c r IH]; intros pos start buf acc Bs Hle A0; cbn [specs_paren].
  - unfold err. split; [|np]. apply sspan_span_from. now apply cell_sspan.
  - pose proof (one_spec_ok c0 buf start pos Bs Hle (bnd_of_adv _ _ A0)) as H1.
    pose proof (adv_cons pos c r) as A1.
    destruct (N.eqb_spec c 44) as [->|H44].
    + destruct (one_spec specparse buf start pos) as [sp|e]; [|exact H1].
      change (pos + 1) with (pos + utf8_len 44).
      pose proof (adv_trans _ _ _ A0 A1) as A01.
      specialize (IH (pos + utf8_len 44) (pos + utf8_len 44) [] (sp :: acc) (bnd_of_adv _ _ A01) (N.le_refl _) A01).
      unfold res_ok in IH |- *. destruct (specs_paren specparse r (pos + utf8_len 44) (pos + utf8_len 44) bp [] (sp :: acc)) as [[l c']|e]; [|exact IH].
      exact (adv_trans _ _ _ A1 IH).
    + destruct (N.eqb_spec c 41) as [->|H41].
      * destruct (one_spec specparse buf start pos) as [sp|e]; [|exact H1]. exact A1.
      * pose proof (adv_trans _ _ _ A0 A1) as A01.
        assert (start <= pos + utf8_len c) as Hle' by slia.
        specialize (IH (pos + utf8_len c) start (c :: buf) acc Bs Hle' A01).
        unfold res_ok in IH |- *. destruct (specs_paren specparse r (pos + utf8_len c) start bp (c :: buf) acc) as [[l c']|e]; [|exact IH].
        exact (adv_trans _ _ _ A1 IH).
Qed.

Lemma specs_bare_ok' c0 c : adv c0 c -> res_ok c0 c (specs_bare specparse (c_rest c) (c_pos c) (c_pos c) [] []).
Proof.
  intros A0. destruct c as [p r]. cbn [c_pos c_rest]. apply specs_bare_ok; [exact (bnd_of_adv _ _ A0)|apply N.le_refl|exact A0].
Qed.

Lemma specs_paren_ok' c0 c bp : cell c0 bp -> adv c0 c ->
  res_ok c0 c (specs_paren specparse (c_rest c) (c_pos c) (c_pos c) bp [] []).
Proof.
  intros Hbp A0. destruct c as [p r]. cbn [c_pos c_rest]. apply specs_paren_ok; [exact Hbp|exact (bnd_of_adv _ _ A0)|apply N.le_refl|exact A0].
Qed.

(** ** URL end detection *)
(** the last consumed character [l] ends at [q] *)
Definition lastp (c0 : cursor) (l : option N) (q : N) : Prop :=
  match l with None => True | Some x => exists p, bnd c0 p /\ q = p + utf8_len x end.

Lemma url_scan_ok c0 : forall r pos last u c' l, url_scan ws r pos last = (u, c', l) ->
  adv c0 {| c_pos := pos; c_rest := r |} -> lastp c0 last pos ->
  adv {| c_pos := pos; c_rest := r |} c' /\ (exists t, r = u ++ t) /\ lastp c0 l (c_pos c').
Proof.
  induction r as [|c r IH]; intros pos last u c' l; cbn [url_scan].
  - intros [= <- <- <-] A0 L. split; [apply adv_refl|]. split; [exists []; reflexivity|exact L].
  - intros H A0 L. pose proof (adv_cons pos c r) as A1.
    assert (lastp c0 (Some c) (pos + utf8_len c)) as L1.
    { exists pos. split; [exact (bnd_of_adv _ _ A0)|reflexivity]. }
    destruct ((c =? 13) || (c =? 10)).
    { injection H as <- <- <-. split; [exact A1|]. split; [exists (c :: r); reflexivity|exact L1]. }
    destruct (ws c && ws_then_end ws r).
    { injection H as <- <- <-. split; [exact A1|]. split; [exists (c :: r); reflexivity|exact L1]. }
    destruct (((c =? 59) || (c =? 35)) && next_is_ws ws r).
    { injection H as <- <- <-. split; [exact A1|]. split; [exists r; reflexivity|exact L1]. }
    destruct (url_scan ws r (pos + utf8_len c) (Some c)) as [[u1 c1] l1] eqn:E. injection H as <- <- <-.
    destruct (IH _ _ _ _ _ E (adv_trans _ _ _ A0 A1) L1) as (A2 & (t & ->) & L2).
    split; [exact (adv_trans _ _ _ A1 A2)|]. split; [exists t; reflexivity|exact L2].
Qed.

Lemma uurl_scan_ok c0 : forall r pos depth last u c' l, uurl_scan ws r pos depth last = (u, c', l) ->
  adv c0 {| c_pos := pos; c_rest := r |} -> lastp c0 last pos ->
  adv {| c_pos := pos; c_rest := r |} c' /\ (exists t, r = u ++ t) /\ lastp c0 l (c_pos c').
Proof.
  induction r as [|c r IH]; intros pos depth last u c' l; cbn [uurl_scan].
  - intros [= <- <- <-] A0 L. split; [apply adv_refl|]. split; [exists []; reflexivity|exact L].
  - intros H A0 L. pose proof (adv_cons pos c r) as A1.
    assert (lastp c0 (Some c) (pos + utf8_len c)) as L1.
    { exists pos. split; [exact (bnd_of_adv _ _ A0)|reflexivity]. }
    destruct ((c =? 13) || (c =? 10)).
    { injection H as <- <- <-. split; [exact A1|]. split; [exists (c :: r); reflexivity|exact L1]. }
    cbv zeta in H. set (d := if c =? 91 then depth + 1 else if c =? 93 then depth - 1 else depth) in H.
    destruct ((d =? 0) && ws c && ws_then_end ws r).
    { injection H as <- <- <-. split; [exact A1|]. split; [exists (c :: r); reflexivity|exact L1]. }
    destruct ((d =? 0) && ((c =? 59) || (c =? 35)) && next_is_ws ws r).
    { injection H as <- <- <-. split; [exact A1|]. split; [exists r; reflexivity|exact L1]. }
    destruct (uurl_scan ws r (pos + utf8_len c) d (Some c)) as [[u1 c1] l1] eqn:E. injection H as <- <- <-.
    destruct (IH _ _ _ _ _ _ E (adv_trans _ _ _ A0 A1) L1) as (A2 & (t & ->) & L2).
    split; [exact (adv_trans _ _ _ A1 A2)|]. split; [exists t; reflexivity|exact L2].
Qed.

Lemma parse_url_ok c0 c : adv c0 c ->
  match parse_url ws url_oracle getenv project_root verbatim ext c with
  | POk (_, _, c', last) => adv c c' /\ lastp c0 last (c_pos c')
  | PErr e => span_from c0 e /\ no_panic e
  end.
Proof using ws url_oracle getenv project_root verbatim ext.
  intros A0. unfold parse_url, err. pose proof (eat_ws_adv ws c) as A1. set (c1 := eat_ws c) in A1 |- *.
  pose proof (adv_trans _ _ _ A0 A1) as A01.
  destruct (url_scan ws (c_rest c1) (c_pos c1) None) as [[u c2] last] eqn:E.
  assert (c1 = {| c_pos := c_pos c1; c_rest := c_rest c1 |}) as Eta by (destruct c1; reflexivity).
  destruct (url_scan_ok c0 _ _ _ _ _ _ E) as (A2 & (t & R) & L); [rewrite <- Eta; exact A01|exact I|].
  rewrite <- Eta in A2.
  destruct u as [|u0 u'].
  - split; [|np]. apply (span_from_adv c0 c1 _ A01). exact (span_prefix c1 [] (c_rest c1) _ eq_refl).
  - destruct (parse_url_T url_oracle getenv project_root verbatim ext (u0 :: u')) as [[d g]|].
    + split; [exact (adv_trans _ _ _ A1 A2)|exact L].
    + split; [|np]. apply (span_from_adv c0 c1 _ A01). exact (span_prefix c1 _ t _ R).
Qed.

(** ** the tail *)
Notation pmc := (parse_markers_cursor ws alpha alnum kw vparse specpat specver pv pfv).
Definition tail_mk (c1 : cursor) : pres (option mdd * list wkind * cursor) :=
  match c_next c1 with
  | Some (_, x, c2) => if x =? 59 then pmc c2 else POk (None, [], c1)
  | None => POk (None, [], c1)
  end.
Definition tail_rest (is_url : bool) (requirement_end : N) (last : option N)
    (mk : pres (option mdd * list wkind * cursor)) : pres (option mdd * list wkind) :=
  match mk with
  | PErr e => PErr e
  | POk (m, w, c3) =>
      let c4 := eat_ws c3 in
      match c_next c4 with
      | None => POk (m, w)
      | Some (pos, ch, _) =>
          let amb := match m, last with
                     | None, Some l => if is_url && ((l =? 59) || (l =? 35)) then Some l else None
                     | _, _ => None
                     end in
          match amb with
          | Some l => err (EAmbiguous l) (requirement_end - 1) 1
          | None => err (match m with None => EEndOrSemi | Some _ => EEnd end) pos (utf8_len ch)
          end
      end
  end.

Lemma parse_tail_eq is_url rend last c :
  parse_tail ws alpha alnum kw vparse specpat specver pv pfv is_url rend last c =
  tail_rest is_url rend last (tail_mk (eat_ws c)).
Proof.
  unfold parse_tail, tail_rest, tail_mk. destruct (c_next (eat_ws c)) as [[[p x] c2]|]; [|reflexivity].
  destruct x as [|q]; [reflexivity|]. do 6 (destruct q as [q|q|]; try reflexivity).
Qed.

Lemma tail_mk_ok c0 c1 : adv c0 c1 ->
  match tail_mk c1 with
  | POk (_, _, c3) => adv c0 c3
  | PErr e => span_from c0 e /\ no_panic e
  end.
Proof.
  intros A0. unfold tail_mk. destruct (c_next c1) as [[[p x] c2]|] eqn:Enx; [|exact A0].
  destruct (x =? 59); [|exact A0]. destruct (c_next_adv c1 p x c2 Enx) as (A1 & _).
  pose proof (Hmarker c2) as H. destruct (pmc c2) as [[[m w] c3]|e].
  - exact (adv_trans _ _ _ A0 (adv_trans _ _ _ A1 (proj1 H))).
  - destruct H as [S NP]. split; [|exact NP]. exact (span_from_adv c0 c2 _ (adv_trans _ _ _ A0 A1) S).
Qed.

Lemma parse_tail_ok c0 is_url rend last c e : adv c0 c -> bnd c0 rend -> lastp c0 last rend ->
  parse_tail ws alpha alnum kw vparse specpat specver pv pfv is_url rend last c = PErr e ->
  span_from c0 e /\ no_panic e.
Proof using ws alpha alnum kw vparse specpat specver pv pfv Hmarker.
  intros A0 Br L. rewrite parse_tail_eq. pose proof (tail_mk_ok c0 (eat_ws c) (adv_trans _ _ _ A0 (eat_ws_adv ws c))) as Hm.
  unfold tail_rest. destruct (tail_mk (eat_ws c)) as [[[m w] c3]|em]; [|intros [= <-]; exact Hm].
  pose proof (adv_trans _ _ _ Hm (eat_ws_adv ws c3)) as A4. set (c4 := eat_ws c3) in A4 |- *.
  destruct (c_next c4) as [[[pos ch] c5]|] eqn:Enx; [|discriminate].
  destruct (match m, last with
            | None, Some l => if is_url && ((l =? 59) || (l =? 35)) then Some l else None
            | _, _ => None
            end) as [l|] eqn:Eamb; unfold err; intros [= <-].
  - split; [|np]. destruct m; [discriminate|]. destruct last as [l'|]; [|discriminate].
    destruct (is_url && ((l' =? 59) || (l' =? 35))) eqn:Ec; [|discriminate]. injection Eamb as ->.
    apply andb_true_iff in Ec as [_ Ec]. rewrite orb_true_iff, !N.eqb_eq in Ec.
    destruct L as (p & Bp & Ep). assert (utf8_len l = 1) as U by (apply utf8_len_ascii; slia).
    rewrite U in Ep. apply sspan_span_from. apply cell_sspan.
    replace (rend - 1) with p by slia. split; [exact Bp|]. split; [rewrite <- Ep; exact Br|].
    pose proof (bnd_le_end c0 rend Br). slia.
  - split; [|destruct m; np]. apply (span_from_adv c0 c4 _ A4). exact (span_at_next c4 pos ch c5 _ Enx).
Qed.

(** ** [parse_requirement] *)
Definition kind_ok {A} (c0 : cursor) (r : pres (A * cursor * option N)) : Prop :=
  match r with
  | POk (_, c8, last) => adv c0 c8 /\ lastp c0 last (c_pos c8)
  | PErr e => span_from c0 e /\ no_panic e
  end.

Theorem parse_requirement_renderable (s : text) (e : perr) :
  parse_requirement ws alpha alnum kw vparse specpat specver pv pfv specparse url_oracle getenv project_root verbatim ext s = PErr e ->
  renderable s e /\ no_panic e.
Proof.
  intros H. set (c0 := c_new s).
  enough (span_from c0 e /\ no_panic e) as [S NP] by (split; [apply span_from_new; exact S|exact NP]).
  unfold parse_requirement in H. cbv zeta in H. fold c0 in H.
  pose proof (eat_ws_adv ws c0) as Aa. set (ca := eat_ws c0) in *.
  pose proof (parse_name_ok c0 ca Aa) as Hn.
  destruct (parse_name ws getenv project_root ca) as [[[name raw] c1]|en]; [|injection H as <-; exact Hn].
  pose proof (adv_trans _ _ _ Aa (adv_trans _ _ _ Hn (eat_ws_adv ws c1))) as A2. set (c2 := eat_ws c1) in *.
  pose proof (parse_extras_ok c0 c2 A2) as He. unfold eres in He.
  destruct (parse_extras ws c2) as [[extras c3]|ee].
  2:{ injection H as <-. destruct He as [Se NPe]. split; [now apply sspan_span_from|exact NPe]. }
  pose proof (adv_trans _ _ _ A2 (adv_trans _ _ _ He (eat_ws_adv ws c3))) as A4. set (c4 := eat_ws c3) in *.
  match type of H with
  | match ?K with POk _ => _ | PErr _ => _ end = _ => assert (kind_ok c0 K) as HK; [|destruct K as [[[k c8] last]|ek]]
  end.
  { destruct (c_next c4) as [[[p x] c5]|] eqn:Enx; [|split; [exact A4|exact I]].
    destruct (c_next_adv c4 p x c5 Enx) as (A5 & _). pose proof (adv_trans _ _ _ A4 A5) as A05.
    destruct (N.eqb_spec x 64) as [->|H64].
    { pose proof (parse_url_ok c0 c5 A05) as Hu.
      destruct (parse_url ws url_oracle getenv project_root verbatim ext c5) as [[[[d g] c6] last]|eu]; [|exact Hu].
      split; [exact (adv_trans _ _ _ A05 (proj1 Hu))|exact (proj2 Hu)]. }
    destruct (N.eqb_spec x 40) as [->|H40].
    { pose proof (adv_trans _ _ _ A05 (eat_ws_adv ws c5)) as A6. set (c6 := eat_ws c5) in *.
      assert (cell c0 p) as Hp. { apply (cell_adv c0 c4 _ A4). apply (cell_at_next c4 p 40 c5 Enx). slia. }
      pose proof (specs_paren_ok' c0 c6 p Hp A6) as Hs. unfold res_ok in Hs.
      destruct (specs_paren specparse (c_rest c6) (c_pos c6) (c_pos c6) p [] []) as [[l c7]|es]; [|exact Hs].
      split; [exact (adv_trans _ _ _ A6 Hs)|exact I]. }
    destruct (is_spec_start x).
    { pose proof (specs_bare_ok' c0 c4 A4) as Hs. unfold res_ok in Hs.
      destruct (specs_bare specparse (c_rest c4) (c_pos c4) (c_pos c4) [] []) as [[l c7]|es]; [|exact Hs].
      split; [exact (adv_trans _ _ _ A4 Hs)|exact I]. }
    destruct (x =? 59); [split; [exact A4|exact I]|].
    destruct (looks_like_unnamed ws getenv project_root c0) as [b len] eqn:Elu.
    destruct (looks_like_unnamed_len c0 b len Elu) as (a & t & Ra & ->).
    destruct b; unfold err.
    - split; [|np]. exact (span_prefix c0 a t _ Ra).
    - split; [|np]. apply (span_from_adv c0 c4 _ A4). exact (span_at_next c4 p x c5 _ Enx). }
  2:{ injection H as <-. exact HK. }
  destruct HK as [A8 L8].
  destruct (match k with KNone => looks_like_archive raw | _ => false end).
  { unfold err in H. injection H as <-. split; [|np]. exact (span_prefix c0 [] s _ eq_refl). }
  destruct (parse_tail ws alpha alnum kw vparse specpat specver pv pfv
              (match k with KUrl _ _ => true | _ => false end) (c_pos c8) last c8) as [[m w]|et] eqn:Et; [discriminate|].
  injection H as <-. exact (parse_tail_ok c0 _ _ _ _ _ A8 (bnd_of_adv _ _ A8) L8 Et).
Qed.

(** ** [parse_unnamed] *)
Theorem parse_unnamed_renderable (s : text) (e : perr) :
  parse_unnamed ws alpha alnum kw vparse specpat specver pv pfv url_oracle getenv project_root ext s = PErr e ->
  renderable s e /\ no_panic e.
Proof using ws alpha alnum kw vparse specpat specver pv pfv Hmarker url_oracle getenv project_root ext.
  intros H. set (c0 := c_new s).
  enough (span_from c0 e /\ no_panic e) as [S NP] by (split; [apply span_from_new; exact S|exact NP]).
  unfold parse_unnamed in H. cbv zeta in H. fold c0 in H.
  pose proof (adv_trans _ _ _ (eat_ws_adv ws c0) (eat_ws_adv ws (eat_ws c0))) as A1. set (c1 := eat_ws (eat_ws c0)) in A1, H |- *.
  destruct (uurl_scan ws (c_rest c1) (c_pos c1) 0 None) as [[url c2] last] eqn:E.
  assert (c1 = {| c_pos := c_pos c1; c_rest := c_rest c1 |}) as Eta by (destruct c1; reflexivity).
  destruct (uurl_scan_ok c0 _ _ _ _ _ _ _ E) as (A2 & (t & R) & L); [rewrite <- Eta; exact A1|exact I|].
  rewrite <- Eta in A2. pose proof (adv_trans _ _ _ A1 A2) as A02.
  destruct url as [|u0 url'].
  { unfold err in H. injection H as <-. split; [|np]. apply (span_from_adv c0 c1 _ A1). exact (span_prefix c1 [] (c_rest c1) _ eq_refl). }
  set (url := u0 :: url') in R, H |- *.
  assert (forall u, match dispatch_url url_oracle ext (expand getenv project_root u) with
                    | None => err EUrl (c_pos c1) (text_len url)
                    | Some d =>
                        match parse_tail ws alpha alnum kw vparse specpat specver pv pfv true (c_pos c2) last c2 with
                        | PErr e => PErr e
                        | POk (m, w) => POk ({| u_disp := d; u_given := Some u; u_extras := []; u_marker := m |}, w)
                        end
                    end = PErr e -> span_from c0 e /\ no_panic e) as Hrest0.
  { intros u Hu. destruct (dispatch_url url_oracle ext (expand getenv project_root u)) as [d|].
    - destruct (parse_tail ws alpha alnum kw vparse specpat specver pv pfv true (c_pos c2) last c2) as [[m w]|et] eqn:Et; [discriminate|].
      injection Hu as <-. exact (parse_tail_ok c0 _ _ _ _ _ A02 (bnd_of_adv _ _ A02) L Et).
    - unfold err in Hu. injection Hu as <-. split; [|np]. apply (span_from_adv c0 c1 _ A1). exact (span_prefix c1 url t _ R). }
  assert (forall u ex, match dispatch_url url_oracle ext (expand getenv project_root u) with
                    | None => err EUrl (c_pos c1) (text_len url)
                    | Some d =>
                        match parse_tail ws alpha alnum kw vparse specpat specver pv pfv true (c_pos c2) last c2 with
                        | PErr e => PErr e
                        | POk (m, w) => POk ({| u_disp := d; u_given := Some u; u_extras := ex; u_marker := m |}, w)
                        end
                    end = PErr e -> span_from c0 e /\ no_panic e) as Hrest.
  { intros u ex Hu. apply (Hrest0 u). destruct (dispatch_url url_oracle ext (expand getenv project_root u)) as [d|]; [|exact Hu].
    destruct (parse_tail ws alpha alnum kw vparse specpat specver pv pfv true (c_pos c2) last c2) as [[m w]|et]; [discriminate|exact Hu]. }
  clear Hrest0.
  destruct (split_extras url) as [[u ex]|] eqn:Ese.
  2:{ exact (Hrest url [] H). }
  pose proof (split_extras_app url u ex Ese) as Eu.
  pose proof (parse_extras_ok (c_new ex) (c_new ex) (adv_refl _)) as Hx. unfold eres in Hx.
  destruct (parse_extras ws (c_new ex)) as [[l cx]|er].
  { exact (Hrest u l H). }
  unfold err in H. injection H as <-. destruct Hx as [(B1 & B2 & Ne) NPx].
  split; [|exact NPx]. apply (span_from_adv c0 c1 _ A1). apply sspan_span_from.
  assert (c_rest c1 = u ++ ex ++ t) as R' by (rewrite R, Eu, <- app_assoc; reflexivity).
  split; [|split]; cbn [e_start e_len].
  - exact (bnd_rebase c1 u ex t _ R' B1).
  - rewrite <- N.add_assoc. exact (bnd_rebase c1 u ex t _ R' B2).
  - pose proof (bnd_le_end _ _ B1) as Le. unfold endpos in Le, Ne |- *. cbn [c_new c_pos c_rest] in Le, Ne.
    rewrite R', !text_len_app. slia.
Qed.

Theorem parse_extras_text_renderable (s : text) (e : perr) :
  parse_extras_text ws s = PErr e -> renderable s e /\ no_panic e.
Proof using ws.
  unfold parse_extras_text. pose proof (parse_extras_ok (c_new s) (c_new s) (adv_refl _)) as H.
  destruct (parse_extras ws (c_new s)) as [[l c']|e']; [discriminate|]. intros [= <-]. destruct H as [S NP].
  split; [|exact NP]. apply span_from_new. now apply sspan_span_from.
Qed.

End SpanReq.

Print Assumptions parse_requirement_renderable.
Print Assumptions parse_extras_text_renderable.
Print Assumptions parse_unnamed_renderable.
