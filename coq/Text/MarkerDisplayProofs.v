(** C05, the text half: the text printed by [Display for MarkerTreeContents] (Text/MarkerDisplay.v) is the
    text of a well-formed marker source tree (Text/MarkerAccept.v), hence parses - by the marker acceptance
    theorem - to the diagram that [compile] builds for the left-nested and/or tree of the clauses, which is
    [recompile_dnf] (Marker/DnfProofs.v), which is the marker itself ([to_dnf_roundtrip_id]).

    What is assumed about one printed comparison is the predicate [term_ok]: its three tokens are
    well-formed ([cmp_wf]) and the typed dispatch reads them back as the same expression without a warning.
    [term_ok] is proved outright for the comparisons that involve no PEP 440 text ([EString], [EIn],
    [EContains], normalised [EExtra]) and reduced to the PEP 440 round trip for [EVersion] / [EVersionIn]. *)
From Coq Require Import List Bool NArith Arith Lia.
From PV Require Import Base.Order Base.CutDef DD.DDModel DD.DDBasics DD.DDAnd DD.DDWf Names.NameModel Names.NameProofs
  Marker.Concrete Marker.Expr Marker.Density Marker.Sem508 Marker.DnfModel Marker.DnfProofs Marker.PyVerLocal
  Text.Cursor Text.MarkerParse Text.SpanBase Text.MarkerAccept Text.MarkerDisplay.
Import ListNotations.
Open Scope N_scope.
Arguments N.add : simpl never.
Arguments N.sub : simpl never.
Arguments N.eqb : simpl never.
Arguments N.ltb : simpl never.
Arguments N.leb : simpl never.
Arguments N.compare : simpl never.

(** ** generic facts *)
Lemma join_cons (sep x : text) (l : list text) : join sep (x :: l) = x ++ concat (map (fun y => sep ++ y) l).
Proof.
  revert x. induction l as [|y l IH]; intros x.
  - cbn [join map concat]. now rewrite app_nil_r.
  - change (join sep (x :: y :: l)) with (x ++ sep ++ join sep (y :: l)). rewrite (IH y).
    cbn [map concat]. now rewrite <- app_assoc.
Qed.

Lemma has_char_In c s : has_char c s = true <-> In c s.
Proof.
  unfold has_char. rewrite existsb_exists. split.
  - intros (x & Hx & E). apply N.eqb_eq in E. now subst x.
  - intros H. exists c. split; [exact H|apply N.eqb_refl].
Qed.

(** a valid extra name contains no quote *)
Lemma extra_name_allowed s n : extra_name s = Some n -> forallb allowed s = true.
Proof.
  unfold extra_name. destruct (forallb (fun x => x <? 128) s); [|discriminate]. intros H.
  assert (V : valid_name s = true) by (apply accept_iff; now exists n).
  unfold valid_name in V. destruct s as [|c s]; [discriminate|].
  apply andb_true_iff in V as [V _]. now apply andb_true_iff in V as [V _].
Qed.

Lemma extra_name_no_quote s n : extra_name s = Some n -> ~ In 39 s.
Proof.
  intros H Hin. apply extra_name_allowed in H. rewrite forallb_forall in H. specialize (H 39 Hin). discriminate.
Qed.

(** identities of [m_or] as equalities of diagrams *)
Lemma m_or_false_l (x : mdd) : m_or (Leaf false) x = x.
Proof. unfold m_or, tor. change (tneg (Leaf false : mdd)) with (Leaf true : mdd). rewrite tand_true_l. apply tneg_involutive. Qed.
Lemma m_or_true_l (x : mdd) : m_or (Leaf true) x = Leaf true.
Proof. unfold m_or, tor. change (tneg (Leaf true : mdd)) with (Leaf false : mdd). now rewrite tand_false_l. Qed.
Lemma m_or_true_r (x : mdd) : m_or x (Leaf true) = Leaf true.
Proof. unfold m_or, tor. change (tneg (Leaf true : mdd)) with (Leaf false : mdd). now rewrite tand_false_r. Qed.
Lemma m_and_true_l (x : mdd) : m_and (Leaf true) x = x.
Proof. unfold m_and. apply tand_true_l. Qed.

Lemma in_join (x : N) (sep : text) (l : list text) : In x (join sep l) -> In x sep \/ exists y, In y l /\ In x y.
Proof.
  induction l as [|a l IH].
  - intros [].
  - rewrite join_cons. intros H. apply in_app_or in H as [H|H].
    + right. exists a. split; [now left|exact H].
    + destruct l as [|b l]; [destruct H|].
      rewrite join_cons in IH. cbn [map concat] in H. rewrite <- app_assoc in H.
      apply in_app_or in H as [H|H]; [now left|].
      destruct (IH H) as [H'|(y & Hy & Hx)]; [now left|]. right. exists y. split; [now right|exact Hx].
Qed.

Lemma join_length (sep : text) (l : list text) : Forall (fun y => y <> []) l -> (length l <= length (join sep l))%nat.
Proof.
  induction l as [|a l IH]; intros F; [apply Nat.le_refl|].
  inversion F as [|? ? Ha F']; subst. specialize (IH F'). destruct l as [|b l].
  - cbn [join length]. destruct a; [congruence|]. cbn [length]. lia.
  - change (join sep (a :: b :: l)) with (a ++ sep ++ join sep (b :: l)). rewrite !app_length.
    destruct a; [congruence|]. cbn [length] in *. lia.
Qed.

Lemma match_ne {A} (l : text) (a b : A) : l <> [] -> match l with [] => a | _ :: _ => b end = b.
Proof. destruct l; congruence. Qed.

Section DisplayProofs.
Variables ws alpha alnum : N -> bool.
Variable kw : list (text * mvalue).
Variable vparse : text -> option rawversion.
Variable specpat : vop -> text -> option (vop * list N).
Variable specver : vop -> text -> option (vop * list N).
Variables pv pfv : N.
(** the oracles of the printer *)
Variable vkey_text : N -> text.
Variable skey_text : N -> text.
Variable vshow : list N -> text.
Variable vshow_raw : rawversion -> text.

(** the character-class hypotheses of the marker acceptance theorem, verbatim *)
Hypothesis Hws_wc : forall x, word_char alnum x = true -> ws x = false.
Hypothesis Hws_delims : forall x, In x [34; 39; 40; 41; 60; 61; 62; 126; 33] -> ws x = false.
Hypothesis Hws_it : ws 105 = false /\ ws 116 = false.
Hypothesis Halpha_in : alpha 105 = true /\ alpha 110 = true.
Hypothesis Halpha_sym : forall x, In x [60; 61; 62; 126; 33] -> alpha x = false.
Hypothesis Halnum_kw : forall x, In x [97; 110; 100; 111; 114] -> alnum x = true.
Hypothesis Halnum_delims : forall x, In x [40; 41; 34; 39] -> alnum x = false.
(** the separator Display writes is white space *)
Hypothesis Hws_space : ws 32 = true.

Local Notation keyp := (fun x : N => negb (ws x) && negb (mem x [62; 61; 60; 33; 126; 41])).
Local Notation PM := (parse_markers ws alpha alnum kw vparse specpat specver pv pfv).
Local Notation SHOWE := (show_expr vkey_text skey_text vshow vshow_raw).
Local Notation SHOWC := (show_clause vkey_text skey_text vshow vshow_raw).
Local Notation SHOWI := (show_item vkey_text skey_text vshow vshow_raw).
Local Notation SHOWD := (show_dnf vkey_text skey_text vshow vshow_raw).
Local Notation SHOWM := (show_marker vkey_text skey_text vshow vshow_raw).
Local Notation WF := (MarkerAccept.wf ws kw).
Local Notation AST := (ast_of ws kw vparse specpat specver).
Local Notation WARNS := (warns_of ws kw vparse specpat specver).
Local Notation TYPED := (typed_src ws kw vparse specpat specver).
Local Notation BLANK := (blank ws).

Lemma blank_sp : BLANK [32].
Proof using Hws_space. clear - Hws_space. unfold blank. cbn [forallb]. now rewrite Hws_space. Qed.

(** ** the tokens Display prints for one comparison *)
Definition lit_of (s : text) : vsrc := VLit (quote_of s) s.
Definition in_op (negated : bool) : osrc := if negated then ONotIn [32] else OIn.
Definition star_text (op : vop) : text := if is_star op then [46; 42] else [].

Definition lhs_of (e : mexpr) : vsrc :=
  match e with
  | EVersion k _ _ | EVersionIn k _ _ => VKey (vkey_text k)
  | EString k _ _ | EIn k _ _ => VKey (skey_text k)
  | EContains _ s _ => lit_of s
  | EExtra _ _ _ => VKey EXTRA
  end.
Definition op_of (e : mexpr) : osrc :=
  match e with
  | EVersion _ op _ => OSym (vop_text op)
  | EVersionIn _ _ n | EIn _ _ n | EContains _ _ n => in_op n
  | EString _ op _ => OSym (sop_text op)
  | EExtra n _ _ => OSym (extra_op_text n)
  end.
Definition rhs_of (e : mexpr) : vsrc :=
  match e with
  | EVersion _ op rel => VLit 39 (vshow rel ++ star_text op)
  | EVersionIn _ vs _ => VLit 39 (join [32] (map vshow_raw vs))
  | EString _ _ s | EIn _ s _ => lit_of s
  | EContains k _ _ => VKey (skey_text k)
  | EExtra _ _ name => lit_of name
  end.

(** one comparison after the leading blank [w0]: [w0 l ' ' o ' ' r] *)
Definition src_of_expr (w0 : text) (e : mexpr) : msrc := MCmp w0 (lhs_of e) [32] (op_of e) [32] (rhs_of e).

(** a clause [e1 and e2 and ...], left-nested as the [and] loop of the parser folds it; the blank after the
    keyword is the leading blank of the right operand *)
Definition and_step (acc : msrc) (e : mexpr) : msrc := MAnd acc [32] (src_of_expr [32] e).
Definition dummy_src : msrc := MCmp [] (VLit 39 []) [] OIn [] (VLit 39 []).
Definition src_of_clause (w0 : text) (c : clause) : msrc :=
  match c with
  | [] => dummy_src
  | e :: rest => fold_left and_step rest (src_of_expr w0 e)
  end.
(** a clause as an operand of [or]: bare if it has one term, else in parentheses *)
Definition src_of_item (w0 : text) (c : clause) : msrc :=
  match c with
  | [e] => src_of_expr w0 e
  | _ => MParen w0 (src_of_clause [] c) []
  end.
Definition or_step (acc : msrc) (c : clause) : msrc := MOr acc [32] (src_of_item [32] c).
Definition src_of_dnf (d : dnf) : msrc :=
  match d with
  | [] => dummy_src
  | [c] => src_of_clause [] c
  | c :: rest => fold_left or_step rest (src_of_item [] c)
  end.

(** ** the text of the source tree is the text Display writes *)
Lemma in_op_text n : osrc_text (in_op n) = in_text n.
Proof using. clear - ws. destruct n; reflexivity. Qed.

Lemma lit_text s : vsrc_text (lit_of s) = quoted s.
Proof using. clear - ws. reflexivity. Qed.

Lemma expr_text w0 e : msrc_text (src_of_expr w0 e) = w0 ++ SHOWE e.
Proof using. clear - ws.
  unfold src_of_expr. cbn [msrc_text]. f_equal.
  destruct e as [k op rel|k vs n|k op s|k s n|k s n|n a name]; cbn [lhs_of op_of rhs_of show_expr vsrc_text osrc_text];
    rewrite ?in_op_text, ?lit_text; try reflexivity.
  - unfold star_text. cbn [app]. now rewrite <- app_assoc.
Qed.

Lemma and_step_text acc e : msrc_text (and_step acc e) = msrc_text acc ++ AND_SEP ++ SHOWE e.
Proof using. clear - ws. unfold and_step. cbn [msrc_text]. rewrite expr_text. reflexivity. Qed.

Lemma fold_and_text rest : forall a,
  msrc_text (fold_left and_step rest a) = msrc_text a ++ concat (map (fun y => AND_SEP ++ y) (map SHOWE rest)).
Proof using. clear - ws.
  induction rest as [|e rest IH]; intros a; cbn [fold_left map concat].
  - now rewrite app_nil_r.
  - rewrite IH, and_step_text. now rewrite <- !app_assoc.
Qed.

Lemma clause_text w0 c : c <> [] -> msrc_text (src_of_clause w0 c) = w0 ++ SHOWC c.
Proof using. clear - ws.
  destruct c as [|e rest]; [congruence|]. intros _. unfold src_of_clause, show_clause.
  rewrite fold_and_text, expr_text. cbn [map]. rewrite join_cons. now rewrite <- app_assoc.
Qed.

Lemma item_text w0 c : c <> [] -> msrc_text (src_of_item w0 c) = w0 ++ SHOWI c.
Proof using. clear - ws.
  destruct c as [|e1 [|e2 rest]]; [congruence| |]; intros _.
  - cbn [src_of_item]. rewrite expr_text. reflexivity.
  - unfold src_of_item, show_item. cbn [msrc_text length Nat.eqb].
    rewrite (clause_text [] (e1 :: e2 :: rest)) by discriminate. reflexivity.
Qed.

Lemma or_step_text acc c : c <> [] -> msrc_text (or_step acc c) = msrc_text acc ++ OR_SEP ++ SHOWI c.
Proof using. clear - ws. intros Hc. unfold or_step. cbn [msrc_text]. rewrite (item_text [32] c Hc). reflexivity. Qed.

Lemma fold_or_text rest : Forall (fun c => c <> []) rest -> forall a,
  msrc_text (fold_left or_step rest a) = msrc_text a ++ concat (map (fun y => OR_SEP ++ y) (map SHOWI rest)).
Proof using. clear - ws.
  induction rest as [|c rest IH]; intros F a; cbn [fold_left map concat].
  - now rewrite app_nil_r.
  - inversion F as [|? ? Hc F']; subst. rewrite (IH F'), (or_step_text a c Hc). now rewrite <- !app_assoc.
Qed.

Theorem dnf_text d : d <> [] -> Forall (fun c => c <> []) d -> msrc_text (src_of_dnf d) = SHOWD d.
Proof using. clear - ws.
  destruct d as [|c1 [|c2 rest]]; [congruence| |]; intros _ F.
  - inversion F as [|? ? Hc _]; subst. cbn [src_of_dnf show_dnf]. exact (clause_text [] c1 Hc).
  - inversion F as [|? ? Hc F']; subst. unfold src_of_dnf, show_dnf.
    rewrite (fold_or_text (c2 :: rest) F'), (item_text [] c1 Hc). cbn [map app]. now rewrite join_cons.
Qed.

(** ** the per-term round-trip hypothesis *)
(** the tokens Display prints for [e] are well-formed (a key spelling of the table made of non-blank,
    non-operator characters; a literal free of its quote character; an operator the lexer knows), and the
    typed dispatch reads them back as [e], without a warning *)
Definition term_ok (e : mexpr) : Prop :=
  cmp_wf ws kw [] (lhs_of e) [32] (op_of e) [32] (rhs_of e) /\
  TYPED (lhs_of e) (op_of e) (rhs_of e) = (Some e, []).

Lemma cmp_wf_blank w0 l o r : BLANK w0 -> cmp_wf ws kw [] l [32] o [32] r -> cmp_wf ws kw w0 l [32] o [32] r.
Proof using. clear - ws. intros B (_ & H). split; [exact B|exact H]. Qed.

(** ** well-formedness of the source tree *)
Lemma expr_wf w0 e : BLANK w0 -> term_ok e -> WF (src_of_expr w0 e).
Proof using. clear - ws. intros B [W _]. unfold src_of_expr. cbn [MarkerAccept.wf]. now apply cmp_wf_blank. Qed.

Lemma and_step_wf acc e : WF acc -> andl acc -> term_ok e -> WF (and_step acc e) /\ andl (and_step acc e).
Proof using Hws_space. clear - Hws_space.
  intros Wa Aa Te. split; [|exact I]. unfold and_step. cbn [MarkerAccept.wf].
  split; [exact Wa|]. split; [apply expr_wf; [exact blank_sp|exact Te]|]. split; [exact blank_sp|].
  split; [exact Aa|]. split; [exact I|]. split; [intros _; discriminate|]. cbn [src_of_expr starts_ok]. left. discriminate.
Qed.

Lemma fold_and_wf rest : Forall term_ok rest -> forall a, WF a -> andl a ->
  WF (fold_left and_step rest a) /\ andl (fold_left and_step rest a).
Proof using Hws_space. clear - Hws_space.
  induction rest as [|e rest IH]; intros F a Wa Aa; cbn [fold_left]; [now split|].
  inversion F as [|? ? Te F']; subst. destruct (and_step_wf a e Wa Aa Te) as [W' A']. now apply IH.
Qed.

Lemma clause_wf w0 c : BLANK w0 -> c <> [] -> Forall term_ok c -> WF (src_of_clause w0 c) /\ andl (src_of_clause w0 c).
Proof using Hws_space. clear - Hws_space.
  intros B Hc F. destruct c as [|e rest]; [congruence|]. inversion F as [|? ? Te F']; subst.
  unfold src_of_clause. apply fold_and_wf; [exact F'|now apply expr_wf|exact I].
Qed.

Lemma item_wf w0 c : BLANK w0 -> c <> [] -> Forall term_ok c ->
  WF (src_of_item w0 c) /\ andl (src_of_item w0 c) /\ (w0 <> [] -> starts_ok (src_of_item w0 c)).
Proof using Hws_space. clear - Hws_space.
  intros B Hc F. destruct c as [|e1 [|e2 rest]]; [congruence| |].
  - inversion F as [|? ? Te _]; subst. cbn [src_of_item]. split; [now apply expr_wf|]. split; [exact I|].
    intros Hw. cbn [src_of_expr starts_ok]. now left.
  - destruct (clause_wf [] (e1 :: e2 :: rest) (blank_nil ws) Hc F) as [W _].
    unfold src_of_item. cbn [MarkerAccept.wf andl starts_ok]. split; [|split; [exact I|intros _; exact I]].
    split; [exact B|]. split; [exact (blank_nil ws)|exact W].
Qed.

Lemma or_step_wf acc c : WF acc -> c <> [] -> Forall term_ok c -> WF (or_step acc c).
Proof using Hws_space. clear - Hws_space.
  intros Wa Hc F. destruct (item_wf [32] c blank_sp Hc F) as (Wi & Ai & Si).
  unfold or_step. cbn [MarkerAccept.wf]. split; [exact Wa|]. split; [exact Wi|]. split; [exact blank_sp|].
  split; [exact Ai|]. split; [intros _; discriminate|]. apply Si. discriminate.
Qed.

Lemma fold_or_wf rest : Forall (fun c => c <> []) rest -> Forall (Forall term_ok) rest -> forall a, WF a ->
  WF (fold_left or_step rest a).
Proof using Hws_space. clear - Hws_space.
  induction rest as [|c rest IH]; intros N F a Wa; cbn [fold_left]; [exact Wa|].
  inversion N as [|? ? Hc N']; subst. inversion F as [|? ? Fc F']; subst.
  apply (IH N' F'). now apply or_step_wf.
Qed.

Theorem dnf_wf d : d <> [] -> Forall (fun c => c <> []) d -> Forall (Forall term_ok) d -> WF (src_of_dnf d).
Proof using Hws_space. clear - Hws_space.
  destruct d as [|c1 [|c2 rest]]; [congruence| |]; intros _ N F.
  - inversion N as [|? ? Hc _]; subst. inversion F as [|? ? Fc _]; subst. cbn [src_of_dnf].
    now apply (clause_wf [] c1 (blank_nil ws) Hc Fc).
  - inversion N as [|? ? Hc N']; subst. inversion F as [|? ? Fc F']; subst. unfold src_of_dnf.
    apply (fold_or_wf (c2 :: rest) N' F'). now apply (item_wf [] c1 (blank_nil ws) Hc Fc).
Qed.

(** ** the typed tree of the source is the left-nested tree of the clauses *)
Definition ast_and_step (acc : mast) (e : mexpr) : mast := AAnd acc (AExpr (Some e)).
Definition ast_of_clause (c : clause) : mast :=
  match c with
  | [] => AExpr None
  | e :: rest => fold_left ast_and_step rest (AExpr (Some e))
  end.
Definition ast_or_step (acc : mast) (c : clause) : mast := AOr acc (ast_of_clause c).
Definition ast_of_dnf (d : dnf) : mast :=
  match d with
  | [] => AExpr None
  | c :: rest => fold_left ast_or_step rest (ast_of_clause c)
  end.
(** what [compile] builds for it *)
Definition recompile_dnf' (d : dnf) : mdd := compile pv pfv (ast_of_dnf d).

Lemma expr_ast w0 e : term_ok e -> AST (src_of_expr w0 e) = AExpr (Some e) /\ WARNS (src_of_expr w0 e) = [].
Proof using. clear - ws. intros [_ T]. unfold src_of_expr. cbn [ast_of warns_of]. rewrite T. now split. Qed.

Lemma fold_and_ast rest : Forall term_ok rest -> forall a,
  AST (fold_left and_step rest a) = fold_left ast_and_step rest (AST a) /\
  WARNS (fold_left and_step rest a) = WARNS a.
Proof using. clear - ws.
  induction rest as [|e rest IH]; intros F a; cbn [fold_left]; [now split|].
  inversion F as [|? ? Te F']; subst. destruct (IH F' (and_step a e)) as [E1 E2].
  destruct (expr_ast [32] e Te) as [A1 A2].
  rewrite E1, E2. unfold and_step. cbn [ast_of warns_of]. rewrite A1, A2, app_nil_r. now split.
Qed.

Lemma clause_ast w0 c : c <> [] -> Forall term_ok c ->
  AST (src_of_clause w0 c) = ast_of_clause c /\ WARNS (src_of_clause w0 c) = [].
Proof using. clear - ws.
  intros Hc F. destruct c as [|e rest]; [congruence|]. inversion F as [|? ? Te F']; subst.
  unfold src_of_clause, ast_of_clause. destruct (fold_and_ast rest F' (src_of_expr w0 e)) as [E1 E2].
  destruct (expr_ast w0 e Te) as [A1 A2]. rewrite E1, E2, A1, A2. now split.
Qed.

Lemma item_ast w0 c : c <> [] -> Forall term_ok c ->
  AST (src_of_item w0 c) = ast_of_clause c /\ WARNS (src_of_item w0 c) = [].
Proof using. clear - ws.
  intros Hc F. destruct c as [|e1 [|e2 rest]]; [congruence| |].
  - inversion F as [|? ? Te _]; subst. cbn [src_of_item ast_of_clause fold_left]. now apply expr_ast.
  - unfold src_of_item. cbn [ast_of warns_of]. now apply clause_ast.
Qed.

Lemma fold_or_ast rest : Forall (fun c => c <> []) rest -> Forall (Forall term_ok) rest -> forall a,
  AST (fold_left or_step rest a) = fold_left ast_or_step rest (AST a) /\
  WARNS (fold_left or_step rest a) = WARNS a.
Proof using. clear - ws.
  induction rest as [|c rest IH]; intros N F a; cbn [fold_left]; [now split|].
  inversion N as [|? ? Hc N']; subst. inversion F as [|? ? Fc F']; subst.
  destruct (IH N' F' (or_step a c)) as [E1 E2]. destruct (item_ast [32] c Hc Fc) as [A1 A2].
  rewrite E1, E2. unfold or_step. cbn [ast_of warns_of]. rewrite A1, A2, app_nil_r. now split.
Qed.

Theorem dnf_ast d : d <> [] -> Forall (fun c => c <> []) d -> Forall (Forall term_ok) d ->
  AST (src_of_dnf d) = ast_of_dnf d /\ WARNS (src_of_dnf d) = [].
Proof using. clear - ws.
  destruct d as [|c1 [|c2 rest]]; [congruence| |]; intros _ N F.
  - inversion N as [|? ? Hc _]; subst. inversion F as [|? ? Fc _]; subst. cbn [src_of_dnf ast_of_dnf fold_left].
    now apply clause_ast.
  - inversion N as [|? ? Hc N']; subst. inversion F as [|? ? Fc F']; subst. unfold src_of_dnf, ast_of_dnf.
    destruct (fold_or_ast (c2 :: rest) N' F' (src_of_item [] c1)) as [E1 E2].
    destruct (item_ast [] c1 Hc Fc) as [A1 A2]. rewrite E1, E2, A1, A2. now split.
Qed.

(** ** ... and [compile] of that tree is [recompile_dnf] *)
Lemma fold_and_compile rest : forall a x, compile_ast pv pfv a = Some x ->
  compile_ast pv pfv (fold_left ast_and_step rest a) =
  Some (fold_left (fun acc e => m_and acc (expression pv pfv e)) rest x).
Proof using. clear - ws.
  induction rest as [|e rest IH]; intros a x Ha; cbn [fold_left]; [exact Ha|].
  apply IH. unfold ast_and_step. cbn [compile_ast option_map]. rewrite Ha. reflexivity.
Qed.

Lemma clause_compile c : c <> [] -> compile_ast pv pfv (ast_of_clause c) = Some (recompile_clause pv pfv c).
Proof using. clear - ws.
  destruct c as [|e rest]; [congruence|]. intros _. unfold ast_of_clause, recompile_clause. cbn [fold_left].
  rewrite m_and_true_l. now apply fold_and_compile.
Qed.

Lemma fold_or_compile rest : Forall (fun c => c <> []) rest -> forall a x, compile_ast pv pfv a = Some x ->
  compile_ast pv pfv (fold_left ast_or_step rest a) =
  Some (fold_left (fun acc c => m_or acc (recompile_clause pv pfv c)) rest x).
Proof using. clear - ws.
  induction rest as [|c rest IH]; intros N a x Ha; cbn [fold_left]; [exact Ha|].
  inversion N as [|? ? Hc N']; subst.
  apply (IH N'). unfold ast_or_step. cbn [compile_ast]. rewrite Ha, (clause_compile c Hc). reflexivity.
Qed.

Theorem recompile_dnf'_eq d : d <> [] -> Forall (fun c => c <> []) d -> recompile_dnf' d = recompile_dnf pv pfv d.
Proof using. clear - ws.
  destruct d as [|c rest]; [congruence|]. intros _ N. inversion N as [|? ? Hc N']; subst.
  unfold recompile_dnf', compile, ast_of_dnf, recompile_dnf. cbn [fold_left]. rewrite m_or_false_l.
  now rewrite (fold_or_compile rest N' (ast_of_clause c) (recompile_clause pv pfv c) (clause_compile c Hc)).
Qed.

(** ** the printed DNF parses to the recompiled DNF *)
Theorem display_parses (d : dnf) : d <> [] -> Forall (fun cl => cl <> []) d -> Forall (Forall term_ok) d ->
  PM (SHOWD d) = POk (recompile_dnf' d, []).
Proof.
  intros Hd N F. rewrite <- (dnf_text d Hd N). rewrite <- (app_nil_r (msrc_text (src_of_dnf d))).
  rewrite (parse_markers_accept ws alpha alnum kw vparse specpat specver pv pfv
             Hws_wc Hws_delims Hws_it Halpha_in Halpha_sym Halnum_kw Halnum_delims
             (src_of_dnf d) [] (dnf_wf d Hd N F) (blank_nil ws)).
  destruct (dnf_ast d Hd N F) as [E1 E2]. rewrite E1, E2. reflexivity.
Qed.

Corollary display_parses_recompile (d : dnf) : d <> [] -> Forall (fun cl => cl <> []) d -> Forall (Forall term_ok) d ->
  PM (SHOWD d) = POk (recompile_dnf pv pfv d, []).
Proof. intros Hd N F. rewrite (display_parses d Hd N F). now rewrite (recompile_dnf'_eq d Hd N). Qed.

(** ** a DNF with no clause recompiles to FALSE, one with an empty clause to TRUE *)
Lemma fold_or_true d : fold_left (fun acc c => m_or acc (recompile_clause pv pfv c)) d (Leaf true) = Leaf true.
Proof using. clear - ws. induction d as [|c d IH]; cbn [fold_left]; [reflexivity|]. now rewrite m_or_true_l. Qed.

Lemma recompile_empty_clause d : In [] d -> forall acc,
  fold_left (fun acc c => m_or acc (recompile_clause pv pfv c)) d acc = Leaf true.
Proof using. clear - ws.
  induction d as [|c d IH]; intros Hin acc; [contradiction|]. cbn [fold_left]. destruct Hin as [->|Hin].
  - change (recompile_clause pv pfv []) with (Leaf true : mdd). rewrite m_or_true_r. apply fold_or_true.
  - now apply IH.
Qed.

Lemma nonempty_or_in (d : dnf) : Forall (fun c => c <> []) d \/ In [] d.
Proof using. clear - ws.
  induction d as [|c d [IH|IH]].
  - left. constructor.
  - destruct c as [|e c]; [right; now left|]. left. constructor; [discriminate|exact IH].
  - right. now right.
Qed.

(** the DNF of a marker that is neither TRUE nor FALSE has at least one clause and no empty clause
    (through the identity [to_dnf_roundtrip_id], i.e. under the density proviso of the statement) *)
Lemma to_dnf_shape (t : mdd) : recompile_dnf pv pfv (to_dnf t) = t -> t <> Leaf true -> t <> Leaf false ->
  to_dnf t <> [] /\ Forall (fun c => c <> []) (to_dnf t).
Proof using. clear - ws.
  intros Id Ht Hf. split.
  - intros E. rewrite E in Id. apply Hf. now rewrite <- Id.
  - destruct (nonempty_or_in (to_dnf t)) as [N|Hin]; [exact N|].
    elim Ht. rewrite <- Id. unfold recompile_dnf. now apply recompile_empty_clause.
Qed.

(** ** C05, text level: Display then parse is the identity *)
Theorem marker_text_roundtrip (t : mdd) : wfm t -> renderable_dd pv t = true -> t <> Leaf true -> t <> Leaf false ->
  Forall (Forall term_ok) (to_dnf t) -> nice_pair (recompile_dnf pv pfv (to_dnf t)) t ->
  exists txt, SHOWM pv t = Some txt /\ PM txt = POk (t, []).
Proof.
  intros W R Ht Hf F Nice.
  pose proof (to_dnf_roundtrip_id pv pfv t W R Ht Nice) as Id.
  destruct (to_dnf_shape t Id Ht Hf) as [Hd N].
  exists (SHOWD (to_dnf t)). split.
  - destruct t as [[|]| |]; try reflexivity; congruence.
  - rewrite (display_parses_recompile (to_dnf t) Hd N F). now rewrite Id.
Qed.

(** the semantic variant needs no density proviso on the result, only the two shape facts *)
Theorem marker_text_roundtrip_sem (t : mdd) : wfm t -> renderable_dd pv t = true -> t <> Leaf true ->
  to_dnf t <> [] -> Forall (fun c => c <> []) (to_dnf t) -> Forall (Forall term_ok) (to_dnf t) ->
  exists txt t', SHOWM pv t = Some txt /\ PM txt = POk (t', []) /\ forall ro : mvaluation, eval ro t' = eval ro t.
Proof.
  intros W R Ht Hd N F. exists (SHOWD (to_dnf t)), (recompile_dnf pv pfv (to_dnf t)). split; [|split].
  - destruct t as [[|]| |]; try reflexivity; try congruence. now elim Hd.
  - exact (display_parses_recompile (to_dnf t) Hd N F).
  - now apply to_dnf_roundtrip_sem.
Qed.

(** ** [term_ok] for the comparisons without PEP 440 text *)
(** a key spelling: found in the table with the given meaning, scanned as one key token *)
Definition key_ok (s : text) (mv : mvalue) : Prop :=
  lookup_kw kw s = Some mv /\ forallb keyp s = true /\
  match s with [] => False | x :: _ => x <> 34 /\ x <> 39 /\ x <> 40 end.

Lemma key_vwf s mv : key_ok s mv -> vwf ws kw (VKey s).
Proof using. clear - ws. intros (L & K & H). cbn [vwf]. split; [now rewrite L|]. now split. Qed.

Lemma key_value s mv : key_ok s mv -> vsrc_value kw (VKey s) = mv.
Proof using. clear - ws. intros (L & _). cbn [vsrc_value]. now rewrite L. Qed.

(** the literal [quoted] prints is well-formed unless the value contains both kinds of quote *)
Lemma lit_vwf s : ~ (In 39 s /\ In 34 s) -> vwf ws kw (lit_of s).
Proof using. clear - ws.
  intros H. unfold lit_of, quote_of. destruct (has_char 39 s) eqn:E; cbn [vwf].
  - split; [now left|]. intros H34. apply H. split; [now apply has_char_In|exact H34].
  - split; [now right|]. intros H39. apply has_char_In in H39. congruence.
Qed.

(** ... and only then: a value with both quotes has no re-parsable rendering *)
Lemma lit_vwf_iff s : vwf ws kw (lit_of s) <-> ~ (In 39 s /\ In 34 s).
Proof using. clear - ws.
  split; [|apply lit_vwf]. unfold lit_of, quote_of. intros (_ & Hn) (H39 & H34).
  apply has_char_In in H39. rewrite H39 in Hn. now apply Hn.
Qed.

Lemma sop_owf op : owf ws (OSym (sop_text op)).
Proof using. clear - ws. destruct op; cbn [owf sop_text]; (split; [vm_compute; discriminate|reflexivity]). Qed.

Lemma in_op_owf n : owf ws (in_op n).
Proof using Hws_space. clear - Hws_space. destruct n; cbn [in_op owf]; [|exact I]. split; [exact blank_sp|discriminate]. Qed.

Lemma extra_op_owf n : owf ws (OSym (extra_op_text n)).
Proof using. clear - ws. destruct n; cbn [owf extra_op_text]; (split; [vm_compute; discriminate|reflexivity]). Qed.

Lemma mk_cmp_wf l o r : vwf ws kw l -> owf ws o -> vwf ws kw r -> cmp_wf ws kw [] l [32] o [32] r.
Proof using Hws_space. clear - Hws_space.
  intros Vl Vo Vr. unfold cmp_wf. split; [exact (blank_nil ws)|]. split; [exact blank_sp|]. split; [exact blank_sp|].
  split; [exact Vl|]. split; [exact Vo|]. split; [exact Vr|]. split; intros; discriminate.
Qed.

Theorem term_ok_string k op s : key_ok (skey_text k) (MVString k) -> ~ (In 39 s /\ In 34 s) ->
  term_ok (EString k op s).
Proof using Hws_space. clear - Hws_space.
  intros K Q. split; cbn [lhs_of op_of rhs_of].
  - apply mk_cmp_wf; [exact (key_vwf _ _ K)|apply sop_owf|now apply lit_vwf].
  - unfold typed_src. rewrite (key_value _ _ K). destruct op; reflexivity.
Qed.

Theorem term_ok_in k s n : key_ok (skey_text k) (MVString k) -> ~ (In 39 s /\ In 34 s) ->
  term_ok (EIn k s n).
Proof using Hws_space. clear - Hws_space.
  intros K Q. split; cbn [lhs_of op_of rhs_of].
  - apply mk_cmp_wf; [exact (key_vwf _ _ K)|apply in_op_owf|now apply lit_vwf].
  - unfold typed_src. rewrite (key_value _ _ K). destruct n; reflexivity.
Qed.

Theorem term_ok_contains k s n : key_ok (skey_text k) (MVString k) -> ~ (In 39 s /\ In 34 s) ->
  term_ok (EContains k s n).
Proof using Hws_space. clear - Hws_space.
  intros K Q. split; cbn [lhs_of op_of rhs_of].
  - apply mk_cmp_wf; [now apply lit_vwf|apply in_op_owf|exact (key_vwf _ _ K)].
  - unfold typed_src. rewrite (key_value _ _ K). destruct n; reflexivity.
Qed.

(** a normalised extra name ([ExtraName]'s own text): re-normalising is the identity *)
Theorem term_ok_extra n name : key_ok EXTRA MVExtra -> extra_name name = Some name ->
  term_ok (EExtra n false name).
Proof using Hws_space. clear - Hws_space.
  intros K E. split; cbn [lhs_of op_of rhs_of].
  - apply mk_cmp_wf; [exact (key_vwf _ _ K)|apply extra_op_owf|].
    apply lit_vwf. intros [H39 _]. exact (extra_name_no_quote name name E H39).
  - unfold typed_src. rewrite (key_value _ _ K). cbn [vsrc_value lit_of].
    destruct n; cbn [typed_of_cmp]; unfold parse_extra_expr; rewrite E; reflexivity.
Qed.

(** an arbitrary (invalid) extra name is printed verbatim and read back as the same expression, but WITH the
    warning [WExtraInvalid]: it is outside [term_ok] *)
Theorem extra_arbitrary_warns n name : key_ok EXTRA MVExtra -> extra_name name = None ->
  TYPED (lhs_of (EExtra n true name)) (op_of (EExtra n true name)) (rhs_of (EExtra n true name))
  = (Some (EExtra n true name), [WExtraInvalid]).
Proof using. clear - ws.
  intros K E. cbn [lhs_of op_of rhs_of]. unfold typed_src. rewrite (key_value _ _ K). cbn [vsrc_value lit_of].
  destruct n; cbn [typed_of_cmp]; unfold parse_extra_expr; rewrite E; reflexivity.
Qed.

(** ** the values that cannot be printed: both kinds of quote *)
Theorem both_quotes_not_ok_string k op s : In 39 s -> In 34 s -> ~ term_ok (EString k op s).
Proof using. clear - ws.
  intros H39 H34 [(_ & _ & _ & _ & _ & Vr & _) _]. cbn [rhs_of] in Vr. apply lit_vwf_iff in Vr. now apply Vr.
Qed.
Theorem both_quotes_not_ok_in k s n : In 39 s -> In 34 s -> ~ term_ok (EIn k s n).
Proof using. clear - ws.
  intros H39 H34 [(_ & _ & _ & _ & _ & Vr & _) _]. cbn [rhs_of] in Vr. apply lit_vwf_iff in Vr. now apply Vr.
Qed.
Theorem both_quotes_not_ok_contains k s n : In 39 s -> In 34 s -> ~ term_ok (EContains k s n).
Proof using. clear - ws.
  intros H39 H34 [(_ & _ & _ & Vl & _) _]. cbn [lhs_of] in Vl. apply lit_vwf_iff in Vl. now apply Vl.
Qed.
Theorem both_quotes_not_ok_extra n a s : In 39 s -> In 34 s -> ~ term_ok (EExtra n a s).
Proof using. clear - ws.
  intros H39 H34 [(_ & _ & _ & _ & _ & Vr & _) _]. cbn [rhs_of] in Vr. apply lit_vwf_iff in Vr. now apply Vr.
Qed.

(** ** [term_ok] for the PEP 440 comparisons, reduced to the PEP 440 text round trip *)
(** the operator the lexer reads for the printed operator text ([EqualStar] / [NotEqualStar] print without
    their star, which goes into the version text) *)
Definition base_op (op : vop) : vop := match op with OEqStar => OEq | ONeStar => ONe | _ => op end.

Lemma vop_owf op : op <> OExact -> owf ws (OSym (vop_text op)).
Proof using. clear - ws. intros H. destruct op; try congruence; cbn [owf vop_text]; (split; [vm_compute; discriminate|reflexivity]). Qed.

(** assumed of pep440_rs: the text of the release (with [.*] for the star operators) contains no single
    quote, and [VersionSpecifier::from_pattern] on the printed operator and that text gives the specifier
    back *)
Theorem term_ok_version k op rel : key_ok (vkey_text k) (MVVersion k) -> op <> OExact ->
  ~ In 39 (vshow rel ++ star_text op) ->
  specpat (base_op op) (vshow rel ++ star_text op) = Some (op, rel) ->
  term_ok (EVersion k op rel).
Proof using Hws_space. clear - Hws_space.
  intros K Hop Q S. split; cbn [lhs_of op_of rhs_of].
  - apply mk_cmp_wf; [exact (key_vwf _ _ K)|now apply vop_owf|]. cbn [vwf]. split; [now right|exact Q].
  - unfold typed_src. rewrite (key_value _ _ K). cbn [vsrc_value].
    destruct op; try congruence; cbn [base_op] in S;
      (cbn [typed_of_cmp]; unfold parse_version_expr;
       match goal with |- context [osrc_op ?o] => let v := eval vm_compute in (osrc_op o) in change (osrc_op o) with v end;
       cbn [vop_of]; rewrite S; reflexivity).
Qed.

(** [===] is printed but is not an operator of the marker grammar *)
Theorem exact_not_ok k rel : ~ term_ok (EVersion k OExact rel).
Proof using. clear - ws. intros [(_ & _ & _ & _ & (Ho & _) & _) _]. cbn [op_of vop_text] in Ho. now apply Ho. Qed.

(** assumed of pep440_rs: the members' texts joined by blanks contain no single quote and split and parse
    ([Version::from_str] on each white-space separated piece) back to the list *)
Theorem term_ok_version_in k vs n : key_ok (vkey_text k) (MVVersion k) ->
  let body := join [32] (map vshow_raw vs) in
  ~ In 39 body ->
  version_list ws vparse (S (length body)) (c_new body) = Some vs ->
  term_ok (EVersionIn k vs n).
Proof using Hws_space. clear - Hws_space.
  intros K body Q S. split; cbn [lhs_of op_of rhs_of].
  - apply mk_cmp_wf; [exact (key_vwf _ _ K)|apply in_op_owf|]. cbn [vwf]. split; [now right|exact Q].
  - unfold typed_src. rewrite (key_value _ _ K). cbn [vsrc_value]. fold body.
    destruct n; cbn [in_op osrc_op typed_of_cmp]; rewrite S; reflexivity.
Qed.

(** ... the same from the round trip of each member: its text is not empty, contains neither white space
    nor a single quote, and [Version::from_str] reads it back *)
Definition member_ok (v : rawversion) : Prop :=
  vshow_raw v <> [] /\ forallb (fun x => negb (ws x)) (vshow_raw v) = true /\ ~ In 39 (vshow_raw v) /\
  vparse (vshow_raw v) = Some v.

Lemma tail_form (l : list text) : exists w', BLANK w' /\ concat (map (fun y => [32] ++ y) l) = w' ++ join [32] l.
Proof using Hws_space. clear - Hws_space.
  destruct l as [|a l].
  - exists []. split; [exact (blank_nil ws)|reflexivity].
  - exists [32]. split; [exact blank_sp|]. rewrite join_cons. cbn [map concat]. now rewrite <- app_assoc.
Qed.

Lemma version_list_join : forall vs fuel pos w, BLANK w -> Forall member_ok vs -> (length vs < fuel)%nat ->
  version_list ws vparse fuel {| c_pos := pos; c_rest := w ++ join [32] (map vshow_raw vs) |} = Some vs.
Proof using Hws_space. clear - Hws_space.
  induction vs as [|v vs IH]; intros fuel pos w Bw F Hf; (destruct fuel as [|fuel]; [lia|]).
  - cbn [map join version_list]. rewrite (eat_ws_exact ws pos w [] Bw I).
    pose proof (ctw_exact (fun x => negb (ws x)) (pos + text_len w) [] [] eq_refl I) as E. cbn [app] in E. rewrite E.
    reflexivity.
  - inversion F as [|? ? (Hne & Hnw & _ & Hp) F']; subst. cbn [map]. rewrite join_cons.
    set (X := concat (map (fun y => [32] ++ y) (map vshow_raw vs))).
    cbn [version_list]. rewrite (eat_ws_exact ws pos w (vshow_raw v ++ X) Bw).
    2:{ destruct (vshow_raw v) as [|x r]; [congruence|]. cbn [app hd_no]. cbn [forallb] in Hnw.
        apply andb_true_iff in Hnw as [Hx _]. now apply negb_true_iff in Hx. }
    rewrite (ctw_exact (fun x => negb (ws x)) (pos + text_len w) (vshow_raw v) X Hnw).
    2:{ subst X. destruct vs as [|v2 vs2]; [exact I|]. cbn [map concat app hd_no]. now rewrite Hws_space. }
    rewrite (match_ne (vshow_raw v) _ _ Hne). rewrite Hp.
    destruct (tail_form (map vshow_raw vs)) as (w' & Bw' & EX). fold X in EX. rewrite EX.
    rewrite (IH fuel _ w' Bw' F'); [reflexivity|]. cbn [length] in Hf. lia.
Qed.

Theorem term_ok_version_in_members k vs n : key_ok (vkey_text k) (MVVersion k) -> Forall member_ok vs ->
  term_ok (EVersionIn k vs n).
Proof using Hws_space. clear - Hws_space.
  intros K F. apply term_ok_version_in; [exact K| |].
  - intros Hin. apply in_join in Hin as [Hin|(y & Hy & Hx)].
    + cbn in Hin. destruct Hin as [Hin|[]]. discriminate Hin.
    + apply in_map_iff in Hy as (v & <- & Hv). rewrite Forall_forall in F. destruct (F v Hv) as (_ & _ & Hq & _). now apply Hq.
  - pose proof (version_list_join vs (S (length (join [32] (map vshow_raw vs)))) 0 [] (blank_nil ws) F) as E.
    cbn [app] in E. apply E. set (body := join [32] (map vshow_raw vs)).
    assert (L : (length (map vshow_raw vs) <= length body)%nat).
    { apply join_length. rewrite Forall_forall. intros y Hy. apply in_map_iff in Hy as (v & <- & Hv).
      rewrite Forall_forall in F. now destruct (F v Hv) as (Hne & _). }
    rewrite map_length in L. lia.
Qed.

(** ** the parser never produces a literal with both kinds of quote (so every string value of a parsed
    marker can be printed re-parsably); the keyword table holds keys only *)
Lemma pmv_quoted_one_kind c s c' : (forall key b, lookup_kw kw key <> Some (MVQuoted b)) ->
  parse_marker_value ws kw c = POk (MVQuoted s, c') -> ~ (In 39 s /\ In 34 s).
Proof using. clear - ws.
  intros Hkw. unfold parse_marker_value. destruct (c_peek c) as [q|]; [|discriminate].
  destruct ((q =? 34) || (q =? 39)) eqn:Q.
  - destruct (c_next c) as [[[sp x] c1]|]; [|discriminate].
    destruct (c_take_while (fun x0 => negb (x0 =? q)) c1) as [[[value st] len] c2] eqn:T.
    destruct (next_expect_char q sp c2) as [c3|e]; [|discriminate]. intros [= <- _].
    destruct (SpanBase.c_take_while_adv _ _ _ _ _ _ T) as (_ & _ & _ & _ & _ & Fa & _).
    rewrite forallb_forall in Fa. intros [H39 H34].
    apply orb_true_iff in Q as [Q|Q]; apply N.eqb_eq in Q; subst q.
    + specialize (Fa 34 H34). discriminate.
    + specialize (Fa 39 H39). discriminate.
  - destruct (c_take_while _ c) as [[[key st] len] c1]. destruct (lookup_kw kw key) as [v|] eqn:L; [|discriminate].
    intros [= -> _]. now elim (Hkw key s).
Qed.

End DisplayProofs.

Print Assumptions dnf_text.
Print Assumptions display_parses.
Print Assumptions display_parses_recompile.
Print Assumptions marker_text_roundtrip.
Print Assumptions marker_text_roundtrip_sem.
Print Assumptions term_ok_string.
Print Assumptions term_ok_in.
Print Assumptions term_ok_contains.
Print Assumptions term_ok_extra.
Print Assumptions term_ok_version.
Print Assumptions term_ok_version_in.
Print Assumptions term_ok_version_in_members.
Print Assumptions pmv_quoted_one_kind.
Print Assumptions both_quotes_not_ok_string.


(** ** non-vacuity: the key table of the crate (tree.rs:137), ASCII classes, and a toy PEP 440 text syntax
    (decimal release segments joined by dots, [.*] for the star forms) *)
Module RoundTripExamples.
Import MarkerAccept.Example DisplayExamples.
Import String.

Definition kw1 : list (text * mvalue) :=
  [(txt "implementation_name", MVString 0); (txt "implementation_version", MVVersion 0);
   (txt "os_name", MVString 1); (txt "os.name", MVString 2);
   (txt "platform_machine", MVString 3); (txt "platform.machine", MVString 4);
   (txt "platform_python_implementation", MVString 5); (txt "platform.python_implementation", MVString 6);
   (txt "python_implementation", MVString 7);
   (txt "platform_release", MVString 8); (txt "platform_system", MVString 9);
   (txt "platform_version", MVString 10); (txt "platform.version", MVString 11);
   (txt "python_full_version", MVVersion 1); (txt "python_version", MVVersion 2);
   (txt "sys_platform", MVString 12); (txt "sys.platform", MVString 13);
   (txt "extra", MVExtra)]%string.

Fixpoint split_dot (s cur : text) : list text :=
  match s with
  | [] => [cur]
  | x :: s' => if x =? 46 then cur :: split_dot s' [] else split_dot s' (cur ++ [x])
  end.
Definition undec (s : text) : option N :=
  match s with
  | [] => None
  | _ => if forallb (fun d => (48 <=? d) && (d <=? 57)) s
         then Some (fold_left (fun a d => 10 * a + (d - 48)) s 0) else None
  end.
Fixpoint sequence {A} (l : list (option A)) : option (list A) :=
  match l with
  | [] => Some []
  | None :: _ => None
  | Some x :: l' => option_map (cons x) (sequence l')
  end.
Definition parse_rel (s : text) : option (list N) := sequence (map undec (split_dot s [])).
Definition vparse1 (s : text) : option rawversion := option_map (fun r => (0, (r, FINAL))) (parse_rel s).
Definition specpat1 (op : vop) (s : text) : option (vop * list N) :=
  match rev s with
  | 42 :: 46 :: r =>
      match op with
      | OEq => option_map (pair OEqStar) (parse_rel (rev r))
      | ONe => option_map (pair ONeStar) (parse_rel (rev r))
      | _ => None
      end
  | _ => option_map (pair op) (parse_rel s)
  end.
Definition specver1 (op : vop) (s : text) : option (vop * list N) := option_map (pair op) (parse_rel s).

Definition PM1 := parse_markers ws0 alpha0 alnum0 kw1 vparse1 specpat1 specver1 2 1.
Definition ok1 := term_ok ws0 kw1 vparse1 specpat1 specver1 vkey0 skey0 vshow0 vshow_raw0.
Definition fin (rel : list N) : rawversion := (0, (rel, FINAL)).

Lemma ws0_space : ws0 32 = true. Proof. reflexivity. Qed.

(** the non-deprecated string keys, the version keys and [extra] print as a spelling of the table that
    means the same key *)
Lemma skey_ok1 k : In k [0; 1; 3; 5; 8; 9; 10; 12] -> key_ok ws0 kw1 (skey0 k) (MVString k).
Proof.
  intros H. cbn [In] in H.
  repeat (destruct H as [<-|H]; [vm_compute; intuition congruence|]). contradiction.
Qed.
Lemma vkey_ok1 k : In k [0; 1; 2] -> key_ok ws0 kw1 (vkey0 k) (MVVersion k).
Proof.
  intros H. cbn [In] in H.
  repeat (destruct H as [<-|H]; [vm_compute; intuition congruence|]). contradiction.
Qed.
Lemma extra_ok1 : key_ok ws0 kw1 EXTRA MVExtra.
Proof. vm_compute. intuition congruence. Qed.
(** ... the deprecated ones do not *)
Lemma skey_deprecated_not_ok k : In k [2; 4; 6; 7; 11; 13] -> ~ key_ok ws0 kw1 (skey0 k) (MVString k).
Proof.
  intros H [L _]. cbn [In] in H.
  repeat (destruct H as [<-|H]; [vm_compute in L; discriminate L|]). contradiction.
Qed.

(** 1. through the theorem, no PEP 440 text:
       (os_name == 'nt' and extra == 'dev') or "it's" not in platform_version *)
Definition d1 : dnf :=
  [[EString 1 SEq (txt "nt"); EExtra false false (txt "dev")]; [EContains 10 (txt "it's") true]]%string.

Example ex_d1_text : show_dnf vkey0 skey0 vshow0 vshow_raw0 d1
  = txt "(os_name == 'nt' and extra == 'dev') or " ++ [34] ++ txt "it's" ++ [34] ++ txt " not in platform_version".
Proof. vm_compute. reflexivity. Qed.

Example ex_d1_parses : PM1 (show_dnf vkey0 skey0 vshow0 vshow_raw0 d1) = POk (recompile_dnf 2 1 d1, []).
Proof.
  apply (display_parses_recompile ws0 alpha0 alnum0 kw1 vparse1 specpat1 specver1 2 1 vkey0 skey0 vshow0 vshow_raw0
           Hws_wc0 Hws_delims0 Hws_it0 Halpha_in0 Halpha_sym0 Halnum_kw0 Halnum_delims0 ws0_space d1).
  - discriminate.
  - repeat constructor; discriminate.
  - repeat (apply Forall_cons || apply Forall_nil).
    + apply term_ok_string; [exact ws0_space|apply skey_ok1; cbn; tauto|]. intros [H _]. vm_compute in H. intuition congruence.
    + apply term_ok_extra; [exact ws0_space|exact extra_ok1|reflexivity].
    + apply term_ok_contains; [exact ws0_space|apply skey_ok1; cbn; tauto|]. intros [_ H]. vm_compute in H. intuition congruence.
Qed.

(** 2. through the end-to-end theorem, with the toy PEP 440 oracles: python_version not in '3.9 3.11' *)
Definition t2 : mdd := expression 2 1 (EVersionIn 2 [fin [3; 9]; fin [3; 11]] true).

Example ex_t2_text : show t2
  = Some (txt "python_full_version < '3.9' or python_full_version == '3.10.*' or python_full_version >= '3.12'").
Proof. vm_compute. reflexivity. Qed.

Lemma version_ok1 k op rel : In k [0; 1; 2] -> op <> OExact -> ~ In 39 (vshow0 rel ++ star_text op) ->
  specpat1 (base_op op) (vshow0 rel ++ star_text op) = Some (op, rel) -> ok1 (EVersion k op rel).
Proof. intros Hk. apply term_ok_version; [exact ws0_space|now apply vkey_ok1]. Qed.

Example ex_t2_roundtrip : exists txt, show t2 = Some txt /\ PM1 txt = POk (t2, []).
Proof.
  apply (marker_text_roundtrip ws0 alpha0 alnum0 kw1 vparse1 specpat1 specver1 2 1 vkey0 skey0 vshow0 vshow_raw0
           Hws_wc0 Hws_delims0 Hws_it0 Halpha_in0 Halpha_sym0 Halnum_kw0 Halnum_delims0 ws0_space t2).
  - apply wfb_correct. vm_compute. reflexivity.
  - vm_compute. reflexivity.
  - vm_compute. discriminate.
  - vm_compute. discriminate.
  - replace (to_dnf t2) with [[EVersion 1 OLt [3; 9]]; [EVersion 1 OEqStar [3; 10]]; [EVersion 1 OGe [3; 12]]]
      by (vm_compute; reflexivity).
    repeat (apply Forall_cons || apply Forall_nil);
      (apply version_ok1; [cbn; tauto|discriminate|vm_compute; intuition congruence|vm_compute; reflexivity]).
  - apply vniceb_nice. vm_compute. reflexivity.
Qed.

(** the same by evaluation *)
Example ex_t2_compute : option_map PM1 (show t2) = Some (POk (t2, [])).
Proof. vm_compute. reflexivity. Qed.

(** an in-list through the member-wise lemma: implementation_version in '3.9 3.11' *)
Example ex_version_in : ok1 (EVersionIn 0 [fin [3; 9]; fin [3; 11]] false).
Proof.
  apply term_ok_version_in_members; [exact ws0_space|apply vkey_ok1; cbn; tauto|].
  repeat (apply Forall_cons || apply Forall_nil);
    (split; [vm_compute; discriminate|split; [reflexivity|split; [intros H; vm_compute in H; intuition congruence|reflexivity]]]).
Qed.

(** 3. what Display prints but the parser does not read back: *)
(** a value with both kinds of quote (the value is the two characters 39 34, printed between two 34): the
    literal ends at the second double quote and a stray one follows *)
Example ex_both_quotes :
  PM1 (showe (EString 1 SEq [39; 34])) = PErr {| e_kind := EUnexpectedAndOr; e_start := 14; e_len := 0 |}.
Proof. vm_compute. reflexivity. Qed.
(** [===] *)
Example ex_exact : PM1 (showe (EVersion 1 OExact [3])) = PErr {| e_kind := EOperator; e_start := 20; e_len := 3 |}.
Proof. vm_compute. reflexivity. Qed.
(** a deprecated key ([os.name], index 2) is printed under the modern name and read back as the modern key
    (index 1): a different diagram variable, hence a different diagram *)
Example ex_deprecated :
  PM1 (showe (EString 2 SEq [97])) = POk (expression 2 1 (EString 1 SEq [97]), []) /\
  expression 2 1 (EString 1 SEq [97]) <> expression 2 1 (EString 2 SEq [97]).
Proof. split; [vm_compute; reflexivity|vm_compute; discriminate]. Qed.
(** an arbitrary (invalid) extra name: the same diagram, but with a warning *)
Example ex_arbitrary_extra :
  PM1 (showe (EExtra false true [33])) = POk (expression 2 1 (EExtra false true [33]), [WExtraInvalid]).
Proof. vm_compute. reflexivity. Qed.
(** FALSE: its conventional text [python_version < '0'] is read back as the (satisfiable: [0.dev0]) range
    node [python_full_version < '0'], which is not FALSE and prints differently - the reason for the
    hypothesis [t <> Leaf false] of [marker_text_roundtrip] *)
Example ex_false_not_roundtrip :
  exists t' : mdd, option_map PM1 (show (Leaf false)) = Some (POk (t', [])) /\ t' <> Leaf false /\
                   show t' = Some (txt "python_full_version < '0'").
Proof. eexists. split; [vm_compute; reflexivity|]. split; [discriminate|vm_compute; reflexivity]. Qed.
End RoundTripExamples.

Print Assumptions RoundTripExamples.ex_d1_parses.
Print Assumptions RoundTripExamples.ex_t2_roundtrip.
