(** L4: the requirement-level text layer of src/lib.rs, src/verbatim_url.rs and src/unnamed.rs:
    names, extras lists, version specifier scanning (bare and parenthesised), URL end detection,
    environment variable expansion, scheme splitting, the unnamed-requirement / archive heuristics,
    the requirement driver, the unnamed-requirement parser and Display.  Definitions only.

    The model mirrors the code as repaired by the fix: commits recorded in known_findings.json
    (F6e: names / extras ending in punctuation are reported instead of reaching the `expect`;
    F6f/F6g: error spans of the extras separator and the empty-name error are on character boundaries;
    F11: the ambiguity diagnosis looks at the source text, not at the re-serialised URL).

    Oracles (answers of dependencies; per case from the real dependency in the correspondence run,
    universally quantified in the theorems): Unicode classes; the PEP 440 text syntax ([specparse] =
    VersionSpecifier::from_str, giving an order-preserving sort key of the version and the canonical
    text); [url_oracle UParse] = url::Url::parse, [url_oracle UPath] = VerbatimUrl::from_path /
    from_absolute_path, [url_oracle UFilePath] = the same after normalize_url_path (extension feature); [getenv] and [project_root]. *)
From Coq Require Import List Bool NArith String Ascii.
From PV Require Import Base.Order Base.CutDef DD.DDModel Names.NameModel Marker.Concrete Marker.Expr Text.Cursor Text.MarkerParse.
Import ListNotations.
Open Scope N_scope.

Definition T (s : string) : text := map N_of_ascii (list_ascii_of_string s).

Record spec := { sp_key : list N; sp_text : text }.
Inductive rkind := KNone | KSpecs (l : list spec) | KUrl (disp : text) (given : option text).
Record requirement := { r_name : text; r_extras : list text; r_kind : rkind; r_marker : option mdd }.
Record unnamed := { u_disp : text; u_given : option text; u_extras : list text; u_marker : option mdd }.

(** ** the specifier set: [VersionSpecifiers::from_iter] sorts stably by version *)
Fixpoint key_le (a b : list N) : bool :=
  match a, b with
  | [], _ => true
  | _ :: _, [] => false
  | x :: a', y :: b' => if x <? y then true else if y <? x then false else key_le a' b'
  end.
Fixpoint insert_spec (x : spec) (l : list spec) : list spec :=
  match l with
  | [] => [x]
  | y :: l' => if key_le (sp_key x) (sp_key y) then x :: l else y :: insert_spec x l'
  end.
Definition sort_specs (l : list spec) : list spec := fold_right insert_spec [] l.

(** ** character classes fixed by the code *)
Definition ascii_alnum (x : N) : bool := is_upper x || is_lower x || is_digit x.
Definition name_char (x : N) : bool := ascii_alnum x || is_punct x.
Definition var_char (x : N) : bool := is_upper x || is_digit x || (x =? 95).
Definition scheme_char (x : N) : bool := ascii_alnum x || (x =? 43) || (x =? 45) || (x =? 46).
Definition c0_space (x : N) : bool := x <=? 32.
Definition is_nil {A} (l : list A) : bool := match l with [] => true | _ => false end.
Definition last_opt (s : text) : option N := match rev s with [] => None | x :: _ => Some x end.
Definition ends_with (s : text) (x : N) : bool := match last_opt s with Some y => y =? x | None => false end.
Fixpoint drop_while (p : N -> bool) (s : text) : text :=
  match s with [] => [] | c :: s' => if p c then drop_while p s' else s end.
Fixpoint split_first (x : N) (s : text) : option (text * text) :=
  match s with
  | [] => None
  | c :: s' => if c =? x then Some ([], s')
               else match split_first x s' with Some (a, b) => Some (c :: a, b) | None => None end
  end.
Fixpoint join (sep : text) (l : list text) : text :=
  match l with [] => [] | [x] => x | x :: l' => x ++ sep ++ join sep l' end.

(** ** [split_extras]: a trailing bracket group without inner brackets *)
Fixpoint find_open (r acc : text) : option (text * text) :=
  match r with
  | [] => None
  | c :: r' => if c =? 93 then None else if c =? 91 then Some (r', 91 :: acc) else find_open r' (c :: acc)
  end.
Definition split_extras (s : text) : option (text * text) :=
  match rev s with
  | 93 :: r => match find_open r [93] with Some (b, e) => Some (rev b, e) | None => None end
  | _ => None
  end.

(** ** [split_scheme] *)
Fixpoint scheme_go (s : text) : option (text * text) :=
  match s with
  | [] => None
  | c :: s' => if scheme_char c then match scheme_go s' with Some (a, b) => Some (c :: a, b) | None => None end
               else if c =? 58 then Some ([], s') else None
  end.
Definition trim_c0 (s : text) : text := rev (drop_while c0_space (rev (drop_while c0_space s))).
Definition split_scheme (s : text) : option (text * text) :=
  match trim_c0 s with
  | [] => None
  | c :: r => if is_upper c || is_lower c then scheme_go (c :: r) else None
  end.

Inductive scheme := SFile | SOther.
Definition other_schemes : list text :=
  map T ["git+git"; "git+http"; "git+file"; "git+ssh"; "git+https"; "bzr+http"; "bzr+https"; "bzr+ssh"; "bzr+sftp";
         "bzr+ftp"; "bzr+lp"; "bzr+file"; "hg+file"; "hg+http"; "hg+https"; "hg+ssh"; "hg+static-http"; "svn+ssh";
         "svn+http"; "svn+https"; "svn+svn"; "svn+file"; "http"; "https"]%string.
Definition mem_text (s : text) (l : list text) : bool := existsb (str_eqb s) l.
Definition scheme_parse (s : text) : option scheme :=
  if str_eqb s (T "file") then Some SFile else if mem_text s other_schemes then Some SOther else None.

(** [strip_host] *)
Fixpoint strip_prefix (p s : text) : option text :=
  match p with
  | [] => Some s
  | x :: p' => match s with y :: s' => if x =? y then strip_prefix p' s' else None | [] => None end
  end.
Definition strip_host (path : text) : text :=
  match strip_prefix (T "//localhost") path with
  | Some (47 :: r) => 47 :: r
  | _ => match strip_prefix [47; 47] path with Some r => r | None => path end
  end.

(** ** [looks_like_archive]: std::path::Path::{file_name, extension, file_stem} on Unix *)
Fixpoint split_on (x : N) (s : text) : list text :=
  match s with
  | [] => [[]]
  | c :: s' => if c =? x then [] :: split_on x s'
               else match split_on x s' with h :: t => (c :: h) :: t | [] => [[c]] end
  end.
Definition file_name (p : text) : option text :=
  match rev (filter (fun comp => negb (is_nil comp) && negb (str_eqb comp [46])) (split_on 47 p)) with
  | [] => None
  | f :: _ => if str_eqb f [46; 46] then None else Some f
  end.
Definition rsplit_dot (f : text) : option (text * text) :=
  match split_first 46 (rev f) with Some (a, b) => Some (rev b, rev a) | None => None end.
Definition extension (f : text) : option text :=
  match rsplit_dot f with Some (b, a) => if is_nil b then None else Some a | None => None end.
Definition file_stem (f : text) : text :=
  match rsplit_dot f with Some (b, a) => if is_nil b then f else b | None => f end.
Definition path_extension (p : text) : option text :=
  match file_name p with Some f => extension f | None => None end.
Definition looks_like_archive (p : text) : bool :=
  match path_extension p with
  | None => false
  | Some ext =>
      mem_text ext (map T ["whl"; "tbz"; "txz"; "tlz"; "zip"; "tgz"; "tar"]%string) ||
      (match file_name p with
       | Some f => match path_extension (file_stem f) with Some pre => str_eqb pre (T "tar") | None => false end
       | None => false
       end && mem_text ext (map T ["bz2"; "xz"; "lz"; "lzma"; "gz"]%string))
  end.

(** which external URL constructor an oracle query stands for: [UParse] = url::Url::parse on the text; [UPath] =
    VerbatimUrl::from_path / from_absolute_path on the text as it stands; [UFilePath] = the same after
    normalize_url_path (percent-decoding, the `file:` branch only). *)
Inductive ukind := UParse | UPath | UFilePath.

Section Req.
Variables ws alpha alnum : N -> bool.
Variable kw : list (text * mvalue).
Variable vparse : text -> option rawversion.
Variable specpat : vop -> text -> option (vop * list N).
Variable specver : vop -> text -> option (vop * list N).
Variables pv pfv : N.
Variable specparse : text -> option spec.
Variable url_oracle : ukind -> text -> option text.
Variable getenv : text -> option text.
Variable project_root : text.
Variables verbatim ext : bool.

Notation eat_ws := (c_eat_whitespace ws).
Definition err {A} (k : ekind) (start len : N) : pres A := PErr {| e_kind := k; e_start := start; e_len := len |}.

(** ** [expand_env_vars]: leftmost non-overlapping matches of \$\{[A-Z0-9_]+\} *)
Inductive xstate := X0 | X1 | X2 (name_rev : text).
Definition subst (name : text) : text :=
  match getenv name with
  | Some v => v
  | None => if str_eqb name (T "PROJECT_ROOT") then project_root else 36 :: 123 :: name ++ [125]
  end.
Fixpoint expand_go (st : xstate) (s : text) : text :=
  match s with
  | [] => match st with X0 => [] | X1 => [36] | X2 n => 36 :: 123 :: rev n end
  | c :: s' =>
      match st with
      | X0 => if c =? 36 then expand_go X1 s' else c :: expand_go X0 s'
      | X1 => if c =? 123 then expand_go (X2 []) s'
              else if c =? 36 then 36 :: expand_go X1 s' else 36 :: c :: expand_go X0 s'
      | X2 n => if var_char c then expand_go (X2 (c :: n)) s'
                else if (c =? 125) && negb (is_nil n) then subst (rev n) ++ expand_go X0 s'
                else 36 :: 123 :: rev n ++ (if c =? 36 then expand_go X1 s' else c :: expand_go X0 s')
      end
  end.
Definition expand (s : text) : text := expand_go X0 s.

(** ** [looks_like_unnamed_requirement]: the verdict and the byte length of the text looked at *)
Definition looks_like_unnamed (c : cursor) : bool * N :=
  let '(url, _, len, _) := c_take_while (fun x => negb (ws x)) c in
  let expanded := expand url in
  let u := match split_extras expanded with Some (u, _) => u | None => expanded end in
  (match u with
   | [] => false
   | f :: _ => (f =? 92) || (f =? 47) || (f =? 46) ||
               match split_scheme u with Some _ => true | None => false end ||
               mem 47 u || mem 92 u || looks_like_archive u
   end, len).

(** ** [parse_name]: normalised name, the scanned text, the cursor after it *)
Definition parse_name (c : cursor) : pres (text * text * cursor) :=
  match c_next c with
  | None => err EEmpty (c_pos c) 1
  | Some (index, ch, c1) =>
      if ascii_alnum ch then
        let '(more, _, _, c2) := c_take_while name_char c1 in
        let raw := ch :: more in
        match last_opt raw with
        | Some l => if is_punct l then err ENameEnd (c_pos c2 - 1) 1
                    else match normalize_owned raw with
                         | Some n => POk (n, raw, c2)
                         | None => err EPanic 0 0
                         end
        | None => err EPanic 0 0
        end
      else
        let (b, len) := looks_like_unnamed c in
        if b then err EUnsupportedPath (c_pos c) len else err ENameStart index (utf8_len ch)
  end.

(** ** [parse_extras_cursor] *)
Fixpoint extras_loop (fuel : nat) (bracket_pos : N) (c : cursor) (acc : list text) (first : bool) : pres (list text * cursor) :=
  match fuel with
  | O => err EPanic 0 0
  | S f =>
      match c_next c with
      | Some (_, 93, c') => POk (rev acc, c')
      | nx =>
          let sep : pres cursor :=
            match nx with
            | Some (pos, x, c') =>
                if x =? 44 then (if first then err EExtrasComma pos 1 else POk c')
                else if first then POk c else err EExtrasSep pos (utf8_len x)
            | None => POk c
            end in
          match sep with
          | PErr e => PErr e
          | POk c1 =>
              let c2 := eat_ws c1 in
              match c_next c2 with
              | None => err EExtrasEof bracket_pos 1
              | Some (pos, a, c3) =>
                  if ascii_alnum a then
                    let '(more, _, _, c4) := c_take_while name_char c3 in
                    let buffer := a :: more in
                    let bad := match c_next c4 with
                               | Some (p, ch, _) => if negb (ch =? 44) && negb (ch =? 93) && negb (ws ch) then Some (p, ch) else None
                               | None => None
                               end in
                    match bad with
                    | Some (p, ch) => err EExtrasChar p (utf8_len ch)
                    | None =>
                        match last_opt buffer with
                        | Some l =>
                            if is_punct l then err EExtrasEnd (c_pos c4 - 1) 1
                            else match normalize_owned buffer with
                                 | Some n => extras_loop f bracket_pos (eat_ws c4) (n :: acc) false
                                 | None => err EPanic 0 0
                                 end
                        | None => err EPanic 0 0
                        end
                    end
                  else err EExtrasStart pos (utf8_len a)
              end
          end
      end
  end.
Definition parse_extras (c : cursor) : pres (list text * cursor) :=
  match c_eat_char 91 c with
  | None => POk ([], c)
  | Some (bracket_pos, c1) => let c2 := eat_ws c1 in extras_loop (S (List.length (c_rest c2))) bracket_pos c2 [] true
  end.

(** ** version specifiers *)
Definition one_spec (buf_rev : text) (start stop : N) : pres spec :=
  match specparse (rev buf_rev) with Some s => POk s | None => err ESpec start (stop - start) end.
Fixpoint specs_bare (r : text) (pos start : N) (buf_rev : text) (acc_rev : list spec) : pres (list spec * cursor) :=
  match r with
  | [] => match one_spec buf_rev start pos with
          | PErr e => PErr e
          | POk s => POk (rev (s :: acc_rev), {| c_pos := pos; c_rest := [] |})
          end
  | c :: r' =>
      if c =? 44 then match one_spec buf_rev start pos with
                      | PErr e => PErr e
                      | POk s => specs_bare r' (pos + 1) (pos + 1) [] (s :: acc_rev)
                      end
      else if c =? 59 then match one_spec buf_rev start pos with
                           | PErr e => PErr e
                           | POk s => POk (rev (s :: acc_rev), {| c_pos := pos; c_rest := r |})
                           end
      else specs_bare r' (pos + utf8_len c) start (c :: buf_rev) acc_rev
  end.
Fixpoint specs_paren (r : text) (pos start brace_pos : N) (buf_rev : text) (acc_rev : list spec) : pres (list spec * cursor) :=
  match r with
  | [] => err EParenMissing brace_pos 1
  | c :: r' =>
      if c =? 44 then match one_spec buf_rev start pos with
                      | PErr e => PErr e
                      | POk s => specs_paren r' (pos + 1) (pos + 1) brace_pos [] (s :: acc_rev)
                      end
      else if c =? 41 then match one_spec buf_rev start pos with
                           | PErr e => PErr e
                           | POk s => POk (rev (s :: acc_rev), {| c_pos := pos + 1; c_rest := r' |})
                           end
      else specs_paren r' (pos + utf8_len c) start brace_pos (c :: buf_rev) acc_rev
  end.

(** ** where a URL ends.  [url_scan r pos last]: the URL text, the cursor after everything consumed, the last consumed character *)
Definition ws_then_end (r : text) : bool :=
  match c_rest (eat_ws {| c_pos := 0; c_rest := r |}) with
  | [] => true
  | x :: _ => (x =? 59) || (x =? 35)
  end.
Definition next_is_ws (r : text) : bool := match r with x :: _ => ws x | [] => false end.
Fixpoint url_scan (r : text) (pos : N) (last : option N) : text * cursor * option N :=
  match r with
  | [] => ([], {| c_pos := pos; c_rest := [] |}, last)
  | c :: r' =>
      let after := {| c_pos := pos + utf8_len c; c_rest := r' |} in
      if (c =? 13) || (c =? 10) then ([], after, Some c)
      else if ws c && ws_then_end r' then ([], after, Some c)
      else if ((c =? 59) || (c =? 35)) && next_is_ws r' then ([c], after, Some c)
      else let '(u, cur, l) := url_scan r' (pos + utf8_len c) (Some c) in (c :: u, cur, l)
  end.

(** the unnamed variant tracks bracket depth *)
Fixpoint uurl_scan (r : text) (pos depth : N) (last : option N) : text * cursor * option N :=
  match r with
  | [] => ([], {| c_pos := pos; c_rest := [] |}, last)
  | c :: r' =>
      let after := {| c_pos := pos + utf8_len c; c_rest := r' |} in
      if (c =? 13) || (c =? 10) then ([], after, Some c)
      else
        let d := if c =? 91 then depth + 1 else if c =? 93 then depth - 1 else depth in
        if (d =? 0) && ws c && ws_then_end r' then ([], after, Some c)
        else if (d =? 0) && ((c =? 59) || (c =? 35)) && next_is_ws r' then ([c], after, Some c)
        else let '(u, cur, l) := uurl_scan r' (pos + utf8_len c) d (Some c) in (c :: u, cur, l)
  end.

(** ** the URL types *)
Definition dispatch_url (e : text) : option text :=
  match split_scheme e with
  | Some (sch, path) =>
      match scheme_parse sch with
      | Some SFile => if ext then url_oracle UFilePath (strip_host path) else url_oracle UParse e
      | Some SOther => url_oracle UParse e
      | None => if ext then url_oracle UPath e else None
      end
  | None => if ext then url_oracle UPath e else None
  end.
Definition verbatim_parse_url (u : text) : option (text * option text) :=
  match dispatch_url (expand u) with Some d => Some (d, Some u) | None => None end.
Definition parse_url_T (u : text) : option (text * option text) :=
  if verbatim then verbatim_parse_url u
  else match url_oracle UParse u with Some d => Some (d, None) | None => None end.

Definition parse_url (c : cursor) : pres (text * option text * cursor * option N) :=
  let c1 := eat_ws c in
  let '(u, c2, last) := url_scan (c_rest c1) (c_pos c1) None in
  match u with
  | [] => err EExpectedUrl (c_pos c1) 0
  | _ => match parse_url_T u with
         | None => err EUrl (c_pos c1) (text_len u)
         | Some (d, g) => POk (d, g, c2, last)
         end
  end.

(** ** the tail shared by both requirement parsers: optional marker, then the end of input *)
Definition parse_tail (is_url : bool) (requirement_end : N) (last : option N) (c : cursor) : pres (option mdd * list wkind) :=
  let c1 := eat_ws c in
  let mk : pres (option mdd * list wkind * cursor) :=
    match c_next c1 with
    | Some (_, 59, c2) => parse_markers_cursor ws alpha alnum kw vparse specpat specver pv pfv c2
    | _ => POk (None, [], c1)
    end in
  match mk with
  | PErr e => PErr e
  | POk (m, w, c3) =>
      let c4 := eat_ws c3 in
      match c_next c4 with
      | None => POk (m, w)
      | Some (pos, ch, _) =>
          let amb := match m, last with
                     | None, Some l => if is_url && ((l =? 59) || (l =? 35)) then Some l else None
                     | _, _ => None
                     end in
          match amb with
          | Some l => err (EAmbiguous l) (requirement_end - 1) 1
          | None => err (match m with None => EEndOrSemi | Some _ => EEnd end) pos (utf8_len ch)
          end
      end
  end.

(** ** [parse_pep508_requirement] *)
Definition is_spec_start (x : N) : bool := mem x [60; 61; 62; 126; 33].
Definition parse_requirement (s : text) : pres (requirement * list wkind) :=
  let c_init := c_new s in
  let c0 := eat_ws c_init in
  match parse_name c0 with
  | PErr e => PErr e
  | POk (name, raw, c1) =>
      match parse_extras (eat_ws c1) with
      | PErr e => PErr e
      | POk (extras, c3) =>
          let c4 := eat_ws c3 in
          let kind : pres (rkind * cursor * option N) :=
            match c_next c4 with
            | None => POk (KNone, c4, None)
            | Some (p, x, c5) =>
                if x =? 64 then
                  match parse_url c5 with
                  | PErr e => PErr e
                  | POk (d, g, c6, last) => POk (KUrl d g, c6, last)
                  end
                else if x =? 40 then
                  let c6 := eat_ws c5 in
                  match specs_paren (c_rest c6) (c_pos c6) (c_pos c6) p [] [] with
                  | PErr e => PErr e
                  | POk (l, c7) => POk (KSpecs (sort_specs l), c7, None)
                  end
                else if is_spec_start x then
                  match specs_bare (c_rest c4) (c_pos c4) (c_pos c4) [] [] with
                  | PErr e => PErr e
                  | POk (l, c7) => POk (KSpecs (sort_specs l), c7, None)
                  end
                else if x =? 59 then POk (KNone, c4, None)
                else
                  let (b, len) := looks_like_unnamed c_init in
                  if b then err EUnsupportedUrl 0 len else err EExpectedOneOf p (utf8_len x)
            end in
          match kind with
          | PErr e => PErr e
          | POk (k, c8, last) =>
              if match k with KNone => looks_like_archive raw | _ => false end then err EUnsupportedUrl 0 0
              else
                match parse_tail (match k with KUrl _ _ => true | _ => false end) (c_pos c8) last c8 with
                | PErr e => PErr e
                | POk (m, w) => POk ({| r_name := name; r_extras := extras; r_kind := k; r_marker := m |}, w)
                end
          end
      end
  end.

(** [Extras::parse] *)
Definition parse_extras_text (s : text) : pres (list text) :=
  match parse_extras (c_new s) with PErr e => PErr e | POk (l, _) => POk l end.

(** ** [parse_unnamed_requirement] (extension feature) *)
Definition parse_unnamed (s : text) : pres (unnamed * list wkind) :=
  let c1 := eat_ws (eat_ws (c_new s)) in
  let '(url, c2, last) := uurl_scan (c_rest c1) (c_pos c1) 0 None in
  match url with
  | [] => err EExpectedUrl (c_pos c1) 0
  | _ =>
      let '(u, extras_text) := match split_extras url with Some (u, e) => (u, Some e) | None => (url, None) end in
      let extras : pres (list text) :=
        match extras_text with
        | None => POk []
        | Some e => match parse_extras (c_new e) with
                    | PErr er => err (e_kind er) (c_pos c1 + text_len u + e_start er) (e_len er)
                    | POk (l, _) => POk l
                    end
        end in
      match extras with
      | PErr e => PErr e
      | POk ex =>
          match dispatch_url (expand u) with
          | None => err EUrl (c_pos c1) (text_len url)
          | Some d =>
              match parse_tail true (c_pos c2) last c2 with
              | PErr e => PErr e
              | POk (m, w) => POk ({| u_disp := d; u_given := Some u; u_extras := ex; u_marker := m |}, w)
              end
          end
      end
  end.

(** ** Display *)
Definition show_extras (l : list text) : text :=
  match l with [] => [] | _ => 91 :: join [44] l ++ [93] end.
Definition show_marker (mt : option text) : text :=
  match mt with Some t => 32 :: 59 :: 32 :: t | None => [] end.
(** [mt]: the text of [marker.contents()], when the marker is not TRUE (rendered by the DNF printer, see C05) *)
Definition display_req (r : requirement) (mt : option text) : text :=
  r_name r ++ show_extras (r_extras r) ++
  match r_kind r with
  | KNone => []
  | KSpecs l => join [44] (map sp_text l)
  | KUrl d _ => 32 :: 64 :: 32 :: d
  end ++ show_marker mt.
Definition display_unnamed (r : unnamed) (mt : option text) : text :=
  u_disp r ++ show_extras (u_extras r) ++ show_marker mt.
End Req.
