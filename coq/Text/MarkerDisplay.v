(** The text printer of markers: [impl Display for MarkerTreeContents] (src/marker/tree.rs:1665) with
    everything it calls - [impl Display for MarkerExpression] (tree.rs:567), [quoted] (tree.rs:559),
    [impl Display for MarkerOperator] (tree.rs:341), [impl Display for ExtraOperator] (tree.rs:513),
    [impl Display for MarkerValueExtra] (tree.rs:437), [MarkerTree::contents] / [try_to_string]
    (tree.rs:722, 735) and pep440_rs' [impl Display for Operator] (version.rs:147).
    Definitions (and [Example]s by computation) only; the theorems are in Text/MarkerDisplayProofs.v.

    Oracles (answers of dependencies): the spelling printed for a key ([Display for MarkerValueVersion],
    tree.rs:53, [Display for MarkerValueString], tree.rs:96 - deprecated spellings print under the modern
    name) and pep440_rs' [Version::to_string]. *)
From Coq Require Import List Bool NArith.
From Coq Require String Ascii.
From PV Require Import Base.Order Base.CutDef DD.DDModel Marker.Concrete Marker.Expr Marker.DnfModel Text.Cursor.
Import ListNotations.
Open Scope N_scope.

(** [slice::join] / itertools' [join] on strings *)
Fixpoint join (sep : text) (l : list text) : text :=
  match l with
  | [] => []
  | [x] => x
  | x :: l' => x ++ sep ++ join sep l'
  end.

(** [str::contains(char)] *)
Definition has_char (c : N) (s : text) : bool := existsb (N.eqb c) s.

(** tree.rs:559 [quoted]: double quotes if the value contains a single quote, single quotes otherwise.
    The value is copied verbatim (no escaping). *)
Definition quote_of (value : text) : N := if has_char 39 value then 34 else 39.
Definition quoted (value : text) : text := quote_of value :: value ++ [quote_of value].

(** pep440_rs version.rs:147 [Display for Operator]: the star of [EqualStar] / [NotEqualStar] is NOT printed
    here ("Beware, this doesn't print the star"); [ExactEqual] is [===] *)
Definition vop_text (op : vop) : text :=
  match op with
  | OEq | OEqStar => [61; 61]              (* == *)
  | OExact => [61; 61; 61]                 (* === *)
  | ONe | ONeStar => [33; 61]              (* != *)
  | OTilde => [126; 61]                    (* ~= *)
  | OLt => [60]                            (* < *)
  | OLe => [60; 61]                        (* <= *)
  | OGt => [62]                            (* > *)
  | OGe => [62; 61]                        (* >= *)
  end.

(** tree.rs:341 [Display for MarkerOperator] on the six comparison operators of [EString] *)
Definition sop_text (op : sop) : text :=
  match op with
  | SEq => [61; 61]
  | SNe => [33; 61]
  | SGt => [62]
  | SGe => [62; 61]
  | SLt => [60]
  | SLe => [60; 61]
  end.

(** tree.rs:341: [In | Contains => "in"], [NotIn | NotContains => "not in"]; also the literal texts of
    tree.rs:584 for [VersionIn] *)
Definition IN : text := [105; 110].
Definition NOT_IN : text := [110; 111; 116; 32; 105; 110].
Definition in_text (negated : bool) : text := if negated then NOT_IN else IN.

(** tree.rs:513 [Display for ExtraOperator] *)
Definition extra_op_text (negated : bool) : text := if negated then [33; 61] else [61; 61].

(** tree.rs:180 / tree.rs:602: the key [extra] *)
Definition EXTRA : text := [101; 120; 116; 114; 97].

Section Display.
(** [Display for MarkerValueVersion] / [Display for MarkerValueString] by key index *)
Variable vkey_text : N -> text.
Variable skey_text : N -> text.
(** [Version::to_string] of the version of a specifier: a final release of epoch 0, given by its release *)
Variable vshow : list N -> text.
(** [Version::to_string] of a member of an in-list *)
Variable vshow_raw : rawversion -> text.

(** tree.rs:567 [Display for MarkerExpression].
    - [Version]: [{key} {op} '{version}'], with [.*] inside the quotes for the star operators (always single
      quotes: a version text contains no quote);
    - [VersionIn]: [{key} in|not in '{v1 v2 ...}'];
    - [String] with a comparison operator or [In]/[NotIn] ([EString], [EIn]): [{key} {operator} {quoted value}];
    - [String] with [Contains]/[NotContains] ([EContains]): [{quoted value} {operator.invert()} {key}], and
      [invert] of [Contains] is [In], of [NotContains] is [NotIn] (tree.rs:236);
    - [Extra]: [extra {operator} {quoted name}]; [name.to_string()] is the normalised extra name or the
      arbitrary string (tree.rs:437), so the flag [arbitrary] does not show. *)
Definition show_expr (e : mexpr) : text :=
  match e with
  | EVersion k op rel =>
      vkey_text k ++ [32] ++ vop_text op ++ [32] ++ [39] ++ vshow rel ++ (if is_star op then [46; 42] else []) ++ [39]
  | EVersionIn k vs negated =>
      vkey_text k ++ [32] ++ in_text negated ++ [32] ++ [39] ++ join [32] (map vshow_raw vs) ++ [39]
  | EString k op s => skey_text k ++ [32] ++ sop_text op ++ [32] ++ quoted s
  | EIn k s negated => skey_text k ++ [32] ++ in_text negated ++ [32] ++ quoted s
  | EContains k s negated => quoted s ++ [32] ++ in_text negated ++ [32] ++ skey_text k
  | EExtra negated _ name => EXTRA ++ [32] ++ extra_op_text negated ++ [32] ++ quoted name
  end.

(** tree.rs:1674 [format_conjunction]: the expressions joined by [" and "] *)
Definition AND_SEP : text := [32; 97; 110; 100; 32].
Definition OR_SEP : text := [32; 111; 114; 32].
Definition show_clause (c : clause) : text := join AND_SEP (map show_expr c).

(** tree.rs:1682-1696: a single clause is printed bare; otherwise the clauses are joined by [" or "], each
    clause that does not have exactly one term in parentheses *)
Definition show_item (c : clause) : text :=
  if Nat.eqb (length c) 1 then show_clause c else [40] ++ show_clause c ++ [41].
Definition show_dnf (d : dnf) : text :=
  match d with
  | [c] => show_clause c
  | _ => join OR_SEP (map show_item d)
  end.

(** [MarkerTree::try_to_string] = [contents().map(to_string)] (tree.rs:722-737): nothing for TRUE;
    tree.rs:1667: FALSE is [python_version < '0'] ([pv] is the index of [python_version]); otherwise the DNF *)
Definition show_marker (pv : N) (t : mdd) : option text :=
  match t with
  | Leaf true => None
  | Leaf false => Some (vkey_text pv ++ [32; 60; 32; 39; 48; 39])
  | _ => Some (show_dnf (to_dnf t))
  end.
End Display.

(** ** pinned renderings (toy oracles: decimal release segments joined by dots; the key tables in
    declaration order of [MarkerValueVersion] / [MarkerValueString]) *)
Module DisplayExamples.
Import String Ascii.
Fixpoint txt (s : string) : text :=
  match s with EmptyString => [] | String a s' => N_of_ascii a :: txt s' end.

Fixpoint dec_fuel (fuel : nat) (n : N) : text :=
  match fuel with
  | O => []
  | S f => if n <? 10 then [48 + n] else dec_fuel f (n / 10) ++ [48 + n mod 10]
  end.
Definition dec (n : N) : text := dec_fuel 30 n.
Definition vshow0 (rel : list N) : text := join [46] (map dec rel).
Definition vshow_raw0 (v : rawversion) : text := vshow0 (fst (snd v)).

Definition vkey0 (k : N) : text :=
  txt (match k with
       | 0 => "implementation_version" | 1 => "python_full_version" | _ => "python_version"
       end)%string.
Definition skey0 (k : N) : text :=
  txt (match k with
       | 0 => "implementation_name"
       | 1 | 2 => "os_name"
       | 3 | 4 => "platform_machine"
       | 5 | 6 | 7 => "platform_python_implementation"
       | 8 => "platform_release"
       | 9 => "platform_system"
       | 10 | 11 => "platform_version"
       | _ => "sys_platform"
       end)%string.

Definition show (t : mdd) : option text := show_marker vkey0 skey0 vshow0 vshow_raw0 2 t.
Definition showe (e : mexpr) : text := show_expr vkey0 skey0 vshow0 vshow_raw0 e.
Local Definition ex (e : mexpr) : mdd := expression 2 1 e.
Local Definition fin (rel : list N) : rawversion := (0, (rel, FINAL)).

(** single comparisons *)
Example show_version : showe (EVersion 1 OGe [3; 8]) = txt "python_full_version >= '3.8'".
Proof. vm_compute. reflexivity. Qed.
Example show_star : showe (EVersion 1 ONeStar [3; 10]) = txt "python_full_version != '3.10.*'".
Proof. vm_compute. reflexivity. Qed.
Example show_exact : showe (EVersion 0 OExact [1]) = txt "implementation_version === '1'".
Proof. vm_compute. reflexivity. Qed.
Example show_version_in : showe (EVersionIn 0 [fin [3; 9]; fin [3; 11]] true) = txt "implementation_version not in '3.9 3.11'".
Proof. vm_compute. reflexivity. Qed.
Example show_version_in_empty : showe (EVersionIn 0 [] false) = txt "implementation_version in ''".
Proof. vm_compute. reflexivity. Qed.
Example show_string : showe (EString 12 SNe (txt "win32")) = txt "sys_platform != 'win32'".
Proof. vm_compute. reflexivity. Qed.
Example show_deprecated : showe (EString 2 SEq (txt "nt")) = txt "os_name == 'nt'".
Proof. vm_compute. reflexivity. Qed.
Example show_in : showe (EIn 12 (txt "linux") true) = txt "sys_platform not in 'linux'".
Proof. vm_compute. reflexivity. Qed.
Example show_contains : showe (EContains 10 (txt "Ubuntu") false) = txt "'Ubuntu' in platform_version".
Proof. vm_compute. reflexivity. Qed.
Example show_not_contains : showe (EContains 10 (txt "Ubuntu") true) = txt "'Ubuntu' not in platform_version".
Proof. vm_compute. reflexivity. Qed.
Example show_extra : showe (EExtra true false (txt "dev")) = txt "extra != 'dev'".
Proof. vm_compute. reflexivity. Qed.
(** [quoted]: a single quote in the value switches to double quotes; both kinds: still double quotes, verbatim *)
Example show_quote1 : showe (EString 1 SEq (txt "it's")) = txt "os_name == " ++ [34] ++ txt "it's" ++ [34].
Proof. vm_compute. reflexivity. Qed.
Example show_quote2 : showe (EString 1 SEq [97; 34; 98]) = txt "os_name == 'a" ++ [34] ++ txt "b'".
Proof. vm_compute. reflexivity. Qed.
Example show_quote_both : showe (EString 1 SEq [39; 34]) = txt "os_name == " ++ [34; 39; 34; 34].
Proof. vm_compute. reflexivity. Qed.

(** whole markers; the expected texts are those of the crate's test-suite (tree.rs [test_marker_simplification]) *)
Example show_true : show (Leaf true) = None.
Proof. reflexivity. Qed.
Example show_false : show (Leaf false) = Some (txt "python_version < '0'").
Proof. vm_compute. reflexivity. Qed.
(* python_version == '3.9' *)
Example show_pv_eq : show (ex (EVersion 2 OEq [3; 9])) = Some (txt "python_full_version == '3.9.*'").
Proof. vm_compute. reflexivity. Qed.
(* python_version in '3.9 3.11' *)
Example show_pv_in : show (ex (EVersionIn 2 [fin [3; 9]; fin [3; 11]] false))
  = Some (txt "python_full_version == '3.9.*' or python_full_version == '3.11.*'").
Proof. vm_compute. reflexivity. Qed.
(* python_version not in '3.9 3.11' *)
Example show_pv_not_in : show (ex (EVersionIn 2 [fin [3; 9]; fin [3; 11]] true))
  = Some (txt "python_full_version < '3.9' or python_full_version == '3.10.*' or python_full_version >= '3.12'").
Proof. vm_compute. reflexivity. Qed.
(* implementation_version not in '3.9 3.11' *)
Example show_iv_not_in : show (ex (EVersionIn 0 [fin [3; 9]; fin [3; 11]] true))
  = Some (txt "implementation_version != '3.9' and implementation_version != '3.11'").
Proof. vm_compute. reflexivity. Qed.
(* python_version == '3.*' *)
Example show_pv_star : show (ex (EVersion 2 OEqStar [3]))
  = Some (txt "python_full_version >= '3' and python_full_version < '4'").
Proof. vm_compute. reflexivity. Qed.
(* ((extra == 'a' or extra == 'b') and extra == 'c') or extra == 'b' *)
Example show_parens :
  let e x := ex (EExtra false false (txt x)) in
  show (m_or (m_and (m_or (e "a") (e "b")) (e "c")) (e "b"))%string
  = Some (txt "(extra == 'a' and extra == 'c') or extra == 'b'").
Proof. vm_compute. reflexivity. Qed.
(* extra == 'a' or extra == 'b' or extra == 'c' : no parentheses around one-term clauses *)
Example show_or3 :
  let e x := ex (EExtra false false (txt x)) in
  show (m_or (m_or (e "a") (e "b")) (e "c"))%string = Some (txt "extra == 'a' or extra == 'b' or extra == 'c'").
Proof. vm_compute. reflexivity. Qed.
(** the two corner cases of the slice pattern [match &dnf[..] { [conjunction] => .., _ => .. }]: an empty DNF
    prints as the empty string, an empty clause among several as [()] (neither arises from [to_dnf] of a
    non-constant marker: Text/MarkerDisplayProofs.v) *)
Example show_dnf_empty : show_dnf vkey0 skey0 vshow0 vshow_raw0 [] = [].
Proof. reflexivity. Qed.
Example show_dnf_empty_clause :
  show_dnf vkey0 skey0 vshow0 vshow_raw0 [[]; [EExtra false false [97]]] = txt "() or extra == 'a'".
Proof. vm_compute. reflexivity. Qed.
End DisplayExamples.
