(** C06, marker part: every error reported by the marker text parser carries a span that Display can
    render (both ends are character boundaries of the input; at the very end the length is at most 1),
    and the out-of-fuel [EPanic] of [parse_or] is never produced.  No hypotheses on the oracles. *)
From Coq Require Import List Bool NArith Arith Lia.
From PV Require Import Base.Order Base.CutDef DD.DDModel Names.NameModel Marker.Concrete Marker.Expr
  Text.Cursor Text.MarkerParse Text.SpanBase.
Import ListNotations.
Open Scope N_scope.

(** ** generic facts *)
Lemma res_ok_adv {A} (c0 c c1 : cursor) (r : pres (A * cursor)) : adv c c1 -> res_ok c0 c1 r -> res_ok c0 c r.
Proof.
  intros H. destruct r as [[a c']|e]; cbn [res_ok].
  - intros H'. exact (adv_trans _ _ _ H H').
  - intros H'. exact H'.
Qed.

(** a span between two boundaries *)
Lemma span_between (c : cursor) (k : ekind) (p l : N) :
  bnd c p -> bnd c (p + l) -> span_from c {| e_kind := k; e_start := p; e_len := l |}.
Proof.
  intros B1 B2. split; [exact B1|]. cbn [e_start e_len]. split.
  - intros E. apply bnd_le_end in B2. lia.
  - intros _. exact B2.
Qed.

(** the position of a cursor that is at the end of the input *)
Lemma at_end_ok (c0 c : cursor) : adv c0 c -> c_rest c = [] ->
  bnd c0 (c_pos c) /\ (c_pos c = endpos c0 \/ bnd c0 (c_pos c + 1)).
Proof.
  intros A E. split; [now apply bnd_of_adv|]. left. rewrite <- (adv_endpos c0 c A). unfold endpos.
  rewrite E. cbn [text_len]. lia.
Qed.

Lemma c_peek_none (c : cursor) : c_peek c = None -> c_rest c = [].
Proof. unfold c_peek. destruct (c_rest c); [reflexivity|discriminate]. Qed.

Lemma c_peek_some (c : cursor) (q : N) : c_peek c = Some q -> exists r, c_rest c = q :: r.
Proof. unfold c_peek. destruct (c_rest c) as [|x r]; [discriminate|]. intros [= ->]. now exists r. Qed.

Ltac np := unfold no_panic; cbn [e_kind]; discriminate.

(** the result of [next_expect_char] *)
Definition nec_res (c0 c : cursor) (r : pres cursor) : Prop :=
  match r with POk c' => adv c c' | PErr e => span_from c0 e /\ no_panic e end.

Lemma next_expect_char_ok (expected span_start : N) (c0 c : cursor) :
  adv c0 c ->
  (c_rest c = [] -> bnd c0 span_start /\ (span_start = endpos c0 \/ bnd c0 (span_start + 1))) ->
  nec_res c0 c (next_expect_char expected span_start c).
Proof.
  intros A H. unfold next_expect_char. destruct (c_next c) as [[[pos x] c']|] eqn:E.
  - destruct (x =? expected); cbn [nec_res].
    + apply (c_next_adv c pos x c' E).
    + split; [|np]. apply (span_from_adv c0 c); [exact A|]. apply (span_at_next c pos x c' _ E).
  - cbn [nec_res]. destruct (c_next_none c E) as [R _]. destruct (H R) as [B1 B2]. split; [|np].
    split; [exact B1|]. cbn [e_start e_len]. split; [intros _; lia|]. intros Ne.
    destruct B2 as [B2|B2]; [contradiction|exact B2].
Qed.

(** the position of an ASCII character just consumed *)
Lemma consumed_ascii_ok (c0 c c1 : cursor) (x : N) :
  adv c0 c -> adv c c1 -> c_pos c1 = c_pos c + utf8_len x -> x < 128 ->
  bnd c0 (c_pos c) /\ (c_pos c = endpos c0 \/ bnd c0 (c_pos c + 1)).
Proof.
  intros A A1 P Hx. split; [now apply bnd_of_adv|]. right. rewrite (utf8_len_ascii x Hx) in P. rewrite <- P.
  apply bnd_of_adv. exact (adv_trans _ _ _ A A1).
Qed.

Section Parser.
Variables ws alpha alnum : N -> bool.
Variable kw : list (text * mvalue).
Variable vparse : text -> option rawversion.
Variable specpat : vop -> text -> option (vop * list N).
Variable specver : vop -> text -> option (vop * list N).
Variables pv pfv : N.

(** ** operator *)
Lemma pmo_tail (c0 c : cursor) (P : N -> bool) : adv c0 c ->
  res_ok c0 c
    (let '(opt, start, len, c1) := c_take_while P c in
     if text_eqb opt [110; 111; 116] then
       match c_next c1 with
       | None => PErr {| e_kind := ENotEnd; e_start := c_pos c1; e_len := 1 |}
       | Some (pos, x, c2) =>
           if ws x then
             let c3 := c_eat_whitespace ws c2 in
             match next_expect_char 105 (c_pos c3) c3 with
             | PErr e => PErr e
             | POk c4 => match next_expect_char 110 (c_pos c4) c4 with
                         | PErr e => PErr e
                         | POk c5 => POk (OpNotIn, c5)
                         end
             end
           else PErr {| e_kind := ENotOther; e_start := pos; e_len := utf8_len x |}
       end
     else match op_of_text opt with
          | Some o => POk (o, c1)
          | None => PErr {| e_kind := EOperator; e_start := start; e_len := len |}
          end).
Proof.
  intros A. destruct (c_take_while P c) as [[[opt start] len] c1] eqn:E.
  destruct (c_take_while_adv P c opt start len c1 E) as (A1 & -> & -> & R & Pc1 & _ & _).
  assert (A01 : adv c0 c1) by exact (adv_trans _ _ _ A A1).
  destruct (text_eqb opt [110; 111; 116]).
  - destruct (c_next c1) as [[[pos x] c2]|] eqn:E2.
    + destruct (c_next_adv c1 pos x c2 E2) as (A2 & _).
      destruct (ws x).
      * cbv zeta. set (c3 := c_eat_whitespace ws c2). assert (A3 : adv c2 c3) by apply eat_ws_adv.
        assert (A13 : adv c c3) by exact (adv_trans _ _ _ A1 (adv_trans _ _ _ A2 A3)).
        assert (A03 : adv c0 c3) by exact (adv_trans _ _ _ A A13).
        pose proof (next_expect_char_ok 105 (c_pos c3) c0 c3 A03 (at_end_ok c0 c3 A03)) as H1.
        destruct (next_expect_char 105 (c_pos c3) c3) as [c4|e]; cbn [nec_res] in H1.
        -- assert (A04 : adv c0 c4) by exact (adv_trans _ _ _ A03 H1).
           pose proof (next_expect_char_ok 110 (c_pos c4) c0 c4 A04 (at_end_ok c0 c4 A04)) as H2.
           destruct (next_expect_char 110 (c_pos c4) c4) as [c5|e]; cbn [nec_res] in H2.
           ++ cbn [res_ok]. exact (adv_trans _ _ _ A13 (adv_trans _ _ _ H1 H2)).
           ++ exact H2.
        -- exact H1.
      * cbn [res_ok]. split; [|np]. apply (span_from_adv c0 c1 _ A01). apply (span_at_next c1 pos x c2 _ E2).
    + cbn [res_ok]. split; [|np]. apply (span_from_adv c0 c1 _ A01). apply span_at_end.
      apply (c_next_none c1 E2).
  - destruct (op_of_text opt) as [o|].
    + exact A1.
    + cbn [res_ok]. split; [|np]. apply (span_from_adv c0 c _ A). apply span_between; [apply bnd_pos|].
      rewrite <- Pc1. apply bnd_of_adv. exact A1.
Qed.

Lemma parse_marker_operator_ok (c0 c : cursor) : adv c0 c -> res_ok c0 c (parse_marker_operator ws alpha c).
Proof.
  intros A. unfold parse_marker_operator.
  destruct (match c_peek c with Some x => alpha x | None => false end).
  - exact (pmo_tail c0 c _ A).
  - exact (pmo_tail c0 c _ A).
Qed.

(** ** value *)
Lemma parse_marker_value_ok (c0 c : cursor) : adv c0 c -> res_ok c0 c (parse_marker_value ws kw c).
Proof.
  intros A. unfold parse_marker_value. destruct (c_peek c) as [q|] eqn:Pk.
  - destruct ((q =? 34) || (q =? 39)) eqn:Q.
    + destruct (c_next c) as [[[start_pos x] c1]|] eqn:E1.
      * destruct (c_next_adv c start_pos x c1 E1) as (A1 & -> & R1 & P1).
        destruct (c_peek_some c q Pk) as [r Rq]. rewrite Rq in R1. injection R1 as <- _.
        assert (Hq : q < 128).
        { apply orb_true_iff in Q. destruct Q as [Q|Q]; apply N.eqb_eq in Q; lia. }
        destruct (c_take_while (fun x => negb (x =? q)) c1) as [[[value st] len] c2] eqn:E2.
        destruct (c_take_while_adv _ c1 value st len c2 E2) as (A2 & _).
        assert (A12 : adv c c2) by exact (adv_trans _ _ _ A1 A2).
        assert (A02 : adv c0 c2) by exact (adv_trans _ _ _ A A12).
        pose proof (next_expect_char_ok q (c_pos c) c0 c2 A02 (fun _ => consumed_ascii_ok c0 c c1 q A A1 P1 Hq)) as H.
        destruct (next_expect_char q (c_pos c) c2) as [c3|e]; cbn [nec_res] in H.
        -- cbn [res_ok]. exact (adv_trans _ _ _ A12 H).
        -- exact H.
      * cbn [res_ok]. split; [|np]. apply (span_from_adv c0 c _ A). apply span_at_end. apply (c_next_none c E1).
    + destruct (c_take_while (fun x => negb (ws x) && negb (mem x [62; 61; 60; 33; 126; 41])) c) as [[[key start] len] c1] eqn:E.
      destruct (c_take_while_adv _ c key start len c1 E) as (A1 & -> & -> & R & Pc1 & _ & _).
      destruct (lookup_kw kw key) as [v|].
      * exact A1.
      * cbn [res_ok]. split; [|np]. apply (span_from_adv c0 c _ A). apply span_between; [apply bnd_pos|].
        rewrite <- Pc1. apply bnd_of_adv. exact A1.
  - cbn [res_ok]. split; [|np]. apply (span_from_adv c0 c _ A). apply span_at_end. exact (c_peek_none c Pk).
Qed.

(** ** key op value *)
Lemma parse_key_op_value_ok (c0 c : cursor) : adv c0 c ->
  res_ok c0 c (parse_key_op_value ws alpha kw vparse specpat specver c).
Proof.
  intros A. unfold parse_key_op_value. cbv zeta.
  set (ca := c_eat_whitespace ws c). assert (Aa : adv c ca) by apply eat_ws_adv.
  assert (A0a : adv c0 ca) by exact (adv_trans _ _ _ A Aa).
  pose proof (parse_marker_value_ok c0 ca A0a) as H1.
  destruct (parse_marker_value ws kw ca) as [[l c1]|e]; cbn [res_ok] in H1; [|exact H1].
  set (c2 := c_eat_whitespace ws c1). assert (A2 : adv c1 c2) by apply eat_ws_adv.
  assert (Ac2 : adv c c2) by exact (adv_trans _ _ _ Aa (adv_trans _ _ _ H1 A2)).
  assert (A02 : adv c0 c2) by exact (adv_trans _ _ _ A Ac2).
  pose proof (parse_marker_operator_ok c0 c2 A02) as H2.
  destruct (parse_marker_operator ws alpha c2) as [[o c3]|e]; cbn [res_ok] in H2; [|exact H2].
  set (c4 := c_eat_whitespace ws c3). assert (A4 : adv c3 c4) by apply eat_ws_adv.
  assert (Ac4 : adv c c4) by exact (adv_trans _ _ _ Ac2 (adv_trans _ _ _ H2 A4)).
  assert (A04 : adv c0 c4) by exact (adv_trans _ _ _ A Ac4).
  pose proof (parse_marker_value_ok c0 c4 A04) as H3.
  destruct (parse_marker_value ws kw c4) as [[r c5]|e]; cbn [res_ok] in H3; [|exact H3].
  destruct (typed_of_cmp ws vparse specpat specver l o r) as [e w]. cbn [res_ok].
  exact (adv_trans _ _ _ Ac4 H3).
Qed.

(** ** or / and / expr: the body of [parse_or] with the recursive call abstracted *)
Definition rty := pres (option mdd * list wkind * cursor).

Definition pexpr (rec : cursor -> rty) (c : cursor) : rty :=
  let c0 := c_eat_whitespace ws c in
  match c_eat_char 40 c0 with
  | Some (start_pos, c1) =>
      match rec c1 with
      | PErr e => PErr e
      | POk (m, w, c2) => match next_expect_char 41 start_pos c2 with
                          | PErr e => PErr e
                          | POk c3 => POk (m, w, c3)
                          end
      end
  | None =>
      match parse_key_op_value ws alpha kw vparse specpat specver c0 with
      | PErr e => PErr e
      | POk (e, w, c1) => POk (option_map (expression pv pfv) e, w, c1)
      end
  end.

Definition pchain (kwd : text) (is_and : bool) (inner : cursor -> rty) :=
  fix loop (n : nat) (acc : option mdd) (w : list wkind) (c : cursor) : rty :=
    match n with
    | O => POk (acc, w, c)
    | S n' =>
        let c0 := c_eat_whitespace ws c in
        let '(word, _, _) := c_peek_while (word_char alnum) c0 in
        if text_eqb word kwd then
          let '(_, _, _, c1) := c_take_while (word_char alnum) c0 in
          match inner c1 with
          | PErr e => PErr e
          | POk (x, w', c2) => loop n' (MarkerParse.combine is_and acc x) (w ++ w') c2
          end
        else POk (acc, w, c0)
    end.

Definition pand (rec : cursor -> rty) (c : cursor) : rty :=
  match pexpr rec c with
  | PErr e => PErr e
  | POk (x, w, c1) => pchain [97; 110; 100] true (pexpr rec) (S (length (c_rest c1))) x w c1
  end.

Definition por_body (rec : cursor -> rty) (c : cursor) : rty :=
  match pand rec c with
  | PErr e => PErr e
  | POk (x, w, c1) => pchain [111; 114] false (pand rec) (S (length (c_rest c1))) x w c1
  end.

Lemma parse_or_S (f : nat) (c : cursor) :
  parse_or ws alpha alnum kw vparse specpat specver pv pfv (S f) c =
  por_body (parse_or ws alpha alnum kw vparse specpat specver pv pfv f) c.
Proof. reflexivity. Qed.

(** a sub-parser is good below [f] characters *)
Definition good (c0 : cursor) (f : nat) (p : cursor -> rty) : Prop :=
  forall c, adv c0 c -> (length (c_rest c) <= f)%nat -> res_ok c0 c (p c).

Lemma pexpr_ok (c0 : cursor) (f : nat) (rec : cursor -> rty) :
  (forall c, adv c0 c -> (length (c_rest c) < f)%nat -> res_ok c0 c (rec c)) -> good c0 f (pexpr rec).
Proof.
  intros Hrec c A L. unfold pexpr. cbv zeta.
  set (ca := c_eat_whitespace ws c). assert (Aa : adv c ca) by apply eat_ws_adv.
  assert (A0a : adv c0 ca) by exact (adv_trans _ _ _ A Aa).
  destruct (c_eat_char 40 ca) as [[start_pos c1]|] eqn:E.
  - destruct (c_eat_char_adv 40 ca start_pos c1 E) as (A1 & -> & R1 & P1).
    assert (Ac1 : adv c c1) by exact (adv_trans _ _ _ Aa A1).
    assert (A01 : adv c0 c1) by exact (adv_trans _ _ _ A Ac1).
    assert (L1 : (length (c_rest c1) < f)%nat).
    { pose proof (adv_length c ca Aa) as La. rewrite R1 in La. cbn [length] in La. lia. }
    pose proof (Hrec c1 A01 L1) as H1.
    destruct (rec c1) as [[[m w] c2]|e]; cbn [res_ok] in H1; [|exact H1].
    assert (Ac2 : adv c c2) by exact (adv_trans _ _ _ Ac1 H1).
    assert (A02 : adv c0 c2) by exact (adv_trans _ _ _ A Ac2).
    assert (H40 : 40 < 128) by lia.
    pose proof (next_expect_char_ok 41 (c_pos ca) c0 c2 A02 (fun _ => consumed_ascii_ok c0 ca c1 40 A0a A1 P1 H40)) as H2.
    destruct (next_expect_char 41 (c_pos ca) c2) as [c3|e]; cbn [nec_res] in H2; [|exact H2].
    cbn [res_ok]. exact (adv_trans _ _ _ Ac2 H2).
  - pose proof (parse_key_op_value_ok c0 ca A0a) as H1.
    destruct (parse_key_op_value ws alpha kw vparse specpat specver ca) as [[[e w] c1]|e]; cbn [res_ok] in H1; [|exact H1].
    cbn [res_ok]. exact (adv_trans _ _ _ Aa H1).
Qed.

Lemma pchain_ok (c0 : cursor) (f : nat) (kwd : text) (is_and : bool) (inner : cursor -> rty) :
  good c0 f inner -> forall n acc w, good c0 f (pchain kwd is_and inner n acc w).
Proof.
  intros Hin. induction n as [|n IH]; intros acc w c A L.
  - cbn [pchain res_ok]. apply adv_refl.
  - cbn [pchain]. cbv zeta.
    set (ca := c_eat_whitespace ws c). assert (Aa : adv c ca) by apply eat_ws_adv.
    destruct (c_peek_while (word_char alnum) ca) as [[word p1] p2].
    destruct (text_eqb word kwd).
    + destruct (c_take_while (word_char alnum) ca) as [[[a st] len] c1] eqn:E.
      destruct (c_take_while_adv _ ca a st len c1 E) as (A1 & _).
      assert (Ac1 : adv c c1) by exact (adv_trans _ _ _ Aa A1).
      assert (A01 : adv c0 c1) by exact (adv_trans _ _ _ A Ac1).
      pose proof (adv_length c c1 Ac1) as L1.
      assert (L1' : (length (c_rest c1) <= f)%nat) by lia.
      pose proof (Hin c1 A01 L1') as H1.
      destruct (inner c1) as [[[x w'] c2]|e]; cbn [res_ok] in H1; [|exact H1].
      assert (Ac2 : adv c c2) by exact (adv_trans _ _ _ Ac1 H1).
      assert (A02 : adv c0 c2) by exact (adv_trans _ _ _ A Ac2).
      pose proof (adv_length c c2 Ac2) as L2.
      assert (L2' : (length (c_rest c2) <= f)%nat) by lia.
      apply (res_ok_adv c0 c c2 _ Ac2). exact (IH _ _ c2 A02 L2').
    + cbn [res_ok]. exact Aa.
Qed.

Lemma pand_ok (c0 : cursor) (f : nat) (rec : cursor -> rty) :
  (forall c, adv c0 c -> (length (c_rest c) < f)%nat -> res_ok c0 c (rec c)) -> good c0 f (pand rec).
Proof.
  intros Hrec c A L. unfold pand. pose proof (pexpr_ok c0 f rec Hrec) as He.
  pose proof (He c A L) as H1.
  destruct (pexpr rec c) as [[[x w] c1]|e]; cbn [res_ok] in H1; [|exact H1].
  assert (A01 : adv c0 c1) by exact (adv_trans _ _ _ A H1).
  pose proof (adv_length c c1 H1) as L1. assert (L1' : (length (c_rest c1) <= f)%nat) by lia.
  apply (res_ok_adv c0 c c1 _ H1).
  exact (pchain_ok c0 f _ _ _ He _ _ _ c1 A01 L1').
Qed.

Lemma por_body_ok (c0 : cursor) (f : nat) (rec : cursor -> rty) :
  (forall c, adv c0 c -> (length (c_rest c) < f)%nat -> res_ok c0 c (rec c)) -> good c0 f (por_body rec).
Proof.
  intros Hrec c A L. unfold por_body. pose proof (pand_ok c0 f rec Hrec) as Ha.
  pose proof (Ha c A L) as H1.
  destruct (pand rec c) as [[[x w] c1]|e]; cbn [res_ok] in H1; [|exact H1].
  assert (A01 : adv c0 c1) by exact (adv_trans _ _ _ A H1).
  pose proof (adv_length c c1 H1) as L1. assert (L1' : (length (c_rest c1) <= f)%nat) by lia.
  apply (res_ok_adv c0 c c1 _ H1).
  exact (pchain_ok c0 f _ _ _ Ha _ _ _ c1 A01 L1').
Qed.

Lemma parse_or_ok (c0 : cursor) : forall (f : nat) (c : cursor), adv c0 c -> (length (c_rest c) < f)%nat ->
  res_ok c0 c (parse_or ws alpha alnum kw vparse specpat specver pv pfv f c).
Proof.
  induction f as [|f IH]; intros c A L; [lia|].
  rewrite parse_or_S. apply (por_body_ok c0 f _ IH c A). lia.
Qed.

(** the error of "something is left over": from the next character to the end of the input *)
Lemma span_rest (c2 : cursor) (k : ekind) (pos x : N) (c3 : cursor) : c_next c2 = Some (pos, x, c3) ->
  span_from c2 {| e_kind := k; e_start := pos; e_len := prefix_len (c_remaining c3) (c_rest c2) |}.
Proof.
  intros E. destruct (c_next_adv c2 pos x c3 E) as (A & -> & R & P).
  destruct (bnd_next c2 _ x c3 E) as [_ Ne].
  split; [apply bnd_pos|]. cbn [e_start e_len]. split; [intros H; contradiction|]. intros _.
  unfold prefix_len, c_remaining. exists (length (c_rest c3)). split; [|reflexivity].
  rewrite R. cbn [length]. lia.
Qed.

(** ** the entry points *)
Lemma parse_markers_cursor_ok (c : cursor) :
  match parse_markers_cursor ws alpha alnum kw vparse specpat specver pv pfv c with
  | POk (_, _, c') => adv c c' /\ c_rest c' = []
  | PErr e => span_from c e /\ no_panic e
  end.
Proof.
  unfold parse_markers_cursor.
  pose proof (parse_or_ok c (S (length (c_rest c))) c (adv_refl c) (Nat.lt_succ_diag_r _)) as H1.
  destruct (parse_or ws alpha alnum kw vparse specpat specver pv pfv (S (length (c_rest c))) c) as [[[m w] c1]|e];
    cbn [res_ok] in H1; [|exact H1].
  cbv zeta. set (c2 := c_eat_whitespace ws c1). assert (A2 : adv c1 c2) by apply eat_ws_adv.
  assert (A02 : adv c c2) by exact (adv_trans _ _ _ H1 A2).
  destruct (c_next c2) as [[[pos x] c3]|] eqn:E.
  - split; [|np]. apply (span_from_adv c c2 _ A02). exact (span_rest c2 _ pos x c3 E).
  - split; [exact A02|]. apply (c_next_none c2 E).
Qed.

Theorem parse_markers_renderable (s : text) (e : perr) :
  parse_markers ws alpha alnum kw vparse specpat specver pv pfv s = PErr e -> renderable s e /\ no_panic e.
Proof.
  unfold parse_markers. pose proof (parse_markers_cursor_ok (c_new s)) as H.
  destruct (parse_markers_cursor ws alpha alnum kw vparse specpat specver pv pfv (c_new s)) as [[[m w] c1]|e'].
  - discriminate.
  - intros [= <-]. destruct H as [H1 H2]. split; [exact (span_from_new s e' H1)|exact H2].
Qed.

Theorem parse_expression_renderable (s : text) (e : perr) :
  parse_expression ws alpha kw vparse specpat specver s = PErr e -> renderable s e /\ no_panic e.
Proof.
  unfold parse_expression.
  pose proof (parse_key_op_value_ok (c_new s) (c_new s) (adv_refl _)) as H1.
  destruct (parse_key_op_value ws alpha kw vparse specpat specver (c_new s)) as [[[x w] c1]|e']; cbn [res_ok] in H1.
  - cbv zeta. set (c2 := c_eat_whitespace ws c1). assert (A2 : adv c1 c2) by apply eat_ws_adv.
    assert (A02 : adv (c_new s) c2) by exact (adv_trans _ _ _ H1 A2).
    destruct (c_next c2) as [[[pos y] c3]|] eqn:E; [|discriminate].
    intros [= <-]. split; [|np]. apply span_from_new. apply (span_from_adv (c_new s) c2 _ A02).
    exact (span_rest c2 _ pos y c3 E).
  - intros [= <-]. destruct H1 as [H1 H2]. split; [exact (span_from_new s e' H1)|exact H2].
Qed.

(** ** the fuel of [version_list] is sufficient: more fuel does not change the result *)
Lemma version_list_fuel : forall (f : nat) (c : cursor) (k : nat), (length (c_rest c) < f)%nat ->
  version_list ws vparse (f + k) c = version_list ws vparse f c.
Proof.
  induction f as [|f IH]; intros c k L; [lia|].
  cbn [Nat.add version_list]. cbv zeta.
  set (c1 := c_eat_whitespace ws c). assert (A1 : adv c c1) by apply eat_ws_adv.
  destruct (c_take_while (fun x => negb (ws x)) c1) as [[[piece st] len] c2] eqn:E.
  destruct (c_take_while_adv _ c1 piece st len c2 E) as (A2 & _ & _ & R & _).
  destruct piece as [|x piece]; [reflexivity|].
  destruct (vparse (x :: piece)) as [v|]; [|reflexivity].
  assert (L2 : (length (c_rest c2) < f)%nat).
  { pose proof (adv_length c c1 A1) as L1. rewrite R in L1. cbn [app length] in L1. rewrite app_length in L1. lia. }
  rewrite (IH c2 k L2). reflexivity.
Qed.

Theorem version_list_fuel_new (k : nat) (s : text) :
  version_list ws vparse (S (length s) + k) (c_new s) = version_list ws vparse (S (length s)) (c_new s).
Proof. apply version_list_fuel. cbn [c_new c_rest]. lia. Qed.

End Parser.

Print Assumptions parse_markers_cursor_ok.
Print Assumptions parse_markers_renderable.
Print Assumptions parse_expression_renderable.
Print Assumptions version_list_fuel_new.
