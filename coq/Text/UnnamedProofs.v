(** Bare URLs, filesystem paths and archive file names are never accepted as named requirements
    ([parse_requirement] answers [EUnsupportedPath] / [EUnsupportedUrl]); facts about [parse_unnamed].
    No hypothesis on the oracles; facts about real white space that an arbitrary [ws] need not have
    (e.g. [ws 47 = false]) are explicit premises of the theorems. *)
From Coq Require Import List Bool NArith Arith Lia String Ascii.
From PV Require Import Base.Order Base.CutDef DD.DDModel Names.NameModel Names.NameProofs Marker.Concrete Marker.Expr
  Text.Cursor Text.MarkerParse Text.ReqParse Text.SpanBase.
Import ListNotations.
Open Scope N_scope.
Arguments N.add : simpl never.
Arguments N.sub : simpl never.
Arguments N.eqb : simpl never.
Arguments N.ltb : simpl never.
Arguments N.leb : simpl never.
Arguments N.compare : simpl never.

(** * generic list facts *)
Lemma str_eqb_iff : forall a b : text, str_eqb a b = true <-> a = b.
Proof.
  induction a as [|x a IH]; destruct b as [|y b]; cbn [str_eqb]; try (split; congruence).
  rewrite andb_true_iff, N.eqb_eq, IH. split; [intros [-> ->]; reflexivity|intros [= -> ->]; auto].
Qed.

Lemma take_while_aux_drop p r : snd (take_while_aux p r) = drop_while p r.
Proof.
  induction r as [|x r IH]; cbn [take_while_aux drop_while]; [reflexivity|].
  destruct (p x); [|reflexivity]. destruct (take_while_aux p r) as [a b]. exact IH.
Qed.

Lemma take_while_aux_all p a b : forallb p a = true -> match b with [] => True | x :: _ => p x = false end ->
  take_while_aux p (a ++ b) = (a, b).
Proof.
  intros Ha Hb. induction a as [|x a IH]; cbn [app].
  - destruct b as [|y b]; [reflexivity|]. cbn [take_while_aux]. rewrite Hb. reflexivity.
  - cbn [forallb] in Ha. apply andb_true_iff in Ha. destruct Ha as [Hx Ha]. cbn [take_while_aux]. rewrite Hx, (IH Ha). reflexivity.
Qed.

Lemma drop_while_all p a b : forallb p a = true -> match b with [] => True | x :: _ => p x = false end ->
  drop_while p (a ++ b) = b.
Proof. intros Ha Hb. rewrite <- take_while_aux_drop, (take_while_aux_all p a b Ha Hb). reflexivity. Qed.

Lemma drop_while_stop p c x y : p c = false -> drop_while p (x ++ c :: y) = drop_while p x ++ c :: y.
Proof.
  intros Hc. induction x as [|d x IH]; cbn [app drop_while].
  - rewrite Hc. reflexivity.
  - destruct (p d); [exact IH|reflexivity].
Qed.

Lemma mem_app_mid c a b : mem c (a ++ c :: b) = true.
Proof.
  unfold mem. rewrite existsb_app. cbn [existsb]. rewrite N.eqb_refl. cbn [orb]. apply orb_true_r.
Qed.

(** a prefix free of [x] stays a prefix when the text is cut at an occurrence of [x] *)
Lemma prefix_before (x : N) : forall (a b u t : text), forallb (fun y => negb (y =? x)) a = true ->
  a ++ b = u ++ x :: t -> exists u', u = a ++ u'.
Proof.
  induction a as [|y a IH]; intros b u t Ha E.
  - exists u. reflexivity.
  - cbn [forallb] in Ha. apply andb_true_iff in Ha. destruct Ha as [Hy Ha]. destruct u as [|z u].
    + cbn [app] in E. injection E as -> _. rewrite N.eqb_refl in Hy. discriminate.
    + cbn [app] in E. injection E as -> E. destruct (IH b u t Ha E) as [u' ->]. exists u'. reflexivity.
Qed.

(** * [split_extras] *)
Definition not_bracket (x : N) : bool := negb (x =? 91) && negb (x =? 93).

Lemma find_open_spec : forall r acc b e, find_open r acc = Some (b, e) ->
  exists m, r = m ++ 91 :: b /\ e = 91 :: rev m ++ acc /\ forallb not_bracket m = true.
Proof.
  induction r as [|c r IH]; intros acc b e; cbn [find_open]; [discriminate|].
  destruct (N.eqb_spec c 93) as [->|N93]; [discriminate|]. destruct (N.eqb_spec c 91) as [->|N91].
  - intros [= <- <-]. exists []. cbn. auto.
  - intros H. destruct (IH _ _ _ H) as (m & -> & -> & F). exists (c :: m). cbn [app rev forallb]. rewrite <- app_assoc. cbn [app].
    split; [reflexivity|]. split; [reflexivity|]. rewrite F. unfold not_bracket.
    destruct (N.eqb_spec c 91); [contradiction|]. destruct (N.eqb_spec c 93); [contradiction|]. reflexivity.
Qed.

Lemma split_extras_spec s u e : split_extras s = Some (u, e) ->
  exists m, s = u ++ e /\ e = 91 :: m ++ [93] /\ forallb not_bracket m = true.
Proof.
  unfold split_extras. destruct (rev s) as [|c r] eqn:R; [discriminate|].
  destruct (N.eqb_spec c 93) as [->|N93].
  2:{ destruct c as [|p]; [discriminate|]. do 7 (destruct p as [p|p|]; try discriminate). all: exfalso; apply N93; reflexivity. }
  destruct (find_open r [93]) as [[b e']|] eqn:F; [|discriminate]. intros [= <- <-].
  destruct (find_open_spec _ _ _ _ F) as (m & -> & -> & Fm). exists (rev m). split; [|split].
  - rewrite <- (rev_involutive s), R. cbn [rev]. rewrite rev_app_distr. cbn [rev]. rewrite <- !app_assoc. reflexivity.
  - reflexivity.
  - rewrite forallb_forall in *. intros x Hx. apply Fm. now apply in_rev.
Qed.

Lemma find_open_app : forall m acc b, forallb not_bracket m = true -> find_open (m ++ 91 :: b) acc = Some (b, 91 :: rev m ++ acc).
Proof.
  induction m as [|c m IH]; intros acc b F.
  - reflexivity.
  - cbn [forallb] in F. apply andb_true_iff in F. destruct F as [Hc F]. unfold not_bracket in Hc. rewrite andb_true_iff, !negb_true_iff in Hc.
    destruct Hc as [C91 C93]. cbn [app find_open]. rewrite C93, C91, (IH (c :: acc) b F). cbn [rev]. rewrite <- app_assoc. reflexivity.
Qed.

Lemma split_extras_group u m : forallb not_bracket m = true -> split_extras (u ++ 91 :: m ++ [93]) = Some (u, 91 :: m ++ [93]).
Proof.
  intros F. unfold split_extras.
  assert (rev (u ++ 91 :: m ++ [93]) = 93 :: rev m ++ 91 :: rev u) as ->.
  { rewrite rev_app_distr. cbn [rev]. rewrite rev_app_distr. cbn [rev app]. rewrite <- app_assoc. reflexivity. }
  rewrite find_open_app.
  - rewrite !rev_involutive. reflexivity.
  - rewrite forallb_forall in *. intros x Hx. apply F. now apply in_rev.
Qed.

Ltac ev t := let v := eval vm_compute in t in change t with v.

(** the part kept by [split_extras]: the text itself, or what precedes the trailing bracket group *)
Definition strip_group (t : text) : text := match split_extras t with Some (u, _) => u | None => t end.

Lemma strip_group_prefix a b : forallb (fun y => negb (y =? 91)) a = true -> exists b', strip_group (a ++ b) = a ++ b'.
Proof.
  intros Ha. unfold strip_group. destruct (split_extras (a ++ b)) as [[u e]|] eqn:E; [|exists b; reflexivity].
  destruct (split_extras_spec _ _ _ E) as (m & Eq & -> & _). exact (prefix_before 91 a b u _ Ha Eq).
Qed.

(** * character classes *)
Lemma name_char_cases x : name_char x = true <->
  (65 <= x /\ x <= 90) \/ (97 <= x /\ x <= 122) \/ (48 <= x /\ x <= 57) \/ x = 45 \/ x = 95 \/ x = 46.
Proof.
  unfold name_char, ascii_alnum, is_upper, is_lower, is_digit, is_punct.
  rewrite !orb_true_iff, !andb_true_iff, !N.leb_le, !N.eqb_eq. tauto.
Qed.

Lemma alnum_iff x : NameModel.alnum x = true <-> (65 <= x /\ x <= 90) \/ (97 <= x /\ x <= 122) \/ (48 <= x /\ x <= 57).
Proof.
  unfold NameModel.alnum, is_upper, is_lower, is_digit.
  rewrite !orb_true_iff, !andb_true_iff, !N.leb_le. tauto.
Qed.

Lemma scheme_char_cases x : scheme_char x = true ->
  (65 <= x /\ x <= 90) \/ (97 <= x /\ x <= 122) \/ (48 <= x /\ x <= 57) \/ x = 43 \/ x = 45 \/ x = 46.
Proof.
  unfold scheme_char, ascii_alnum, is_upper, is_lower, is_digit.
  rewrite !orb_true_iff, !andb_true_iff, !N.leb_le, !N.eqb_eq. tauto.
Qed.

Lemma forallb_impl {A} (p q : A -> bool) (l : list A) : (forall x, p x = true -> q x = true) -> forallb p l = true -> forallb q l = true.
Proof. intros H. rewrite !forallb_forall. intros F x Hx. apply H, F, Hx. Qed.

Lemma name_char_not x y : name_char x = true -> y < 45 \/ y = 91 \/ y = 58 -> negb (x =? y) = true.
Proof. intros H Hy. apply name_char_cases in H. apply negb_true_iff. apply N.eqb_neq. lia. Qed.

Lemma scheme_char_not x y : scheme_char x = true -> y < 43 \/ y = 91 \/ y = 58 -> negb (x =? y) = true.
Proof. intros H Hy. apply scheme_char_cases in H. apply negb_true_iff. apply N.eqb_neq. lia. Qed.

Lemma lt_36_45 : 36 < 45 \/ 36 = 91 \/ 36 = 58. Proof. lia. Qed.
Lemma lt_36_43 : 36 < 43 \/ 36 = 91 \/ 36 = 58. Proof. lia. Qed.
Lemma is_91 : 91 < 45 \/ 91 = 91 \/ 91 = 58. Proof. lia. Qed.
Lemma is_91' : 91 < 43 \/ 91 = 91 \/ 91 = 58. Proof. lia. Qed.
Lemma group_len_arith (p a m : N) : p + a + 1 + m + 1 = p + (a + (1 + (m + (1 + 0)))). Proof. lia. Qed.

Lemma valid_name_chars name : valid_name name = true -> forallb name_char name = true.
Proof.
  destruct name as [|c m]; [discriminate|]. unfold valid_name. rewrite !andb_true_iff. intros [[H _] _]. exact H.
Qed.

Lemma last_opt_last (s : text) : s <> [] -> last_opt s = Some (last s 0).
Proof.
  intros H. destruct (exists_last H) as (l & a & ->). unfold last_opt. rewrite rev_app_distr, last_last. reflexivity.
Qed.

Lemma alnum_not_punct x : NameModel.alnum x = true -> is_punct x = false.
Proof.
  unfold NameModel.alnum. rewrite <- orb_assoc. intros H. apply orb_true_iff in H. destruct H as [H|H].
  - now apply upper_not_punct.
  - now apply lowdig_not_punct.
Qed.

Lemma valid_name_owned name : valid_name name = true -> exists n, normalize_owned name = Some n.
Proof. intros H. rewrite owned_eq_ref. now apply accept_iff. Qed.

(** * B. the syntactic class of URL schemes *)
Fixpoint punct_ok (s : text) : bool :=
  match s with
  | [] => true
  | c :: s' => (if (c =? 45) || (c =? 46) then match s' with d :: _ => ascii_alnum d | [] => false end else true) && punct_ok s'
  end.
(** a letter first, scheme characters only (so no [$], [:], [[]), and every [-] or [.] is followed, inside the scheme, by an alphanumeric *)
Definition wf_scheme (sch : text) : Prop :=
  match sch with [] => False | c :: _ => is_upper c || is_lower c = true end /\
  forallb scheme_char sch = true /\ punct_ok sch = true.

Lemma take_last_alnum : forall s a b, take_while_aux name_char s = (a, b) -> forallb scheme_char s = true -> punct_ok s = true ->
  a <> [] -> NameModel.alnum (last a 0) = true.
Proof.
  induction s as [|c s IH]; intros a b; cbn [take_while_aux].
  - intros [= <- <-] _ _ H. contradiction.
  - destruct (name_char c) eqn:Nc.
    2:{ intros [= <- <-] _ _ H. contradiction. }
    destruct (take_while_aux name_char s) as [a' b'] eqn:E. intros [= <- <-] F Pk _.
    cbn [forallb] in F. apply andb_true_iff in F. destruct F as [Sc F]. cbn [punct_ok] in Pk. apply andb_true_iff in Pk. destruct Pk as [Pc Pk].
    destruct a' as [|y a''].
    + cbn [last]. apply alnum_iff. apply scheme_char_cases in Sc. apply name_char_cases in Nc.
      destruct ((c =? 45) || (c =? 46)) eqn:Hp.
      * exfalso. destruct s as [|d s']; [discriminate|]. cbn [take_while_aux] in E.
        unfold name_char at 1 in E. rewrite Pc in E. cbn [orb] in E. destruct (take_while_aux name_char s'). discriminate.
      * apply orb_false_iff in Hp. destruct Hp as [H45 H46]. apply N.eqb_neq in H45, H46. lia.
    + change (last (c :: y :: a'') 0) with (last (y :: a'') 0). apply (IH _ _ eq_refl F Pk). discriminate.
Qed.

Lemma scheme_name_split sch : wf_scheme sch ->
  exists raw sfx, sch = raw ++ sfx /\ valid_name raw = true /\ (sfx = [] \/ exists t, sfx = 43 :: t).
Proof.
  intros (L & F & Pk). destruct (take_while_aux name_char sch) as [raw sfx] eqn:E. exists raw, sfx.
  destruct (take_while_aux_app _ _ _ _ E) as [Eq Fr]. pose proof (take_while_aux_stop _ _ _ _ E) as St.
  split; [exact Eq|]. split.
  - destruct sch as [|c m]; [contradiction|]. assert (name_char c = true) as Nc.
    { unfold name_char, ascii_alnum. rewrite L. reflexivity. }
    cbn [take_while_aux] in E. rewrite Nc in E. destruct (take_while_aux name_char m) as [a' b'] eqn:E'. injection E as <- <-.
    unfold valid_name. rewrite !andb_true_iff. split; [split|].
    + exact Fr.
    + unfold NameModel.alnum. rewrite L. reflexivity.
    + apply (take_last_alnum (c :: m) (c :: a') b'); [|exact F|exact Pk|discriminate].
      cbn [take_while_aux]. rewrite Nc, E'. reflexivity.
  - destruct sfx as [|x t]; [left; reflexivity|]. right. exists t. f_equal. rewrite Eq, forallb_app in F. apply andb_true_iff in F.
    destruct F as [_ F]. cbn [forallb] in F. apply andb_true_iff in F. destruct F as [Sx _]. apply scheme_char_cases in Sx.
    destruct (name_char x) eqn:Nx; [discriminate|]. destruct (N.eq_dec x 43) as [|Ne]; [assumption|]. exfalso.
    assert (name_char x = true) as Nx'; [|congruence]. apply name_char_cases. lia.
Qed.

Lemma scheme_go_app sch e : forallb scheme_char sch = true -> scheme_go (sch ++ 58 :: e) = Some (sch, e).
Proof.
  induction sch as [|c m IH]; intros F; [reflexivity|]. cbn [forallb] in F. apply andb_true_iff in F. destruct F as [Sc F].
  cbn [app scheme_go]. rewrite Sc, (IH F). reflexivity.
Qed.

Lemma trim_c0_scheme sch e : wf_scheme sch -> exists e', trim_c0 (sch ++ 58 :: e) = sch ++ 58 :: e'.
Proof.
  intros (L & F & _). unfold trim_c0.
  assert (drop_while c0_space (sch ++ 58 :: e) = sch ++ 58 :: e) as ->.
  { destruct sch as [|c m]; [contradiction|]. cbn [app drop_while]. assert (c0_space c = false) as ->; [|reflexivity].
    unfold c0_space. apply N.leb_gt. unfold is_upper, is_lower in L. rewrite orb_true_iff, !andb_true_iff, !N.leb_le in L. lia. }
  rewrite rev_app_distr. cbn [rev]. rewrite <- app_assoc. cbn [app].
  rewrite (drop_while_stop c0_space 58 (rev e) (rev sch) eq_refl). exists (rev (drop_while c0_space (rev e))).
  rewrite rev_app_distr. cbn [rev]. rewrite rev_involutive, <- app_assoc. reflexivity.
Qed.

(** * what [looks_like_archive] means *)
Lemma mem_false_iff x (l : text) : mem x l = false <-> ~ In x l.
Proof.
  unfold mem. split.
  - intros H I. assert (existsb (N.eqb x) l = true) as E; [|congruence]. apply existsb_exists. exists x. split; [exact I|apply N.eqb_refl].
  - intros H. destruct (existsb (N.eqb x) l) eqn:E; [|reflexivity]. exfalso. apply H. apply existsb_exists in E.
    destruct E as (y & I & Exy). apply N.eqb_eq in Exy. subst y. exact I.
Qed.

Lemma mem_rev x (l : text) : mem x l = false -> mem x (rev l) = false.
Proof. rewrite !mem_false_iff. intros H I. apply H. now apply in_rev. Qed.

Lemma mem_app_false x (a b : text) : mem x a = false -> mem x b = false -> mem x (a ++ b) = false.
Proof. unfold mem. intros Ha Hb. rewrite existsb_app, Ha, Hb. reflexivity. Qed.

Lemma split_on_none x p : mem x p = false -> split_on x p = [p].
Proof.
  induction p as [|c p IH]; [reflexivity|]. unfold mem. cbn [existsb split_on]. intros H. apply orb_false_iff in H. destruct H as [Hc Hp].
  rewrite N.eqb_sym, Hc. rewrite (IH Hp). reflexivity.
Qed.

Lemma str_eqb_neq (a b : text) : a <> b -> str_eqb a b = false.
Proof. intros H. destruct (str_eqb a b) eqn:E; [|reflexivity]. apply str_eqb_iff in E. contradiction. Qed.

Lemma file_name_plain p : mem 47 p = false -> p <> [] -> p <> [46] -> p <> [46; 46] -> file_name p = Some p.
Proof.
  intros M N0 N1 N2. unfold file_name. rewrite (split_on_none 47 p M). cbn [filter].
  rewrite (str_eqb_neq p [46] N1). destruct p as [|c p']; [contradiction|]. cbn [is_nil negb andb rev app].
  rewrite (str_eqb_neq _ _ N2). reflexivity.
Qed.

Lemma split_first_app x a b : mem x a = false -> split_first x (a ++ x :: b) = Some (a, b).
Proof.
  induction a as [|c a IH]; cbn [app split_first].
  - intros _. rewrite N.eqb_refl. reflexivity.
  - unfold mem. cbn [existsb]. intros H. apply orb_false_iff in H. destruct H as [Hc Ha]. rewrite N.eqb_sym, Hc, (IH Ha). reflexivity.
Qed.

Lemma rsplit_dot_app base e : mem 46 e = false -> rsplit_dot (base ++ 46 :: e) = Some (base, e).
Proof.
  intros M. unfold rsplit_dot. rewrite rev_app_distr. cbn [rev]. rewrite <- app_assoc. cbn [app].
  rewrite (split_first_app 46 (rev e) (rev base) (mem_rev _ _ M)). rewrite !rev_involutive. reflexivity.
Qed.

(** [base.e] with a non-empty stem and a non-empty, dot-free extension, no directory part *)
Lemma dotted_name base e : base <> [] -> e <> [] -> mem 47 base = false -> mem 47 e = false -> mem 46 e = false ->
  file_name (base ++ 46 :: e) = Some (base ++ 46 :: e) /\ path_extension (base ++ 46 :: e) = Some e /\ file_stem (base ++ 46 :: e) = base.
Proof.
  intros Nb Ne Mb Me Md.
  assert (file_name (base ++ 46 :: e) = Some (base ++ 46 :: e)) as Fn.
  { apply file_name_plain.
    - apply mem_app_false; [exact Mb|]. unfold mem in *. cbn [existsb]. rewrite Me. reflexivity.
    - destruct base; discriminate.
    - destruct base as [|b [|b' base']]; [contradiction| |]; discriminate.
    - destruct base as [|b [|b' base']]; [contradiction| |].
      + destruct e; [contradiction|discriminate].
      + destruct base'; discriminate. }
  split; [exact Fn|]. unfold path_extension, extension, file_stem. rewrite Fn, (rsplit_dot_app base e Md).
  destruct base; [contradiction|]. cbn [is_nil]. auto.
Qed.

Theorem archive_ext (base e : text) : base <> [] -> mem 47 base = false ->
  In e (map T ["whl"; "tbz"; "txz"; "tlz"; "zip"; "tgz"; "tar"]%string) -> looks_like_archive (base ++ 46 :: e) = true.
Proof.
  intros Nb Mb I. assert (e <> [] /\ mem 47 e = false /\ mem 46 e = false) as (Ne & Me & Md).
  { cbn [map In] in I. repeat (destruct I as [<-|I]; [split; [discriminate|split; reflexivity]|]). contradiction. }
  destruct (dotted_name base e Nb Ne Mb Me Md) as (_ & Pe & _). unfold looks_like_archive. rewrite Pe.
  apply orb_true_iff. left. unfold mem_text. apply existsb_exists. exists e. split; [exact I|]. now apply str_eqb_iff.
Qed.

Theorem archive_whl (base : text) : base <> [] -> mem 47 base = false -> looks_like_archive (base ++ 46 :: T "whl") = true.
Proof. intros Nb Mb. apply archive_ext; [exact Nb|exact Mb|]. cbn [map In]. auto. Qed.

Theorem archive_tar_gz (base : text) : base <> [] -> mem 47 base = false -> looks_like_archive (base ++ T ".tar.gz") = true.
Proof.
  intros Nb Mb. assert (base ++ T ".tar.gz" = (base ++ 46 :: T "tar") ++ 46 :: T "gz") as -> by (rewrite <- app_assoc; reflexivity).
  assert (base ++ 46 :: T "tar" <> []) as Nb' by (destruct base; discriminate).
  assert (mem 47 (base ++ 46 :: T "tar") = false) as Mb' by (apply mem_app_false; [exact Mb|reflexivity]).
  destruct (dotted_name (base ++ 46 :: T "tar") (T "gz") Nb') as (Fn & Pe & St); [discriminate|exact Mb'|reflexivity|reflexivity|].
  destruct (dotted_name base (T "tar") Nb) as (_ & Pe' & _); [discriminate|exact Mb|reflexivity|reflexivity|].
  unfold looks_like_archive. rewrite Pe, Fn, St, Pe'. reflexivity.
Qed.

Example archive_ex1 : looks_like_archive (T "requests-2.26.0.tar.gz") = true. Proof. vm_compute. reflexivity. Qed.
Example archive_ex2 : looks_like_archive (T "numpy-1.0-cp39-none-any.whl") = true. Proof. vm_compute. reflexivity. Qed.
Example archive_ex3 : looks_like_archive (T "requests-2.26.0") = false. Proof. vm_compute. reflexivity. Qed.
Example archive_ex4 : looks_like_archive (T "foo.zip") = true. Proof. vm_compute. reflexivity. Qed.
Example archive_ex5 : looks_like_archive (T "foo.gz") = false. Proof. vm_compute. reflexivity. Qed.
Example archive_ex6 : looks_like_archive (T ".whl") = false. Proof. vm_compute. reflexivity. Qed.

Section Unnamed.
Variables ws alpha alnum : N -> bool.
Variable kw : list (text * mvalue).
Variable vparse : text -> option rawversion.
Variable specpat : vop -> text -> option (vop * list N).
Variable specver : vop -> text -> option (vop * list N).
Variables pv pfv : N.
Variable specparse : text -> option spec.
Variable url_oracle : ukind -> text -> option text.
Variable getenv : text -> option text.
Variable project_root : text.
Variables verbatim ext : bool.

Notation P := (parse_requirement ws alpha alnum kw vparse specpat specver pv pfv specparse url_oracle getenv project_root verbatim ext).
Notation PU := (parse_unnamed ws alpha alnum kw vparse specpat specver pv pfv url_oracle getenv project_root ext).
Notation xp := (expand getenv project_root).
Notation llu := (looks_like_unnamed ws getenv project_root).
Notation eat_ws := (c_eat_whitespace ws).

(** * [expand] *)
Lemma expand_cons c s : c <> 36 -> xp (c :: s) = c :: xp s.
Proof. intros H. unfold expand. cbn [expand_go]. destruct (N.eqb_spec c 36); [contradiction|reflexivity]. Qed.

Lemma expand_app a b : forallb (fun y => negb (y =? 36)) a = true -> xp (a ++ b) = a ++ xp b.
Proof.
  induction a as [|c a IH]; intros Ha; [reflexivity|]. cbn [forallb] in Ha. apply andb_true_iff in Ha. destruct Ha as [Hc Ha].
  cbn [app]. rewrite expand_cons, (IH Ha); [reflexivity|]. intros ->. discriminate.
Qed.

(** * white space *)
Lemma eat_ws_app w r pos : forallb ws w = true -> match r with [] => True | x :: _ => ws x = false end ->
  eat_ws {| c_pos := pos; c_rest := w ++ r |} = {| c_pos := pos + text_len w; c_rest := r |}.
Proof.
  intros Hw Hr. unfold c_eat_whitespace, c_take_while. cbn [c_rest c_pos]. rewrite (take_while_aux_all ws w r Hw Hr). reflexivity.
Qed.

Lemma eat_ws_id c : match c_rest c with [] => True | x :: _ => ws x = false end -> eat_ws c = c.
Proof.
  intros H. destruct c as [pos r]. cbn [c_rest] in H. pose proof (eat_ws_app [] r pos eq_refl H) as E. cbn [app text_len] in E. rewrite N.add_0_r in E. exact E.
Qed.

Lemma eat_ws_rest c : c_rest (eat_ws c) = drop_while ws (c_rest c).
Proof.
  unfold c_eat_whitespace, c_take_while. rewrite <- take_while_aux_drop. destruct (take_while_aux ws (c_rest c)). reflexivity.
Qed.

(** * the verdict of [looks_like_unnamed] *)
Definition verdict (u : text) : bool :=
  match u with
  | [] => false
  | f :: _ => (f =? 92) || (f =? 47) || (f =? 46) || match split_scheme u with Some _ => true | None => false end ||
              mem 47 u || mem 92 u || looks_like_archive u
  end.

(** the maximal non-blank prefix *)
Definition token (r : text) : text := fst (take_while_aux (fun x => negb (ws x)) r).

Lemma llu_eq c : llu c = (verdict (strip_group (xp (token (c_rest c)))), text_len (token (c_rest c))).
Proof.
  unfold looks_like_unnamed, c_take_while, token, strip_group. destruct (take_while_aux (fun x => negb (ws x)) (c_rest c)) as [a b].
  reflexivity.
Qed.

Lemma token_cons c r : ws c = false -> token (c :: r) = c :: token r.
Proof. intros H. unfold token. cbn [take_while_aux]. rewrite H. cbn [negb]. destruct (take_while_aux _ r). reflexivity. Qed.

Lemma token_app a r : forallb (fun x => negb (ws x)) a = true -> token (a ++ r) = a ++ token r.
Proof.
  induction a as [|c a IH]; intros Ha; [reflexivity|]. cbn [forallb] in Ha. apply andb_true_iff in Ha. destruct Ha as [Hc Ha].
  cbn [app]. rewrite token_cons, (IH Ha); [reflexivity|]. now apply negb_true_iff.
Qed.

(** * A. paths starting with [/], [\] or [.] *)
Lemma verdict_path c b : c = 47 \/ c = 92 \/ c = 46 -> verdict (c :: b) = true.
Proof. intros [->|[->| ->]]; reflexivity. Qed.

Lemma llu_path pos c s : c = 47 \/ c = 92 \/ c = 46 -> ws c = false -> fst (llu {| c_pos := pos; c_rest := c :: s |}) = true.
Proof.
  intros Hc Hw. rewrite llu_eq. cbn [fst c_rest]. rewrite (token_cons c s Hw).
  assert (c <> 36) as N36 by (destruct Hc as [->|[->| ->]]; discriminate).
  rewrite (expand_cons c _ N36).
  destruct (strip_group_prefix [c] (xp (token s))) as [b' E].
  { cbn [forallb]. destruct Hc as [->|[->| ->]]; reflexivity. }
  cbn [app] in E. rewrite E. now apply verdict_path.
Qed.

Theorem path_rejected_ws (w : text) (c : N) (s : text) : c = 47 \/ c = 92 \/ c = 46 -> forallb ws w = true -> ws c = false ->
  exists len, P (w ++ c :: s) = PErr {| e_kind := EUnsupportedPath; e_start := text_len w; e_len := len |}.
Proof.
  intros Hc Hw Hws. unfold parse_requirement, c_new. rewrite (eat_ws_app w (c :: s) 0 Hw Hws).
  unfold parse_name. cbn [c_next c_rest c_pos].
  assert (ascii_alnum c = false) as -> by (destruct Hc as [->|[->| ->]]; reflexivity).
  pose proof (llu_path (0 + text_len w) c s Hc Hws) as L.
  destruct (llu {| c_pos := 0 + text_len w; c_rest := c :: s |}) as [b len]. cbn [fst] in L. subst b.
  exists len. unfold err. rewrite N.add_0_l. reflexivity.
Qed.

Theorem path_rejected (c : N) (s : text) : c = 47 \/ c = 92 \/ c = 46 -> ws c = false ->
  exists len, P (c :: s) = PErr {| e_kind := EUnsupportedPath; e_start := 0; e_len := len |}.
Proof. intros Hc Hws. exact (path_rejected_ws [] c s Hc eq_refl Hws). Qed.

(** * the driver, with the kind dispatch named *)
Definition req_kind (c_init c4 : cursor) : pres (rkind * cursor * option N) :=
  match c_next c4 with
  | None => POk (KNone, c4, None)
  | Some (p, x, c5) =>
      if x =? 64 then
        match parse_url ws url_oracle getenv project_root verbatim ext c5 with
        | PErr e => PErr e
        | POk (d, g, c6, last) => POk (KUrl d g, c6, last)
        end
      else if x =? 40 then
        let c6 := eat_ws c5 in
        match specs_paren specparse (c_rest c6) (c_pos c6) (c_pos c6) p [] [] with
        | PErr e => PErr e
        | POk (l, c7) => POk (KSpecs (sort_specs l), c7, None)
        end
      else if is_spec_start x then
        match specs_bare specparse (c_rest c4) (c_pos c4) (c_pos c4) [] [] with
        | PErr e => PErr e
        | POk (l, c7) => POk (KSpecs (sort_specs l), c7, None)
        end
      else if x =? 59 then POk (KNone, c4, None)
      else
        let (b, len) := llu c_init in
        if b then err EUnsupportedUrl 0 len else err EExpectedOneOf p (utf8_len x)
  end.

Lemma parse_requirement_eq s :
  P s = match parse_name ws getenv project_root (eat_ws (c_new s)) with
        | PErr e => PErr e
        | POk (name, raw, c1) =>
            match parse_extras ws (eat_ws c1) with
            | PErr e => PErr e
            | POk (extras, c3) =>
                match req_kind (c_new s) (eat_ws c3) with
                | PErr e => PErr e
                | POk (k, c8, last) =>
                    if match k with KNone => looks_like_archive raw | _ => false end then err EUnsupportedUrl 0 0
                    else
                      match parse_tail ws alpha alnum kw vparse specpat specver pv pfv
                              (match k with KUrl _ _ => true | _ => false end) (c_pos c8) last c8 with
                      | PErr e => PErr e
                      | POk (m, w) => POk ({| r_name := name; r_extras := extras; r_kind := k; r_marker := m |}, w)
                      end
                end
            end
        end.
Proof. reflexivity. Qed.

(** * [parse_name] *)
Lemma parse_name_ok c n raw c1 : parse_name ws getenv project_root c = POk (n, raw, c1) ->
  raw = fst (take_while_aux name_char (c_rest c)) /\ c_rest c1 = snd (take_while_aux name_char (c_rest c)) /\
  c_pos c1 = c_pos c + text_len raw /\ normalize_owned raw = Some n.
Proof.
  unfold parse_name, c_next, err. destruct (c_rest c) as [|ch r] eqn:R; [discriminate|].
  destruct (ascii_alnum ch) eqn:A.
  - unfold c_take_while. cbn [c_rest c_pos take_while_aux]. unfold name_char at 2 4. rewrite A. cbn [orb].
    destruct (take_while_aux name_char r) as [more b]. destruct (last_opt (ch :: more)) as [l|]; [|discriminate].
    destruct (is_punct l); [discriminate|]. destruct (normalize_owned (ch :: more)) as [n'|] eqn:Nm; [|discriminate].
    intros [= <- <- <-]. cbn [fst snd c_rest c_pos text_len]. split; [reflexivity|]. split; [reflexivity|]. split; [rewrite N.add_assoc; reflexivity|exact Nm].
  - destruct (llu c) as [b len]. destruct b; discriminate.
Qed.

(** * C. archive names are never accepted as a bare name *)
Definition raw_name (s : text) : text := fst (take_while_aux name_char (drop_while ws s)).

Theorem archive_never_named s r w : P s = POk (r, w) -> r_kind r = KNone -> looks_like_archive (raw_name s) = false.
Proof.
  rewrite parse_requirement_eq. destruct (parse_name ws getenv project_root (eat_ws (c_new s))) as [[[n raw] c1]|e] eqn:Pn; [|discriminate].
  destruct (parse_extras ws (eat_ws c1)) as [[ex c3]|e]; [|discriminate].
  destruct (req_kind (c_new s) (eat_ws c3)) as [[[k c8] last]|e]; [|discriminate].
  destruct (parse_name_ok _ _ _ _ Pn) as (Raw & _). rewrite eat_ws_rest in Raw. cbn [c_new c_rest] in Raw. fold (raw_name s) in Raw. subst raw.
  destruct k as [|l|d g].
  - destruct (looks_like_archive (raw_name s)); [discriminate|]. reflexivity.
  - destruct (parse_tail _ _ _ _ _ _ _ _ _ _ _ _ _) as [[m w']|e]; [|discriminate]. intros [= <- _]. cbn [r_kind]. discriminate.
  - destruct (parse_tail _ _ _ _ _ _ _ _ _ _ _ _ _) as [[m w']|e]; [|discriminate]. intros [= <- _]. cbn [r_kind]. discriminate.
Qed.

(** * a valid name followed by a character that can only continue a URL or a path *)
Definition ws_free (a : text) : Prop := forallb (fun x => negb (ws x)) a = true.

Lemma parse_name_valid pos name rest : valid_name name = true -> match rest with [] => True | x :: _ => name_char x = false end ->
  exists n, parse_name ws getenv project_root {| c_pos := pos; c_rest := name ++ rest |} =
            POk (n, name, {| c_pos := pos + text_len name; c_rest := rest |}).
Proof.
  intros V Hr. destruct (valid_name_owned name V) as [n Nm]. exists n. pose proof (valid_name_chars name V) as Ch.
  destruct name as [|ch more]; [discriminate|]. unfold valid_name in V. rewrite !andb_true_iff in V. destruct V as [[_ A1] A2].
  cbn [forallb] in Ch. apply andb_true_iff in Ch. destruct Ch as [_ Ch].
  unfold parse_name. cbn [app c_next c_rest c_pos]. change (ascii_alnum ch) with (NameModel.alnum ch). rewrite A1.
  unfold c_take_while. cbn [c_rest c_pos]. rewrite (take_while_aux_all name_char more rest Ch Hr).
  rewrite (last_opt_last (ch :: more)) by discriminate. rewrite (alnum_not_punct _ A2), Nm.
  cbn [text_len]. rewrite N.add_assoc. reflexivity.
Qed.

Lemma named_then_ws (w name : text) (c : N) (rest : text) :
  forallb ws w = true -> valid_name name = true -> ws_free name -> ws c = false -> name_char c = false ->
  c <> 91 -> c <> 64 -> c <> 40 -> c <> 59 -> is_spec_start c = false ->
  P (w ++ name ++ c :: rest) =
  let (b, len) := llu (c_new (w ++ name ++ c :: rest)) in
  if b then err EUnsupportedUrl 0 len else err EExpectedOneOf (text_len w + text_len name) (utf8_len c).
Proof.
  intros Hw V Wf Wc Nc N91 N64 N40 N59 Sp. rewrite parse_requirement_eq.
  assert (eat_ws (c_new (w ++ name ++ c :: rest)) = {| c_pos := 0 + text_len w; c_rest := name ++ c :: rest |}) as ->.
  { apply eat_ws_app; [exact Hw|]. destruct name as [|ch more]; [discriminate|]. cbn [app].
    unfold ws_free in Wf. cbn [forallb] in Wf. apply andb_true_iff in Wf. destruct Wf as [W _]. now apply negb_true_iff. }
  destruct (parse_name_valid (0 + text_len w) name (c :: rest) V Nc) as [n ->].
  rewrite (eat_ws_id {| c_pos := 0 + text_len w + text_len name; c_rest := c :: rest |} Wc).
  unfold parse_extras, c_eat_char. cbn [c_rest]. destruct (N.eqb_spec c 91) as [E|_]; [contradiction|].
  rewrite (eat_ws_id {| c_pos := 0 + text_len w + text_len name; c_rest := c :: rest |} Wc).
  unfold req_kind. cbn [c_next c_rest c_pos].
  destruct (N.eqb_spec c 64) as [E|_]; [contradiction|]. destruct (N.eqb_spec c 40) as [E|_]; [contradiction|].
  rewrite Sp. destruct (N.eqb_spec c 59) as [E|_]; [contradiction|].
  destruct (llu (c_new (w ++ name ++ c :: rest))) as [b len]. rewrite N.add_0_l. destruct b; reflexivity.
Qed.

Lemma named_then (name : text) (c : N) (rest : text) :
  valid_name name = true -> ws_free name -> ws c = false -> name_char c = false ->
  c <> 91 -> c <> 64 -> c <> 40 -> c <> 59 -> is_spec_start c = false ->
  P (name ++ c :: rest) =
  let (b, len) := llu (c_new (name ++ c :: rest)) in
  if b then err EUnsupportedUrl 0 len else err EExpectedOneOf (text_len name) (utf8_len c).
Proof.
  intros V Wf Wc Nc N91 N64 N40 N59 Sp. exact (named_then_ws [] name c rest eq_refl V Wf Wc Nc N91 N64 N40 N59 Sp).
Qed.

(** Oddity of the code, kept by the model: the unnamed-requirement heuristic is run on the input from its very
    first character, leading white space included, so after leading white space its token is empty and
    the verdict is negative: the input is still rejected, but as [EExpectedOneOf] (see the examples at the end). *)
Theorem leading_ws_expected_one_of (w name : text) (c : N) (rest : text) :
  w <> [] -> forallb ws w = true -> valid_name name = true -> ws_free name -> ws c = false -> name_char c = false ->
  c <> 91 -> c <> 64 -> c <> 40 -> c <> 59 -> is_spec_start c = false ->
  P (w ++ name ++ c :: rest) = PErr {| e_kind := EExpectedOneOf; e_start := text_len w + text_len name; e_len := utf8_len c |}.
Proof.
  intros Nw Hw V Wf Wc Nc N91 N64 N40 N59 Sp. rewrite (named_then_ws w name c rest Hw V Wf Wc Nc N91 N64 N40 N59 Sp).
  rewrite llu_eq. destruct w as [|x w']; [contradiction|]. cbn [forallb] in Hw. apply andb_true_iff in Hw. destruct Hw as [Hx _].
  unfold c_new. cbn [c_rest app]. unfold token. cbn [take_while_aux]. rewrite Hx. reflexivity.
Qed.

(** * D. a path separator after a name *)
Lemma verdict_mem c u : c = 47 \/ c = 92 -> mem c u = true -> verdict u = true.
Proof.
  intros Hc M. destruct u as [|f u']; [discriminate|]. unfold verdict. destruct Hc as [->| ->].
  - rewrite M. rewrite !orb_true_r. reflexivity.
  - rewrite M. rewrite !orb_true_r. reflexivity.
Qed.

Theorem slash_after_name_rejected name c rest : valid_name name = true -> c = 47 \/ c = 92 -> ws_free name -> ws c = false ->
  exists len, P (name ++ c :: rest) = PErr {| e_kind := EUnsupportedUrl; e_start := 0; e_len := len |}.
Proof.
  intros V Hc Wf Wc.
  rewrite (named_then name c rest V Wf Wc); try (destruct Hc as [->| ->]; (reflexivity || discriminate)).
  rewrite llu_eq. unfold c_new. cbn [c_rest]. pose proof (valid_name_chars name V) as Ch.
  assert (ws_free (name ++ [c])) as Wf'.
  { unfold ws_free. rewrite forallb_app. cbn [forallb]. rewrite Wf, Wc. reflexivity. }
  replace (name ++ c :: rest) with ((name ++ [c]) ++ rest) by (rewrite <- app_assoc; reflexivity).
  rewrite (token_app _ rest Wf'). rewrite expand_app.
  2:{ rewrite forallb_app. cbn [forallb]. rewrite (forallb_impl name_char _ name (fun x H => name_char_not x 36 H lt_36_45) Ch).
      destruct Hc as [->| ->]; reflexivity. }
  destruct (strip_group_prefix (name ++ [c]) (xp (token rest))) as [b' ->].
  { rewrite forallb_app. cbn [forallb]. rewrite (forallb_impl name_char _ name (fun x H => name_char_not x 91 H is_91) Ch).
    destruct Hc as [->| ->]; reflexivity. }
  rewrite <- app_assoc. cbn [app]. rewrite (verdict_mem c _ Hc (mem_app_mid c name b')).
  eexists. reflexivity.
Qed.

(** * B. scheme URLs *)
Lemma verdict_scheme sch e : wf_scheme sch -> verdict (sch ++ 58 :: e) = true.
Proof.
  intros W. assert (split_scheme (sch ++ 58 :: e) = Some (sch, snd (match split_scheme (sch ++ 58 :: e) with Some p => p | None => ([], []) end))) as S.
  { unfold split_scheme. destruct (trim_c0_scheme sch e W) as [e' ->]. destruct W as (L & F & _).
    destruct sch as [|c m]; [contradiction|]. cbn [app]. rewrite L. change (c :: m ++ 58 :: e') with ((c :: m) ++ 58 :: e').
    rewrite (scheme_go_app _ e' F). reflexivity. }
  destruct W as (L & _). destruct sch as [|c m]; [contradiction|]. unfold verdict. cbn [app] in *. rewrite S.
  rewrite orb_true_r. reflexivity.
Qed.

Lemma llu_scheme sch rest : wf_scheme sch -> ws_free sch -> ws 58 = false -> fst (llu (c_new (sch ++ 58 :: rest))) = true.
Proof.
  intros W Wf W58. rewrite llu_eq. unfold c_new. cbn [fst c_rest]. pose proof W as (_ & F & _).
  assert (ws_free (sch ++ [58])) as Wf'.
  { unfold ws_free. rewrite forallb_app. cbn [forallb]. rewrite Wf, W58. reflexivity. }
  replace (sch ++ 58 :: rest) with ((sch ++ [58]) ++ rest) by (rewrite <- app_assoc; reflexivity).
  rewrite (token_app _ rest Wf'). rewrite expand_app.
  2:{ rewrite forallb_app. cbn [forallb]. rewrite (forallb_impl scheme_char _ sch (fun x H => scheme_char_not x 36 H lt_36_43) F). reflexivity. }
  destruct (strip_group_prefix (sch ++ [58]) (xp (token rest))) as [b' ->].
  { rewrite forallb_app. cbn [forallb]. rewrite (forallb_impl scheme_char _ sch (fun x H => scheme_char_not x 91 H is_91') F). reflexivity. }
  rewrite <- app_assoc. cbn [app]. now apply verdict_scheme.
Qed.

Lemma scheme_front sch rest : wf_scheme sch -> ws_free sch -> ws 58 = false ->
  exists raw c rest', sch ++ 58 :: rest = raw ++ c :: rest' /\ valid_name raw = true /\ (c = 43 \/ c = 58) /\ ws_free raw /\ ws c = false.
Proof.
  intros W Wf W58. destruct (scheme_name_split sch W) as (raw & sfx & -> & V & Hs). unfold ws_free in Wf. rewrite forallb_app in Wf.
  apply andb_true_iff in Wf. destruct Wf as [Wr Ws]. destruct Hs as [->|[t ->]].
  - exists raw, 58, rest. rewrite app_nil_r. auto.
  - exists raw, 43, (t ++ 58 :: rest). rewrite <- app_assoc. cbn [app]. split; [reflexivity|]. split; [exact V|]. split; [auto|].
    split; [exact Wr|]. cbn [forallb] in Ws. apply andb_true_iff in Ws. destruct Ws as [H _]. now apply negb_true_iff.
Qed.

Theorem scheme_url_rejected sch rest : wf_scheme sch -> ws_free sch -> ws 58 = false ->
  exists len, P (sch ++ 58 :: rest) = PErr {| e_kind := EUnsupportedUrl; e_start := 0; e_len := len |}.
Proof.
  intros W Wf W58. pose proof (llu_scheme sch rest W Wf W58) as L.
  destruct (scheme_front sch rest W Wf W58) as (raw & c & rest' & E & V & Hc & Wr & Wc). rewrite E in *.
  rewrite (named_then raw c rest' V Wr Wc); try (destruct Hc as [->| ->]; (reflexivity || discriminate)).
  destruct (llu (c_new (raw ++ c :: rest'))) as [b len]. cbn [fst] in L. subst b. exists len. reflexivity.
Qed.

(** * C, positive form: an archive name, with or without extras, followed by nothing but an optional marker *)
Lemma parse_name_raw s n raw c1 : parse_name ws getenv project_root (eat_ws (c_new s)) = POk (n, raw, c1) -> raw = raw_name s.
Proof. intros Pn. destruct (parse_name_ok _ _ _ _ Pn) as (Raw & _). rewrite eat_ws_rest in Raw. exact Raw. Qed.

Theorem archive_rejected_gen s n raw c1 ex c3 :
  parse_name ws getenv project_root (eat_ws (c_new s)) = POk (n, raw, c1) ->
  parse_extras ws (eat_ws c1) = POk (ex, c3) ->
  (c_rest (eat_ws c3) = [] \/ exists t, c_rest (eat_ws c3) = 59 :: t) ->
  looks_like_archive (raw_name s) = true ->
  P s = PErr {| e_kind := EUnsupportedUrl; e_start := 0; e_len := 0 |}.
Proof.
  intros Pn Pe Hr La. rewrite parse_requirement_eq, Pn, Pe. rewrite <- (parse_name_raw s n raw c1 Pn) in La.
  unfold req_kind, c_next. destruct Hr as [->|[t ->]].
  - rewrite La. reflexivity.
  - change (59 =? 64) with false. change (59 =? 40) with false. change (is_spec_start 59) with false. change (59 =? 59) with true.
    cbn iota. rewrite La. reflexivity.
Qed.

Theorem archive_rejected name w t : valid_name name = true -> looks_like_archive name = true ->
  (forall x, name_char x = true -> ws x = false) -> ws 59 = false ->
  forallb ws w = true -> (t = [] \/ exists t', t = 59 :: t') ->
  P (name ++ w ++ t) = PErr {| e_kind := EUnsupportedUrl; e_start := 0; e_len := 0 |}.
Proof.
  intros V La Hnc W59 Hw Ht.
  assert (match t with [] => True | x :: _ => ws x = false end) as Wt by (destruct Ht as [->|[t' ->]]; [exact I|exact W59]).
  assert (match w ++ t with [] => True | x :: _ => name_char x = false end) as Nt.
  { destruct w as [|x w'].
    - destruct Ht as [->|[t' ->]]; [exact I|reflexivity].
    - cbn [app]. cbn [forallb] in Hw. apply andb_true_iff in Hw. destruct Hw as [Hx _].
      destruct (name_char x) eqn:Nx; [|reflexivity]. rewrite (Hnc x Nx) in Hx. discriminate. }
  assert (eat_ws (c_new (name ++ w ++ t)) = c_new (name ++ w ++ t)) as E0.
  { apply eat_ws_id. unfold c_new. cbn [c_rest]. pose proof (valid_name_chars name V) as Ch. destruct name as [|ch more]; [discriminate|].
    cbn [app]. cbn [forallb] in Ch. apply andb_true_iff in Ch. destruct Ch as [Ch _]. exact (Hnc ch Ch). }
  destruct (parse_name_valid 0 name (w ++ t) V Nt) as [n Pn].
  assert (raw_name (name ++ w ++ t) = name) as Rn.
  { symmetry. apply (parse_name_raw _ n name {| c_pos := 0 + text_len name; c_rest := w ++ t |}). rewrite E0. exact Pn. }
  apply (archive_rejected_gen _ n name {| c_pos := 0 + text_len name; c_rest := w ++ t |} []
           {| c_pos := 0 + text_len name + text_len w; c_rest := t |}).
  - rewrite E0. exact Pn.
  - rewrite (eat_ws_app w t _ Hw Wt). unfold parse_extras, c_eat_char. cbn [c_rest].
    destruct Ht as [->|[t' ->]]; reflexivity.
  - rewrite (eat_ws_id {| c_pos := 0 + text_len name + text_len w; c_rest := t |} Wt). cbn [c_rest]. destruct Ht as [->|[t' ->]]; [left; reflexivity|right; exists t'; reflexivity].
  - rewrite Rn. exact La.
Qed.

(** * E. the unnamed-requirement parser *)
Lemma eat_ws_split c : exists a, c_rest c = a ++ c_rest (eat_ws c) /\ forallb ws a = true /\ c_pos (eat_ws c) = c_pos c + text_len a.
Proof.
  unfold c_eat_whitespace. destruct (c_take_while ws c) as [[[a st] len] c'] eqn:E.
  destruct (c_take_while_adv ws c a st len c' E) as (_ & _ & _ & R & Ps & F & _). exists a. auto.
Qed.

Lemma uurl_scan_prefix : forall r pos d last u cur l, uurl_scan ws r pos d last = (u, cur, l) -> exists post, r = u ++ post.
Proof.
  induction r as [|c r IH]; intros pos d last u cur l; cbn [uurl_scan].
  - intros [= <- _ _]. exists []. reflexivity.
  - destruct ((c =? 13) || (c =? 10)); [intros [= <- _ _]; exists (c :: r); reflexivity|].
    remember (if c =? 91 then d + 1 else if c =? 93 then d - 1 else d) as d' eqn:Hd.
    destruct ((d' =? 0) && ws c && ws_then_end ws r); [intros [= <- _ _]; exists (c :: r); reflexivity|].
    destruct ((d' =? 0) && ((c =? 59) || (c =? 35)) && next_is_ws ws r); [intros [= <- _ _]; exists r; reflexivity|].
    destruct (uurl_scan ws r (pos + utf8_len c) d' (Some c)) as [[u' cur'] l'] eqn:E. intros [= <- _ _].
    destruct (IH _ _ _ _ _ _ E) as [post ->]. exists post. reflexivity.
Qed.

Theorem unnamed_given s r w : PU s = POk (r, w) ->
  exists pre url post c2 last u,
    s = pre ++ url ++ post /\ forallb ws pre = true /\ url <> [] /\
    uurl_scan ws (url ++ post) (text_len pre) 0 None = (url, c2, last) /\
    u_given r = Some u /\
    (split_extras url = None /\ u = url /\ u_extras r = [] \/
     exists e c', split_extras url = Some (u, e) /\ url = u ++ e /\ parse_extras ws (c_new e) = POk (u_extras r, c')) /\
    dispatch_url url_oracle ext (xp u) = Some (u_disp r) /\
    parse_tail ws alpha alnum kw vparse specpat specver pv pfv true (c_pos c2) last c2 = POk (u_marker r, w).
Proof.
  unfold parse_unnamed.
  destruct (eat_ws_split (c_new s)) as (a1 & R1 & F1 & P1). destruct (eat_ws_split (eat_ws (c_new s))) as (a2 & R2 & F2 & P2).
  set (c1 := eat_ws (eat_ws (c_new s))) in *.
  assert (s = (a1 ++ a2) ++ c_rest c1) as Es by (rewrite <- app_assoc, <- R2; exact R1).
  assert (c_pos c1 = text_len (a1 ++ a2)) as Ep by (rewrite P2, P1, text_len_app; reflexivity).
  assert (forallb ws (a1 ++ a2) = true) as Fp by (rewrite forallb_app, F1, F2; reflexivity).
  destruct (uurl_scan ws (c_rest c1) (c_pos c1) 0 None) as [[url c2] last] eqn:U.
  destruct (uurl_scan_prefix _ _ _ _ _ _ _ U) as [post Epost].
  destruct url as [|x url']; [discriminate|]. rewrite Epost, Ep in U. rewrite Epost in Es.
  destruct (split_extras (x :: url')) as [[u e]|] eqn:SE.
  - destruct (parse_extras ws (c_new e)) as [[l c']|er] eqn:Pe; [|discriminate].
    destruct (dispatch_url url_oracle ext (xp u)) as [d|] eqn:D; [|discriminate].
    destruct (parse_tail ws alpha alnum kw vparse specpat specver pv pfv true (c_pos c2) last c2) as [[m w']|er] eqn:Pt; [|discriminate].
    intros [= <- <-]. exists (a1 ++ a2), (x :: url'), post, c2, last, u. cbn [u_given u_extras u_disp u_marker].
    split; [exact Es|]. split; [exact Fp|]. split; [discriminate|]. split; [exact U|]. split; [reflexivity|]. split; [|split; [exact D|exact Pt]].
    right. exists e, c'. split; [exact SE|]. split; [|exact Pe]. destruct (split_extras_spec _ _ _ SE) as (m0 & Eq & _). exact Eq.
  - destruct (dispatch_url url_oracle ext (xp (x :: url'))) as [d|] eqn:D; [|discriminate].
    destruct (parse_tail ws alpha alnum kw vparse specpat specver pv pfv true (c_pos c2) last c2) as [[m w']|er] eqn:Pt; [|discriminate].
    intros [= <- <-]. exists (a1 ++ a2), (x :: url'), post, c2, last, (x :: url'). cbn [u_given u_extras u_disp u_marker].
    split; [exact Es|]. split; [exact Fp|]. split; [discriminate|]. split; [exact U|]. split; [reflexivity|]. split; [|split; [exact D|exact Pt]].
    left. split; [exact SE|]. split; reflexivity.
Qed.

(** ** the unnamed parser accepts a plain URL or path (no white space, brackets or line ends) that the URL type accepts *)
Definition plain_char (x : N) : bool := negb (x =? 13) && negb (x =? 10) && negb (x =? 91) && negb (x =? 93) && negb (ws x).

Lemma uurl_scan_plain : forall u pos last, forallb plain_char u = true ->
  exists l, uurl_scan ws u pos 0 last = (u, {| c_pos := pos + text_len u; c_rest := [] |}, l).
Proof.
  induction u as [|c u IH]; intros pos last F.
  - exists last. cbn [uurl_scan text_len]. rewrite N.add_0_r. reflexivity.
  - cbn [forallb] in F. apply andb_true_iff in F. destruct F as [Pc F]. unfold plain_char in Pc. rewrite !andb_true_iff, !negb_true_iff in Pc.
    destruct Pc as [[[[C13 C10] C91] C93] Wc]. cbn [uurl_scan]. rewrite C13, C10, C91, C93, Wc. cbn [orb]. change (0 =? 0) with true. cbn [andb].
    assert (next_is_ws ws u = false) as ->.
    { destruct u as [|y u']; [reflexivity|]. cbn [next_is_ws forallb] in *. apply andb_true_iff in F. destruct F as [Py _].
      unfold plain_char in Py. rewrite !andb_true_iff, !negb_true_iff in Py. apply Py. }
    rewrite andb_false_r. destruct (IH (pos + utf8_len c) (Some c) F) as [l ->]. exists l. cbn [text_len]. rewrite N.add_assoc. reflexivity.
Qed.

Lemma split_extras_plain u : forallb plain_char u = true -> split_extras u = None.
Proof.
  intros F. destruct (split_extras u) as [[u' e]|] eqn:E; [|reflexivity]. exfalso.
  destruct (split_extras_spec _ _ _ E) as (m & -> & -> & _). rewrite forallb_app in F. apply andb_true_iff in F. destruct F as [_ F].
  cbn [forallb] in F. apply andb_true_iff in F. destruct F as [F _]. unfold plain_char in F. change (91 =? 91) with true in F.
  cbn [negb andb] in F. rewrite andb_false_r in F. discriminate.
Qed.

Lemma parse_tail_end b re last pos :
  parse_tail ws alpha alnum kw vparse specpat specver pv pfv b re last {| c_pos := pos; c_rest := [] |} = POk (None, []).
Proof.
  unfold parse_tail. rewrite (eat_ws_id {| c_pos := pos; c_rest := [] |} I). cbn [c_next c_rest].
  rewrite (eat_ws_id {| c_pos := pos; c_rest := [] |} I). reflexivity.
Qed.

Theorem unnamed_accepts_plain u d : u <> [] -> forallb plain_char u = true -> dispatch_url url_oracle ext (xp u) = Some d ->
  PU u = POk ({| u_disp := d; u_given := Some u; u_extras := []; u_marker := None |}, []).
Proof.
  intros Nu F D. unfold parse_unnamed.
  assert (eat_ws (c_new u) = c_new u) as E0.
  { apply eat_ws_id. unfold c_new. cbn [c_rest]. destruct u as [|x u']; [contradiction|]. cbn [forallb] in F. apply andb_true_iff in F.
    destruct F as [Px _]. unfold plain_char in Px. rewrite !andb_true_iff, !negb_true_iff in Px. apply Px. }
  rewrite !E0. unfold c_new. cbn [c_rest c_pos]. destruct (uurl_scan_plain u 0 None F) as [l ->].
  rewrite (split_extras_plain u F), D, parse_tail_end. destruct u as [|x u']; [contradiction|]. reflexivity.
Qed.

(** ** the converse of [unnamed_given] *)
Theorem unnamed_complete s pre url post c2 last u ex d :
  s = pre ++ url ++ post -> forallb ws pre = true -> match url with [] => False | x :: _ => ws x = false end ->
  uurl_scan ws (url ++ post) (text_len pre) 0 None = (url, c2, last) ->
  (split_extras url = None /\ u = url /\ ex = [] \/
   exists e c', split_extras url = Some (u, e) /\ parse_extras ws (c_new e) = POk (ex, c')) ->
  dispatch_url url_oracle ext (xp u) = Some d ->
  PU s = match parse_tail ws alpha alnum kw vparse specpat specver pv pfv true (c_pos c2) last c2 with
         | PErr e => PErr e
         | POk (m, w) => POk ({| u_disp := d; u_given := Some u; u_extras := ex; u_marker := m |}, w)
         end.
Proof.
  intros -> Fp Hx U Hs D. unfold parse_unnamed.
  assert (match url ++ post with [] => True | x :: _ => ws x = false end) as Hx' by (destruct url; [contradiction|exact Hx]).
  unfold c_new. rewrite (eat_ws_app pre (url ++ post) 0 Fp Hx').
  rewrite (eat_ws_id {| c_pos := 0 + text_len pre; c_rest := url ++ post |} Hx'). cbn [c_rest c_pos]. rewrite N.add_0_l, U.
  destruct url as [|x url']; [contradiction|]. destruct Hs as [(-> & -> & ->)|(e & c' & -> & Pe)].
  - rewrite D. reflexivity.
  - unfold c_new in Pe. rewrite Pe, D. reflexivity.
Qed.

(** ** scanning a URL made of plain characters, optionally followed by a bracket group *)
Definition group_char (x : N) : bool := negb (x =? 13) && negb (x =? 10) && not_bracket x.

Lemma uurl_scan_plain_app : forall u pos lst rest, forallb plain_char u = true ->
  next_is_ws ws rest = false \/ (last u 0 <> 59 /\ last u 0 <> 35) ->
  exists last', uurl_scan ws (u ++ rest) pos 0 lst =
                let '(v, cur, l) := uurl_scan ws rest (pos + text_len u) 0 last' in (u ++ v, cur, l).
Proof.
  induction u as [|c u IH]; intros pos lst rest F Hl.
  - exists lst. cbn [app text_len]. rewrite N.add_0_r. destruct (uurl_scan ws rest pos 0 lst) as [[v cur] l]. reflexivity.
  - cbn [forallb] in F. apply andb_true_iff in F. destruct F as [Pc F]. unfold plain_char in Pc. rewrite !andb_true_iff, !negb_true_iff in Pc.
    destruct Pc as [[[[C13 C10] C91] C93] Wc]. cbn [app uurl_scan]. rewrite C13, C10, C91, C93, Wc. cbn [orb]. ev (0 =? 0). cbn [andb].
    assert (((c =? 59) || (c =? 35)) && next_is_ws ws (u ++ rest) = false) as ->.
    { destruct u as [|y u'].
      - cbn [app]. destruct Hl as [->|[L1 L2]]; [apply andb_false_r|]. cbn [last] in L1, L2.
        destruct (N.eqb_spec c 59); [contradiction|]. destruct (N.eqb_spec c 35); [contradiction|]. reflexivity.
      - cbn [app next_is_ws forallb] in *. apply andb_true_iff in F. destruct F as [Py _].
        unfold plain_char in Py. rewrite !andb_true_iff, !negb_true_iff in Py. destruct Py as [_ ->]. apply andb_false_r. }
    assert (next_is_ws ws rest = false \/ (last u 0 <> 59 /\ last u 0 <> 35) \/ u = []) as Hl'.
    { destruct u as [|y u']; [right; right; reflexivity|]. destruct Hl as [H|H]; [left; exact H|right; left; exact H]. }
    assert (exists last', uurl_scan ws (u ++ rest) (pos + utf8_len c) 0 (Some c) =
              let '(v, cur, l) := uurl_scan ws rest (pos + utf8_len c + text_len u) 0 last' in (u ++ v, cur, l)) as [last' ->].
    { destruct Hl' as [H|[H| ->]].
      - apply IH; [exact F|left; exact H].
      - apply IH; [exact F|right; exact H].
      - exists (Some c). cbn [app text_len]. rewrite N.add_0_r. destruct (uurl_scan ws rest (pos + utf8_len c) 0 (Some c)) as [[v cur] l]. reflexivity. }
    exists last'. cbn [text_len]. rewrite N.add_assoc. destruct (uurl_scan ws rest (pos + utf8_len c + text_len u) 0 last') as [[v cur] l].
    reflexivity.
Qed.

Lemma uurl_scan_group : forall m pos last rest, forallb group_char m = true -> ws 93 = false ->
  exists last', uurl_scan ws (m ++ 93 :: rest) pos 1 last =
                let '(v, cur, l) := uurl_scan ws rest (pos + text_len m + 1) 0 last' in (m ++ 93 :: v, cur, l).
Proof.
  induction m as [|c m IH]; intros pos last rest F W93.
  - exists (Some 93). cbn [app uurl_scan text_len]. ev (93 =? 13). ev (93 =? 10). ev (93 =? 91). ev (93 =? 93). ev (1 - 1). ev (0 =? 0).
    ev (93 =? 59). ev (93 =? 35). ev (utf8_len 93). rewrite W93. cbn [orb andb]. rewrite N.add_0_r.
    destruct (uurl_scan ws rest (pos + 1) 0 (Some 93)) as [[v cur] l]. reflexivity.
  - cbn [forallb] in F. apply andb_true_iff in F. destruct F as [Pc F]. unfold group_char, not_bracket in Pc. rewrite !andb_true_iff, !negb_true_iff in Pc.
    destruct Pc as [[C13 C10] [C91 C93]]. cbn [app uurl_scan]. rewrite C13, C10, C91, C93. cbn [orb]. ev (1 =? 0). cbn [andb].
    destruct (IH (pos + utf8_len c) (Some c) rest F W93) as [last' ->]. exists last'. cbn [text_len]. rewrite N.add_assoc.
    destruct (uurl_scan ws rest (pos + utf8_len c + text_len m + 1) 0 last') as [[v cur] l]. reflexivity.
Qed.

Lemma uurl_scan_open r pos last :
  uurl_scan ws (91 :: r) pos 0 last = let '(v, cur, l) := uurl_scan ws r (pos + 1) 1 (Some 91) in (91 :: v, cur, l).
Proof. cbn [uurl_scan]. ev (91 =? 13). ev (91 =? 10). ev (91 =? 91). ev (0 + 1). ev (1 =? 0). ev (utf8_len 91). reflexivity. Qed.

Lemma uurl_scan_stop x t pos last : ws x = true -> ws_then_end ws t = true -> x <> 91 -> x <> 93 ->
  uurl_scan ws (x :: t) pos 0 last = ([], {| c_pos := pos + utf8_len x; c_rest := t |}, Some x).
Proof.
  intros Wx We N91 N93. cbn [uurl_scan]. destruct ((x =? 13) || (x =? 10)); [reflexivity|].
  destruct (N.eqb_spec x 91); [contradiction|]. destruct (N.eqb_spec x 93); [contradiction|]. rewrite Wx, We. reflexivity.
Qed.

(** the URL text: plain characters not ending in [;] or [#], then nothing or one bracket group *)
Definition group_of (g : text) : Prop := g = [] \/ exists m, g = 91 :: m ++ [93] /\ forallb group_char m = true.

Lemma scan_url u g tail pos : forallb plain_char u = true -> last u 0 <> 59 -> last u 0 <> 35 -> group_of g ->
  ws 91 = false -> ws 93 = false ->
  exists last', uurl_scan ws (u ++ g ++ tail) pos 0 None =
                let '(v, cur, l) := uurl_scan ws tail (pos + text_len (u ++ g)) 0 last' in ((u ++ g) ++ v, cur, l).
Proof.
  intros F L1 L2 Hg W91 W93.
  destruct (uurl_scan_plain_app u pos None (g ++ tail) F (or_intror (conj L1 L2))) as [l1 ->]. destruct Hg as [->|(m & -> & Fm)].
  - exists l1. cbn [app]. rewrite app_nil_r. reflexivity.
  - replace ((91 :: m ++ [93]) ++ tail) with (91 :: m ++ 93 :: tail) by (cbn [app]; rewrite <- app_assoc; reflexivity).
    rewrite uurl_scan_open. destruct (uurl_scan_group m (pos + text_len u + 1) (Some 91) tail Fm W93) as [l2 ->]. exists l2.
    assert (pos + text_len u + 1 + text_len m + 1 = pos + text_len (u ++ 91 :: m ++ [93])) as ->.
    { rewrite text_len_app. cbn [text_len]. rewrite text_len_app. cbn [text_len]. ev (utf8_len 91). ev (utf8_len 93). apply group_len_arith. }
    destruct (uurl_scan ws tail (pos + text_len (u ++ 91 :: m ++ [93])) 0 l2) as [[v cur] l].
    rewrite <- !app_assoc. cbn [app]. rewrite <- !app_assoc. reflexivity.
Qed.

Lemma split_extras_url u g ex : forallb plain_char u = true -> group_of g ->
  (g = [] -> ex = []) -> (g <> [] -> exists c', parse_extras ws (c_new g) = POk (ex, c')) ->
  split_extras (u ++ g) = None /\ u = u ++ g /\ ex = [] \/
  exists e c', split_extras (u ++ g) = Some (u, e) /\ parse_extras ws (c_new e) = POk (ex, c').
Proof.
  intros F Hg E1 E2. destruct Hg as [->|(m & -> & Fm)].
  - left. rewrite app_nil_r. split; [now apply split_extras_plain|]. split; [reflexivity|now apply E1].
  - right. destruct E2 as [c' Pe]; [discriminate|]. exists (91 :: m ++ [93]), c'. split; [|exact Pe]. apply split_extras_group.
    apply (forallb_impl group_char not_bracket m); [|exact Fm]. intros x. unfold group_char. rewrite andb_true_iff. intros [_ H]. exact H.
Qed.

(** accepted: the URL (with its extras) up to the end of the input *)
Theorem unnamed_accepts_end u g ex d :
  u <> [] -> forallb plain_char u = true -> last u 0 <> 59 -> last u 0 <> 35 -> group_of g ->
  (g = [] -> ex = []) -> (g <> [] -> exists c', parse_extras ws (c_new g) = POk (ex, c')) ->
  ws 91 = false -> ws 93 = false -> dispatch_url url_oracle ext (xp u) = Some d ->
  PU (u ++ g) = POk ({| u_disp := d; u_given := Some u; u_extras := ex; u_marker := None |}, []).
Proof.
  intros Nu F L1 L2 Hg E1 E2 W91 W93 D.
  destruct (scan_url u g [] 0 F L1 L2 Hg W91 W93) as [l S]. cbn [uurl_scan] in S. rewrite !app_nil_r in S.
  rewrite (unnamed_complete (u ++ g) [] (u ++ g) [] {| c_pos := 0 + text_len (u ++ g); c_rest := [] |} l u ex d).
  - cbn [c_pos]. rewrite parse_tail_end. reflexivity.
  - cbn [app]. rewrite app_nil_r. reflexivity.
  - reflexivity.
  - destruct u as [|x u']; [contradiction|]. cbn [app forallb] in *. apply andb_true_iff in F. destruct F as [Px _].
    unfold plain_char in Px. rewrite !andb_true_iff, !negb_true_iff in Px. apply Px.
  - rewrite app_nil_r. cbn [text_len]. exact S.
  - now apply split_extras_url.
  - exact D.
Qed.

(** accepted: the URL (with its extras), white space, then whatever the tail parser makes of the rest (a marker, a comment) *)
Theorem unnamed_accepts_tail u g ex d x t :
  u <> [] -> forallb plain_char u = true -> last u 0 <> 59 -> last u 0 <> 35 -> group_of g ->
  (g = [] -> ex = []) -> (g <> [] -> exists c', parse_extras ws (c_new g) = POk (ex, c')) ->
  ws 91 = false -> ws 93 = false -> dispatch_url url_oracle ext (xp u) = Some d ->
  ws x = true -> ws_then_end ws t = true ->
  PU (u ++ g ++ x :: t) =
  match parse_tail ws alpha alnum kw vparse specpat specver pv pfv true (text_len (u ++ g) + utf8_len x) (Some x)
          {| c_pos := text_len (u ++ g) + utf8_len x; c_rest := t |} with
  | PErr e => PErr e
  | POk (m, w) => POk ({| u_disp := d; u_given := Some u; u_extras := ex; u_marker := m |}, w)
  end.
Proof.
  intros Nu F L1 L2 Hg E1 E2 W91 W93 D Wx We.
  assert (x <> 91) as N91 by (intros ->; congruence). assert (x <> 93) as N93 by (intros ->; congruence).
  destruct (scan_url u g (x :: t) 0 F L1 L2 Hg W91 W93) as [l S]. rewrite (uurl_scan_stop x t _ l Wx We N91 N93), app_nil_r, N.add_0_l in S.
  rewrite (unnamed_complete (u ++ g ++ x :: t) [] (u ++ g) (x :: t) {| c_pos := text_len (u ++ g) + utf8_len x; c_rest := t |} (Some x) u ex d).
  - reflexivity.
  - cbn [app]. rewrite <- app_assoc. reflexivity.
  - reflexivity.
  - destruct u as [|y u']; [contradiction|]. cbn [app forallb] in *. apply andb_true_iff in F. destruct F as [Px _].
    unfold plain_char in Px. rewrite !andb_true_iff, !negb_true_iff in Px. apply Px.
  - rewrite <- app_assoc. cbn [text_len]. exact S.
  - now apply split_extras_url.
  - exact D.
Qed.

End Unnamed.
Print Assumptions path_rejected_ws.
Print Assumptions path_rejected.
Print Assumptions archive_whl.
Print Assumptions archive_never_named.
Print Assumptions slash_after_name_rejected.
Print Assumptions scheme_url_rejected.
Print Assumptions archive_rejected_gen.
Print Assumptions archive_rejected.
Print Assumptions archive_ext.
Print Assumptions archive_tar_gz.
Print Assumptions unnamed_given.

Print Assumptions leading_ws_expected_one_of.
Print Assumptions unnamed_accepts_plain.
Print Assumptions unnamed_complete.
Print Assumptions unnamed_accepts_end.
Print Assumptions unnamed_accepts_tail.

(** * examples, with blank and tab as white space and oracles that answer nothing (named parser) / accept every URL (unnamed parser) *)
Definition ws0 (x : N) : bool := (x =? 32) || (x =? 9).
Definition P0 := parse_requirement ws0 (fun _ => false) (fun _ => false) [] (fun _ => None) (fun _ _ => None) (fun _ _ => None) 0 0
  (fun _ => None) (fun _ _ => None) (fun _ => None) [] true true.
Definition PU0 := parse_unnamed ws0 (fun _ => false) (fun _ => false) [] (fun _ => None) (fun _ _ => None) (fun _ _ => None) 0 0
  (fun _ t => Some t) (fun _ => None) [] true.
Example ex_url : P0 (T "https://example.org/x.whl") = PErr {| e_kind := EUnsupportedUrl; e_start := 0; e_len := 25 |}.
Proof. vm_compute. reflexivity. Qed.
Example ex_vcs : P0 (T "git+https://x") = PErr {| e_kind := EUnsupportedUrl; e_start := 0; e_len := 13 |}.
Proof. vm_compute. reflexivity. Qed.
Example ex_path : P0 (T "./foo") = PErr {| e_kind := EUnsupportedPath; e_start := 0; e_len := 5 |}.
Proof. vm_compute. reflexivity. Qed.
Example ex_slash : P0 (T "foo/bar") = PErr {| e_kind := EUnsupportedUrl; e_start := 0; e_len := 7 |}.
Proof. vm_compute. reflexivity. Qed.
Example ex_archive : P0 (T "requests-2.26.0.tar.gz") = PErr {| e_kind := EUnsupportedUrl; e_start := 0; e_len := 0 |}.
Proof. vm_compute. reflexivity. Qed.
Example ex_archive_extras_marker : P0 (T "  requests-2.26.0.tar.gz [a] ; x") = PErr {| e_kind := EUnsupportedUrl; e_start := 0; e_len := 0 |}.
Proof. vm_compute. reflexivity. Qed.
(** the oddity: after leading white space the heuristic sees an empty token *)
Example ex_ws_url : P0 (T " https://example.org") = PErr {| e_kind := EExpectedOneOf; e_start := 6; e_len := 1 |}.
Proof. vm_compute. reflexivity. Qed.
Example ex_ws_slash : P0 (T " foo/bar") = PErr {| e_kind := EExpectedOneOf; e_start := 4; e_len := 1 |}.
Proof. vm_compute. reflexivity. Qed.
(** a scheme whose name-like prefix ends in punctuation is reported as a bad name (hence the condition in [wf_scheme]) *)
Example ex_bad_scheme : P0 (T "a-+b://x") = PErr {| e_kind := ENameEnd; e_start := 1; e_len := 1 |}.
Proof. vm_compute. reflexivity. Qed.
Example ex_unnamed_extras : PU0 (T " ./foo.whl[a,b] ") =
  POk ({| u_disp := T "./foo.whl"; u_given := Some (T "./foo.whl"); u_extras := [T "a"; T "b"]; u_marker := None |}, []).
Proof. vm_compute. reflexivity. Qed.
Example ex_unnamed_url : PU0 (T "https://x/y.tar.gz") =
  POk ({| u_disp := T "https://x/y.tar.gz"; u_given := Some (T "https://x/y.tar.gz"); u_extras := []; u_marker := None |}, []).
Proof. vm_compute. reflexivity. Qed.
(** why [ws c = false] is a premise: with an oracle that calls everything white space the input is simply empty *)
Example ex_ws_all : parse_requirement (fun _ => true) (fun _ => false) (fun _ => false) [] (fun _ => None) (fun _ _ => None) (fun _ _ => None) 0 0
  (fun _ => None) (fun _ _ => None) (fun _ => None) [] true true (T "/x") = PErr {| e_kind := EEmpty; e_start := 2; e_len := 1 |}.
Proof. vm_compute. reflexivity. Qed.
