(** C17 at the level of the marker TEXT: a comparison that cannot be interpreted does not make parsing
    fail; a warning of the matching kind reaches the reporter; and the diagram is the one of the marker
    text with exactly the uninterpretable comparisons (with the operator and blank that joined them, and
    the parentheses they leave empty) deleted - TRUE if nothing remains.  Markers without such
    comparisons report nothing, apart from [extra] compared with text that is not a valid extra name
    (reported, kept).  All statements are about [parse_markers] applied to the text [msrc_text m] of a
    source derivation [m] (Text/MarkerAccept.v), for every answer of the oracles. *)
From Coq Require Import List Bool NArith Arith Lia.
From PV Require Import Base.Order Base.CutDef DD.DDModel Names.NameModel Marker.Concrete Marker.Expr
  Text.Cursor Text.MarkerParse Text.SpanBase Marker.Sem508 Marker.Sem508Proofs Text.TypedProofs Text.MarkerAccept.
Import ListNotations.
Open Scope N_scope.
Arguments N.add : simpl never.
Arguments N.sub : simpl never.
Arguments N.eqb : simpl never.
Arguments N.ltb : simpl never.
Arguments N.leb : simpl never.
Arguments N.compare : simpl never.

(** ** the comparisons occurring in a derivation, in source order *)
Fixpoint cmps_of (m : msrc) : list (vsrc * osrc * vsrc) :=
  match m with
  | MCmp _ l _ o _ r => [(l, o, r)]
  | MParen _ i _ => cmps_of i
  | MAnd a _ b | MOr a _ b => cmps_of a ++ cmps_of b
  end.

(** each of them is a piece of the text *)
Lemma cmps_in_text m l o r : In (l, o, r) (cmps_of m) ->
  exists pre w1 w2 post, msrc_text m = pre ++ (vsrc_text l ++ w1 ++ osrc_text o ++ w2 ++ vsrc_text r) ++ post.
Proof.
  induction m as [w0 l' w1 o' w2 r'|w0 i IH w1|a IHa w b IHb|a IHa w b IHb]; cbn [cmps_of msrc_text]; intros H.
  - destruct H as [E|[]]. injection E as -> -> ->. exists w0, w1, w2, []. now rewrite app_nil_r.
  - destruct (IH H) as (pre & x1 & x2 & post & E). exists (w0 ++ [40] ++ pre), x1, x2, (post ++ w1 ++ [41]).
    rewrite E. now rewrite <- !app_assoc.
  - apply in_app_or in H as [H|H].
    + destruct (IHa H) as (pre & x1 & x2 & post & E). exists pre, x1, x2, (post ++ w ++ [97; 110; 100] ++ msrc_text b).
      rewrite E. now rewrite <- !app_assoc.
    + destruct (IHb H) as (pre & x1 & x2 & post & E). exists (msrc_text a ++ w ++ [97; 110; 100] ++ pre), x1, x2, post.
      rewrite E. now rewrite <- !app_assoc.
  - apply in_app_or in H as [H|H].
    + destruct (IHa H) as (pre & x1 & x2 & post & E). exists pre, x1, x2, (post ++ w ++ [111; 114] ++ msrc_text b).
      rewrite E. now rewrite <- !app_assoc.
    + destruct (IHb H) as (pre & x1 & x2 & post & E). exists (msrc_text a ++ w ++ [111; 114] ++ pre), x1, x2, post.
      rewrite E. now rewrite <- !app_assoc.
Qed.

Section WarnText.
Variables ws alpha alnum : N -> bool.
Variable kw : list (text * mvalue).
Variable vparse : text -> option rawversion.
Variable specpat : vop -> text -> option (vop * list N).
Variable specver : vop -> text -> option (vop * list N).
Variables pv pfv : N.

Local Notation wc := (word_char alnum).
Local Notation PM := (parse_markers ws alpha alnum kw vparse specpat specver pv pfv).
Local Notation typed := (typed_of_cmp ws vparse specpat specver).
Local Notation tsrc := (typed_src ws kw vparse specpat specver).
Local Notation val := (vsrc_value kw).
Local Notation wf := (MarkerAccept.wf ws kw).
Local Notation blank := (MarkerAccept.blank ws).
Local Notation ast_of := (MarkerAccept.ast_of ws kw vparse specpat specver).
Local Notation warns_of := (MarkerAccept.warns_of ws kw vparse specpat specver).

(** the facts about the character classes under which the acceptance theorem holds (MarkerAccept.v) *)
Hypothesis Hws_wc : forall x, wc x = true -> ws x = false.
Hypothesis Hws_delims : forall x, In x [34; 39; 40; 41; 60; 61; 62; 126; 33] -> ws x = false.
Hypothesis Hws_it : ws 105 = false /\ ws 116 = false.
Hypothesis Halpha_in : alpha 105 = true /\ alpha 110 = true.
Hypothesis Halpha_sym : forall x, In x [60; 61; 62; 126; 33] -> alpha x = false.
Hypothesis Halnum_kw : forall x, In x [97; 110; 100; 111; 114] -> alnum x = true.
Hypothesis Halnum_delims : forall x, In x [40; 41; 34; 39] -> alnum x = false.

Lemma accept m w : wf m -> blank w -> PM (msrc_text m ++ w) = POk (compile pv pfv (ast_of m), warns_of m).
Proof.
  exact (parse_markers_accept ws alpha alnum kw vparse specpat specver pv pfv
           Hws_wc Hws_delims Hws_it Halpha_in Halpha_sym Halnum_kw Halnum_delims m w).
Qed.

(** [typed_src] is [typed_of_cmp] on the values of the three tokens *)
Lemma typed_src_eq l o r : tsrc l o r = typed (val l) (osrc_op o) (val r).
Proof. reflexivity. Qed.

(** ** T1: every warning of every comparison reaches the reporter *)
Lemma warn_of_cmp m l o r k : In (l, o, r) (cmps_of m) -> In k (snd (tsrc l o r)) -> In k (warns_of m).
Proof.
  induction m as [w0 l' w1 o' w2 r'|w0 i IH w1|a IHa w b IHb|a IHa w b IHb]; cbn [cmps_of MarkerAccept.warns_of]; intros H K.
  - destruct H as [E|[]]. injection E as -> -> ->. exact K.
  - now apply IH.
  - apply in_or_app. apply in_app_or in H as [H|H]; [left; now apply IHa|right; now apply IHb].
  - apply in_or_app. apply in_app_or in H as [H|H]; [left; now apply IHa|right; now apply IHb].
Qed.

(** conversely, every warning comes from a comparison *)
Lemma warn_from_cmp m k : In k (warns_of m) -> exists l o r, In (l, o, r) (cmps_of m) /\ In k (snd (tsrc l o r)).
Proof.
  induction m as [w0 l' w1 o' w2 r'|w0 i IH w1|a IHa w b IHb|a IHa w b IHb]; cbn [cmps_of MarkerAccept.warns_of]; intros K.
  - exists l', o', r'. split; [now left|exact K].
  - now apply IH.
  - apply in_app_or in K as [K|K]; [destruct (IHa K) as (l & o & r & H & H')|destruct (IHb K) as (l & o & r & H & H')];
      exists l, o, r; (split; [apply in_or_app; auto|exact H']).
  - apply in_app_or in K as [K|K]; [destruct (IHa K) as (l & o & r & H & H')|destruct (IHb K) as (l & o & r & H & H')];
      exists l, o, r; (split; [apply in_or_app; auto|exact H']).
Qed.

Lemma text_warn_reported m w l o r k : wf m -> blank w -> In (l, o, r) (cmps_of m) -> In k (snd (tsrc l o r)) ->
  exists t wl, PM (msrc_text m ++ w) = POk (t, wl) /\ In k wl.
Proof.
  intros W B H K. exists (compile pv pfv (ast_of m)), (warns_of m). split; [now apply accept|].
  now apply (warn_of_cmp m l o r k).
Qed.

(** two literals, two keys, a version key against a key, a string key with [~=], [extra] with an ordering or
    containment operator: parsing succeeds and a warning of the matching kind is reported *)
Theorem text_bogus_reported m w l o r k : wf m -> blank w -> In (l, o, r) (cmps_of m) ->
  bogus (val l) (osrc_op o) (val r) = Some k ->
  fst (tsrc l o r) = None /\ exists t wl, PM (msrc_text m ++ w) = POk (t, wl) /\ In k wl.
Proof.
  intros W B H E. destruct (drop_reported ws vparse specpat specver (val l) (val r) (osrc_op o) k E) as [D K].
  split; [exact D|]. now apply (text_warn_reported m w l o r k).
Qed.

(** a version key against a literal that the PEP 440 oracle rejects (for the operator) *)
Theorem text_bad_version_reported m w l o r k s : wf m -> blank w -> In (l, o, r) (cmps_of m) ->
  val l = MVVersion k -> val r = MVQuoted s ->
  (forall op, vop_of (osrc_op o) = Some op -> specpat op s = None) ->
  (match osrc_op o with OpIn | OpNotIn => version_list ws vparse (S (length s)) (c_new s) = None | _ => True end) ->
  fst (tsrc l o r) = None /\ exists t wl, PM (msrc_text m ++ w) = POk (t, wl) /\ In WPep440 wl.
Proof.
  intros W B H El Er Hs Hl. destruct (drop_bad_version ws vparse specpat specver k (osrc_op o) s Hs Hl) as [D K].
  rewrite <- El, <- Er in D, K. split; [exact D|]. now apply (text_warn_reported m w l o r WPep440).
Qed.

Theorem text_bad_version_inverted_reported m w l o r k s : wf m -> blank w -> In (l, o, r) (cmps_of m) ->
  val l = MVQuoted s -> val r = MVVersion k ->
  (forall op, vop_of (invert (osrc_op o)) = Some op -> specver op s = None) ->
  fst (tsrc l o r) = None /\ exists t wl, PM (msrc_text m ++ w) = POk (t, wl) /\ In WPep440 wl.
Proof.
  intros W B H El Er Hs. destruct (drop_bad_version_inverted ws vparse specpat specver k (osrc_op o) s Hs) as [D K].
  rewrite <- El, <- Er in D, K. split; [exact D|]. now apply (text_warn_reported m w l o r WPep440).
Qed.

(** ** T2: the result is the one of the text with the dropped comparisons deleted *)
(** delete every comparison that has no typed form, together with the [and] / [or] and the blank that
    joined it, and the parentheses that become empty; [None] when nothing remains *)
Fixpoint remove (m : msrc) : option msrc :=
  match m with
  | MCmp _ l _ o _ r => match fst (tsrc l o r) with Some _ => Some m | None => None end
  | MParen w0 i w1 => match remove i with Some i' => Some (MParen w0 i' w1) | None => None end
  | MAnd a w b => match remove a, remove b with
                  | Some a', Some b' => Some (MAnd a' w b') | Some a', None => Some a' | None, b' => b' end
  | MOr a w b => match remove a, remove b with
                 | Some a', Some b' => Some (MOr a' w b') | Some a', None => Some a' | None, b' => b' end
  end.

Definition keptb (c : vsrc * osrc * vsrc) : bool :=
  let '(l, o, r) := c in match fst (tsrc l o r) with Some _ => true | None => false end.

(** what remains: exactly the comparisons that have a typed form, in the same order *)
Lemma remove_cmps m : match remove m with Some m' => cmps_of m' | None => [] end = filter keptb (cmps_of m).
Proof.
  induction m as [w0 l w1 o w2 r|w0 i IH w1|a IHa w b IHb|a IHa w b IHb]; cbn [remove cmps_of].
  - cbn [filter keptb]. destruct (fst (tsrc l o r)); reflexivity.
  - rewrite <- IH. destruct (remove i); reflexivity.
  - rewrite filter_app, <- IHa, <- IHb. destruct (remove a), (remove b); cbn [cmps_of app]; try reflexivity.
    now rewrite app_nil_r.
  - rewrite filter_app, <- IHa, <- IHb. destruct (remove a), (remove b); cbn [cmps_of app]; try reflexivity.
    now rewrite app_nil_r.
Qed.

Lemma remove_none m : remove m = None <-> forall l o r, In (l, o, r) (cmps_of m) -> fst (tsrc l o r) = None.
Proof.
  pose proof (remove_cmps m) as E. split.
  - intros R l o r H. rewrite R in E. destruct (fst (tsrc l o r)) eqn:F; [|reflexivity].
    assert (K : In (l, o, r) (filter keptb (cmps_of m))).
    { apply filter_In. split; [exact H|]. cbn [keptb]. now rewrite F. }
    rewrite <- E in K. destruct K.
  - intros A. destruct (remove m) as [m'|] eqn:R; [|reflexivity]. exfalso.
    assert (N : cmps_of m' <> []).
    { clear. induction m' as [w0 l w1 o w2 r|w0 i IH w1|a IHa w b IHb|a IHa w b IHb]; cbn [cmps_of]; try assumption; try discriminate.
      - destruct (cmps_of a); [congruence|discriminate].
      - destruct (cmps_of a); [congruence|discriminate]. }
    destruct (cmps_of m') as [|[[l o] r] rest] eqn:C; [congruence|].
    assert (K : In (l, o, r) (filter keptb (cmps_of m))) by (rewrite <- E; now left).
    apply filter_In in K as [K1 K2]. cbn [keptb] in K2. now rewrite (A l o r K1) in K2.
Qed.

(** on the typed trees, [remove] is [prune] *)
Lemma ast_of_remove m : option_map ast_of (remove m) = prune (ast_of m).
Proof.
  induction m as [w0 l w1 o w2 r|w0 i IH w1|a IHa w b IHb|a IHa w b IHb]; cbn [remove MarkerAccept.ast_of prune].
  - destruct (fst (tsrc l o r)) eqn:E; cbn [option_map MarkerAccept.ast_of]; [now rewrite E|reflexivity].
  - rewrite <- IH. destruct (remove i); reflexivity.
  - rewrite <- IHa, <- IHb. destruct (remove a), (remove b); reflexivity.
  - rewrite <- IHa, <- IHb. destruct (remove a), (remove b); reflexivity.
Qed.

Lemma compile_remove m :
  compile pv pfv (ast_of m) = match remove m with Some m' => compile pv pfv (ast_of m') | None => Leaf true end.
Proof.
  unfold compile. rewrite (compile_prune pv pfv (ast_of m)), <- ast_of_remove.
  destruct (remove m); reflexivity.
Qed.

(** the diagram is the one compiled from the remaining derivation; the warnings are all those of [m] *)
Theorem text_removed m w : wf m -> blank w ->
  PM (msrc_text m ++ w) =
  POk (match remove m with Some m' => compile pv pfv (ast_of m') | None => Leaf true end, warns_of m).
Proof. intros W B. rewrite (accept m w W B). now rewrite <- compile_remove. Qed.

(** nothing is left to remove in what remains, and it reports at most invalid extra names *)
Lemma remove_kept m m' : remove m = Some m' -> forall l o r, In (l, o, r) (cmps_of m') -> fst (tsrc l o r) <> None.
Proof.
  intros R l o r H. pose proof (remove_cmps m) as E. rewrite R in E. rewrite E in H.
  apply filter_In in H as [_ H]. cbn [keptb] in H. destruct (fst (tsrc l o r)); [discriminate|discriminate H].
Qed.

Lemma remove_fix m : (forall l o r, In (l, o, r) (cmps_of m) -> fst (tsrc l o r) <> None) -> remove m = Some m.
Proof.
  induction m as [w0 l w1 o w2 r|w0 i IH w1|a IHa w b IHb|a IHa w b IHb]; cbn [remove cmps_of]; intros A.
  - destruct (fst (tsrc l o r)) eqn:E; [reflexivity|]. elim (A l o r (or_introl eq_refl) E).
  - now rewrite (IH A).
  - rewrite IHa, IHb; [reflexivity| |]; intros l o r H; apply A; apply in_or_app; auto.
  - rewrite IHa, IHb; [reflexivity| |]; intros l o r H; apply A; apply in_or_app; auto.
Qed.

Lemma remove_idem m m' : remove m = Some m' -> remove m' = Some m'.
Proof. intros R. apply remove_fix. exact (remove_kept m m' R). Qed.

(** the text-level reading: when the remaining derivation is well formed (see [remove_wf] below for a
    sufficient condition and [Example.ex_remove_not_wf] for a case where it is not), its text parses
    to the same diagram as the text of [m] *)
Theorem text_removed_text m m' w w' : wf m -> blank w -> remove m = Some m' -> wf m' -> blank w' ->
  exists t wl wl', PM (msrc_text m ++ w) = POk (t, wl) /\ PM (msrc_text m' ++ w') = POk (t, wl') /\
                   wl = warns_of m /\ wl' = warns_of m'.
Proof.
  intros W B R W' B'. exists (compile pv pfv (ast_of m')), (warns_of m), (warns_of m').
  split; [|split; [now apply accept|split; reflexivity]].
  rewrite (text_removed m w W B). now rewrite R.
Qed.

Theorem text_removed_all m w : wf m -> blank w -> remove m = None -> PM (msrc_text m ++ w) = POk (Leaf true, warns_of m).
Proof. intros W B R. rewrite (text_removed m w W B). now rewrite R. Qed.

(** *** when is the remaining derivation well formed?
    Deleting [w and b] after [a] can bring a key at the end of [a] next to a following [and] / [or] that
    was written without a blank after [b] (legal when [b] ends with a quote or a parenthesis).  When the
    joining blanks are not empty this cannot happen. *)
Fixpoint spaced (m : msrc) : Prop :=
  match m with
  | MCmp _ _ _ _ _ _ => True
  | MParen _ i _ => spaced i
  | MAnd a w b | MOr a w b => spaced a /\ spaced b /\ w <> []
  end.

Lemma remove_wf_aux m : wf m -> spaced m -> forall m', remove m = Some m' ->
  wf m' /\ spaced m' /\ (andl m -> andl m') /\ (atom m -> atom m') /\ (starts_ok m -> starts_ok m').
Proof.
  induction m as [w0 l w1 o w2 r|w0 i IH w1|a IHa w b IHb|a IHa w b IHb]; cbn [remove]; intros W S m' R.
  - destruct (fst (tsrc l o r)); [|discriminate]. injection R as <-. auto.
  - cbn [MarkerAccept.wf spaced] in W, S. destruct W as (B0 & B1 & Wi).
    destruct (remove i) as [i'|] eqn:Ri; [|discriminate]. injection R as <-.
    destruct (IH Wi S i' eq_refl) as (Wi' & Si' & _).
    cbn [MarkerAccept.wf spaced andl atom starts_ok]. auto.
  - cbn [MarkerAccept.wf spaced] in W, S. destruct W as (Wa & Wb & Bw & Ala & Atb & Kw & Sb). destruct S as (Sa & Sb' & Nw).
    destruct (remove a) as [a'|] eqn:Ra, (remove b) as [b'|] eqn:Rb; try discriminate; injection R as <-.
    + destruct (IHa Wa Sa a' eq_refl) as (Wa' & Sa' & Ala' & _ & Sta').
      destruct (IHb Wb Sb' b' eq_refl) as (Wb' & Sb'' & _ & Atb' & Stb').
      cbn [MarkerAccept.wf spaced andl atom starts_ok]. split; [|split; [|split; [intros _; exact I|split; [intros []|exact Sta']]]].
      * split; [exact Wa'|]. split; [exact Wb'|]. split; [exact Bw|]. split; [now apply Ala'|]. split; [now apply Atb'|].
        split; [intros _; exact Nw|now apply Stb'].
      * auto.
    + destruct (IHa Wa Sa a' eq_refl) as (Wa' & Sa' & Ala' & _ & Sta').
      cbn [andl atom starts_ok]. split; [exact Wa'|]. split; [exact Sa'|]. split; [intros _; now apply Ala'|]. split; [intros []|exact Sta'].
    + destruct (IHb Wb Sb' b' eq_refl) as (Wb' & Sb'' & Alb' & Atb' & Stb').
      cbn [andl atom starts_ok]. split; [exact Wb'|]. split; [exact Sb''|]. split; [intros _|split; [intros []|intros _; now apply Stb']].
      specialize (Atb' Atb). destruct b'; try contradiction; exact I.
  - cbn [MarkerAccept.wf spaced] in W, S. destruct W as (Wa & Wb & Bw & Alb & Kw & Sb). destruct S as (Sa & Sb' & Nw).
    destruct (remove a) as [a'|] eqn:Ra, (remove b) as [b'|] eqn:Rb; try discriminate; injection R as <-.
    + destruct (IHa Wa Sa a' eq_refl) as (Wa' & Sa' & _ & _ & Sta').
      destruct (IHb Wb Sb' b' eq_refl) as (Wb' & Sb'' & Alb' & _ & Stb').
      cbn [MarkerAccept.wf spaced andl atom starts_ok]. split; [|split; [|split; [intros []|split; [intros []|exact Sta']]]].
      * split; [exact Wa'|]. split; [exact Wb'|]. split; [exact Bw|]. split; [now apply Alb'|].
        split; [intros _; exact Nw|now apply Stb'].
      * auto.
    + destruct (IHa Wa Sa a' eq_refl) as (Wa' & Sa' & _ & _ & Sta').
      cbn [andl atom starts_ok]. split; [exact Wa'|]. split; [exact Sa'|]. split; [intros []|]. split; [intros []|exact Sta'].
    + destruct (IHb Wb Sb' b' eq_refl) as (Wb' & Sb'' & _ & _ & Stb').
      cbn [andl atom starts_ok]. split; [exact Wb'|]. split; [exact Sb''|]. split; [intros []|]. split; [intros []|intros _; now apply Stb'].
Qed.

Theorem remove_wf m m' : wf m -> spaced m -> remove m = Some m' -> wf m'.
Proof. intros W S R. now destruct (remove_wf_aux m W S m' R) as [H _]. Qed.

(** so for derivations whose [and] / [or] are preceded by a blank, the statement is about two texts *)
Corollary text_removed_spaced m m' w w' : wf m -> spaced m -> blank w -> blank w' -> remove m = Some m' ->
  exists t wl wl', PM (msrc_text m ++ w) = POk (t, wl) /\ PM (msrc_text m' ++ w') = POk (t, wl').
Proof.
  intros W S B B' R. destruct (text_removed_text m m' w w' W B R (remove_wf m m' W S R) B') as (t & wl & wl' & E1 & E2 & _).
  now exists t, wl, wl'.
Qed.

(** ** T3: markers without such comparisons *)
(** an [extra] compared with a literal that is not a valid extra name *)
Definition extra_invalid_val (l r : mvalue) : Prop :=
  exists s, ((l = MVExtra /\ r = MVQuoted s) \/ (l = MVQuoted s /\ r = MVExtra)) /\ extra_name s = None.
Definition extra_invalid (l : vsrc) (r : vsrc) : Prop := extra_invalid_val (val l) (val r).

Lemma arb_extra_invalid l o r neg name : fst (typed l o r) = Some (EExtra neg true name) -> extra_invalid_val l r.
Proof.
  destruct l as [kl|kl| |sl], r as [kr|kr| |sr]; cbn [typed_of_cmp fst snd]; try discriminate.
  - destruct o; unfold parse_version_expr; cbn [vop_of];
      try (destruct (specpat _ sr) as [[op' rel]|]; cbn; discriminate).
    + destruct (version_list ws vparse (S (length sr)) (c_new sr)); cbn; discriminate.
    + destruct (version_list ws vparse (S (length sr)) (c_new sr)); cbn; discriminate.
  - destruct o; cbn; discriminate.
  - unfold parse_extra_expr. destruct (extra_name sr) as [n|] eqn:E; destruct o; cbn; try discriminate;
      intros _; exists sr; (split; [left; split; reflexivity|exact E]).
  - unfold parse_inverted_version_expr. destruct (vop_of (invert o)) as [op|]; [|discriminate].
    destruct (specver op sl) as [[op' rel]|]; cbn; discriminate.
  - destruct o; cbn; discriminate.
  - unfold parse_extra_expr. destruct (extra_name sl) as [n|] eqn:E; destruct o; cbn; try discriminate;
      intros _; exists sl; (split; [right; split; reflexivity|exact E]).
Qed.

Definition kept (m : msrc) : Prop := forall l o r, In (l, o, r) (cmps_of m) -> fst (tsrc l o r) <> None.

(** no comparison dropped: the only warnings are those for invalid extra names, each from a comparison
    of [extra] with such a literal, which is kept as a comparison that never matches *)
Theorem text_clean_warns m k : kept m -> In k (warns_of m) ->
  k = WExtraInvalid /\
  exists l o r neg name, In (l, o, r) (cmps_of m) /\ extra_invalid l r /\ fst (tsrc l o r) = Some (EExtra neg true name).
Proof.
  intros A K. destruct (warn_from_cmp m k K) as (l & o & r & H & K').
  destruct (fst (tsrc l o r)) as [e|] eqn:E; [|elim (A l o r H E)].
  destruct (clean_silent ws vparse specpat specver (val l) (val r) (osrc_op o) e E) as [S|(neg & name & -> & S)].
  - rewrite typed_src_eq in K'. rewrite S in K'. destruct K'.
  - rewrite typed_src_eq in K'. rewrite S in K'. destruct K' as [<-|[]]. split; [reflexivity|].
    exists l, o, r, neg, name. split; [exact H|]. split; [|exact E].
    exact (arb_extra_invalid (val l) (osrc_op o) (val r) neg name E).
Qed.

Lemma clean_warns_nil m : kept m -> (forall l o r, In (l, o, r) (cmps_of m) -> ~ extra_invalid l r) -> warns_of m = [].
Proof.
  intros A X. destruct (warns_of m) as [|k rest] eqn:E; [reflexivity|]. exfalso.
  destruct (text_clean_warns m k A) as (_ & l & o & r & neg & name & H & I & _); [rewrite E; now left|].
  exact (X l o r H I).
Qed.

Theorem text_clean_silent m w : wf m -> blank w -> kept m ->
  (forall l o r, In (l, o, r) (cmps_of m) -> ~ extra_invalid l r) ->
  PM (msrc_text m ++ w) = POk (compile pv pfv (ast_of m), []).
Proof. intros W B A X. rewrite (accept m w W B). now rewrite (clean_warns_nil m A X). Qed.

(** with invalid extra names allowed: parsing succeeds, nothing is removed, only [WExtraInvalid] is reported *)
Theorem text_clean_extra m w : wf m -> blank w -> kept m ->
  remove m = Some m /\
  exists wl, PM (msrc_text m ++ w) = POk (compile pv pfv (ast_of m), wl) /\ forall k, In k wl -> k = WExtraInvalid.
Proof.
  intros W B A. split; [now apply remove_fix|]. exists (warns_of m). split; [now apply accept|].
  intros k K. now destruct (text_clean_warns m k A K).
Qed.

(** the invalid extra name is reported and the comparison is kept (with the [arbitrary] flag: it never matches, C11) *)
Theorem text_extra_invalid_reported m w l o r s : wf m -> blank w -> In (l, o, r) (cmps_of m) ->
  ((val l = MVExtra /\ val r = MVQuoted s) \/ (val l = MVQuoted s /\ val r = MVExtra)) -> extra_name s = None ->
  (osrc_op o = OpEq \/ osrc_op o = OpNe) ->
  fst (tsrc l o r) = Some (EExtra (match osrc_op o with OpNe => true | _ => false end) true s) /\
  exists t wl, PM (msrc_text m ++ w) = POk (t, wl) /\ In WExtraInvalid wl.
Proof.
  intros W B H V E O.
  assert (T : tsrc l o r = (Some (EExtra (match osrc_op o with OpNe => true | _ => false end) true s), [WExtraInvalid])).
  { rewrite typed_src_eq. destruct V as [[-> ->]|[-> ->]]; cbn [typed_of_cmp]; unfold parse_extra_expr; rewrite E;
      destruct O as [-> | ->]; reflexivity. }
  split; [now rewrite T|]. apply (text_warn_reported m w l o r WExtraInvalid W B H). rewrite T. now left.
Qed.

End WarnText.

Print Assumptions text_bogus_reported.
Print Assumptions text_bad_version_reported.
Print Assumptions text_bad_version_inverted_reported.
Print Assumptions text_removed.
Print Assumptions text_removed_text.
Print Assumptions remove_wf.
Print Assumptions text_removed_spaced.
Print Assumptions text_clean_warns.
Print Assumptions text_clean_silent.
Print Assumptions text_clean_extra.
Print Assumptions text_extra_invalid_reported.

(** ** T4: by computation, with the concrete ASCII oracles of MarkerAccept.Example *)
Module Example.
Import MarkerAccept.Example.

(* 'a' == 'b' and os_name == "x" *)
Definition m1 : msrc :=
  MAnd (MCmp [] (VLit 39 [97]) [32] (OSym [61; 61]) [32] (VLit 39 [98]))
       [32]
       (MCmp [32] (VKey os_name) [32] (OSym [61; 61]) [32] (VLit 34 [120])).
Definition text1 : text :=
  [39; 97; 39; 32; 61; 61; 32; 39; 98; 39; 32; 97; 110; 100; 32; 111; 115; 95; 110; 97; 109; 101; 32; 61; 61; 32; 34; 120; 34].
(*  os_name == "x" *)
Definition m1' : msrc := MCmp [32] (VKey os_name) [32] (OSym [61; 61]) [32] (VLit 34 [120]).
Definition text1' : text := [32; 111; 115; 95; 110; 97; 109; 101; 32; 61; 61; 32; 34; 120; 34].

Example ex1_text : msrc_text m1 = text1 /\ msrc_text m1' = text1'.
Proof. split; reflexivity. Qed.
Example ex1_wf : wf ws0 kw0 m1.
Proof. vm_compute. intuition congruence. Qed.
Example ex1_bogus : bogus (vsrc_value kw0 (VLit 39 [97])) (osrc_op (OSym [61; 61])) (vsrc_value kw0 (VLit 39 [98])) = Some WStringString.
Proof. reflexivity. Qed.
Example ex1_remove : remove ws0 kw0 vparse0 specpat0 specver0 m1 = Some m1'.
Proof. vm_compute. reflexivity. Qed.

(** the warning is reported, and the diagram is the one of [os_name == "x"] alone *)
Example ex1_compute :
  parse_markers ws0 alpha0 alnum0 kw0 vparse0 specpat0 specver0 1 2 text1 =
  POk (compile 1 2 (AExpr (Some (EString 0 SEq [120]))), [WStringString]) /\
  parse_markers ws0 alpha0 alnum0 kw0 vparse0 specpat0 specver0 1 2 text1' =
  POk (compile 1 2 (AExpr (Some (EString 0 SEq [120]))), []).
Proof. split; vm_compute; reflexivity. Qed.

(** the same from the theorems *)
Example ex1_thm (pv pfv : N) :
  parse_markers ws0 alpha0 alnum0 kw0 vparse0 specpat0 specver0 pv pfv (text1 ++ []) =
  POk (compile pv pfv (ast_of ws0 kw0 vparse0 specpat0 specver0 m1'), [WStringString]).
Proof.
  destruct ex1_text as [<- _].
  rewrite (text_removed ws0 alpha0 alnum0 kw0 vparse0 specpat0 specver0 pv pfv
             Hws_wc0 Hws_delims0 Hws_it0 Halpha_in0 Halpha_sym0 Halnum_kw0 Halnum_delims0 m1 [] ex1_wf eq_refl).
  rewrite ex1_remove. reflexivity.
Qed.

(** everything dropped: TRUE, with both warnings.   'a' == 'b' or os_name ~= "x" *)
Definition m3 : msrc :=
  MOr (MCmp [] (VLit 39 [97]) [32] (OSym [61; 61]) [32] (VLit 39 [98]))
      [32]
      (MCmp [32] (VKey os_name) [32] (OSym [126; 61]) [32] (VLit 34 [120])).
Example ex3_compute :
  wf ws0 kw0 m3 /\ remove ws0 kw0 vparse0 specpat0 specver0 m3 = None /\
  parse_markers ws0 alpha0 alnum0 kw0 vparse0 specpat0 specver0 1 2 (msrc_text m3) = POk (Leaf true, [WStringString; WLexicographic]).
Proof. split; [vm_compute; intuition congruence|split; vm_compute; reflexivity]. Qed.

(** the remaining derivation need not be well formed:   'x' == os_name and 'a'=='b'and'c'==os_name
    is well formed ([and] may follow a quote directly), but deleting [ and 'a'=='b'] glues [os_name] to
    the second [and]: the remaining text  'x' == os_nameand'c'==os_name  is not a marker *)
Definition m2 : msrc :=
  MAnd (MAnd (MCmp [] (VLit 39 [120]) [32] (OSym [61; 61]) [32] (VKey os_name))
             [32]
             (MCmp [32] (VLit 39 [97]) [] (OSym [61; 61]) [] (VLit 39 [98])))
       []
       (MCmp [] (VLit 39 [99]) [] (OSym [61; 61]) [] (VKey os_name)).
Definition m2' : msrc :=
  MAnd (MCmp [] (VLit 39 [120]) [32] (OSym [61; 61]) [32] (VKey os_name))
       []
       (MCmp [] (VLit 39 [99]) [] (OSym [61; 61]) [] (VKey os_name)).

Example ex_remove_not_wf :
  wf ws0 kw0 m2 /\ remove ws0 kw0 vparse0 specpat0 specver0 m2 = Some m2' /\ ~ wf ws0 kw0 m2' /\
  (exists t, parse_markers ws0 alpha0 alnum0 kw0 vparse0 specpat0 specver0 1 2 (msrc_text m2) = POk (t, [WStringString])) /\
  (exists e, parse_markers ws0 alpha0 alnum0 kw0 vparse0 specpat0 specver0 1 2 (msrc_text m2') = PErr e).
Proof.
  split; [vm_compute; intuition congruence|]. split; [vm_compute; reflexivity|]. split.
  - vm_compute. intuition congruence.
  - split; eexists; vm_compute; reflexivity.
Qed.
End Example.

Print Assumptions Example.ex1_thm.
Print Assumptions Example.ex1_compute.
Print Assumptions Example.ex_remove_not_wf.
