(** C06 infrastructure: cursors only move forward along the input, and every position a parser can
    report is a character boundary of the input.  Shared by SpanMarker.v and SpanReq.v. *)
From Coq Require Import List Bool NArith Arith Lia.
From PV Require Import Text.Cursor Text.MarkerParse.
Import ListNotations.
Open Scope N_scope.

Lemma text_len_app (a b : text) : text_len (a ++ b) = text_len a + text_len b.
Proof. induction a as [|x a IH]; cbn [app text_len]; [reflexivity|]. rewrite IH. lia. Qed.

Lemma utf8_len_pos (c : N) : 1 <= utf8_len c.
Proof. unfold utf8_len. destruct (c <? 128); [lia|]. destruct (c <? 2048); [lia|]. destruct (c <? 65536); lia. Qed.

Lemma utf8_len_ascii (c : N) : c < 128 -> utf8_len c = 1.
Proof. intros H. unfold utf8_len. destruct (N.ltb_spec c 128); [reflexivity|lia]. Qed.

(** [adv c c']: [c'] is [c] after consuming [k] characters *)
Definition adv (c c' : cursor) : Prop :=
  exists k : nat, (k <= length (c_rest c))%nat /\ c_rest c' = skipn k (c_rest c) /\ c_pos c' = c_pos c + text_len (firstn k (c_rest c)).

Definition endpos (c : cursor) : N := c_pos c + text_len (c_rest c).

(** [bnd c p]: [p] is the byte offset of a character boundary at or after [c] *)
Definition bnd (c : cursor) (p : N) : Prop :=
  exists k : nat, (k <= length (c_rest c))%nat /\ p = c_pos c + text_len (firstn k (c_rest c)).

(** what Display needs of an error span, relative to the cursor [c]: the start is a boundary; at the very
    end the length is at most 1; otherwise the end of the span is a boundary too *)
Definition span_from (c : cursor) (e : perr) : Prop :=
  bnd c (e_start e) /\ (e_start e = endpos c -> e_len e <= 1) /\ (e_start e <> endpos c -> bnd c (e_start e + e_len e)).

Definition no_panic (e : perr) : Prop := e_kind e <> EPanic.

(** the result of a parser started at [c0] (spans may also point before the current cursor, so they are
    always stated relative to a fixed earlier cursor [c0]) *)
Definition res_ok {A} (c0 c : cursor) (r : pres (A * cursor)) : Prop :=
  match r with
  | POk (_, c') => adv c c'
  | PErr e => span_from c0 e /\ no_panic e
  end.

Lemma adv_refl c : adv c c.
Proof. exists 0%nat. cbn. repeat split; [lia|lia]. Qed.

Lemma text_len_firstn_skipn (k : nat) (s : text) : text_len (firstn k s) + text_len (skipn k s) = text_len s.
Proof. rewrite <- text_len_app, firstn_skipn. reflexivity. Qed.

Lemma skipn_add {A} (k j : nat) (l : list A) : skipn j (skipn k l) = skipn (k + j) l.
Proof. revert l. induction k as [|k IH]; intros l; [reflexivity|]. destruct l; cbn; [now destruct j|apply IH]. Qed.

Lemma firstn_add {A} (k j : nat) (l : list A) : firstn (k + j) l = firstn k l ++ firstn j (skipn k l).
Proof. revert l. induction k as [|k IH]; intros l; [reflexivity|]. destruct l; cbn; [now destruct j|now rewrite IH]. Qed.

Lemma adv_trans a b c : adv a b -> adv b c -> adv a c.
Proof.
  intros (k & Hk & Rk & Pk) (j & Hj & Rj & Pj). exists (k + j)%nat.
  rewrite Rk in Hj, Rj, Pj. rewrite skipn_length in Hj. split; [lia|]. split.
  - rewrite Rj. apply skipn_add.
  - rewrite Pj, Pk. rewrite <- N.add_assoc, <- text_len_app, firstn_add. reflexivity.
Qed.

Lemma adv_endpos a b : adv a b -> endpos b = endpos a.
Proof.
  intros (k & Hk & Rk & Pk). unfold endpos. rewrite Pk, Rk, <- N.add_assoc, text_len_firstn_skipn. reflexivity.
Qed.

Lemma adv_pos_le a b : adv a b -> c_pos a <= c_pos b.
Proof. intros (k & _ & _ & Pk). lia. Qed.

Lemma adv_length a b : adv a b -> (length (c_rest b) <= length (c_rest a))%nat.
Proof. intros (k & Hk & Rk & _). rewrite Rk, skipn_length. lia. Qed.

Lemma bnd_adv a b p : adv a b -> bnd b p -> bnd a p.
Proof.
  intros (k & Hk & Rk & Pk) (j & Hj & Pj). exists (k + j)%nat.
  rewrite Rk in Hj, Pj. rewrite skipn_length in Hj. split; [lia|].
  rewrite Pj, Pk, <- N.add_assoc, <- text_len_app, firstn_add. reflexivity.
Qed.

Lemma bnd_pos c : bnd c (c_pos c).
Proof. exists 0%nat. cbn. split; lia. Qed.

Lemma bnd_end c : bnd c (endpos c).
Proof. exists (length (c_rest c)). rewrite firstn_all. split; [lia|reflexivity]. Qed.

Lemma bnd_le_end c p : bnd c p -> p <= endpos c.
Proof.
  intros (k & Hk & ->). unfold endpos. pose proof (text_len_firstn_skipn k (c_rest c)). lia.
Qed.

Lemma bnd_of_adv a b : adv a b -> bnd a (c_pos b).
Proof. intros H. apply (bnd_adv a b); [exact H|apply bnd_pos]. Qed.

Lemma span_from_adv a b e : adv a b -> span_from b e -> span_from a e.
Proof.
  intros H (S1 & S2 & S3). rewrite (adv_endpos a b H) in S2, S3. split; [|split].
  - now apply (bnd_adv a b).
  - exact S2.
  - intros Hne. apply (bnd_adv a b); auto.
Qed.

(** ** the cursor primitives *)
Lemma c_next_adv c pos x c' : c_next c = Some (pos, x, c') ->
  adv c c' /\ pos = c_pos c /\ c_rest c = x :: c_rest c' /\ c_pos c' = c_pos c + utf8_len x.
Proof.
  unfold c_next. destruct (c_rest c) as [|y r] eqn:E; [discriminate|]. intros [= <- <- <-]. cbn.
  split; [|auto]. exists 1%nat. rewrite E. cbn. split; [lia|]. split; [reflexivity|]. f_equal. lia.
Qed.

Lemma c_next_none c : c_next c = None -> c_rest c = [] /\ c_pos c = endpos c.
Proof.
  unfold c_next, endpos. destruct (c_rest c); [|discriminate]. intros _. cbn. split; [reflexivity|lia].
Qed.

Lemma take_while_aux_app p r : forall a b, take_while_aux p r = (a, b) -> r = a ++ b /\ forallb p a = true.
Proof.
  induction r as [|x r IH]; cbn; intros a b.
  - intros [= <- <-]. auto.
  - destruct (p x) eqn:Px.
    + destruct (take_while_aux p r) as [a' b'] eqn:E. intros [= <- <-]. destruct (IH a' b' eq_refl) as [-> F].
      cbn. rewrite Px, F. auto.
    + intros [= <- <-]. auto.
Qed.

Lemma take_while_aux_stop p r a b : take_while_aux p r = (a, b) -> match b with [] => True | x :: _ => p x = false end.
Proof.
  revert a b. induction r as [|x r IH]; cbn; intros a b.
  - intros [= <- <-]. exact I.
  - destruct (p x) eqn:Px.
    + destruct (take_while_aux p r) as [a' b'] eqn:E. intros [= <- <-]. now apply (IH a' b').
    + intros [= <- <-]. exact Px.
Qed.

Lemma adv_app c a b : c_rest c = a ++ b -> adv c {| c_pos := c_pos c + text_len a; c_rest := b |}.
Proof.
  intros E. exists (length a). rewrite E. cbn [c_rest c_pos]. rewrite app_length. split; [lia|].
  assert (forall (x y : text), skipn (length x) (x ++ y) = y /\ firstn (length x) (x ++ y) = x) as H.
  { induction x as [|h x IH]; intros y; cbn; [auto|]. destruct (IH y) as [-> ->]. auto. }
  destruct (H a b) as [-> ->]. split; reflexivity.
Qed.

Lemma c_take_while_adv p c a st len c' : c_take_while p c = (a, st, len, c') ->
  adv c c' /\ st = c_pos c /\ len = text_len a /\ c_rest c = a ++ c_rest c' /\ c_pos c' = c_pos c + text_len a /\ forallb p a = true /\
  match c_rest c' with [] => True | x :: _ => p x = false end.
Proof.
  unfold c_take_while. destruct (take_while_aux p (c_rest c)) as [a' b'] eqn:E. intros [= <- <- <- <-].
  destruct (take_while_aux_app p _ _ _ E) as [R F]. pose proof (take_while_aux_stop p _ _ _ E) as St.
  cbn [c_rest c_pos]. repeat split; auto. now apply adv_app.
Qed.

Lemma eat_ws_adv ws c : adv c (c_eat_whitespace ws c).
Proof.
  unfold c_eat_whitespace. destruct (c_take_while ws c) as [[[a st] len] c'] eqn:E.
  apply (c_take_while_adv ws c a st len c' E).
Qed.

Lemma c_eat_char_adv t c pos c' : c_eat_char t c = Some (pos, c') ->
  adv c c' /\ pos = c_pos c /\ c_rest c = t :: c_rest c' /\ c_pos c' = c_pos c + utf8_len t.
Proof.
  unfold c_eat_char. destruct (c_rest c) as [|x r] eqn:E; [discriminate|]. destruct (N.eqb_spec x t) as [->|]; [|discriminate].
  intros [= <- <-]. cbn. split; [|auto]. exists 1%nat. rewrite E. cbn. split; [lia|]. split; [reflexivity|]. f_equal. lia.
Qed.

(** a position one ASCII character wide *)
Lemma bnd_next c pos x c' : c_next c = Some (pos, x, c') -> bnd c (pos + utf8_len x) /\ pos <> endpos c.
Proof.
  intros H. destruct (c_next_adv c pos x c' H) as (A & -> & R & P). split.
  - rewrite <- P. now apply bnd_of_adv.
  - unfold endpos. rewrite R. cbn [text_len]. pose proof (utf8_len_pos x). lia.
Qed.

(** an error at the character just read *)
Lemma span_at_next c pos x c' k : c_next c = Some (pos, x, c') ->
  span_from c {| e_kind := k; e_start := pos; e_len := utf8_len x |}.
Proof.
  intros H. destruct (bnd_next c pos x c' H) as [B Ne]. destruct (c_next_adv c pos x c' H) as (_ & -> & _).
  split; [apply bnd_pos|]. split; cbn; [intros E; contradiction|intros _; exact B].
Qed.

(** an error of length 1 at the end of the input *)
Lemma span_at_end c k : c_rest c = [] -> span_from c {| e_kind := k; e_start := c_pos c; e_len := 1 |}.
Proof.
  intros E. split; [apply bnd_pos|]. cbn. split; [intros _; lia|]. intros Ne. exfalso. apply Ne. unfold endpos. rewrite E. cbn. lia.
Qed.

(** the whole-input statement *)
Definition boundary (s : text) (p : N) : Prop := exists k : nat, (k <= length s)%nat /\ p = text_len (firstn k s).
Definition renderable (s : text) (e : perr) : Prop :=
  boundary s (e_start e) /\ (e_start e = text_len s -> e_len e <= 1) /\ (e_start e <> text_len s -> boundary s (e_start e + e_len e)).

Lemma span_from_new s e : span_from (c_new s) e -> renderable s e.
Proof.
  unfold span_from, renderable, bnd, boundary, endpos, c_new. cbn. intros (B & E1 & E2). split; [|split].
  - destruct B as (k & Hk & ->). exists k. split; [exact Hk|lia].
  - intros H. apply E1. lia.
  - intros H. destruct E2 as (k & Hk & Ek); [lia|]. exists k. split; [exact Hk|lia].
Qed.
