(** The marker acceptance theorem: every marker text derivable from the grammar, whatever the optional
    white space, is parsed to exactly the typed syntax tree of the derivation (compiled by
    [compile_ast]), with the warnings of the derivation in source order. *)
From Coq Require Import List Bool NArith Arith Lia ZifyBool.
From PV Require Import Base.Order Base.CutDef DD.DDModel Names.NameModel Marker.Concrete Marker.Expr
  Text.Cursor Text.MarkerParse Text.SpanBase Text.SpanMarker Marker.Sem508.
Import ListNotations.
Open Scope N_scope.
Arguments N.add : simpl never.
Arguments N.sub : simpl never.
Arguments N.eqb : simpl never.
Arguments N.ltb : simpl never.
Arguments N.leb : simpl never.
Arguments N.compare : simpl never.

(** ** generic facts *)
Definition hd_no (p : N -> bool) (r : text) : Prop := match r with [] => True | x :: _ => p x = false end.

Lemma twa_exact p a b : forallb p a = true -> hd_no p b -> take_while_aux p (a ++ b) = (a, b).
Proof.
  induction a as [|x a IH]; cbn [app forallb take_while_aux].
  - intros _ Hb. destruct b as [|y b]; [reflexivity|]. cbn in Hb. cbn [take_while_aux]. now rewrite Hb.
  - intros H Hb. apply andb_true_iff in H as [H1 H2]. rewrite H1, (IH H2 Hb). reflexivity.
Qed.

Lemma ctw_exact p pos a b : forallb p a = true -> hd_no p b ->
  c_take_while p {| c_pos := pos; c_rest := a ++ b |} = (a, pos, text_len a, {| c_pos := pos + text_len a; c_rest := b |}).
Proof. intros Ha Hb. unfold c_take_while. cbn [c_rest c_pos]. now rewrite (twa_exact p a b Ha Hb). Qed.

Lemma cpw_exact p pos a b : forallb p a = true -> hd_no p b ->
  c_peek_while p {| c_pos := pos; c_rest := a ++ b |} = (a, pos, text_len a).
Proof. intros Ha Hb. unfold c_peek_while. cbn [c_rest c_pos]. now rewrite (twa_exact p a b Ha Hb). Qed.

Lemma str_eqb_refl (a : text) : str_eqb a a = true.
Proof. induction a as [|x a IH]; cbn [str_eqb]; [reflexivity|]. rewrite N.eqb_refl. exact IH. Qed.

Lemma str_eqb_eq (a b : text) : str_eqb a b = true -> a = b.
Proof.
  revert b. induction a as [|x a IH]; intros [|y b]; cbn [str_eqb]; try discriminate; [reflexivity|].
  intros H. apply andb_true_iff in H as [H1 H2]. apply N.eqb_eq in H1. subst y. now rewrite (IH b H2).
Qed.

Lemma mem_In x l : mem x l = true -> In x l.
Proof. unfold mem. intros H. apply existsb_exists in H as (y & Hy & E). apply N.eqb_eq in E. now subst y. Qed.

Lemma mem_notIn x l : ~ In x l -> mem x l = false.
Proof. intros H. destruct (mem x l) eqn:E; [|reflexivity]. elim H. now apply mem_In. Qed.

Lemma pok_cur {A} (a : A) p p' r : p = p' ->
  POk (a, {| c_pos := p; c_rest := r |}) = POk (a, {| c_pos := p'; c_rest := r |}).
Proof. now intros ->. Qed.

Lemma cur_eq p p' r : p = p' -> {| c_pos := p; c_rest := r |} = {| c_pos := p'; c_rest := r |}.
Proof. now intros ->. Qed.

Lemma combine_eq : MarkerParse.combine = combine_dd.
Proof. reflexivity. Qed.

Lemma combine_eq_pt b x y : MarkerParse.combine b x y = combine_dd b x y.
Proof. reflexivity. Qed.

Lemma forallb_notIn (q : N) b : ~ In q b -> forallb (fun x => negb (x =? q)) b = true.
Proof.
  induction b as [|y b IH]; intros H; [reflexivity|]. cbn [forallb]. rewrite IH.
  - rewrite andb_true_r. apply negb_true_iff. apply N.eqb_neq. intros ->. apply H. now left.
  - intros H'. apply H. now right.
Qed.

Ltac tl := repeat (progress (rewrite ?text_len_app; cbn [text_len app])); lia.

Section MarkerAccept.
Variables ws alpha alnum : N -> bool.
Variable kw : list (text * mvalue).
Variable vparse : text -> option rawversion.
Variable specpat : vop -> text -> option (vop * list N).
Variable specver : vop -> text -> option (vop * list N).
Variables pv pfv : N.

Local Notation wc := (word_char alnum).
Local Notation keyp := (fun x : N => negb (ws x) && negb (mem x [62; 61; 60; 33; 126; 41])).
Local Notation symp := (fun x : N => mem x [60; 61; 62; 126; 33]).
Local Notation alp := (fun x : N => negb (ws x) && negb (x =? 39) && negb (x =? 34)).
Local Notation eat_ws := (c_eat_whitespace ws).
Local Notation PMV := (parse_marker_value ws kw).
Local Notation PMO := (parse_marker_operator ws alpha).
Local Notation PKOV := (parse_key_op_value ws alpha kw vparse specpat specver).
Local Notation POR := (parse_or ws alpha alnum kw vparse specpat specver pv pfv).
Local Notation PMC := (parse_markers_cursor ws alpha alnum kw vparse specpat specver pv pfv).
Local Notation PM := (parse_markers ws alpha alnum kw vparse specpat specver pv pfv).
Local Notation PEXPR := (pexpr ws alpha kw vparse specpat specver pv pfv).
Local Notation PCHAIN := (pchain ws alnum).
Local Notation PAND := (pand ws alpha alnum kw vparse specpat specver pv pfv).
Local Notation PORB := (por_body ws alpha alnum kw vparse specpat specver pv pfv).
Local Notation AND := [97; 110; 100].
Local Notation OR := [111; 114].

(** ** the facts used about the character classes *)
(** white space is disjoint from the word characters (letters, digits, [_], [.]) ... *)
Hypothesis Hws_wc : forall x, wc x = true -> ws x = false.
(** ... from the delimiters: quotes, parentheses, the operator symbols ... *)
Hypothesis Hws_delims : forall x, In x [34; 39; 40; 41; 60; 61; 62; 126; 33] -> ws x = false.
(** ... and from the letters [i], [t] of [in] / [not] (those of [and], [or] are covered by [Hws_wc]) *)
Hypothesis Hws_it : ws 105 = false /\ ws 116 = false.
(** [i], [n] are alphabetic; the operator symbols are not *)
Hypothesis Halpha_in : alpha 105 = true /\ alpha 110 = true.
Hypothesis Halpha_sym : forall x, In x [60; 61; 62; 126; 33] -> alpha x = false.
(** the letters of [and], [or] are alphanumeric; parentheses and quotes are not *)
Hypothesis Halnum_kw : forall x, In x [97; 110; 100; 111; 114] -> alnum x = true.
Hypothesis Halnum_delims : forall x, In x [40; 41; 34; 39] -> alnum x = false.

Definition blank (w : text) : Prop := forallb ws w = true.

Lemma blank_nil : blank []. Proof. reflexivity. Qed.
Lemma blank_app a b : blank a -> blank b -> blank (a ++ b).
Proof. unfold blank. intros Ha Hb. now rewrite forallb_app, Ha, Hb. Qed.
Lemma blank_hd x w : blank (x :: w) -> ws x = true /\ blank w.
Proof. unfold blank. cbn [forallb]. intros H. now apply andb_true_iff in H. Qed.

Lemma hd_no_blank p w r : (forall x, ws x = true -> p x = false) -> blank w -> hd_no p r -> hd_no p (w ++ r).
Proof. intros Hp Hw Hr. destruct w as [|x w]; [exact Hr|]. cbn. apply Hp. now apply blank_hd in Hw as [Hx _]. Qed.

Lemma hd_no_blank_ne p w r : (forall x, ws x = true -> p x = false) -> blank w -> w <> [] -> hd_no p (w ++ r).
Proof. intros Hp Hw Hne. destruct w as [|x w]; [congruence|]. cbn. apply Hp. now apply blank_hd in Hw as [Hx _]. Qed.

Lemma ws_keyp x : ws x = true -> keyp x = false.
Proof. intros H. cbv beta. now rewrite H. Qed.
Lemma ws_alp x : ws x = true -> alp x = false.
Proof. intros H. cbv beta. now rewrite H. Qed.
Lemma ws_symp x : ws x = true -> symp x = false.
Proof.
  intros H. destruct (mem x [60; 61; 62; 126; 33]) eqn:E; [|reflexivity]. apply mem_In in E.
  rewrite (Hws_delims x) in H; [discriminate|]. cbn in E |- *. tauto.
Qed.
Lemma ws_wc x : ws x = true -> wc x = false.
Proof. intros H. destruct (wc x) eqn:E; [|reflexivity]. rewrite (Hws_wc x E) in H. discriminate. Qed.

Lemma eat_ws_exact pos w r : blank w -> hd_no ws r ->
  eat_ws {| c_pos := pos; c_rest := w ++ r |} = {| c_pos := pos + text_len w; c_rest := r |}.
Proof. intros Hw Hr. unfold c_eat_whitespace. now rewrite (ctw_exact ws pos w r Hw Hr). Qed.

Lemma eat_ws_stop pos r : hd_no ws r -> eat_ws {| c_pos := pos; c_rest := r |} = {| c_pos := pos; c_rest := r |}.
Proof.
  intros Hr. pose proof (eat_ws_exact pos [] r blank_nil Hr) as E.
  cbn [app text_len] in E. rewrite E. apply cur_eq. lia.
Qed.

(** ** the source syntax *)
(** a value: a key spelling from the table, or a quoted literal *)
Inductive vsrc := VKey (spelling : text) | VLit (q : N) (body : text).
Definition vsrc_text (v : vsrc) : text := match v with VKey s => s | VLit q b => q :: b ++ [q] end.
Definition is_key (v : vsrc) : bool := match v with VKey _ => true | VLit _ _ => false end.
Definition vsrc_value (v : vsrc) : mvalue :=
  match v with
  | VKey s => match lookup_kw kw s with Some mv => mv | None => MVExtra end
  | VLit _ b => MVQuoted b
  end.
Definition vwf (v : vsrc) : Prop :=
  match v with
  | VKey s => lookup_kw kw s <> None /\ forallb keyp s = true /\
              match s with [] => False | x :: _ => x <> 34 /\ x <> 39 /\ x <> 40 end
  | VLit q b => (q = 34 \/ q = 39) /\ ~ In q b
  end.

(** an operator: a symbol text, [in], or [not] blank+ [in] *)
Inductive osrc := OSym (t : text) | OIn | ONotIn (w : text).
Definition osrc_text (o : osrc) : text :=
  match o with OSym t => t | OIn => [105; 110] | ONotIn w => [110; 111; 116] ++ w ++ [105; 110] end.
Definition is_sym (o : osrc) : bool := match o with OSym _ => true | _ => false end.
Definition osrc_op (o : osrc) : mop :=
  match o with
  | OSym t => match op_of_text t with Some op => op | None => OpEq end
  | OIn => OpIn
  | ONotIn _ => OpNotIn
  end.
Definition owf (o : osrc) : Prop :=
  match o with
  | OSym t => op_of_text t <> None /\ forallb symp t = true
  | OIn => True
  | ONotIn w => blank w /\ w <> []
  end.

(** ** tokens *)
Lemma vwf_hd_ws v X : vwf v -> hd_no ws (vsrc_text v ++ X).
Proof.
  destruct v as [s|q b]; cbn [vwf vsrc_text].
  - intros (_ & F & H). destruct s as [|x s]; [contradiction|]. cbn [app hd_no]. cbn [forallb] in F.
    apply andb_true_iff in F as [F _]. apply andb_true_iff in F as [F _]. now apply negb_true_iff in F.
  - intros ([-> | ->] & _); cbn [app hd_no]; apply Hws_delims; cbn; tauto.
Qed.

Lemma vwf_hd_symp v X : vwf v -> hd_no symp (vsrc_text v ++ X).
Proof.
  destruct v as [s|q b]; cbn [vwf vsrc_text].
  - intros (_ & F & H). destruct s as [|x s]; [contradiction|]. cbn [app hd_no]. cbn [forallb] in F.
    apply andb_true_iff in F as [F _]. apply andb_true_iff in F as [_ F]. apply negb_true_iff in F.
    apply mem_notIn. intros Hin. assert (In x [62; 61; 60; 33; 126; 41]) as Hin' by (cbn in Hin |- *; tauto).
    destruct (mem x [62; 61; 60; 33; 126; 41]) eqn:E; [discriminate|].
    unfold mem in E. rewrite <- not_true_iff_false in E. apply E. apply existsb_exists. exists x. split; [exact Hin'|apply N.eqb_refl].
  - intros ([-> | ->] & _); reflexivity.
Qed.

Lemma vwf_not40 v X p : vwf v -> c_eat_char 40 {| c_pos := p; c_rest := vsrc_text v ++ X |} = None.
Proof.
  destruct v as [s|q b]; cbn [vwf vsrc_text].
  - intros (_ & _ & H). destruct s as [|x s]; [contradiction|]. destruct H as (_ & _ & H).
    unfold c_eat_char. cbn [app c_rest]. apply N.eqb_neq in H. now rewrite H.
  - intros ([-> | ->] & _); reflexivity.
Qed.

Lemma vwf_hd_wc_lit v X : vwf v -> is_key v = false -> hd_no wc (vsrc_text v ++ X).
Proof.
  destruct v as [s|q b]; cbn [vwf vsrc_text is_key]; [discriminate|].
  intros ([-> | ->] & _) _; cbn [app hd_no]; unfold word_char; rewrite Halnum_delims by (cbn; tauto); reflexivity.
Qed.

Lemma pmv_accept v p rest : vwf v -> (is_key v = true -> hd_no keyp rest) ->
  PMV {| c_pos := p; c_rest := vsrc_text v ++ rest |} =
  POk (vsrc_value v, {| c_pos := p + text_len (vsrc_text v); c_rest := rest |}).
Proof.
  destruct v as [s|q b]; cbn [vwf vsrc_text is_key vsrc_value].
  - intros (L & F & H) Hr. specialize (Hr eq_refl). destruct s as [|x s]; [contradiction|].
    destruct H as (H34 & H39 & _). apply N.eqb_neq in H34, H39.
    unfold parse_marker_value, c_peek. cbn [app c_rest]. rewrite H34, H39. cbn [orb].
    change (x :: s ++ rest) with ((x :: s) ++ rest). rewrite (ctw_exact _ p (x :: s) rest F Hr).
    destruct (lookup_kw kw (x :: s)) as [mv|]; [reflexivity|congruence].
  - intros (Hq & Hb) _.
    assert (Q : (q =? 34) || (q =? 39) = true) by (destruct Hq as [-> | ->]; reflexivity).
    unfold parse_marker_value, c_peek, c_next. cbn [app c_rest c_pos]. rewrite Q.
    rewrite <- app_assoc. cbn [app].
    rewrite (ctw_exact _ _ b (q :: rest) (forallb_notIn q b Hb)).
    2:{ cbn [hd_no]. now rewrite N.eqb_refl. }
    unfold next_expect_char, c_next. cbn [c_rest c_pos]. rewrite N.eqb_refl.
    apply pok_cur. tl.
Qed.

Lemma pmo_sym t o p rest : op_of_text t = Some o -> forallb symp t = true -> hd_no symp rest ->
  PMO {| c_pos := p; c_rest := t ++ rest |} = POk (o, {| c_pos := p + text_len t; c_rest := rest |}).
Proof.
  intros Ho Hf Hr. destruct t as [|x t']; [discriminate Ho|].
  assert (Hx : alpha x = false).
  { apply Halpha_sym. apply mem_In. cbn [forallb] in Hf. now apply andb_true_iff in Hf as [Hf _]. }
  unfold parse_marker_operator, c_peek. cbn [c_rest app]. rewrite Hx.
  change (x :: t' ++ rest) with ((x :: t') ++ rest).
  rewrite (ctw_exact _ p (x :: t') rest Hf Hr).
  destruct (text_eqb (x :: t') [110; 111; 116]) eqn:E.
  - apply str_eqb_eq in E. rewrite E in Hf. vm_compute in Hf. discriminate.
  - rewrite Ho. reflexivity.
Qed.

Lemma ws_in : ws 105 = false /\ ws 110 = false /\ ws 111 = false /\ ws 116 = false.
Proof.
  destruct Hws_it as [H1 H2]. split; [exact H1|]. split; [|split; [|exact H2]].
  - apply Hws_wc. unfold word_char. rewrite Halnum_kw by (cbn; tauto). reflexivity.
  - apply Hws_wc. unfold word_char. rewrite Halnum_kw by (cbn; tauto). reflexivity.
Qed.

Lemma pmo_in p rest : hd_no alp rest ->
  PMO {| c_pos := p; c_rest := [105; 110] ++ rest |} = POk (OpIn, {| c_pos := p + text_len [105; 110]; c_rest := rest |}).
Proof.
  intros Hr. destruct ws_in as (W1 & W2 & _). destruct Halpha_in as [A1 _].
  unfold parse_marker_operator, c_peek. cbn [c_rest app]. rewrite A1.
  change (105 :: 110 :: rest) with ([105; 110] ++ rest).
  rewrite (ctw_exact _ p [105; 110] rest).
  - reflexivity.
  - cbn [forallb]. rewrite W1, W2. reflexivity.
  - exact Hr.
Qed.

Lemma pmo_notin p w rest : blank w -> w <> [] ->
  PMO {| c_pos := p; c_rest := ([110; 111; 116] ++ w ++ [105; 110]) ++ rest |} =
  POk (OpNotIn, {| c_pos := p + text_len ([110; 111; 116] ++ w ++ [105; 110]); c_rest := rest |}).
Proof.
  intros Hw Hne. destruct ws_in as (W1 & W2 & W3 & W4). destruct Halpha_in as [_ A2].
  destruct w as [|y w]; [congruence|]. apply blank_hd in Hw as [Hy Hw].
  unfold parse_marker_operator, c_peek. cbn [c_rest app]. rewrite A2.
  change (110 :: 111 :: 116 :: y :: (w ++ [105; 110]) ++ rest) with ([110; 111; 116] ++ y :: (w ++ [105; 110]) ++ rest).
  rewrite (ctw_exact _ p [110; 111; 116] (y :: (w ++ [105; 110]) ++ rest)).
  2:{ cbn [forallb]. rewrite W2, W3, W4. reflexivity. }
  2:{ cbn [hd_no]. now rewrite Hy. }
  change (text_eqb [110; 111; 116] [110; 111; 116]) with true. cbv iota.
  unfold c_next at 1. cbn [c_rest c_pos]. rewrite Hy.
  rewrite <- app_assoc. rewrite (eat_ws_exact _ w ([105; 110] ++ rest) Hw).
  2:{ cbn [app hd_no]. exact W1. }
  unfold next_expect_char, c_next. cbn [c_rest c_pos app].
  change (105 =? 105) with true. cbv iota. cbn [c_rest c_pos]. change (110 =? 110) with true. cbv iota.
  apply pok_cur. tl.
Qed.

(** what must follow an operator: the scanner of the symbolic operators stops at a non-symbol, the
    alphabetic one ([in]) at a blank or a quote; [not in] is closed by [next_expect_char] *)
Definition op_follow (o : osrc) (rest : text) : Prop :=
  match o with OSym _ => hd_no symp rest | OIn => hd_no alp rest | ONotIn _ => True end.

Lemma pmo_accept o p rest : owf o -> op_follow o rest ->
  PMO {| c_pos := p; c_rest := osrc_text o ++ rest |} =
  POk (osrc_op o, {| c_pos := p + text_len (osrc_text o); c_rest := rest |}).
Proof.
  destruct o as [t| |w]; cbn [owf op_follow osrc_text osrc_op].
  - intros (Ho & Hf) Hr. destruct (op_of_text t) as [op|] eqn:E; [|congruence]. now apply pmo_sym.
  - intros _ Hr. now apply pmo_in.
  - intros (Hw & Hne) _. now apply pmo_notin.
Qed.

Lemma owf_hd_ws o X : owf o -> hd_no ws (osrc_text o ++ X).
Proof.
  destruct ws_in as (W1 & W2 & _).
  destruct o as [t| |w]; cbn [owf osrc_text].
  - intros (Ho & Hf). destruct t as [|x t]; [now elim Ho|]. cbn [app hd_no]. cbn [forallb] in Hf.
    apply andb_true_iff in Hf as [Hf _]. apply mem_In in Hf. apply Hws_delims. cbn in Hf |- *. tauto.
  - intros _. exact W1.
  - intros _. exact W2.
Qed.

Lemma owf_hd_keyp_sym o X : owf o -> is_sym o = true -> hd_no keyp (osrc_text o ++ X).
Proof.
  destruct o as [t| |w]; cbn [owf osrc_text is_sym]; try discriminate.
  intros (Ho & Hf) _. destruct t as [|x t]; [now elim Ho|]. cbn [app hd_no]. cbn [forallb] in Hf.
  apply andb_true_iff in Hf as [Hf _]. apply mem_In in Hf.
  assert (mem x [62; 61; 60; 33; 126; 41] = true) as ->.
  { unfold mem. apply existsb_exists. exists x. split; [cbn in Hf |- *; tauto|apply N.eqb_refl]. }
  apply andb_false_r.
Qed.

(** ** one comparison *)
Definition typed_src (l : vsrc) (o : osrc) (r : vsrc) : option mexpr * list wkind :=
  typed_of_cmp ws vparse specpat specver (vsrc_value l) (osrc_op o) (vsrc_value r).

Definition cmp_wf (w0 : text) (l : vsrc) (w1 : text) (o : osrc) (w2 : text) (r : vsrc) : Prop :=
  blank w0 /\ blank w1 /\ blank w2 /\ vwf l /\ owf o /\ vwf r /\
  (is_key l = true -> is_sym o = false -> w1 <> []) /\
  (o = OIn -> is_key r = true -> w2 <> []).

Lemma pkov_accept w0 l w1 o w2 r p rest : cmp_wf w0 l w1 o w2 r -> (is_key r = true -> hd_no keyp rest) ->
  PKOV {| c_pos := p; c_rest := w0 ++ vsrc_text l ++ w1 ++ osrc_text o ++ w2 ++ vsrc_text r ++ rest |} =
  POk (fst (typed_src l o r), snd (typed_src l o r),
       {| c_pos := p + text_len (w0 ++ vsrc_text l ++ w1 ++ osrc_text o ++ w2 ++ vsrc_text r); c_rest := rest |}).
Proof.
  intros (B0 & B1 & B2 & Vl & Vo & Vr & K1 & K2) Hr. unfold parse_key_op_value. cbv zeta.
  rewrite (eat_ws_exact p w0 _ B0 (vwf_hd_ws l _ Vl)).
  rewrite (pmv_accept l _ _ Vl).
  2:{ intros Hk. destruct (is_sym o) eqn:Es.
      - apply hd_no_blank; [exact ws_keyp|exact B1|]. now apply owf_hd_keyp_sym.
      - apply hd_no_blank_ne; [exact ws_keyp|exact B1|]. now apply K1. }
  rewrite (eat_ws_exact _ w1 _ B1 (owf_hd_ws o _ Vo)).
  rewrite (pmo_accept o _ _ Vo).
  2:{ destruct o as [t| |w]; cbn [op_follow]; [| |exact I].
      - apply hd_no_blank; [exact ws_symp|exact B2|]. now apply vwf_hd_symp.
      - destruct (is_key r) eqn:Ek.
        + apply hd_no_blank_ne; [exact ws_alp|exact B2|]. now apply K2.
        + destruct r as [s|q b]; [discriminate|]. apply hd_no_blank; [exact ws_alp|exact B2|].
          destruct Vr as ([-> | ->] & _); cbn [vsrc_text app hd_no]; cbv beta.
          * change (34 =? 34) with true. cbn [negb]. apply andb_false_r.
          * change (39 =? 39) with true. cbn [negb]. rewrite andb_false_r. reflexivity. }
  rewrite (eat_ws_exact _ w2 _ B2 (vwf_hd_ws r _ Vr)).
  rewrite (pmv_accept r _ _ Vr Hr).
  unfold typed_src. destruct (typed_of_cmp ws vparse specpat specver (vsrc_value l) (osrc_op o) (vsrc_value r)) as [e wk].
  cbn [fst snd]. apply pok_cur. tl.
Qed.

(** ** marker source trees with explicit blanks *)
Inductive msrc :=
| MCmp (w0 : text) (l : vsrc) (w1 : text) (o : osrc) (w2 : text) (r : vsrc)
| MParen (w0 : text) (inner : msrc) (w1 : text)      (* w0 "(" inner w1 ")" *)
| MAnd (a : msrc) (w : text) (b : msrc)              (* a w "and" b *)
| MOr (a : msrc) (w : text) (b : msrc).              (* a w "or" b *)

Fixpoint msrc_text (m : msrc) : text :=
  match m with
  | MCmp w0 l w1 o w2 r => w0 ++ vsrc_text l ++ w1 ++ osrc_text o ++ w2 ++ vsrc_text r
  | MParen w0 i w1 => w0 ++ [40] ++ msrc_text i ++ w1 ++ [41]
  | MAnd a w b => msrc_text a ++ w ++ AND ++ msrc_text b
  | MOr a w b => msrc_text a ++ w ++ OR ++ msrc_text b
  end.

Fixpoint ast_of (m : msrc) : mast :=
  match m with
  | MCmp _ l _ o _ r => AExpr (fst (typed_src l o r))
  | MParen _ i _ => ast_of i
  | MAnd a _ b => AAnd (ast_of a) (ast_of b)
  | MOr a _ b => AOr (ast_of a) (ast_of b)
  end.

Fixpoint warns_of (m : msrc) : list wkind :=
  match m with
  | MCmp _ l _ o _ r => snd (typed_src l o r)
  | MParen _ i _ => warns_of i
  | MAnd a _ b | MOr a _ b => warns_of a ++ warns_of b
  end.

(** the last token is a key (its scanner runs until a blank or one of [> = < ! ~ )]) *)
Fixpoint ends_key (m : msrc) : bool :=
  match m with
  | MCmp _ _ _ _ _ r => is_key r
  | MParen _ _ _ => false
  | MAnd _ _ b | MOr _ _ b => ends_key b
  end.

(** the text may directly follow a keyword: it starts with a blank, [(] or a quote *)
Fixpoint starts_ok (m : msrc) : Prop :=
  match m with
  | MCmp w0 l _ _ _ _ => w0 <> [] \/ is_key l = false
  | MParen _ _ _ => True
  | MAnd a _ _ | MOr a _ _ => starts_ok a
  end.

Definition atom (m : msrc) : Prop := match m with MCmp _ _ _ _ _ _ | MParen _ _ _ => True | _ => False end.
Definition andl (m : msrc) : Prop := match m with MOr _ _ _ => False | _ => True end.

(** well-formed sources: chains are left-nested ([a or b or c] is [MOr (MOr a _ b) _ c]), an [or]
    inside an [and] is parenthesised, and tokens that would otherwise be glued are separated *)
Fixpoint wf (m : msrc) : Prop :=
  match m with
  | MCmp w0 l w1 o w2 r => cmp_wf w0 l w1 o w2 r
  | MParen w0 i w1 => blank w0 /\ blank w1 /\ wf i
  | MAnd a w b => wf a /\ wf b /\ blank w /\ andl a /\ atom b /\ (ends_key a = true -> w <> []) /\ starts_ok b
  | MOr a w b => wf a /\ wf b /\ blank w /\ andl b /\ (ends_key a = true -> w <> []) /\ starts_ok b
  end.

Fixpoint paren_depth (m : msrc) : nat :=
  match m with
  | MCmp _ _ _ _ _ _ => 0
  | MParen _ i _ => S (paren_depth i)
  | MAnd a _ b | MOr a _ b => Nat.max (paren_depth a) (paren_depth b)
  end.

Lemma paren_depth_le m : (paren_depth m <= length (msrc_text m))%nat.
Proof.
  induction m as [w0 l w1 o w2 r|w0 i IH w1|a IHa w b IHb|a IHa w b IHb]; cbn [paren_depth msrc_text].
  - lia.
  - rewrite !app_length. cbn [length]. lia.
  - rewrite !app_length. lia.
  - rewrite !app_length. lia.
Qed.

Lemma starts_hd_wc m : wf m -> starts_ok m -> forall X, hd_no wc (msrc_text m ++ X).
Proof.
  induction m as [w0 l w1 o w2 r|w0 i IH w1|a IHa w b IHb|a IHa w b IHb]; cbn [wf starts_ok msrc_text]; intros W S X.
  - destruct W as (B0 & _ & _ & Vl & _). rewrite <- app_assoc. destruct w0 as [|x w0].
    + destruct S as [S|S]; [congruence|]. cbn [app]. rewrite <- app_assoc. now apply vwf_hd_wc_lit.
    + apply hd_no_blank_ne; [exact ws_wc|exact B0|discriminate].
  - destruct W as (B0 & _). rewrite <- app_assoc. apply hd_no_blank; [exact ws_wc|exact B0|].
    cbn [app hd_no]. unfold word_char. rewrite Halnum_delims by (cbn; tauto). reflexivity.
  - destruct W as (Wa & _). rewrite <- app_assoc. now apply IHa.
  - destruct W as (Wa & _). rewrite <- app_assoc. now apply IHa.
Qed.

(** ** what may follow *)
Definition fol_or (rest : text) : Prop := rest = [] \/ exists r', rest = 41 :: r'.
Definition word_at (k rest : text) : Prop := exists r', rest = k ++ r' /\ hd_no wc r'.
Definition fol_and (rest : text) : Prop := fol_or rest \/ word_at OR rest.

Definition nokw (kwd rest : text) : Prop := text_eqb (fst (take_while_aux wc rest)) kwd = false.

Lemma wc41 : wc 41 = false.
Proof. unfold word_char. rewrite Halnum_delims by (cbn; tauto). reflexivity. Qed.

Lemma fol_or_ws rest : fol_or rest -> hd_no ws rest.
Proof. intros [->|(r' & ->)]; [exact I|]. cbn. apply Hws_delims. cbn. tauto. Qed.

Lemma fol_or_keyp rest : fol_or rest -> hd_no keyp rest.
Proof. intros [->|(r' & ->)]; [exact I|]. cbn [hd_no]. apply andb_false_r. Qed.

Lemma fol_or_nokw kwd rest : kwd <> [] -> fol_or rest -> nokw kwd rest.
Proof.
  intros Hk [->|(r' & ->)]; unfold nokw; cbn [take_while_aux]; [|rewrite wc41]; cbn [fst];
    (destruct kwd; [congruence|reflexivity]).
Qed.

Lemma wc_kw x : In x [97; 110; 100; 111; 114] -> wc x = true.
Proof. intros H. unfold word_char. now rewrite (Halnum_kw x H). Qed.

Lemma AND_wc : forallb wc AND = true.
Proof. cbn [forallb]. rewrite !wc_kw by (cbn; tauto). reflexivity. Qed.
Lemma OR_wc : forallb wc OR = true.
Proof. cbn [forallb]. rewrite !wc_kw by (cbn; tauto). reflexivity. Qed.

Lemma fol_and_ws rest : fol_and rest -> hd_no ws rest.
Proof.
  intros [H|(r' & -> & _)]; [now apply fol_or_ws|]. cbn [app hd_no]. apply Hws_wc. apply wc_kw. cbn; tauto.
Qed.

Lemma fol_and_nokw rest : fol_and rest -> nokw AND rest.
Proof.
  intros [H|(r' & -> & Hr)]; [apply fol_or_nokw; [discriminate|exact H]|].
  unfold nokw. rewrite (twa_exact wc OR r' OR_wc Hr). reflexivity.
Qed.

(** ** the chain loop *)
Lemma chain_stop kwd is_and inner n acc wa p w rest : blank w -> hd_no ws rest -> nokw kwd rest ->
  PCHAIN kwd is_and inner (S n) acc wa {| c_pos := p; c_rest := w ++ rest |} =
  POk (acc, wa, {| c_pos := p + text_len w; c_rest := rest |}).
Proof.
  intros Hw Hr Hk. cbn [pchain]. cbv zeta. rewrite (eat_ws_exact p w rest Hw Hr).
  unfold c_peek_while. cbn [c_rest c_pos]. unfold nokw in Hk.
  destruct (take_while_aux wc rest) as [a b]. cbn [fst] in Hk. rewrite Hk. reflexivity.
Qed.

Lemma chain_step kwd is_and inner n acc wa p w Y : forallb wc kwd = true -> blank w -> hd_no ws (kwd ++ Y) -> hd_no wc Y ->
  PCHAIN kwd is_and inner (S n) acc wa {| c_pos := p; c_rest := w ++ kwd ++ Y |} =
  match inner {| c_pos := p + text_len w + text_len kwd; c_rest := Y |} with
  | PErr e => PErr e
  | POk (x, w', c2) => PCHAIN kwd is_and inner n (combine_dd is_and acc x) (wa ++ w') c2
  end.
Proof.
  intros Hk Hw Hh HY. cbn [pchain]. cbv zeta. rewrite (eat_ws_exact p w _ Hw Hh).
  rewrite (cpw_exact wc _ kwd Y Hk HY). unfold text_eqb. rewrite str_eqb_refl.
  rewrite (ctw_exact wc _ kwd Y Hk HY). reflexivity.
Qed.

(** ** the descent, relative to the recursive call [rec] used inside parentheses *)
Definition accepts (rec : cursor -> rty) (m : msrc) : Prop :=
  forall p w rest, blank w -> fol_or rest ->
  rec {| c_pos := p; c_rest := msrc_text m ++ w ++ rest |} =
  POk (compile_ast pv pfv (ast_of m), warns_of m, {| c_pos := p + text_len (msrc_text m ++ w); c_rest := rest |}).

Definition rec_ok (rec : cursor -> rty) (d : nat) : Prop :=
  forall m, wf m -> (paren_depth m < d)%nat -> accepts rec m.

Lemma pexpr_atom rec d m : rec_ok rec d -> wf m -> atom m -> (paren_depth m <= d)%nat ->
  forall p rest, (ends_key m = true -> hd_no keyp rest) ->
  PEXPR rec {| c_pos := p; c_rest := msrc_text m ++ rest |} =
  POk (compile_ast pv pfv (ast_of m), warns_of m, {| c_pos := p + text_len (msrc_text m); c_rest := rest |}).
Proof.
  intros Hrec W At D p rest Hr. destruct m as [w0 l w1 o w2 r|w0 i w1|a w b|a w b]; try contradiction.
  - cbn [wf ends_key msrc_text ast_of warns_of compile_ast] in *.
    pose proof W as (B0 & B1 & B2 & Vl & Vo & Vr & K1 & K2).
    unfold pexpr. cbv zeta. rewrite <- !app_assoc.
    rewrite (eat_ws_exact p w0 _ B0 (vwf_hd_ws l _ Vl)). rewrite (vwf_not40 l _ _ Vl).
    assert (W' : cmp_wf [] l w1 o w2 r).
    { split; [exact blank_nil|]. split; [exact B1|]. split; [exact B2|]. auto. }
    pose proof (pkov_accept [] l w1 o w2 r (p + text_len w0) rest W' Hr) as E. cbn [app] in E. rewrite E.
    apply pok_cur. tl.
  - cbn [wf paren_depth msrc_text ast_of warns_of] in *. destruct W as (B0 & B1 & Wi).
    unfold pexpr. cbv zeta. rewrite <- !app_assoc.
    rewrite (eat_ws_exact p w0 _ B0). 2:{ cbn [app hd_no]. apply Hws_delims. cbn; tauto. }
    unfold c_eat_char. cbn [app c_rest c_pos]. change (40 =? 40) with true. cbv iota.
    assert (F : fol_or (41 :: rest)) by (right; now exists rest).
    assert (D' : (paren_depth i < d)%nat) by lia.
    rewrite (Hrec i Wi D' _ w1 (41 :: rest) B1 F).
    unfold next_expect_char, c_next. cbn [c_rest c_pos]. change (41 =? 41) with true. cbv iota.
    apply pok_cur. tl.
Qed.

(** the [and] level: after the operands of [m] the loop is in the state that has accumulated [m] *)
Lemma pand_pref rec d m : rec_ok rec d -> wf m -> andl m -> (paren_depth m <= d)%nat ->
  forall p X, (ends_key m = true -> hd_no keyp X) ->
  exists n, (length X < n)%nat /\
  PAND rec {| c_pos := p; c_rest := msrc_text m ++ X |} =
  PCHAIN AND true (PEXPR rec) n (compile_ast pv pfv (ast_of m)) (warns_of m)
    {| c_pos := p + text_len (msrc_text m); c_rest := X |}.
Proof.
  intros Hrec. induction m as [w0 l w1 o w2 r|w0 i IH w1|a IHa w b IHb|a IHa w b IHb]; intros W Al D p X Hr.
  - exists (S (length X)). split; [lia|]. unfold pand.
    rewrite (pexpr_atom rec d _ Hrec W I D p X Hr). reflexivity.
  - exists (S (length X)). split; [lia|]. unfold pand.
    rewrite (pexpr_atom rec d _ Hrec W I D p X Hr). reflexivity.
  - clear IHb. cbn [wf] in W. destruct W as (Wa & Wb & Bw & Ala & Atb & Kw & Sb).
    cbn [paren_depth] in D. cbn [ends_key] in Hr.
    cbn [msrc_text]. rewrite <- !app_assoc.
    destruct (IHa Wa Ala ltac:(lia) p (w ++ AND ++ msrc_text b ++ X)) as (n & Hn & E).
    { intros Hk. apply hd_no_blank_ne; [exact ws_keyp|exact Bw|now apply Kw]. }
    rewrite E. destruct n as [|n]; [lia|].
    rewrite (chain_step AND true _ n _ _ _ w (msrc_text b ++ X) AND_wc Bw).
    2:{ cbn [app hd_no]. apply Hws_wc. apply wc_kw. cbn; tauto. }
    2:{ now apply starts_hd_wc. }
    rewrite (pexpr_atom rec d b Hrec Wb Atb ltac:(lia) _ X Hr).
    exists n. split.
    { rewrite !app_length in Hn. cbn [length] in Hn. lia. }
    cbn [ast_of warns_of compile_ast]. f_equal. apply cur_eq. tl.
  - contradiction.
Qed.

Lemma pand_accept rec d m : rec_ok rec d -> wf m -> andl m -> (paren_depth m <= d)%nat ->
  forall p w rest, blank w -> fol_and rest -> (ends_key m = true -> hd_no keyp (w ++ rest)) ->
  PAND rec {| c_pos := p; c_rest := msrc_text m ++ w ++ rest |} =
  POk (compile_ast pv pfv (ast_of m), warns_of m, {| c_pos := p + text_len (msrc_text m ++ w); c_rest := rest |}).
Proof.
  intros Hrec W Al D p w rest Bw F Hr.
  destruct (pand_pref rec d m Hrec W Al D p (w ++ rest) Hr) as (n & Hn & E). rewrite E.
  destruct n as [|n]; [lia|].
  rewrite (chain_stop AND true _ n _ _ _ w rest Bw (fol_and_ws rest F) (fol_and_nokw rest F)).
  apply pok_cur. tl.
Qed.

(** the [or] level *)
Lemma por_pref rec d m : rec_ok rec d -> wf m -> (paren_depth m <= d)%nat ->
  forall p w X, blank w -> fol_and X -> (ends_key m = true -> hd_no keyp (w ++ X)) ->
  exists n, (length X < n)%nat /\
  PORB rec {| c_pos := p; c_rest := msrc_text m ++ w ++ X |} =
  PCHAIN OR false (PAND rec) n (compile_ast pv pfv (ast_of m)) (warns_of m)
    {| c_pos := p + text_len (msrc_text m ++ w); c_rest := X |}.
Proof.
  intros Hrec. induction m as [w0 l w1 o w2 r|w0 i IH w1|a IHa w' b IHb|a IHa w' b IHb]; intros W D p w X Bw F Hr.
  - exists (S (length X)). split; [lia|]. unfold por_body.
    rewrite (pand_accept rec d _ Hrec W I D p w X Bw F Hr). reflexivity.
  - exists (S (length X)). split; [lia|]. unfold por_body.
    rewrite (pand_accept rec d _ Hrec W I D p w X Bw F Hr). reflexivity.
  - exists (S (length X)). split; [lia|]. unfold por_body.
    rewrite (pand_accept rec d _ Hrec W I D p w X Bw F Hr). reflexivity.
  - clear IHb. cbn [wf] in W. destruct W as (Wa & Wb & Bw' & Alb & Kw & Sb).
    cbn [paren_depth] in D. cbn [ends_key] in Hr.
    cbn [msrc_text]. rewrite <- !app_assoc.
    assert (HY : hd_no wc (msrc_text b ++ w ++ X)) by now apply starts_hd_wc.
    destruct (IHa Wa ltac:(lia) p w' (OR ++ msrc_text b ++ w ++ X) Bw') as (n & Hn & E).
    { right. exists (msrc_text b ++ w ++ X). split; [reflexivity|exact HY]. }
    { intros Hk. apply hd_no_blank_ne; [exact ws_keyp|exact Bw'|now apply Kw]. }
    rewrite E. destruct n as [|n]; [lia|].
    pose proof (chain_step OR false (PAND rec) n (compile_ast pv pfv (ast_of a)) (warns_of a)
                  (p + text_len (msrc_text a ++ w')) [] (msrc_text b ++ w ++ X) OR_wc blank_nil) as St.
    cbn [app] in St. cbn [app]. rewrite St; [|apply Hws_wc; apply wc_kw; cbn; tauto|exact HY]. clear St.
    rewrite (pand_accept rec d b Hrec Wb Alb ltac:(lia) _ w X Bw F Hr).
    exists n. split.
    { rewrite !app_length in Hn. cbn [length] in Hn. lia. }
    cbn [ast_of warns_of compile_ast]. f_equal. apply cur_eq. tl.
Qed.

Lemma por_accept rec d m : rec_ok rec d -> wf m -> (paren_depth m <= d)%nat -> accepts (PORB rec) m.
Proof.
  intros Hrec W D p w rest Bw F.
  destruct (por_pref rec d m Hrec W D p w rest Bw (or_introl F)) as (n & Hn & E).
  { intros _. apply hd_no_blank; [exact ws_keyp|exact Bw|now apply fol_or_keyp]. }
  rewrite E. destruct n as [|n]; [lia|].
  pose proof (chain_stop OR false (PAND rec) n (compile_ast pv pfv (ast_of m)) (warns_of m)
                (p + text_len (msrc_text m ++ w)) [] rest blank_nil (fol_or_ws rest F)) as St.
  cbn [app] in St. rewrite St; [|apply fol_or_nokw; [discriminate|exact F]].
  apply pok_cur. tl.
Qed.

(** ** the main lemma: any position, any sufficient fuel *)
Lemma parse_or_rec_ok : forall fuel, rec_ok (POR fuel) fuel.
Proof.
  induction fuel as [|f IH]; intros m W D; [lia|].
  intros p w rest Bw F. rewrite parse_or_S. apply (por_accept (POR f) f m IH W); [lia|exact Bw|exact F].
Qed.

Lemma parse_or_accept m p w rest fuel : wf m -> blank w -> (rest = [] \/ exists r', rest = 41 :: r') ->
  (paren_depth m < fuel)%nat ->
  POR fuel {| c_pos := p; c_rest := msrc_text m ++ w ++ rest |} =
  POk (compile_ast pv pfv (ast_of m), warns_of m, {| c_pos := p + text_len (msrc_text m ++ w); c_rest := rest |}).
Proof. intros W Bw F D. exact (parse_or_rec_ok fuel m W D p w rest Bw F). Qed.

(** ** the entry points *)
Lemma parse_markers_cursor_accept_pos m w p : wf m -> blank w ->
  PMC {| c_pos := p; c_rest := msrc_text m ++ w |} =
  POk (compile_ast pv pfv (ast_of m), warns_of m, {| c_pos := p + text_len (msrc_text m ++ w); c_rest := [] |}).
Proof.
  intros W Bw. unfold parse_markers_cursor. cbn [c_rest].
  assert (D : (paren_depth m < S (length (msrc_text m ++ w)))%nat).
  { pose proof (paren_depth_le m). rewrite app_length. lia. }
  pose proof (parse_or_accept m p w [] _ W Bw (or_introl eq_refl) D) as E.
  rewrite app_nil_r in E. rewrite E. cbv zeta.
  rewrite (eat_ws_stop _ [] I). unfold c_next. cbn [c_rest]. reflexivity.
Qed.

(** position independence, in the form the requirement-level theorem needs *)
Theorem parse_markers_cursor_accept m w p : wf m -> blank w -> exists cend,
  PMC {| c_pos := p; c_rest := msrc_text m ++ w |} = POk (compile_ast pv pfv (ast_of m), warns_of m, cend).
Proof. intros W Bw. eexists. now apply parse_markers_cursor_accept_pos. Qed.

Theorem parse_markers_accept m w : wf m -> blank w ->
  PM (msrc_text m ++ w) = POk (compile pv pfv (ast_of m), warns_of m).
Proof.
  intros W Bw. unfold parse_markers, c_new. rewrite (parse_markers_cursor_accept_pos m w 0 W Bw). reflexivity.
Qed.

(** white space and redundant parentheses are irrelevant: the result is a function of the typed tree
    and the warnings, neither of which mentions a blank or an [MParen] *)
Corollary parse_markers_skeleton m1 w1 m2 w2 : wf m1 -> blank w1 -> wf m2 -> blank w2 ->
  ast_of m1 = ast_of m2 -> warns_of m1 = warns_of m2 ->
  PM (msrc_text m1 ++ w1) = PM (msrc_text m2 ++ w2).
Proof.
  intros W1 B1 W2 B2 Ea Ew. rewrite (parse_markers_accept m1 w1 W1 B1), (parse_markers_accept m2 w2 W2 B2).
  now rewrite Ea, Ew.
Qed.

Corollary parse_markers_paren m w w0 w1 : wf m -> blank w -> blank w0 -> blank w1 ->
  PM (msrc_text (MParen w0 m w1) ++ w) = PM (msrc_text m ++ w).
Proof.
  intros W B B0 B1. apply parse_markers_skeleton; try assumption; try reflexivity.
  cbn [wf]. auto.
Qed.

End MarkerAccept.

Print Assumptions parse_or_accept.
Print Assumptions parse_markers_accept.
Print Assumptions parse_markers_cursor_accept.
Print Assumptions parse_markers_skeleton.
Print Assumptions parse_markers_paren.

(** ** non-vacuity: concrete ASCII oracles and
    [os_name=='a' and('b' in os_name or python_version >= "3")] *)
Module Example.
Definition ws0 (x : N) : bool := (x =? 32) || (x =? 9).
Definition alpha0 (x : N) : bool := ((65 <=? x) && (x <=? 90)) || ((97 <=? x) && (x <=? 122)).
Definition alnum0 (x : N) : bool := alpha0 x || ((48 <=? x) && (x <=? 57)).
Definition os_name : text := [111; 115; 95; 110; 97; 109; 101].
Definition python_version : text := [112; 121; 116; 104; 111; 110; 95; 118; 101; 114; 115; 105; 111; 110].
Definition kw0 : list (text * mvalue) := [(os_name, MVString 0); (python_version, MVVersion 0)].
Definition vparse0 : text -> option rawversion := fun _ => None.
Definition specpat0 : vop -> text -> option (vop * list N) := fun op s => Some (op, s).
Definition specver0 : vop -> text -> option (vop * list N) := fun op s => Some (op, s).

Lemma Hws_wc0 : forall x, word_char alnum0 x = true -> ws0 x = false.
Proof. intros x. unfold word_char, alnum0, alpha0, ws0. lia. Qed.
Lemma Hws_delims0 : forall x, In x [34; 39; 40; 41; 60; 61; 62; 126; 33] -> ws0 x = false.
Proof. intros x H. cbn [In] in H. unfold ws0. lia. Qed.
Lemma Hws_it0 : ws0 105 = false /\ ws0 116 = false.
Proof. split; reflexivity. Qed.
Lemma Halpha_in0 : alpha0 105 = true /\ alpha0 110 = true.
Proof. split; reflexivity. Qed.
Lemma Halpha_sym0 : forall x, In x [60; 61; 62; 126; 33] -> alpha0 x = false.
Proof. intros x H. cbn [In] in H. unfold alpha0. lia. Qed.
Lemma Halnum_kw0 : forall x, In x [97; 110; 100; 111; 114] -> alnum0 x = true.
Proof. intros x H. cbn [In] in H. unfold alnum0, alpha0. lia. Qed.
Lemma Halnum_delims0 : forall x, In x [40; 41; 34; 39] -> alnum0 x = false.
Proof. intros x H. cbn [In] in H. unfold alnum0, alpha0. lia. Qed.

Definition m0 : msrc :=
  MAnd (MCmp [] (VKey os_name) [] (OSym [61; 61]) [] (VLit 39 [97]))
       [32]
       (MParen []
          (MOr (MCmp [] (VLit 39 [98]) [32] OIn [32] (VKey os_name))
               [32]
               (MCmp [32] (VKey python_version) [32] (OSym [62; 61]) [32] (VLit 34 [51])))
          []).

(* os_name=='a' and('b' in os_name or python_version >= "3") *)
Definition text0 : text :=
  [111; 115; 95; 110; 97; 109; 101; 61; 61; 39; 97; 39; 32; 97; 110; 100; 40; 39; 98; 39; 32; 105; 110; 32;
   111; 115; 95; 110; 97; 109; 101; 32; 111; 114; 32; 112; 121; 116; 104; 111; 110; 95; 118; 101; 114; 115;
   105; 111; 110; 32; 62; 61; 32; 34; 51; 34; 41].

Example ex_text : msrc_text m0 = text0.
Proof. reflexivity. Qed.

Example ex_wf : wf ws0 kw0 m0.
Proof. vm_compute. intuition congruence. Qed.

Example ex_ast : ast_of ws0 kw0 vparse0 specpat0 specver0 m0 =
  AAnd (AExpr (Some (EString 0 SEq [97])))
       (AOr (AExpr (Some (EContains 0 [98] false))) (AExpr (Some (EVersion 0 OGe [51])))).
Proof. vm_compute. reflexivity. Qed.

Example ex_accept (pv pfv : N) :
  parse_markers ws0 alpha0 alnum0 kw0 vparse0 specpat0 specver0 pv pfv (text0 ++ [32; 9]) =
  POk (compile pv pfv (ast_of ws0 kw0 vparse0 specpat0 specver0 m0), warns_of ws0 kw0 vparse0 specpat0 specver0 m0).
Proof.
  rewrite <- ex_text.
  apply (parse_markers_accept ws0 alpha0 alnum0 kw0 vparse0 specpat0 specver0 pv pfv
           Hws_wc0 Hws_delims0 Hws_it0 Halpha_in0 Halpha_sym0 Halnum_kw0 Halnum_delims0 m0 [32; 9] ex_wf).
  reflexivity.
Qed.

(** the same by evaluation *)
Example ex_compute :
  parse_markers ws0 alpha0 alnum0 kw0 vparse0 specpat0 specver0 1 2 (text0 ++ [32; 9]) =
  POk (compile 1 2 (ast_of ws0 kw0 vparse0 specpat0 specver0 m0), []).
Proof. vm_compute. reflexivity. Qed.
End Example.

Print Assumptions Example.ex_accept.
