(** Extraction of the executable model for the correspondence check.
    Only [ExtrOcamlBasic] (bool, option, list, prod, unit, sumbool -> OCaml natives); [N], [positive],
    [comparison] stay the extracted inductive types; no [Extract Constant]. *)
From Coq Require Import Extraction ExtrOcamlBasic NArith List.
From PV Require Import Names.NameModel.
Extraction Language OCaml.
Separate Extraction
  N.add N.mul N.div_eucl N.eqb N.of_nat
  Names.NameModel.normalize_ref Names.NameModel.normalize_owned Names.NameModel.valid_name
  Names.NameModel.spec_norm Names.NameModel.dist_info Names.NameModel.spec_dist_info.
