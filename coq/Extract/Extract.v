(** Extraction of the executable model for the correspondence check.
    Only [ExtrOcamlBasic] (bool, option, list, prod, unit, sumbool -> OCaml natives); [N], [positive],
    [comparison], [sum] stay the extracted inductive types; no [Extract Constant]. *)
From Coq Require Import Extraction ExtrOcamlBasic NArith List.
From PV Require Import Marker.Sem508 Text.Cursor Text.MarkerParse Text.ReqParse Interner.Intern Interner.AndModel Interner.OpsModel Interner.DisjModel Interner.InternI Interner.EvalModel Interner.CmpModel Marker.CmpConcrete Names.NameModel Base.Order Base.CutDef DD.DDModel Marker.Concrete Marker.Expr Marker.ExtrasProofs Marker.DnfModel Marker.TopExtra Text.MarkerDisplay.
(* concrete instance for the driver (the generic function takes the order dictionaries) *)
Definition m_disjoint_i (fuel : nat) (a : Intern.marena) (x y : Store.nid) : bool := DisjModel.disjoint_i fuel a x y.
Extraction Language OCaml.
Separate Extraction
  N.add N.mul N.div_eucl N.eqb N.of_nat
  NameModel.normalize_ref NameModel.normalize_owned NameModel.valid_name
  NameModel.spec_norm NameModel.dist_info NameModel.spec_dist_info
  Concrete.m_and Concrete.m_or Concrete.m_not Concrete.m_disjoint Concrete.m_eval Concrete.m_wfb Concrete.m_eqb
  Concrete.m_simplify_extras Concrete.m_eval_extras Concrete.m_val_cmp Concrete.m_var_cmp
  Concrete.substring Concrete.is_range
  Sem508.sem508 Sem508.compile Sem508.env_of_penv MarkerParse.parse_markers MarkerParse.parse_expression ReqParse.parse_requirement ReqParse.parse_unnamed ReqParse.parse_extras_text ReqParse.expand ReqParse.split_scheme ReqParse.split_extras ReqParse.looks_like_archive ReqParse.strip_host ReqParse.display_req ReqParse.display_unnamed Intern.m_compl Intern.m_nodes Intern.mrun Intern.observe InternI.mstep_i InternI.init_i EvalModel.m_eval_i EvalModel.m_eval_extras_i EvalModel.eval_fuel CmpModel.m_cmp_i DisjModel.disjoint_i m_disjoint_i DnfModel.to_dnf TopExtra.top_level_extra MarkerDisplay.show_marker CmpConcrete.m_cmp Concrete.m_simplify_pv Concrete.m_complexify_pv Concrete.m_eval_extras_pv ExtrasProofs.m_with_extra
  Expr.expression Expr.spec_range Expr.normalize_spec Expr.strip.
