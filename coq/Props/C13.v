(** C13 — environment-free evaluation is a sound over-approximation. *)
From Coq Require Import List Bool NArith.
From PV Require Import Base.Order Base.CutDef DD.DDModel DD.DDBasics DD.DDAnd DD.DDWf DD.DDCanon DD.DDRestrict
  Marker.Concrete Marker.Expr Marker.Density Marker.ExtrasProofs Marker.ExprProofs.
Import ListNotations.
Open Scope N_scope.

Notation wfm := (wf (var:=var) (val:=val) is_range).

(** evaluate_extras(E) / evaluate_optional_environment(None, E): true whenever some environment satisfies the marker with extras E *)
Theorem C13_sound : forall (extras : list str) (t : mdd),
  (exists e : env, m_eval e extras t = true) -> m_eval_extras extras t = true.
Proof. exact eval_extras_sound. Qed.

(** for every valuation of the diagram variables that fixes the extras as E *)
Theorem C13_sound_valuation : forall (extras : list str) (t : mdd) (r : mvaluation),
  agrees r (extras_only extras) -> eval r t = true -> m_eval_extras extras t = true.
Proof. intros x t r A E. exact (eval_any_sound (extras_only x) t r A E). Qed.

(** exact on canonical diagrams when the diagram variables are independent *)
Theorem C13_exact : forall (extras : list str) (t : mdd), wfm t -> nice_pair t t ->
  m_eval_extras extras t = true ->
  exists r : mvaluation, tval is_range val_ok r /\ agrees r (extras_only extras) /\ eval r t = true.
Proof. exact eval_extras_exact. Qed.

(** evaluate_extras_and_python_version: the python_version key never labels a node, so the list is not consulted *)
Theorem C13_pv : forall (pvk : N) (pvs : list version) (extras : list str) (t : mdd),
  ~ occurs (VVersion pvk) t -> (exists e : env, m_eval e extras t = true) -> m_eval_extras_pv pvk pvs extras t = true.
Proof. exact eval_extras_pv_sound. Qed.

Theorem C13_no_pv_nodes : forall (pv pfv : N) (e : mexpr), pfv <> pv -> var_of (expression pv pfv e) <> Some (VVersion pv).
Proof. exact expression_no_pv. Qed.

Print Assumptions C13_sound.
Print Assumptions C13_sound_valuation.
Print Assumptions C13_exact.
Print Assumptions C13_pv.
Print Assumptions C13_no_pv_nodes.

(** ** on ids: [evaluate_extras] / [evaluate_extras_and_python_version] walk [kind()] on ids, trying every child of an
    environment variable ([Interner/EvalModel.v]); on every valid id they are the L1 evaluators of the theorems above *)
From PV Require Import Interner.Store Interner.StoreProofs Interner.Intern Interner.EvalModel Interner.EvalProofs.
Theorem C13_evaluate_extras_on_ids : forall (a : marena) (extras : list str) (fuel : nat) (x : nid),
  Inv a -> valid (length a) x -> (rank x < fuel)%nat ->
  m_eval_extras_i fuel a extras x = Some (m_eval_extras extras (unfold a x)).
Proof. exact m_eval_extras_i_refines. Qed.

Theorem C13_evaluate_extras_pv_on_ids : forall (a : marena) (pvk : N) (pvs : list version) (extras : list str), Inv a ->
  forall (fuel : nat) (x : nid), valid (length a) x -> (rank x < fuel)%nat ->
  m_eval_extras_pv_i fuel a pvk pvs extras x = Some (m_eval_extras_pv pvk pvs extras (unfold a x)).
Proof. exact m_eval_extras_pv_i_refines. Qed.
Print Assumptions C13_evaluate_extras_on_ids.
Print Assumptions C13_evaluate_extras_pv_on_ids.
