(** C12 — requires-python simplify / complexify preserve meaning inside the range.

    A range is a window of optional cuts (lower: Included v -> (v, Below), Excluded v -> (v, Above);
    upper: Included v -> (v, Above), Excluded v -> (v, Below)); bounds are arbitrary versions.
    [m_simplify_pv] / [m_complexify_pv] are the extracted functions compared with the crate;
    they are total (no unwrap / assert to fail), return the argument for an unbounded range and
    FALSE for an empty or inverted one (definitional: see DD/DDPyVer.v). *)
From Coq Require Import List Bool NArith.
From PV Require Import Base.Order Base.CutDef DD.DDModel DD.DDBasics DD.DDAnd DD.DDWf DD.DDWfOps DD.DDCanon DD.DDPyVer DD.DDPyVerProofs
  Marker.Concrete Marker.Density DD.DDPyVerLocal Marker.PyVerLocal.
Import ListNotations.

Notation okm := (ok (var:=var) (val:=val) is_range).
Notation wfm := (wf (var:=var) (val:=val) is_range).
Notation win := (window (val:=val)).

(** complexify(m, R) means m AND python_full_version in R ... *)
Theorem C12_complexify_sem : forall (pfv : N) (w : win) (t : mdd) (r : mvaluation),
  window_empty w = false -> okm t ->
  eval r (tcomplexify_pv (VVersion pfv) w t) = eval r t && in_win w (rv r (VVersion pfv)).
Proof. intros pfv w t r NE O. exact (proj2 (complexify_sem is_range (VVersion pfv) w eq_refl NE t O) r). Qed.

(** ... and is that marker, as the identical canonical diagram *)
Theorem C12_complexify_eq_and : forall (pfv : N) (w : win) (t : mdd), window_empty w = false -> wfm t ->
  nice_pair (tcomplexify_pv (VVersion pfv) w t) (m_and t (window_node (VVersion pfv) w)) ->
  tcomplexify_pv (VVersion pfv) w t = m_and t (window_node (VVersion pfv) w).
Proof.
  intros pfv w t NE W Hn.
  exact (complexify_eq_and is_range val_ok dflt dflt_ok (VVersion pfv) w t eq_refl NE W (nice_dense _ _ Hn)).
Qed.

(** simplify(m, R) agrees with m wherever python_full_version lies in R *)
Theorem C12_simplify_sem : forall (pfv : N) (w : win) (t : mdd) (r : mvaluation), okm t ->
  in_win w (rv r (VVersion pfv)) = true -> eval r (tsimplify_pv (VVersion pfv) w t) = eval r t.
Proof. intros pfv w t r O X. exact (proj2 (simplify_sem is_range (VVersion pfv) w t O) r X). Qed.

(** both keep diagrams canonical *)
Theorem C12_wf : forall (pfv : N) (w : win) (t : mdd), wfm t ->
  wfm (m_simplify_pv pfv w t) /\ wfm (m_complexify_pv pfv w t).
Proof.
  intros pfv w t W. unfold m_simplify_pv, m_complexify_pv, simplify_pv, complexify_pv. split.
  - destruct (unbounded w); auto. destruct (window_empty w); [constructor|]. now apply simplify_wf.
  - destruct (is_false t || unbounded w); auto. destruct (window_empty w) eqn:NE; [constructor|].
    now apply (complexify_wf is_range (VVersion pfv) w eq_refl NE).
Qed.

(** the composition laws, pointwise *)
Theorem C12_simplify_complexify : forall (pfv : N) (w : win) (t : mdd) (r : mvaluation),
  window_empty w = false -> okm t -> in_win w (rv r (VVersion pfv)) = true ->
  eval r (tsimplify_pv (VVersion pfv) w (tcomplexify_pv (VVersion pfv) w t)) = eval r (tsimplify_pv (VVersion pfv) w t).
Proof. intros pfv w t r NE O X. exact (simplify_complexify_sem is_range (VVersion pfv) w t r eq_refl NE O X). Qed.

Theorem C12_complexify_simplify : forall (pfv : N) (w : win) (t : mdd) (r : mvaluation),
  window_empty w = false -> okm t ->
  eval r (tcomplexify_pv (VVersion pfv) w (tsimplify_pv (VVersion pfv) w t)) = eval r (tcomplexify_pv (VVersion pfv) w t).
Proof. intros pfv w t r NE O. exact (complexify_simplify_sem is_range (VVersion pfv) w t r eq_refl NE O). Qed.

(** empty and inverted ranges: every marker becomes FALSE under both operations (constants under complexify excepted as in the crate) *)
Theorem C12_empty : forall (pfv : N) (w : win) (t : mdd), unbounded w = false -> window_empty w = true ->
  m_simplify_pv pfv w t = Leaf false /\ (is_false t = false -> m_complexify_pv pfv w t = Leaf false).
Proof.
  intros pfv w t U E. unfold m_simplify_pv, m_complexify_pv, simplify_pv, complexify_pv. rewrite U, E. split; [reflexivity|].
  intros ->. reflexivity.
Qed.


(** ** simplify depends only on the marker's behaviour inside the range; the composition laws as identities.
    [release_only c]: the cut is at a final release (what the crate's release-only normalisation of marker
    specifiers guarantees for every cut of a reachable diagram; requires-python bounds must satisfy it too here);
    [nice_pair]: the density side condition of canonicity (Marker/Density.v). *)
Theorem C12_simplify_local : forall (pfv : N) (w : win) (a b : mdd), wfm a -> wfm b ->
  (forall c, In c (wcuts w) -> release_only c) -> nice_pair a b ->
  (forall r : mvaluation, tval is_range val_ok r -> in_win w (rv r (VVersion pfv)) = true -> eval r a = eval r b) ->
  m_simplify_pv pfv w a = m_simplify_pv pfv w b.
Proof. exact C12_m_simplify_local. Qed.

Theorem C12_laws_as_identities : forall (pfv : N) (w : win) (t : mdd), wfm t ->
  (unbounded w = false -> window_empty w = false -> nice_pair t (window_node (VVersion pfv) w)) ->
  m_simplify_pv pfv w (m_complexify_pv pfv w t) = m_simplify_pv pfv w t /\
  m_complexify_pv pfv w (m_simplify_pv pfv w t) = m_complexify_pv pfv w t.
Proof. exact C12_m_laws_src. Qed.

(** outside the range the simplified marker takes a value it takes inside *)
Theorem C12_outside_is_inside : forall (pfv : N) (w : win) (t : mdd), window_empty w = false -> wfm t ->
  (forall c, In c (wcuts w ++ all_cuts (VVersion pfv) t) -> release_only c) ->
  forall r : mvaluation, exists x' : val,
    in_win w x' = true /\
    (tval is_range val_ok r -> tval is_range val_ok (upd_r r (VVersion pfv) x')) /\
    eval r (tsimplify_pv (VVersion pfv) w t) = eval (upd_r r (VVersion pfv) x') (tsimplify_pv (VVersion pfv) w t) /\
    eval r (tsimplify_pv (VVersion pfv) w t) = eval (upd_r r (VVersion pfv) x') t.
Proof. exact C12_simplify_outside. Qed.

(** without the release-only proviso the locality claim fails in the model: a cut at the immediate successor of
    3.8 in the version order (a non-final version, which the crate's normalisation never puts into a diagram) and the
    range `> 3.8`; the composition laws still hold on it *)
Theorem C12_local_refuted_off_release_only :
  m_wfb cex_a = true /\ window_empty cex_w = false /\
  (forall r : mvaluation, in_win cex_w (rv r PFV) = true -> eval r cex_a = eval r (Leaf false)) /\
  tsimplify_pv PFV cex_w cex_a <> tsimplify_pv PFV cex_w (Leaf false).
Proof. destruct C12_local_counterexample as (A & B & C & _ & _ & _ & D & _). auto. Qed.

Example C12_example : (* os_name == 'a' complexified with >= 3.8: the version node goes on top *)
  let t : mdd := RNode (VString 1) (Leaf false) [((inr [97%N], Below), Leaf true); ((inr [97%N], Above), Leaf false)] in
  let w : win := (Some (inl (0%N, ([3%N; 8%N], FINAL)), Below), None) in
  m_wfb t = true /\ var_of (m_complexify_pv 1 w t) = Some (VVersion 1) /\ m_wfb (m_complexify_pv 1 w t) = true.
Proof. vm_compute. repeat split; reflexivity. Qed.

Print Assumptions C12_complexify_sem.
Print Assumptions C12_complexify_eq_and.
Print Assumptions C12_simplify_sem.
Print Assumptions C12_wf.
Print Assumptions C12_simplify_complexify.
Print Assumptions C12_complexify_simplify.
Print Assumptions C12_empty.
Print Assumptions C12_simplify_local.
Print Assumptions C12_laws_as_identities.
Print Assumptions C12_outside_is_inside.
Print Assumptions C12_local_refuted_off_release_only.

(** ** simplify / complexify on ids ([simplify_pv_i], [complexify_pv_i], Interner/OpsModel.v: the raw-children arms at
    the python_full_version node with re-complementation, the explicit always-false child tests, the conjunction
    arm through [and_i]): the id returned is exactly the id of the interned L1 result, in every reachable store *)
From PV Require Import Interner.Store Interner.StoreProofs Interner.Intern Interner.AndModel Interner.AndProofs Interner.OpsModel Interner.OpsProofs.
Theorem C12_simplify_on_ids : forall (fuel : nat) (pfv : N) (w : win) (s : ist (var:=var) (val:=val)) (x : nid),
  SOKwf is_range s -> valid (length (fst s)) x -> (rank x < fuel)%nat ->
  let '(s', r) := simplify_pv_i fuel (VVersion pfv) w s x in
  SOKwf is_range s' /\ intern (fst s') (m_simplify_pv pfv w (unfold (fst s) x)) = (fst s', r).
Proof. exact simplify_pv_i_refines. Qed.
Theorem C12_complexify_on_ids : forall (fuel : nat) (pfv : N) (w : win) (s : ist (var:=var) (val:=val)) (x : nid),
  SOKwf is_range s -> valid (length (fst s)) x -> (rank x < fuel)%nat ->
  let '(s', r) := complexify_pv_i fuel (VVersion pfv) w s x in
  SOKwf is_range s' /\ intern (fst s') (m_complexify_pv pfv w (unfold (fst s) x)) = (fst s', r).
Proof. exact complexify_pv_i_refines. Qed.
Print Assumptions C12_simplify_on_ids.
Print Assumptions C12_complexify_on_ids.
