(** C11 — extras: matching, simplify_extras, with_extra_marker, top_level_extra. *)
From Coq Require Import List Bool NArith.
From PV Require Import Base.Order Base.CutDef DD.DDModel DD.DDBasics DD.DDAnd DD.DDWf DD.DDRestrict
  Marker.Concrete Marker.Expr Marker.ExtrasProofs.
Import ListNotations.
Open Scope N_scope.

Notation okm := (ok (var:=var) (val:=val) is_range).
Notation wfm := (wf (var:=var) (val:=val) is_range).

Theorem C11_extra_sem : forall (pv pfv : N) (e : env) (extras : list str) (name : str),
  m_eval e extras (expression pv pfv (EExtra false false name)) = existsb (str_eqb name) extras /\
  m_eval e extras (expression pv pfv (EExtra false true name)) = false /\
  (forall arb, expression pv pfv (EExtra true arb name) = m_not (expression pv pfv (EExtra false arb name))).
Proof. exact extra_sem. Qed.

(** evaluates on S as the original does on S ∪ E, for every environment *)
Theorem C11_simplify_extras_sem : forall (E S : list str) (e : env) (t : mdd), okm t ->
  okm (m_simplify_extras E t) /\ m_eval e S (m_simplify_extras E t) = m_eval e (E ++ S) t.
Proof. exact simplify_extras_sem. Qed.

(** no longer depends on any extra in E: the variable is gone from the diagram ... *)
Theorem C11_simplify_extras_indep : forall (E : list str) (t : mdd) (s : str), typed is_range t ->
  existsb (str_eqb s) E = true -> ~ occurs (VExtra false s) (m_simplify_extras E t).
Proof. exact simplify_extras_indep. Qed.

(** ... hence flipping that extra does not change any evaluation *)
Theorem C11_simplify_extras_indep_sem : forall (E : list str) (t : mdd) (s : str) (r : mvaluation) (b : bool),
  typed is_range t -> existsb (str_eqb s) E = true ->
  eval (DDCanon.upd_b r (VExtra false s) b) (m_simplify_extras E t) = eval r (m_simplify_extras E t).
Proof. intros E t s r b Ty I. apply not_occurs_indep. now apply simplify_extras_indep. Qed.

Theorem C11_simplify_extras_wf : forall (E : list str) (t : mdd), wfm t -> wfm (m_simplify_extras E t).
Proof. exact simplify_extras_wf. Qed.

Theorem C11_with_extra : forall (pv pfv : N) (t : mdd) (name : str) (e : env) (extras : list str), okm t ->
  m_eval e extras (m_with_extra pv pfv t name) = m_eval e extras t && existsb (str_eqb name) extras.
Proof. exact with_extra_sem. Qed.

Example C11_example : (* two provided extras on one path *)
  let t : mdd := BNode (VExtra false [97]) (BNode (VExtra false [98]) (Leaf true) (Leaf false)) (Leaf false) in
  m_wfb t = true /\ m_simplify_extras [[97]; [98]] t = Leaf true.
Proof. vm_compute. split; reflexivity. Qed.

Print Assumptions C11_extra_sem.
Print Assumptions C11_simplify_extras_sem.
Print Assumptions C11_simplify_extras_indep.
Print Assumptions C11_simplify_extras_indep_sem.
Print Assumptions C11_simplify_extras_wf.
Print Assumptions C11_with_extra.

(** ** [restrict] on ids ([restrict_i], Interner/OpsModel.v: Edges::map with complemented edges, create_node):
    the id it returns is exactly the id of the interned L1 result, in every reachable store *)
From PV Require Import Interner.Store Interner.StoreProofs Interner.Intern Interner.AndModel Interner.AndProofs Interner.OpsModel Interner.OpsProofs.
Theorem C11_simplify_extras_on_ids : forall (fuel : nat) (E : list str) (s : ist (var:=var) (val:=val)) (x : nid),
  SOKwf is_range s -> valid (length (fst s)) x -> (rank x < fuel)%nat ->
  let '(s', r) := restrict_i fuel (extras_present E) s x in
  SOKwf is_range s' /\ intern (fst s') (m_simplify_extras E (unfold (fst s) x)) = (fst s', r).
Proof. exact restrict_i_refines_wf. Qed.
Print Assumptions C11_simplify_extras_on_ids.

(** ** [top_level_extra] (Marker/TopExtra.v: the loop of src/marker/tree.rs over the model's [to_dnf]):
    it returns [extra == e] only if that expression holds in every satisfying assignment; for a valid name the
    name is then among the active extras, and an invalid (never-matching) name is returned only for markers
    that nothing satisfies *)
From PV Require Import Marker.DnfModel Marker.DnfProofs Marker.TopExtra.
Theorem C11_top_level_extra_in_every_clause : forall (d : dnf) (e : mexpr),
  top_level_extra_dnf d = Some e ->
  (exists (arbitrary : bool) (name : str), e = EExtra false arbitrary name) /\ (forall c, In c d -> In e c).
Proof. exact top_level_extra_in_every_clause. Qed.

Theorem C11_top_level_extra_sound : forall (pv pfv : N) (t : mdd) (e : mexpr),
  wfm t -> renderable_dd pv t = true -> top_level_extra t = Some e ->
  forall en extras, m_eval en extras t = true -> m_eval en extras (expression pv pfv e) = true.
Proof. exact top_level_extra_sound_all. Qed.

Theorem C11_top_level_extra_active : forall (pv pfv : N) (t : mdd) (name : str),
  wfm t -> renderable_dd pv t = true -> t <> Leaf true ->
  top_level_extra t = Some (EExtra false false name) ->
  forall (en : env) (extras : list str), m_eval en extras t = true ->
    existsb (str_eqb name) extras = true /\ In name extras.
Proof. exact top_level_extra_active. Qed.

Theorem C11_top_level_extra_invalid_name : forall (pv pfv : N) (t : mdd) (name : str),
  wfm t -> renderable_dd pv t = true -> t <> Leaf true ->
  top_level_extra t = Some (EExtra false true name) ->
  forall (en : env) (extras : list str), m_eval en extras t = false.
Proof. exact top_level_extra_arbitrary_unsat. Qed.

Theorem C11_top_level_extra_constants : top_level_extra (Leaf false) = None /\ top_level_extra (Leaf true) = None.
Proof. split; [exact top_level_extra_false | exact top_level_extra_true]. Qed.
Print Assumptions C11_top_level_extra_in_every_clause.
Print Assumptions C11_top_level_extra_sound.
Print Assumptions C11_top_level_extra_active.
Print Assumptions C11_top_level_extra_invalid_name.
Print Assumptions C11_top_level_extra_constants.
