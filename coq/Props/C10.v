(** C10 — python_version comparisons behave as PEP 440 on the major.minor version.

    [spec_holds] / [spec_in] (Marker/Spec.v) are the direct PEP 440 reading on release segments;
    [expression] is the model of InternerGuard::expression that is extracted and compared with the
    crate on the typed expressions the crate itself produces.  [pv], [pfv] are the indices of the
    python_version / python_full_version keys.  The carve-out of the property (wildcard or in-list
    member with more than two release segments) is [carved_out] / the length hypothesis of
    [C10_in_list]; the negation clauses hold for every literal. *)
From Coq Require Import List Bool NArith.
From PV Require Import Base.Order Base.CutDef DD.DDModel DD.DDBasics DD.DDWf Marker.Concrete Marker.Expr Marker.Spec
  Marker.RangeProofs Marker.SpecProofs Marker.PvProofs Marker.ExprProofs.
Import ListNotations.
Open Scope N_scope.

Theorem C10_pv_spec : forall (pv pfv : N) (op : vop) (rel : list N) (r : mvaluation) (X Y Z : N),
  rel <> [] -> (op = OTilde -> (2 <= length rel)%nat) -> ~ carved_out op rel ->
  rv r (VVersion pfv) = final_version [X; Y; Z] ->
  eval r (expression pv pfv (EVersion pv op rel)) = spec_holds op [X; Y] rel.
Proof. exact pv_spec. Qed.

Theorem C10_in_list : forall (pv pfv : N) (vs : list rawversion) (negated : bool) (r : mvaluation) (X Y Z : N),
  (forall v, In v vs -> release_of v <> [] /\ (length (release_of v) <= 2)%nat) ->
  rv r (VVersion pfv) = final_version [X; Y; Z] ->
  eval r (expression pv pfv (EVersionIn pv vs negated)) = spec_in [X; Y] (map release_of vs) negated.
Proof. exact pv_in_spec. Qed.

Theorem C10_not_in_is_negation : forall (pv pfv k : N) (vs : list rawversion),
  expression pv pfv (EVersionIn k vs true) = m_not (expression pv pfv (EVersionIn k vs false)).
Proof. exact notin_neg. Qed.

Theorem C10_ne_is_negation : forall (pv pfv k : N) (rel : list N),
  expression pv pfv (EVersion k ONe rel) = m_not (expression pv pfv (EVersion k OEq rel)).
Proof. exact ne_neg. Qed.

(** it is the same diagram as the python_full_version expression with that meaning *)
Theorem C10_as_pfv : forall (pv pfv : N) (op op' : vop) (rel rel' : list N), pfv <> pv ->
  pv_to_pfv op (normalize_spec op rel) = inl (op', rel') ->
  expression pv pfv (EVersion pv op rel) = expression pv pfv (EVersion pfv op' rel').
Proof. exact pv_as_pfv. Qed.

(** the meaning of a specifier range, for any version key compared directly *)
Theorem C10_range_correct : forall (op : vop) (rel lhs : list N),
  rel <> [] -> (op = OTilde -> (2 <= length rel)%nat) ->
  in_range (spec_range op (normalize_spec op rel)) (final_version lhs) = spec_holds op lhs rel.
Proof. exact range_correct. Qed.

(** PEP 440 zero padding is the order the diagrams use *)
Theorem C10_padding : forall a b : list N, rel_cmp a b = cmp (strip a) (strip b).
Proof. exact rel_cmp_strip. Qed.

Example C10_example : (* python_version > '3.7' on 3.8.0 and on 3.7.9, and python_version ~= '3.7.0' on 3.8.0 *)
  let r x y z : mvaluation := {| rv := fun _ => final_version [x; y; z]; bv := fun _ => false |} in
  eval (r 3 8 0) (expression 2 1 (EVersion 2 OGt [3; 7])) = true /\
  eval (r 3 7 9) (expression 2 1 (EVersion 2 OGt [3; 7])) = false /\
  eval (r 3 8 0) (expression 2 1 (EVersion 2 OTilde [3; 7; 0])) = false.
Proof. vm_compute. repeat split; reflexivity. Qed.

Print Assumptions C10_pv_spec.
Print Assumptions C10_in_list.
Print Assumptions C10_not_in_is_negation.
Print Assumptions C10_ne_is_negation.
Print Assumptions C10_as_pfv.
Print Assumptions C10_range_correct.
Print Assumptions C10_padding.
