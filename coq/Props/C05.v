(** C05 — marker text round trip (Display / serialize then parse), and the DNF.

    The DNF printer of src/marker/simplify.rs is modelled (Marker/DnfModel.v: [collect_edges],
    [range_inequality], [star_range_inequality], [release_only_specifiers] with pep440's
    [from_release_only_bounds], [MarkerOperator::from_bounds], [collect_dnf], [is_negation] with both
    negation tables, [simplify] loop for loop, [to_dnf]) and proved to denote the marker, for every
    well-formed diagram whose version cuts are final releases and which is not TRUE (the crate tests
    [is_true] first and renders nothing): [C05_to_dnf_sem]; recompiling the clauses with the proved
    operations evaluates like the marker ([C05_to_dnf_recompile]) and, by canonicity, IS the marker
    ([C05_to_dnf_identity], density proviso of C03).  Every diagram the parser builds qualifies
    ([C05_compiled]).  The clause simplifier by itself is NOT sound for all inputs: it compares versions
    modulo trailing zeros while `V.*`, `~= V` and in-lists depend on the number of segments
    ([C05_simplify_unsound_in_general]: a DNF no path collection ever produces); it is sound on what
    [collect_dnf] produces ([C05_simplify_plain]).
    Text: the rendering of one comparison and the re-parse are the subject of C01 (text acceptance),
    C17 (typed dispatch) and of the per-case round trip in the check; PEP 440 version text is an oracle. *)
From Coq Require Import List Bool NArith.
From PV Require Import Base.Order Base.CutDef DD.DDModel DD.DDBasics DD.DDWf DD.DDPaths Marker.Concrete Marker.Expr Marker.Density Marker.Sem508
  Marker.DnfModel Marker.DnfProofs Text.Cursor Text.MarkerParse Text.MarkerAccept Text.MarkerDisplay Text.MarkerDisplayProofs.
Import ListNotations.
Open Scope N_scope.

Theorem C05_paths : forall (r : mvaluation) (t : mdd), sorted t -> sat r (paths t) = eval r t.
Proof. exact paths_sem. Qed.

(** no path, no model: FALSE has no clause, TRUE has the empty clause *)
Theorem C05_constants : paths (Leaf false : mdd) = [] /\ paths (Leaf true : mdd) = [[]].
Proof. split; reflexivity. Qed.

(** the clauses returned by to_dnf() denote the marker *)
Theorem C05_to_dnf_sem : forall (pv pfv : N) (en : env) (extras : list str) (t : mdd),
  wfm t -> renderable_dd pv t = true -> t <> Leaf true ->
  eval_dnf pv pfv en extras (to_dnf t) = m_eval en extras t.
Proof. exact to_dnf_sem. Qed.

(** ... for every valuation of the diagram variables, through the proved operations ... *)
Theorem C05_to_dnf_recompile : forall (pv pfv : N) (t : mdd), wfm t -> renderable_dd pv t = true -> t <> Leaf true ->
  forall ro : mvaluation, eval ro (recompile_dnf pv pfv (to_dnf t)) = eval ro t.
Proof. exact to_dnf_roundtrip_sem. Qed.

(** ... and as the identical canonical diagram *)
Theorem C05_to_dnf_identity : forall (pv pfv : N) (t : mdd), wfm t -> renderable_dd pv t = true -> t <> Leaf true ->
  nice_pair (recompile_dnf pv pfv (to_dnf t)) t -> recompile_dnf pv pfv (to_dnf t) = t.
Proof. exact to_dnf_roundtrip_id. Qed.

(** every marker the parser builds is in scope *)
Theorem C05_compiled : forall (pv pfv : N) (a : mast) (en : env) (extras : list str), pfv <> pv -> compile pv pfv a <> Leaf true ->
  eval_dnf pv pfv en extras (to_dnf (compile pv pfv a)) = m_eval en extras (compile pv pfv a).
Proof. exact C05_to_dnf. Qed.

(** the clause simplifier: sound on plain terms (what collect_dnf produces) ... *)
Theorem C05_simplify_plain : forall (pv pfv : N) (en : env) (extras : list str) (d : dnf), plain_dnf d ->
  eval_dnf pv pfv en extras (simplify d) = eval_dnf pv pfv en extras d.
Proof. exact simplify_sem_plain. Qed.

Print Assumptions C05_paths.
Print Assumptions C05_constants.
Print Assumptions C05_to_dnf_sem.
Print Assumptions C05_to_dnf_recompile.
Print Assumptions C05_to_dnf_identity.
Print Assumptions C05_compiled.
Print Assumptions C05_simplify_plain.


(** ** the text: [show_marker] is `Display for MarkerTreeContents` (Text/MarkerDisplay.v: the DNF with ` and `, ` or `,
    parentheses around multi-term clauses, `quoted`, the star forms, `'v' in key`); the printed text of every
    non-constant well-formed diagram parses back, without warnings, to the identical diagram - provided each printed
    comparison re-parses to itself ([term_ok]: proved outright for string, in, contains and normalised-extra
    comparisons - [term_ok_string] etc. - and reduced to the PEP 440 text round trip of the version oracle for version
    comparisons), under the density proviso of C03.  FALSE (printed as `python_version < '0'`), deprecated key spellings,
    values containing both quote characters, `===` and arbitrary extras are outside [term_ok] - the carve-outs of the
    property (the parser never produces a value with both quotes: [pmv_quoted_one_kind]). *)
Section Text.
Variables ws alpha alnum : N -> bool.
Variable kw : list (text * mvalue).
Variable vparse : text -> option rawversion.
Variables specpat specver : vop -> text -> option (vop * list N).
Variables pv pfv : N.
Variables vkey_text skey_text : N -> text.
Variable vshow : list N -> text.
Variable vshow_raw : rawversion -> text.
Hypothesis Hws_wc : forall x, word_char alnum x = true -> ws x = false.
Hypothesis Hws_delims : forall x, In x [34; 39; 40; 41; 60; 61; 62; 126; 33] -> ws x = false.
Hypothesis Hws_it : ws 105 = false /\ ws 116 = false.
Hypothesis Halpha_in : alpha 105 = true /\ alpha 110 = true.
Hypothesis Halpha_sym : forall x, In x [60; 61; 62; 126; 33] -> alpha x = false.
Hypothesis Halnum_kw : forall x, In x [97; 110; 100; 111; 114] -> alnum x = true.
Hypothesis Halnum_delims : forall x, In x [40; 41; 34; 39] -> alnum x = false.
Hypothesis Hws_space : ws 32 = true.

Theorem C05_text_roundtrip (t : mdd) : wfm t -> renderable_dd pv t = true -> t <> Leaf true -> t <> Leaf false ->
  Forall (Forall (term_ok ws kw vparse specpat specver vkey_text skey_text vshow vshow_raw)) (to_dnf t) ->
  nice_pair (recompile_dnf pv pfv (to_dnf t)) t ->
  exists txt, show_marker vkey_text skey_text vshow vshow_raw pv t = Some txt /\
              parse_markers ws alpha alnum kw vparse specpat specver pv pfv txt = POk (t, []).
Proof.
  exact (marker_text_roundtrip ws alpha alnum kw vparse specpat specver pv pfv vkey_text skey_text vshow vshow_raw
           Hws_wc Hws_delims Hws_it Halpha_in Halpha_sym Halnum_kw Halnum_delims Hws_space t).
Qed.
End Text.
Print Assumptions C05_text_roundtrip.

(** ... but not on arbitrary clause lists (witnesses by computation in Marker/DnfProofs.v) *)
Check simplify_unsound_star_negation.
Check simplify_unsound_tilde_equality.
Check simplify_unsound_in_equality.

(** ** the crate renders and computes the DNF by walking [kind()] on ids, never on an unfolded diagram
    ([Interner/KindWalk.v]): rebuilding the diagram from the views of a valid id gives exactly the diagram the id
    denotes, so every observation that is a function of what such a walk sees - [to_dnf], Display - is that function
    of the diagram, to which the theorems above apply. *)
From PV Require Import Interner.Store Interner.StoreProofs Interner.Intern Interner.EvalModel Interner.KindWalk.
Theorem C05_walk_is_the_diagram : forall (a : marena) (x : nid), Inv a -> valid (List.length a) x ->
  forall (A : Type) (f : mdd -> A), option_map f (m_expand_i a x) = Some (f (unfold a x)).
Proof. exact m_walk_observation. Qed.

Theorem C05_to_dnf_on_ids : forall (a : marena) (x : nid), Inv a -> valid (List.length a) x ->
  option_map DnfModel.to_dnf (m_expand_i a x) = Some (DnfModel.to_dnf (unfold a x)).
Proof. exact to_dnf_i_unfold. Qed.
Print Assumptions C05_walk_is_the_diagram.
Print Assumptions C05_to_dnf_on_ids.
