(** C05 — marker text round trip (Display / serialize then parse), and the DNF.

    Proved: a diagram is the disjunction of its root-to-TRUE paths ([paths_sem]) - the structure that
    [collect_dnf] walks.  The per-edge encodings of ranges as comparison expressions and the heuristic
    simplifier of src/marker/simplify.rs are NOT modelled; instead every DNF / text the crate renders in the
    check is recompiled with the proved operations ([compile], C01/C02) and must give back the identical
    diagram (canonicity, C03): a per-instance validation, not a universal theorem about the simplifier. *)
From Coq Require Import List Bool NArith.
From PV Require Import Base.Order Base.CutDef DD.DDModel DD.DDBasics DD.DDPaths Marker.Concrete.
Import ListNotations.

Theorem C05_paths : forall (r : mvaluation) (t : mdd), sorted t -> sat r (paths t) = eval r t.
Proof. exact paths_sem. Qed.

(** no path, no model: FALSE has no clause, TRUE has the empty clause *)
Theorem C05_constants : paths (Leaf false : mdd) = [] /\ paths (Leaf true : mdd) = [[]].
Proof. split; reflexivity. Qed.

Print Assumptions C05_paths.
Print Assumptions C05_constants.
