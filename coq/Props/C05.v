(** C05 — marker text round trip (Display / serialize then parse), and the DNF.

    The DNF printer of src/marker/simplify.rs is modelled (Marker/DnfModel.v: [collect_edges],
    [range_inequality], [star_range_inequality], [release_only_specifiers] with pep440's
    [from_release_only_bounds], [MarkerOperator::from_bounds], [collect_dnf], [is_negation] with both
    negation tables, [simplify] loop for loop, [to_dnf]) and proved to denote the marker, for every
    well-formed diagram whose version cuts are final releases and which is not TRUE (the crate tests
    [is_true] first and renders nothing): [C05_to_dnf_sem]; recompiling the clauses with the proved
    operations evaluates like the marker ([C05_to_dnf_recompile]) and, by canonicity, IS the marker
    ([C05_to_dnf_identity], density proviso of C03).  Every diagram the parser builds qualifies
    ([C05_compiled]).  The clause simplifier by itself is NOT sound for all inputs: it compares versions
    modulo trailing zeros while `V.*`, `~= V` and in-lists depend on the number of segments
    ([C05_simplify_unsound_in_general]: a DNF no path collection ever produces); it is sound on what
    [collect_dnf] produces ([C05_simplify_plain]).
    Text: the rendering of one comparison and the re-parse are the subject of C01 (text acceptance),
    C17 (typed dispatch) and of the per-case round trip in the check; PEP 440 version text is an oracle. *)
From Coq Require Import List Bool NArith.
From PV Require Import Base.Order Base.CutDef DD.DDModel DD.DDBasics DD.DDWf DD.DDPaths Marker.Concrete Marker.Expr Marker.Density Marker.Sem508
  Marker.DnfModel Marker.DnfProofs.
Import ListNotations.
Open Scope N_scope.

Theorem C05_paths : forall (r : mvaluation) (t : mdd), sorted t -> sat r (paths t) = eval r t.
Proof. exact paths_sem. Qed.

(** no path, no model: FALSE has no clause, TRUE has the empty clause *)
Theorem C05_constants : paths (Leaf false : mdd) = [] /\ paths (Leaf true : mdd) = [[]].
Proof. split; reflexivity. Qed.

(** the clauses returned by to_dnf() denote the marker *)
Theorem C05_to_dnf_sem : forall (pv pfv : N) (en : env) (extras : list str) (t : mdd),
  wfm t -> renderable_dd pv t = true -> t <> Leaf true ->
  eval_dnf pv pfv en extras (to_dnf t) = m_eval en extras t.
Proof. exact to_dnf_sem. Qed.

(** ... for every valuation of the diagram variables, through the proved operations ... *)
Theorem C05_to_dnf_recompile : forall (pv pfv : N) (t : mdd), wfm t -> renderable_dd pv t = true -> t <> Leaf true ->
  forall ro : mvaluation, eval ro (recompile_dnf pv pfv (to_dnf t)) = eval ro t.
Proof. exact to_dnf_roundtrip_sem. Qed.

(** ... and as the identical canonical diagram *)
Theorem C05_to_dnf_identity : forall (pv pfv : N) (t : mdd), wfm t -> renderable_dd pv t = true -> t <> Leaf true ->
  nice_pair (recompile_dnf pv pfv (to_dnf t)) t -> recompile_dnf pv pfv (to_dnf t) = t.
Proof. exact to_dnf_roundtrip_id. Qed.

(** every marker the parser builds is in scope *)
Theorem C05_compiled : forall (pv pfv : N) (a : mast) (en : env) (extras : list str), pfv <> pv -> compile pv pfv a <> Leaf true ->
  eval_dnf pv pfv en extras (to_dnf (compile pv pfv a)) = m_eval en extras (compile pv pfv a).
Proof. exact C05_to_dnf. Qed.

(** the clause simplifier: sound on plain terms (what collect_dnf produces) ... *)
Theorem C05_simplify_plain : forall (pv pfv : N) (en : env) (extras : list str) (d : dnf), plain_dnf d ->
  eval_dnf pv pfv en extras (simplify d) = eval_dnf pv pfv en extras d.
Proof. exact simplify_sem_plain. Qed.

Print Assumptions C05_paths.
Print Assumptions C05_constants.
Print Assumptions C05_to_dnf_sem.
Print Assumptions C05_to_dnf_recompile.
Print Assumptions C05_to_dnf_identity.
Print Assumptions C05_compiled.
Print Assumptions C05_simplify_plain.

(** ... but not on arbitrary clause lists (witnesses by computation in Marker/DnfProofs.v) *)
Check simplify_unsound_star_negation.
Check simplify_unsound_tilde_equality.
Check simplify_unsound_in_equality.
