(** C04 — is_true / is_false / is_disjoint verdicts are never wrong. *)
From Coq Require Import List Bool NArith.
From PV Require Import Base.Order Base.CutDef DD.DDModel DD.DDBasics DD.DDAnd DD.DDWf DD.DDDisjoint Marker.Concrete.
Import ListNotations.

Notation okm := (ok (var:=var) (val:=val) is_range).

Theorem C04_is_false_sound : forall a : mdd, is_false a = true -> forall r : mvaluation, eval r a = false.
Proof. intros a F r. apply is_false_eq in F. now subst. Qed.

Theorem C04_is_true_sound : forall a : mdd, is_true a = true -> forall r : mvaluation, eval r a = true.
Proof. intros a F r. apply is_true_eq in F. now subst. Qed.

Theorem C04_disjoint_sound : forall a b : mdd, okm a -> okm b -> m_disjoint a b = true ->
  forall r : mvaluation, eval r a && eval r b = false.
Proof. exact (tdisjoint_sound is_range). Qed.

(** in particular for every concrete environment and extras set *)
Theorem C04_disjoint_sound_env : forall a b : mdd, okm a -> okm b -> m_disjoint a b = true ->
  forall (e : env) (extras : list str), m_eval e extras a && m_eval e extras b = false.
Proof. intros a b Oa Ob D e x. exact (tdisjoint_sound is_range a b Oa Ob D (val_of_env e x)). Qed.

Theorem C04_disjoint_sym : forall a b : mdd, m_disjoint a b = m_disjoint b a.
Proof. exact tdisjoint_sym. Qed.

Theorem C04_disjoint_and : forall a b : mdd, m_disjoint a b = is_false (m_and a b).
Proof. exact tdisjoint_and. Qed.

Example C04_example :
  let a : mdd := RNode (VString 1) (Leaf false) [((inr [97%N], Below), Leaf true)] in
  let b : mdd := RNode (VString 1) (Leaf true) [((inr [97%N], Below), Leaf false)] in
  m_wfb a = true /\ m_wfb b = true /\ m_disjoint a b = true.
Proof. vm_compute. repeat split; reflexivity. Qed.

Print Assumptions C04_is_false_sound.
Print Assumptions C04_is_true_sound.
Print Assumptions C04_disjoint_sound.
Print Assumptions C04_disjoint_sound_env.
Print Assumptions C04_disjoint_sym.
Print Assumptions C04_disjoint_and.

(** ** the recursion on ids ([disjoint_i], Interner/DisjModel.v = InternerGuard::is_disjoint with complemented
    edges): for every store satisfying the invariant it computes [m_disjoint] of the unfolded diagrams, hence is
    symmetric, is not affected by anything interned later, and agrees with [and] returning FALSE *)
From PV Require Import Interner.Store Interner.StoreProofs Interner.AndModel Interner.AndProofs Interner.DisjModel Interner.DisjProofs.
Theorem C04_disjoint_on_ids : forall (fuel : nat) (a : list (snode (var:=var) (val:=val))) (x y : nid),
  Inv a -> valid (length a) x -> valid (length a) y -> (rank x + rank y < fuel)%nat ->
  disjoint_i fuel a x y = m_disjoint (unfold a x) (unfold a y).
Proof. exact disjoint_i_m_disjoint. Qed.
Theorem C04_disjoint_iff_and_false : forall (fuel fuel' : nat) (s : ist (var:=var) (val:=val)) (x y : nid),
  SOK0 s -> valid (length (fst s)) x -> valid (length (fst s)) y -> (rank x + rank y < fuel)%nat -> enough_fuel x y fuel' ->
  (disjoint_i fuel (fst s) x y = true <-> snd (and_i fuel' s x y) = NFalse).
Proof. exact (disjoint_i_and (var:=var) (val:=val)). Qed.
Print Assumptions C04_disjoint_on_ids.
Print Assumptions C04_disjoint_iff_and_false.
