(** C04 — is_true / is_false / is_disjoint verdicts are never wrong. *)
From Coq Require Import List Bool NArith.
From PV Require Import Base.Order Base.CutDef DD.DDModel DD.DDBasics DD.DDAnd DD.DDWf DD.DDDisjoint Marker.Concrete.
Import ListNotations.

Notation okm := (ok (var:=var) (val:=val) is_range).

Theorem C04_is_false_sound : forall a : mdd, is_false a = true -> forall r : mvaluation, eval r a = false.
Proof. intros a F r. apply is_false_eq in F. now subst. Qed.

Theorem C04_is_true_sound : forall a : mdd, is_true a = true -> forall r : mvaluation, eval r a = true.
Proof. intros a F r. apply is_true_eq in F. now subst. Qed.

Theorem C04_disjoint_sound : forall a b : mdd, okm a -> okm b -> m_disjoint a b = true ->
  forall r : mvaluation, eval r a && eval r b = false.
Proof. exact (tdisjoint_sound is_range). Qed.

(** in particular for every concrete environment and extras set *)
Theorem C04_disjoint_sound_env : forall a b : mdd, okm a -> okm b -> m_disjoint a b = true ->
  forall (e : env) (extras : list str), m_eval e extras a && m_eval e extras b = false.
Proof. intros a b Oa Ob D e x. exact (tdisjoint_sound is_range a b Oa Ob D (val_of_env e x)). Qed.

Theorem C04_disjoint_sym : forall a b : mdd, m_disjoint a b = m_disjoint b a.
Proof. exact tdisjoint_sym. Qed.

Theorem C04_disjoint_and : forall a b : mdd, m_disjoint a b = is_false (m_and a b).
Proof. exact tdisjoint_and. Qed.

Example C04_example :
  let a : mdd := RNode (VString 1) (Leaf false) [((inr [97%N], Below), Leaf true)] in
  let b : mdd := RNode (VString 1) (Leaf true) [((inr [97%N], Below), Leaf false)] in
  m_wfb a = true /\ m_wfb b = true /\ m_disjoint a b = true.
Proof. vm_compute. repeat split; reflexivity. Qed.

Print Assumptions C04_is_false_sound.
Print Assumptions C04_is_true_sound.
Print Assumptions C04_disjoint_sound.
Print Assumptions C04_disjoint_sound_env.
Print Assumptions C04_disjoint_sym.
Print Assumptions C04_disjoint_and.
