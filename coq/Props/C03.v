(** C03 — canonical form: functionally equivalent markers are identical.

    "Function of the marker variables" is read at the granularity of the diagram: one variable per
    version key, per string key spelling, per `k in 'v'` / `'v' in k` predicate and per extra name
    (this is the granularity the crate documents; `os_name` and `os.name` are different variables).
    Valuations give versions to version keys and strings to string keys ([tval]).

    Completeness needs the value order to be dense relative to the cuts that occur ([nice_pair]):
    release-only version bounds, and string bounds that avoid the minimum '' as an exclusive upper
    bound and successor pairs s / s·U+0000.  Outside that class the statement is false of the
    faithful model (and of the crate): [C03_vacuous_gap_refuted]; that class is the known finding F10. *)
From Coq Require Import List Bool NArith.
From PV Require Import Base.Order Base.CutDef Base.CutLemmas DD.DDModel DD.DDBasics DD.DDAnd DD.DDWf DD.DDWfOps DD.DDCanon
  Marker.Concrete Marker.Density.
Import ListNotations.

Notation wfm := (wf (var:=var) (val:=val) is_range).
Notation tvalm := (tval (var:=var) (val:=val) is_range val_ok).

(** equal diagrams denote equal functions (trivially), and conversely: *)
Theorem C03_complete : forall a b : mdd, wfm a -> wfm b -> nice_pair a b ->
  (forall r : mvaluation, tvalm r -> eval r a = eval r b) -> a = b.
Proof.
  intros a b Wa Wb Hn E.
  exact (canon_complete is_range val_ok dflt dflt_ok a b Wa Wb (nice_dense a b Hn) E).
Qed.

Theorem C03_sound : forall a b : mdd, a = b -> forall r : mvaluation, eval r a = eval r b.
Proof. intros a b -> r. reflexivity. Qed.

(** is_true() / is_false() hold exactly for the two constant functions *)
Theorem C03_is_true : forall a : mdd, wfm a -> nice_pair a (Leaf true) ->
  (is_true a = true <-> forall r : mvaluation, tvalm r -> eval r a = true).
Proof.
  intros a W Hn. split.
  - intros Ht r _. apply is_true_eq in Ht. now subst.
  - intros E. apply is_true_eq. apply C03_complete; auto. constructor.
Qed.

Theorem C03_is_false : forall a : mdd, wfm a -> nice_pair a (Leaf false) ->
  (is_false a = true <-> forall r : mvaluation, tvalm r -> eval r a = false).
Proof.
  intros a W Hn. split.
  - intros Ht r _. apply is_false_eq in Ht. now subst.
  - intros E. apply is_false_eq. apply C03_complete; auto. constructor.
Qed.

(** results of and / or / negate are again well-formed (the other constructors: see C11, C12, C10) *)
Theorem C03_closed : forall a b : mdd, wfm a -> wfm b -> wfm (m_and a b) /\ wfm (m_or a b) /\ wfm (m_not a).
Proof.
  intros a b Wa Wb. repeat split.
  - apply (tand_wf is_range a Wa b Wb). - now apply tor_wf. - now apply tneg_wf.
Qed.

(** the exception class is real: `os_name < ''` is a well-formed diagram different from FALSE that no
    admissible valuation satisfies *)
Theorem C03_vacuous_gap_refuted :
  let t : mdd := RNode (VString 1) (Leaf true) [((inr [], Below), Leaf false)] in
  wfm t /\ t <> Leaf false /\ (forall r : mvaluation, tvalm r -> eval r t = false) /\ ~ nice_pair t (Leaf false).
Proof.
  cbv zeta. repeat split.
  - apply (wfb_correct is_range). vm_compute. reflexivity.
  - discriminate.
  - intros r Tr. specialize (Tr (VString 1) eq_refl). cbn [eval]. destruct (rv r (VString 1)) as [v|s]; [discriminate|].
    unfold left_of. cbn [fst snd]. change (cmp (inr s) (inr []) : comparison) with (cmp s (@nil N)). destruct s; reflexivity.
  - intros Hn. specialize (Hn (VString 1)). cbn in Hn. destruct Hn as [_ Hn]. apply Hn. left. left. reflexivity.
Qed.

(** non-vacuity: a non-trivial nice pair *)
Example C03_example :
  let a : mdd := RNode (VVersion 1) (Leaf false) [((inl (final_of 0 [3%N; 8%N]), Below), Leaf true)] in
  wfm a /\ nice_pair a a.
Proof.
  cbv zeta. split.
  - apply (wfb_correct is_range). vm_compute. reflexivity.
  - intros k. destruct k as [k|k| | |]; try exact I.
    + intros c I. assert (c = (inl (final_of 0 [3%N; 8%N]), Below)) as ->.
      { cbn [all_cuts map fst] in I. destruct (eqb_of (VVersion k) (VVersion 1)); cbn in I; intuition. }
      exists 0%N, [3%N; 8%N]. reflexivity.
    + split; [intros c I; cbn in I; contradiction|]. intros [I | (s & I & _)]; cbn in I; contradiction.
Qed.

Print Assumptions C03_complete.
Print Assumptions C03_sound.
Print Assumptions C03_is_true.
Print Assumptions C03_is_false.
Print Assumptions C03_closed.
Print Assumptions C03_vacuous_gap_refuted.
