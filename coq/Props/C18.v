(** C18 — URL requirements: where the URL ends, the ambiguity diagnosis, verbatim text, ${NAME} expansion.
    For every input, every white-space class [ws] and every answer of the URL parser and the environment. *)
From Coq Require Import List Bool NArith String.
From PV Require Import Marker.Concrete Marker.Expr Text.Cursor Text.MarkerParse Text.ReqParse Text.SpanBase Text.UrlProofs.
Import ListNotations.
Open Scope N_scope.

(** 1. the URL is the text up to the first stopping point: [end_here] = end of input, a line break, or a
    blank after which only blanks and then `;`, `#` or the end follow; [glued c rest] = the URL character
    `c` is a `;` or `#` directly followed by a blank.  No earlier point qualifies. *)
Theorem C18_url_end (ws : N -> bool) (r : text) (pos : N) (last : option N) (u : text) (cur : cursor) (l : option N) :
  url_scan ws r pos last = (u, cur, l) ->
  exists rest,
    r = u ++ rest /\
    (forall i : nat, (i < List.length u)%nat -> ~ end_here ws (skipn i r)) /\
    (forall i : nat, (S i < List.length u)%nat -> ~ glued ws (nth i r 0) (skipn (S i) r)) /\
    (end_here ws rest \/ (exists c, last_opt u = Some c /\ glued ws c rest)).
Proof. exact (url_scan_spec ws r pos last u cur l). Qed.

(** ... and these clauses determine the URL text uniquely *)
Theorem C18_url_end_unique (ws : N -> bool) (r u rest u' rest' : text) :
  url_end ws r u rest -> url_end ws r u' rest' -> u = u' /\ rest = rest'.
Proof. exact (url_end_unique ws r u rest u' rest'). Qed.

(** 2. a `;` or `#` glued to the URL and followed by a blank and then anything but `;` or the end is
    rejected as ambiguous, at that character, whatever the marker oracles are *)
Theorem C18_ambiguous_rejected
    (ws alpha alnum : N -> bool) (kw : list (text * mvalue)) (vparse : text -> option rawversion)
    (specpat specver : vop -> text -> option (vop * list N)) (pv pfv : N)
    (url_oracle : ukind -> text -> option text) (getenv : text -> option text) (project_root : text) (verbatim ext : bool)
    (c : cursor) (d : text) (g : option text) (c' : cursor) (l : option N) :
  parse_url ws url_oracle getenv project_root verbatim ext c = POk (d, g, c', l) ->
  exists u rest, c_rest (c_eat_whitespace ws c) = u ++ rest /\ u <> [] /\
    parse_url_T url_oracle getenv project_root verbatim ext u = Some (d, g) /\
    forall (x y : N) (r' : text), last_opt u = Some x -> glued ws x rest -> c_rest (c_eat_whitespace ws c') = y :: r' -> y <> 59 ->
      parse_tail ws alpha alnum kw vparse specpat specver pv pfv true (c_pos c') l c' =
        PErr {| e_kind := EAmbiguous x; e_start := c_pos (c_eat_whitespace ws c) + text_len u - 1; e_len := 1 |}.
Proof. exact (glued_url_rejected ws alpha alnum kw vparse specpat specver pv pfv url_oracle getenv project_root verbatim ext c d g c' l). Qed.

(** 3. given() is the unexpanded source text; the URL is parsed from the expanded text *)
Theorem C18_verbatim (url_oracle : ukind -> text -> option text) (getenv : text -> option text) (project_root : text) (verbatim ext : bool)
    (u d : text) (g : option text) :
  verbatim = true -> parse_url_T url_oracle getenv project_root verbatim ext u = Some (d, g) ->
  g = Some u /\ dispatch_url url_oracle ext (expand getenv project_root u) = Some d.
Proof. exact (parse_url_T_verbatim url_oracle getenv project_root verbatim ext u d g). Qed.

(** 4. expansion = leftmost, non-overlapping replacement of complete references ${NAME},
    NAME = one or more of A-Z 0-9 _ ([is_ref]); everything else is copied *)
Theorem C18_expand_nil (getenv : text -> option text) (project_root : text) : expand getenv project_root [] = [].
Proof. exact (expand_nil getenv project_root). Qed.
Theorem C18_expand_ref (getenv : text -> option text) (project_root s n rest : text) :
  is_ref s = Some (n, rest) -> expand getenv project_root s = subst getenv project_root n ++ expand getenv project_root rest.
Proof. exact (expand_ref getenv project_root s n rest). Qed.
Theorem C18_expand_char (getenv : text -> option text) (project_root : text) (c : N) (s : text) :
  is_ref (c :: s) = None -> expand getenv project_root (c :: s) = c :: expand getenv project_root s.
Proof. exact (expand_char getenv project_root c s). Qed.

(** set names are replaced by their value, unset names stay verbatim, the reserved PROJECT_ROOT falls back *)
Theorem C18_subst_set (getenv : text -> option text) (project_root n v : text) :
  getenv n = Some v -> subst getenv project_root n = v.
Proof. exact (subst_set getenv project_root n v). Qed.
Theorem C18_subst_unset (getenv : text -> option text) (project_root n : text) :
  getenv n = None -> str_eqb n (T "PROJECT_ROOT") = false -> subst getenv project_root n = 36 :: 123 :: n ++ [125].
Proof. exact (subst_unset getenv project_root n). Qed.
Theorem C18_subst_project_root (getenv : text -> option text) (project_root n : text) :
  getenv n = None -> n = T "PROJECT_ROOT" -> subst getenv project_root n = project_root.
Proof. exact (subst_project_root getenv project_root n). Qed.

Print Assumptions C18_url_end.
Print Assumptions C18_url_end_unique.
Print Assumptions C18_ambiguous_rejected.
Print Assumptions C18_verbatim.
Print Assumptions C18_expand_nil.
Print Assumptions C18_expand_ref.
Print Assumptions C18_expand_char.
Print Assumptions C18_subst_set.
Print Assumptions C18_subst_unset.
Print Assumptions C18_subst_project_root.

(** non-vacuity *)
Example C18_example :
  let ws := fun x => orb (x =? 32) (x =? 9) in
  url_scan ws (T "https://h/p; x") 0 None = (T "https://h/p;", {| c_pos := 12; c_rest := T " x" |}, Some 59) /\
  expand (fun n => if str_eqb n (T "V") then Some (T "a b") else None) (T "/root") (T "${V}/${W}/${PROJECT_ROOT}$") = T "a b/${W}//root$".
Proof. vm_compute. split; reflexivity. Qed.
