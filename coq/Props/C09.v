(** C09 — package and extra names.  Statements pinned by [Check]; nothing else in this file. *)
From Coq Require Import List NArith.
From PV Require Import Names.NameModel Names.NameProofs.
Import ListNotations.
Open Scope N_scope.

Theorem C09_accept_iff : forall s, (exists n, normalize_ref s = Some n) <-> valid_name s = true.
Proof. exact accept_iff. Qed.
Theorem C09_norm_spec : forall s n, normalize_ref s = Some n -> n = spec_norm false s.
Proof. exact norm_spec. Qed.
Theorem C09_owned_eq_ref : forall s, normalize_owned s = normalize_ref s.
Proof. exact owned_eq_ref. Qed.
Theorem C09_norm_idem : forall s n, normalize_ref s = Some n -> normalize_ref n = Some n.
Proof. exact norm_idem. Qed.
Theorem C09_eq_iff_norm : forall a b na nb, normalize_ref a = Some na -> normalize_ref b = Some nb ->
  (na = nb <-> spec_norm false a = spec_norm false b).
Proof. exact eq_iff_norm. Qed.
Theorem C09_dist_info_spec : forall s, dist_info s = spec_dist_info s.
Proof. exact dist_info_spec. Qed.

Print Assumptions C09_accept_iff.
Print Assumptions C09_norm_spec.
Print Assumptions C09_owned_eq_ref.
Print Assumptions C09_norm_idem.
Print Assumptions C09_eq_iff_norm.
Print Assumptions C09_dist_info_spec.
