(** C01 — marker evaluation equals the PEP 508 meaning of the source text.

    [sem508] (Marker/Sem508.v) reads the typed syntax of a marker directly: and/or as boolean
    connectives (dropped comparisons skipped), version keys by PEP 440 release-segment comparison
    ([spec_holds], [spec_in]), string keys by equality / code-point order / substring in either
    direction, extra by membership of the normalised name.  [compile] is what the parser builds.
    Layout (quotes, operand order, parentheses, white space, deprecated spellings) is handled by the
    text parser, whose typed output is what [mast] is; it is tied to the crate by the correspondence
    runs of C06/C07, and the five evaluation entry points are one model function ([m_eval]).
    Scope: final-release environments with python_version = major.minor of python_full_version X.Y.Z;
    carve-out as in the property ([in_scope]). *)
From Coq Require Import List Bool NArith.
From PV Require Import Base.Order Base.CutDef DD.DDModel Marker.Concrete Marker.Expr Marker.Spec Marker.Sem508 Marker.Sem508Proofs.
Import ListNotations.
Open Scope N_scope.

Theorem C01_eval : forall (pv pfv : N) (e : penv) (X Y Z : N) (a : mast), pfv <> pv -> pe_release e pfv = [X; Y; Z] ->
  ast_in_scope pv a ->
  m_eval (env_of_penv e) (pe_extras e) (compile pv pfv a) = sem508 pv pfv e a.
Proof. exact C01_eval_thm. Qed.

Theorem C01_comparison : forall (pv pfv : N) (e : penv) (m : mexpr) (X Y Z : N), pfv <> pv ->
  pe_release e pfv = [X; Y; Z] -> in_scope pv m ->
  m_eval (env_of_penv e) (pe_extras e) (expression pv pfv m) = sem_expr pv pfv e m.
Proof. exact expr_sem. Qed.

Example C01_example : (* python_version >= '3.8' and (os_name == 'nt' or extra == 'x'), on 3.9.1 / posix / extras {x} *)
  let a := AAnd (AExpr (Some (EVersion 2 OGe [3; 8]))) (AOr (AExpr (Some (EString 1 SEq [110; 116]))) (AExpr (Some (EExtra false false [120])))) in
  let e := {| pe_release := fun _ => [3; 9; 1]; pe_string := fun _ => [112]; pe_extras := [[120]] |} in
  sem508 2 1 e a = true /\ m_eval (env_of_penv e) (pe_extras e) (compile 2 1 a) = true.
Proof. vm_compute. split; reflexivity. Qed.

Print Assumptions C01_eval.
Print Assumptions C01_comparison.

(** ** from the text: every marker text derivable from the grammar - any optional white space, redundant
    parentheses, either quote, both operand orders, `not in` with any blank - is parsed to the typed
    syntax tree [ast_of] of its derivation ([Text/MarkerAccept.v]; [msrc] = derivations with explicit
    blanks, [wf] = the grammar's shape and token-adjacency conditions); together with [C01_eval] the
    parsed diagram evaluates to the direct reading of the text.  The hypotheses on the character classes
    say that white space contains no token character, that `i`, `n` are alphabetic and the operator
    symbols are not, that the letters of `and` / `or` are word characters and `(`, `)`, quotes are not. *)
From PV Require Import Text.Cursor Text.MarkerParse Text.MarkerAccept.
Section Text.
Variables ws alpha alnum : N -> bool.
Variable kw : list (text * mvalue).
Variable vparse : text -> option rawversion.
Variables specpat specver : vop -> text -> option (vop * list N).
Variables pv pfv : N.
Hypothesis Hws_wc : forall x, word_char alnum x = true -> ws x = false.
Hypothesis Hws_delims : forall x, In x [34;39;40;41;60;61;62;126;33] -> ws x = false.
Hypothesis Hws_it : ws 105 = false /\ ws 116 = false.
Hypothesis Halpha_in : alpha 105 = true /\ alpha 110 = true.
Hypothesis Halpha_sym : forall x, In x [60;61;62;126;33] -> alpha x = false.
Hypothesis Halnum_kw : forall x, In x [97;110;100;111;114] -> alnum x = true.
Hypothesis Halnum_delims : forall x, In x [40;41;34;39] -> alnum x = false.

Theorem C01_text_accept (m : msrc) (w : text) : wf ws kw m -> blank ws w ->
  parse_markers ws alpha alnum kw vparse specpat specver pv pfv (msrc_text m ++ w) =
  POk (compile pv pfv (ast_of ws kw vparse specpat specver m), warns_of ws kw vparse specpat specver m).
Proof.
  exact (parse_markers_accept ws alpha alnum kw vparse specpat specver pv pfv Hws_wc Hws_delims Hws_it Halpha_in Halpha_sym Halnum_kw Halnum_delims m w).
Qed.

Theorem C01_text_eval (m : msrc) (w : text) (e : penv) (X Y Z : N) : wf ws kw m -> blank ws w ->
  pfv <> pv -> pe_release e pfv = [X; Y; Z] -> ast_in_scope pv (ast_of ws kw vparse specpat specver m) ->
  exists t wk, parse_markers ws alpha alnum kw vparse specpat specver pv pfv (msrc_text m ++ w) = POk (t, wk) /\
    m_eval (env_of_penv e) (pe_extras e) t = sem508 pv pfv e (ast_of ws kw vparse specpat specver m).
Proof.
  intros W B Hne Hrel Hsc. eexists. eexists. split; [exact (C01_text_accept m w W B)|].
  exact (C01_eval pv pfv e X Y Z _ Hne Hrel Hsc).
Qed.

(** layout is irrelevant: the result is a function of the syntax tree alone *)
Theorem C01_layout_irrelevant (m m' : msrc) (w w' : text) : wf ws kw m -> wf ws kw m' -> blank ws w -> blank ws w' ->
  ast_of ws kw vparse specpat specver m = ast_of ws kw vparse specpat specver m' ->
  warns_of ws kw vparse specpat specver m = warns_of ws kw vparse specpat specver m' ->
  parse_markers ws alpha alnum kw vparse specpat specver pv pfv (msrc_text m ++ w) =
  parse_markers ws alpha alnum kw vparse specpat specver pv pfv (msrc_text m' ++ w').
Proof.
  intros W W' B B' Ea Ew. rewrite (C01_text_accept m w W B), (C01_text_accept m' w' W' B'), Ea, Ew. reflexivity.
Qed.
End Text.
Print Assumptions C01_text_accept.
Print Assumptions C01_text_eval.
Print Assumptions C01_layout_irrelevant.

(** ** the crate does not evaluate an unfolded diagram: [evaluate_reporter_impl] calls [kind()] on an id - one arena
    node, children with the parent's complement bit pushed down -, takes the first edge whose range contains the
    environment's value (or the high / low child) and recurses on that child id ([Interner/EvalModel.v], [eval_i]).
    On every id of every reachable store that is the evaluation of the diagram the id denotes; the crate's
    fall-through `false` after the edge loop is dead code; interning more nodes later changes no answer. *)
From PV Require Import Interner.Store Interner.StoreProofs Interner.Intern Interner.AndModel Interner.InternI Interner.InternIProofs Interner.EvalModel Interner.EvalProofs.

Theorem C01_evaluate_on_ids : forall (a : marena) (e : env) (extras : list str) (x : nid),
  Inv a -> valid (length a) x -> m_eval_i (eval_fuel a) a e extras x = Some (m_eval e extras (unfold a x)).
Proof. exact m_eval_i_default. Qed.

Theorem C01_evaluate_edge_loop_total : forall (v : val) (d0 : nid) (ds : list (cut val * nid)),
  first_edge v (edges_of d0 ds) <> None.
Proof. exact first_edge_total. Qed.

Theorem C01_evaluate_after_more_interning : forall (a b : marena) (e : env) (extras : list str) (fuel : nat) (x : nid),
  Inv a -> valid (length a) x -> m_eval_i fuel (a ++ b) e extras x = m_eval_i fuel a e extras x.
Proof. exact m_eval_i_stable. Qed.

Theorem C01_evaluate_on_reachable_stores : forall (pv pfv : N) (h w : list mop) (e : env) (extras : list str) (pvk : N) (pvs : list version) (i : nat),
  let s := mrun_i pv pfv (fresh_i (mrun_i pv pfv init_i h)) w in
  let a := si_arena s in
  let x := regi s i in
  m_eval_i (eval_fuel a) a e extras x = Some (m_eval e extras (reg (forget s) i)) /\
  m_eval_extras_i (eval_fuel a) a extras x = Some (m_eval_extras extras (reg (forget s) i)) /\
  m_eval_extras_pv_i (eval_fuel a) a pvk pvs extras x = Some (m_eval_extras_pv pvk pvs extras (reg (forget s) i)).
Proof. exact eval_i_reachable. Qed.

Print Assumptions C01_evaluate_on_ids.
Print Assumptions C01_evaluate_edge_loop_total.
Print Assumptions C01_evaluate_after_more_interning.
Print Assumptions C01_evaluate_on_reachable_stores.
