(** C01 — marker evaluation equals the PEP 508 meaning of the source text.

    [sem508] (Marker/Sem508.v) reads the typed syntax of a marker directly: and/or as boolean
    connectives (dropped comparisons skipped), version keys by PEP 440 release-segment comparison
    ([spec_holds], [spec_in]), string keys by equality / code-point order / substring in either
    direction, extra by membership of the normalised name.  [compile] is what the parser builds.
    Layout (quotes, operand order, parentheses, white space, deprecated spellings) is handled by the
    text parser, whose typed output is what [mast] is; it is tied to the crate by the correspondence
    runs of C06/C07, and the five evaluation entry points are one model function ([m_eval]).
    Scope: final-release environments with python_version = major.minor of python_full_version X.Y.Z;
    carve-out as in the property ([in_scope]). *)
From Coq Require Import List Bool NArith.
From PV Require Import Base.Order Base.CutDef DD.DDModel Marker.Concrete Marker.Expr Marker.Spec Marker.Sem508 Marker.Sem508Proofs.
Import ListNotations.
Open Scope N_scope.

Theorem C01_eval : forall (pv pfv : N) (e : penv) (X Y Z : N) (a : mast), pfv <> pv -> pe_release e pfv = [X; Y; Z] ->
  ast_in_scope pv a ->
  m_eval (env_of_penv e) (pe_extras e) (compile pv pfv a) = sem508 pv pfv e a.
Proof. exact C01_eval_thm. Qed.

Theorem C01_comparison : forall (pv pfv : N) (e : penv) (m : mexpr) (X Y Z : N), pfv <> pv ->
  pe_release e pfv = [X; Y; Z] -> in_scope pv m ->
  m_eval (env_of_penv e) (pe_extras e) (expression pv pfv m) = sem_expr pv pfv e m.
Proof. exact expr_sem. Qed.

Example C01_example : (* python_version >= '3.8' and (os_name == 'nt' or extra == 'x'), on 3.9.1 / posix / extras {x} *)
  let a := AAnd (AExpr (Some (EVersion 2 OGe [3; 8]))) (AOr (AExpr (Some (EString 1 SEq [110; 116]))) (AExpr (Some (EExtra false false [120])))) in
  let e := {| pe_release := fun _ => [3; 9; 1]; pe_string := fun _ => [112]; pe_extras := [[120]] |} in
  sem508 2 1 e a = true /\ m_eval (env_of_penv e) (pe_extras e) (compile 2 1 a) = true.
Proof. vm_compute. split; reflexivity. Qed.

Print Assumptions C01_eval.
Print Assumptions C01_comparison.
