(** C17 — meaningless comparisons are reported and dropped, never silently. *)
From Coq Require Import List Bool NArith.
From PV Require Import Base.Order Base.CutDef DD.DDModel Marker.Concrete Marker.Expr Marker.Sem508 Marker.Sem508Proofs
  Text.Cursor Text.MarkerParse Text.TypedProofs.
Import ListNotations.
Open Scope N_scope.

(** for every answer of the PEP 440 oracles: the uninterpretable operand/operator combinations are dropped with a warning of the matching kind *)
Theorem C17_drop_reported : forall ws vparse specpat specver (l r : mvalue) (o : mop) (k : wkind),
  bogus l o r = Some k ->
  fst (typed_of_cmp ws vparse specpat specver l o r) = None /\ In k (snd (typed_of_cmp ws vparse specpat specver l o r)).
Proof. exact drop_reported. Qed.

Theorem C17_bad_version : forall ws vparse specpat specver (k : N) (o : mop) (s : text),
  (forall op, vop_of o = Some op -> specpat op s = None) ->
  (match o with OpIn | OpNotIn => version_list ws vparse (S (length s)) (c_new s) = None | _ => True end) ->
  fst (typed_of_cmp ws vparse specpat specver (MVVersion k) o (MVQuoted s)) = None /\
  In WPep440 (snd (typed_of_cmp ws vparse specpat specver (MVVersion k) o (MVQuoted s))).
Proof. exact drop_bad_version. Qed.

Theorem C17_bad_version_inverted : forall ws vparse specpat specver (k : N) (o : mop) (s : text),
  (forall op, vop_of (invert o) = Some op -> specver op s = None) ->
  fst (typed_of_cmp ws vparse specpat specver (MVQuoted s) o (MVVersion k)) = None /\
  In WPep440 (snd (typed_of_cmp ws vparse specpat specver (MVQuoted s) o (MVVersion k))).
Proof. exact drop_bad_version_inverted. Qed.

(** interpretable comparisons are silent, apart from an invalid extra name (reported, kept, arbitrary) *)
Theorem C17_clean_silent : forall ws vparse specpat specver (l r : mvalue) (o : mop) (e : mexpr),
  fst (typed_of_cmp ws vparse specpat specver l o r) = Some e ->
  snd (typed_of_cmp ws vparse specpat specver l o r) = [] \/
  (exists neg name, e = EExtra neg true name /\ snd (typed_of_cmp ws vparse specpat specver l o r) = [WExtraInvalid]).
Proof. exact clean_silent. Qed.

(** the result is the marker with exactly the dropped comparisons removed (TRUE if nothing remains) *)
Theorem C17_compile_prune : forall (pv pfv : N) (a : mast),
  compile_ast pv pfv a = match prune a with Some a' => compile_ast pv pfv a' | None => None end.
Proof. exact compile_prune. Qed.

Print Assumptions C17_drop_reported.
Print Assumptions C17_bad_version.
Print Assumptions C17_bad_version_inverted.
Print Assumptions C17_clean_silent.
Print Assumptions C17_compile_prune.

(** ** at the level of the text ([Text/WarnText.v], on top of the acceptance theorem of [Text/MarkerAccept.v]):
    for every marker text derivable from the grammar ([msrc] derivations with explicit blanks, [wf]), in which some
    comparison cannot be interpreted: parsing succeeds, the warning of the matching kind is in the reported list, and
    the diagram is that of the derivation with exactly those comparisons removed ([remove]: the comparison goes
    together with the `and` / `or` that joined it; parentheses that become empty go too; TRUE if nothing remains).
    Texts without such comparisons report nothing, apart from [extra] compared with a text that is not a valid
    extra name (reported, kept with the never-matching flag).  Hypotheses on the character classes as in C01. *)
From PV Require Import Text.MarkerAccept Text.WarnText.
Section Text.
Variables ws alpha alnum : N -> bool.
Variable kw : list (text * mvalue).
Variable vparse : text -> option rawversion.
Variables specpat specver : vop -> text -> option (vop * list N).
Variables pv pfv : N.
Hypothesis Hws_wc : forall x, word_char alnum x = true -> ws x = false.
Hypothesis Hws_delims : forall x, In x [34;39;40;41;60;61;62;126;33] -> ws x = false.
Hypothesis Hws_it : ws 105 = false /\ ws 116 = false.
Hypothesis Halpha_in : alpha 105 = true /\ alpha 110 = true.
Hypothesis Halpha_sym : forall x, In x [60;61;62;126;33] -> alpha x = false.
Hypothesis Halnum_kw : forall x, In x [97;110;100;111;114] -> alnum x = true.
Hypothesis Halnum_delims : forall x, In x [40;41;34;39] -> alnum x = false.
Notation PM := (parse_markers ws alpha alnum kw vparse specpat specver pv pfv).
Notation tsrc := (typed_src ws kw vparse specpat specver).
Notation val := (vsrc_value kw).

Theorem C17_text_reported (m : msrc) (w : text) (l : vsrc) (o : osrc) (r : vsrc) (k : wkind) :
  wf ws kw m -> blank ws w -> In (l, o, r) (cmps_of m) -> bogus (val l) (osrc_op o) (val r) = Some k ->
  fst (tsrc l o r) = None /\ exists t wl, PM (msrc_text m ++ w) = POk (t, wl) /\ In k wl.
Proof. intros W B H E. eapply text_bogus_reported; eassumption. Qed.

Theorem C17_text_bad_version_reported (m : msrc) (w : text) (l : vsrc) (o : osrc) (r : vsrc) (k : N) (s : text) :
  wf ws kw m -> blank ws w -> In (l, o, r) (cmps_of m) -> val l = MVVersion k -> val r = MVQuoted s ->
  (forall op, vop_of (osrc_op o) = Some op -> specpat op s = None) ->
  (match osrc_op o with OpIn | OpNotIn => version_list ws vparse (S (length s)) (c_new s) = None | _ => True end) ->
  fst (tsrc l o r) = None /\ exists t wl, PM (msrc_text m ++ w) = POk (t, wl) /\ In WPep440 wl.
Proof. intros W B H El Er Hs Hl. eapply text_bad_version_reported; eassumption. Qed.

Theorem C17_text_removed (m : msrc) (w : text) : wf ws kw m -> blank ws w ->
  PM (msrc_text m ++ w) =
  POk (match remove ws kw vparse specpat specver m with
       | Some m' => compile pv pfv (ast_of ws kw vparse specpat specver m')
       | None => Leaf true
       end, warns_of ws kw vparse specpat specver m) /\
  match remove ws kw vparse specpat specver m with Some m' => cmps_of m' | None => [] end =
  filter (keptb ws kw vparse specpat specver) (cmps_of m).
Proof. intros W B. split; [eapply text_removed; eassumption | apply remove_cmps]. Qed.

Theorem C17_text_clean_silent (m : msrc) (w : text) : wf ws kw m -> blank ws w ->
  kept ws kw vparse specpat specver m ->
  (forall l o r, In (l, o, r) (cmps_of m) -> ~ extra_invalid kw l r) ->
  PM (msrc_text m ++ w) = POk (compile pv pfv (ast_of ws kw vparse specpat specver m), []).
Proof. intros W B K X. eapply text_clean_silent; eassumption. Qed.

Theorem C17_text_invalid_extra_kept (m : msrc) (w : text) (l : vsrc) (o : osrc) (r : vsrc) (s : text) :
  wf ws kw m -> blank ws w -> In (l, o, r) (cmps_of m) ->
  ((val l = MVExtra /\ val r = MVQuoted s) \/ (val l = MVQuoted s /\ val r = MVExtra)) -> extra_name s = None ->
  (osrc_op o = OpEq \/ osrc_op o = OpNe) ->
  fst (tsrc l o r) = Some (EExtra (match osrc_op o with OpNe => true | _ => false end) true s) /\
  exists t wl, PM (msrc_text m ++ w) = POk (t, wl) /\ In WExtraInvalid wl.
Proof. intros W B H V E O. eapply text_extra_invalid_reported; eassumption. Qed.
End Text.
Print Assumptions C17_text_reported.
Print Assumptions C17_text_bad_version_reported.
Print Assumptions C17_text_removed.
Print Assumptions C17_text_clean_silent.
Print Assumptions C17_text_invalid_extra_kept.
