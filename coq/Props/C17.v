(** C17 — meaningless comparisons are reported and dropped, never silently. *)
From Coq Require Import List Bool NArith.
From PV Require Import Base.Order Base.CutDef DD.DDModel Marker.Concrete Marker.Expr Marker.Sem508 Marker.Sem508Proofs
  Text.Cursor Text.MarkerParse Text.TypedProofs.
Import ListNotations.
Open Scope N_scope.

(** for every answer of the PEP 440 oracles: the uninterpretable operand/operator combinations are dropped with a warning of the matching kind *)
Theorem C17_drop_reported : forall ws vparse specpat specver (l r : mvalue) (o : mop) (k : wkind),
  bogus l o r = Some k ->
  fst (typed_of_cmp ws vparse specpat specver l o r) = None /\ In k (snd (typed_of_cmp ws vparse specpat specver l o r)).
Proof. exact drop_reported. Qed.

Theorem C17_bad_version : forall ws vparse specpat specver (k : N) (o : mop) (s : text),
  (forall op, vop_of o = Some op -> specpat op s = None) ->
  (match o with OpIn | OpNotIn => version_list ws vparse (S (length s)) (c_new s) = None | _ => True end) ->
  fst (typed_of_cmp ws vparse specpat specver (MVVersion k) o (MVQuoted s)) = None /\
  In WPep440 (snd (typed_of_cmp ws vparse specpat specver (MVVersion k) o (MVQuoted s))).
Proof. exact drop_bad_version. Qed.

Theorem C17_bad_version_inverted : forall ws vparse specpat specver (k : N) (o : mop) (s : text),
  (forall op, vop_of (invert o) = Some op -> specver op s = None) ->
  fst (typed_of_cmp ws vparse specpat specver (MVQuoted s) o (MVVersion k)) = None /\
  In WPep440 (snd (typed_of_cmp ws vparse specpat specver (MVQuoted s) o (MVVersion k))).
Proof. exact drop_bad_version_inverted. Qed.

(** interpretable comparisons are silent, apart from an invalid extra name (reported, kept, arbitrary) *)
Theorem C17_clean_silent : forall ws vparse specpat specver (l r : mvalue) (o : mop) (e : mexpr),
  fst (typed_of_cmp ws vparse specpat specver l o r) = Some e ->
  snd (typed_of_cmp ws vparse specpat specver l o r) = [] \/
  (exists neg name, e = EExtra neg true name /\ snd (typed_of_cmp ws vparse specpat specver l o r) = [WExtraInvalid]).
Proof. exact clean_silent. Qed.

(** the result is the marker with exactly the dropped comparisons removed (TRUE if nothing remains) *)
Theorem C17_compile_prune : forall (pv pfv : N) (a : mast),
  compile_ast pv pfv a = match prune a with Some a' => compile_ast pv pfv a' | None => None end.
Proof. exact compile_prune. Qed.

Print Assumptions C17_drop_reported.
Print Assumptions C17_bad_version.
Print Assumptions C17_bad_version_inverted.
Print Assumptions C17_clean_silent.
Print Assumptions C17_compile_prune.
