(** C20 — the diagram exposed by kind() is ordered, reduced and partitioning.
    [wf] is the property; [m_wfb] is the executable checker that the correspondence harness runs on
    every diagram the crate produces; [wfb_correct] says they coincide.  Walking the diagram by hand
    is [eval] (the model's evaluation *is* the walk), compared with evaluate() on the crate. *)
From Coq Require Import List Bool NArith.
From PV Require Import Base.Order Base.CutDef Base.CutLemmas DD.DDModel DD.DDBasics DD.DDAnd DD.DDWf Marker.Concrete.
Import ListNotations.

Notation wfm := (wf (var:=var) (val:=val) is_range).

Theorem C20_checker_correct : forall t : mdd, m_wfb t = true <-> wfm t.
Proof. exact (wfb_correct is_range). Qed.

(** walking by hand: at a range node the child taken is the one whose range contains the value *)
Theorem C20_walk : forall (r : mvaluation) k d0 ds,
  eval r (RNode k d0 ds) = eval r (lookup_from (rv r k) d0 ds).
Proof. intros. apply eval_rnode. Qed.

Print Assumptions C20_checker_correct.
Print Assumptions C20_walk.

(** ** walking [kind()] on ids: the view [kind_i] of an id shows one node with children that are again valid ids of
    smaller rank, the diagram of the id is that one layer over the diagrams of the children, and choosing edges by
    hand along the views ([eval_i]) is [evaluate] *)
From PV Require Import Interner.Store Interner.StoreProofs Interner.Intern Interner.EvalModel Interner.EvalProofs.
Theorem C20_kind_view : forall (a : marena) (x : nid), Inv a -> valid (length a) x ->
  exists kv, kind_i a x = Some kv /\ Forall (fun y => (rank y < rank x)%nat /\ valid (length a) y) (kview_children kv).
Proof.
  intros a x I V. destruct (kind_i_some a x V) as [kv K]. exists kv. split; [exact K|]. exact (kind_i_children a x kv I K).
Qed.

Theorem C20_walk_on_ids : forall (a : marena) (r : valuation var val), Inv a -> forall (fuel : nat) (x : nid),
  valid (length a) x -> (rank x < fuel)%nat -> eval_i fuel a r x = Some (eval r (unfold a x)).
Proof. exact eval_i_refines. Qed.
Print Assumptions C20_kind_view.
Print Assumptions C20_walk_on_ids.

(** the diagram rebuilt by walking the views recursively is the diagram of the id; any fold over the views is the fold over it *)
From PV Require Import Interner.KindWalk.
Theorem C20_walk_rebuilds_the_diagram : forall (a : marena) (x : nid), Inv a -> valid (List.length a) x ->
  m_expand_i a x = Some (unfold a x).
Proof. exact m_expand_i_unfold. Qed.
Print Assumptions C20_walk_rebuilds_the_diagram.
