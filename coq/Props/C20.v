(** C20 — the diagram exposed by kind() is ordered, reduced and partitioning.
    [wf] is the property; [m_wfb] is the executable checker that the correspondence harness runs on
    every diagram the crate produces; [wfb_correct] says they coincide.  Walking the diagram by hand
    is [eval] (the model's evaluation *is* the walk), compared with evaluate() on the crate. *)
From Coq Require Import List Bool NArith.
From PV Require Import Base.Order Base.CutDef Base.CutLemmas DD.DDModel DD.DDBasics DD.DDAnd DD.DDWf Marker.Concrete.
Import ListNotations.

Notation wfm := (wf (var:=var) (val:=val) is_range).

Theorem C20_checker_correct : forall t : mdd, m_wfb t = true <-> wfm t.
Proof. exact (wfb_correct is_range). Qed.

(** walking by hand: at a range node the child taken is the one whose range contains the value *)
Theorem C20_walk : forall (r : mvaluation) k d0 ds,
  eval r (RNode k d0 ds) = eval r (lookup_from (rv r k) d0 ds).
Proof. intros. apply eval_rnode. Qed.

Print Assumptions C20_checker_correct.
Print Assumptions C20_walk.

(** ** walking [kind()] on ids: the view [kind_i] of an id shows one node with children that are again valid ids of
    smaller rank, the diagram of the id is that one layer over the diagrams of the children, and choosing edges by
    hand along the views ([eval_i]) is [evaluate] *)
From PV Require Import Interner.Store Interner.StoreProofs Interner.Intern Interner.EvalModel Interner.EvalProofs.
Theorem C20_kind_view : forall (a : marena) (x : nid), Inv a -> valid (length a) x ->
  exists kv, kind_i a x = Some kv /\ Forall (fun y => (rank y < rank x)%nat /\ valid (length a) y) (kview_children kv).
Proof.
  intros a x I V. destruct (kind_i_some a x V) as [kv K]. exists kv. split; [exact K|]. exact (kind_i_children a x kv I K).
Qed.

Theorem C20_walk_on_ids : forall (a : marena) (r : valuation var val), Inv a -> forall (fuel : nat) (x : nid),
  valid (length a) x -> (rank x < fuel)%nat -> eval_i fuel a r x = Some (eval r (unfold a x)).
Proof. exact eval_i_refines. Qed.
Print Assumptions C20_kind_view.
Print Assumptions C20_walk_on_ids.

(** the diagram rebuilt by walking the views recursively is the diagram of the id; any fold over the views is the fold over it *)
From PV Require Import Interner.KindWalk.
Theorem C20_walk_rebuilds_the_diagram : forall (a : marena) (x : nid), Inv a -> valid (List.length a) x ->
  m_expand_i a x = Some (unfold a x).
Proof. exact m_expand_i_unfold. Qed.
Print Assumptions C20_walk_rebuilds_the_diagram.

(** ** every marker a program can hold, after any sequence of operations (the crate's own recursions on ids, memo cache
    included), is ordered, reduced and partitioning - and so is what a walk over kind() sees of it *)
From PV Require Import Marker.Expr Interner.OpsModel Interner.InternProofs Interner.InternI Interner.InternIProofs.
Theorem C20_every_reachable_marker_wf : forall (pv pfv : N) (h : list mop) (x : nid),
  In x (si_regs (mrun_i pv pfv init_i h)) ->
  m_wfb (unfold (si_arena (mrun_i pv pfv init_i h)) x) = true.
Proof.
  intros pv pfv h x I. apply C20_checker_correct.
  destruct (mrun_i_spec pv pfv h init_i SInv_i_init) as [S _].
  destruct (SInv_i_forget _ S) as (_ & _ & W). rewrite Forall_forall in W. exact (W x I).
Qed.

Theorem C20_every_reachable_walk_wf : forall (pv pfv : N) (h : list mop) (x : nid),
  In x (si_regs (mrun_i pv pfv init_i h)) ->
  exists t, m_expand_i (si_arena (mrun_i pv pfv init_i h)) x = Some t /\ m_wfb t = true.
Proof.
  intros pv pfv h x I. exists (unfold (si_arena (mrun_i pv pfv init_i h)) x).
  split; [|now apply C20_every_reachable_marker_wf].
  destruct (mrun_i_spec pv pfv h init_i SInv_i_init) as [S _].
  destruct (SInv_i_forget _ S) as (Ia & V & _). rewrite Forall_forall in V.
  apply m_expand_i_unfold; [exact Ia|exact (V x I)].
Qed.

Example C20_reachable_example : (* a program of five operations: its last register is a non-trivial well-formed diagram *)
  let s := mrun_i 2 1 init_i [MExpr (EExtra false false [97%N]); MExpr (EString 1 SEq [98%N]); MAnd 0 1; MNot 2; MSimplifyExtras [[97%N]] 3] in
  List.length (si_regs s) = 5%nat /\ unfold (si_arena s) (nth 4 (si_regs s) NTrue) <> Leaf true /\ unfold (si_arena s) (nth 4 (si_regs s) NTrue) <> Leaf false.
Proof. vm_compute. repeat split; discriminate. Qed.
Print Assumptions C20_every_reachable_marker_wf.
Print Assumptions C20_every_reachable_walk_wf.
