(** C20 — the diagram exposed by kind() is ordered, reduced and partitioning.
    [wf] is the property; [m_wfb] is the executable checker that the correspondence harness runs on
    every diagram the crate produces; [wfb_correct] says they coincide.  Walking the diagram by hand
    is [eval] (the model's evaluation *is* the walk), compared with evaluate() on the crate. *)
From Coq Require Import List Bool NArith.
From PV Require Import Base.Order Base.CutDef Base.CutLemmas DD.DDModel DD.DDBasics DD.DDAnd DD.DDWf Marker.Concrete.
Import ListNotations.

Notation wfm := (wf (var:=var) (val:=val) is_range).

Theorem C20_checker_correct : forall t : mdd, m_wfb t = true <-> wfm t.
Proof. exact (wfb_correct is_range). Qed.

(** walking by hand: at a range node the child taken is the one whose range contains the value *)
Theorem C20_walk : forall (r : mvaluation) k d0 ds,
  eval r (RNode k d0 ds) = eval r (lookup_from (rv r k) d0 ds).
Proof. intros. apply eval_rnode. Qed.

Print Assumptions C20_checker_correct.
Print Assumptions C20_walk.
