(** C06 — placeholder until the theorems are in (Text/ParseProofs.v) *)
From PV Require Import Text.MarkerParse.
