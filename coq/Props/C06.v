(** C06 — parsing is total and every error is renderable, for every input and every answer of the
    dependencies (Unicode classes, PEP 440 text syntax, URL parsing, environment).

    Totality itself is by construction: the model's parsers are total Gallina functions, every
    `expect` / `unreachable!` / out-of-fuel site of the code is the explicit error kind [EPanic], and the
    theorems show that [EPanic] is never returned.  [renderable s e] is what `Pep508Error`'s Display needs
    of a span: the start is a character boundary within the input or at its end, at the end the length is
    at most 1, otherwise the end of the span is a character boundary too. *)
From Coq Require Import List NArith.
Import ListNotations.
Open Scope N_scope.
From PV Require Import Text.Cursor Text.MarkerParse Text.ReqParse Text.SpanBase Text.SpanMarker Text.SpanReq.

Section C06.
Variables ws alpha alnum : N -> bool.
Variable kw : list (text * mvalue).
Variable vparse : text -> option Marker.Expr.rawversion.
Variables specpat specver : Marker.Expr.vop -> text -> option (Marker.Expr.vop * list N).
Variables pv pfv : N.
Variable specparse : text -> option spec.
Variable url_oracle : ukind -> text -> option text.
Variable getenv : text -> option text.
Variable project_root : text.
Variables verbatim ext : bool.

(** MarkerTree::from_str / parse_reporter *)
Theorem C06_marker_tree (s : text) (e : perr) :
  parse_markers ws alpha alnum kw vparse specpat specver pv pfv s = PErr e -> renderable s e /\ no_panic e.
Proof. exact (parse_markers_renderable ws alpha alnum kw vparse specpat specver pv pfv s e). Qed.

(** MarkerExpression::from_str / parse_reporter *)
Theorem C06_marker_expression (s : text) (e : perr) :
  parse_expression ws alpha kw vparse specpat specver s = PErr e -> renderable s e /\ no_panic e.
Proof. exact (parse_expression_renderable ws alpha kw vparse specpat specver s e). Qed.

(** Requirement::<Url | VerbatimUrl>::from_str / parse / parse_reporter, both feature configurations *)
Theorem C06_requirement (s : text) (e : perr) :
  parse_requirement ws alpha alnum kw vparse specpat specver pv pfv specparse url_oracle getenv project_root verbatim ext s = PErr e ->
  renderable s e /\ no_panic e.
Proof.
  exact (parse_requirement_renderable ws alpha alnum kw vparse specpat specver pv pfv specparse url_oracle getenv project_root verbatim ext
           (parse_markers_cursor_ok ws alpha alnum kw vparse specpat specver pv pfv) s e).
Qed.

(** Extras::parse *)
Theorem C06_extras (s : text) (e : perr) :
  parse_extras_text ws s = PErr e -> renderable s e /\ no_panic e.
Proof. exact (parse_extras_text_renderable ws s e). Qed.

(** UnnamedRequirement::from_str / parse *)
Theorem C06_unnamed (s : text) (e : perr) :
  parse_unnamed ws alpha alnum kw vparse specpat specver pv pfv url_oracle getenv project_root ext s = PErr e ->
  renderable s e /\ no_panic e.
Proof.
  exact (parse_unnamed_renderable ws alpha alnum kw vparse specpat specver pv pfv url_oracle getenv project_root ext
           (parse_markers_cursor_ok ws alpha alnum kw vparse specpat specver pv pfv) s e).
Qed.

(** the fuel of the in-list splitter never runs out *)
Theorem C06_version_list_fuel (k : nat) (s : text) :
  version_list ws vparse (S (length s) + k) (c_new s) = version_list ws vparse (S (length s)) (c_new s).
Proof. exact (version_list_fuel_new ws vparse k s). Qed.
End C06.

Print Assumptions C06_marker_tree.
Print Assumptions C06_marker_expression.
Print Assumptions C06_requirement.
Print Assumptions C06_extras.
Print Assumptions C06_unnamed.
Print Assumptions C06_version_list_fuel.

(** non-vacuity: errors do occur, and they are as stated *)
Example C06_nonvacuous :
  parse_extras_text (fun c => N.eqb c 32) [91; 97; 32; 233]%N =
  PErr {| e_kind := EExtrasSep; e_start := 3; e_len := 2 |}.
Proof. vm_compute. reflexivity. Qed.
