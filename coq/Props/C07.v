(** C07 — every string derivable from the PEP 508 requirement grammar is accepted and decomposed into
    exactly the derivation's components, wherever optional white space is put.

    [source w0 name w1 x w2 k w3 m w4] is the text of a derivation: blanks [w*], the name, an optional
    extras group [x] (each identifier with blanks around it), the version part [k] (nothing, bare
    specifier pieces, parenthesised pieces, or `@` URL with the blank [sep] after it), an optional `;`
    marker text [m].  The side conditions ([extras_ok], [kind_ok], [marker_ok], in Text/AcceptProofs.v)
    say that each component is itself well-formed: identifiers validate, every specifier piece is
    accepted by the PEP 440 oracle and contains no delimiter, the URL text contains no blank and is
    accepted by the URL type, white space separates a URL from a following `;`, and the marker text is
    accepted by the marker parser (a black box here: its own grammar is the subject of C01/C17 and of the
    correspondence run).  The only facts assumed of the white-space class are that it contains no name
    character and none of the delimiters.  The right-hand side mentions no blank. *)
From Coq Require Import List NArith.
From PV Require Import Names.NameModel DD.DDModel Marker.Concrete Marker.Expr Marker.Sem508 Text.Cursor Text.MarkerParse Text.ReqParse Text.AcceptProofs Text.MarkerAccept.
Import ListNotations.
Open Scope N_scope.

Section C07.
Variables ws alpha alnum : N -> bool.
Variable kw : list (text * mvalue).
Variable vparse : text -> option rawversion.
Variables specpat specver : vop -> text -> option (vop * list N).
Variables pv pfv : N.
Variable specparse : text -> option spec.
Variable url_oracle : ukind -> text -> option text.
Variable getenv : text -> option text.
Variable project_root : text.
Variables verbatim ext : bool.
Hypothesis Hws_name : forall x, name_char x = true -> ws x = false.
Hypothesis Hws_delims : forall x, In x [91;93;44;64;40;41;59;60;61;62;126;33] -> ws x = false.

Notation PReq := (parse_requirement ws alpha alnum kw vparse specpat specver pv pfv specparse url_oracle getenv project_root verbatim ext).

Theorem C07_accept w0 name n w1 x ids w2 k kd w3 m w4 mo wm :
  blank ws w0 -> normalize_owned name = Some n -> blank ws w1 -> extras_ok ws x ids -> blank ws w2 ->
  kind_ok ws specparse url_oracle getenv project_root verbatim ext k kd name w3 m w4 -> blank ws w3 ->
  marker_ok ws alpha alnum kw vparse specpat specver pv pfv m w4 mo wm ->
  PReq (source w0 name w1 x w2 k w3 m w4) = POk ({| r_name := n; r_extras := ids; r_kind := kd; r_marker := mo |}, wm).
Proof.
  exact (accept ws alpha alnum kw vparse specpat specver pv pfv specparse url_oracle getenv project_root verbatim ext Hws_name Hws_delims
           w0 name n w1 x ids w2 k kd w3 m w4 mo wm).
Qed.

(** two layouts of the same derivation parse to the same value *)
Theorem C07_white_space_irrelevant name m
  w0 w1 x w2 k w3 w4 n ids kd mo wm
  w0' w1' x' w2' k' w3' w4' n' ids' kd' mo' wm' :
  blank ws w0 -> normalize_owned name = Some n -> blank ws w1 -> extras_ok ws x ids -> blank ws w2 ->
  kind_ok ws specparse url_oracle getenv project_root verbatim ext k kd name w3 m w4 -> blank ws w3 ->
  marker_ok ws alpha alnum kw vparse specpat specver pv pfv m w4 mo wm ->
  blank ws w0' -> normalize_owned name = Some n' -> blank ws w1' -> extras_ok ws x' ids' -> blank ws w2' ->
  kind_ok ws specparse url_oracle getenv project_root verbatim ext k' kd' name w3' m w4' -> blank ws w3' ->
  marker_ok ws alpha alnum kw vparse specpat specver pv pfv m w4' mo' wm' ->
  same_extras x x' -> same_kind_src k k' ->
  PReq (source w0 name w1 x w2 k w3 m w4) = PReq (source w0' name w1' x' w2' k' w3' m w4').
Proof.
  exact (accept_ws_irrelevant ws alpha alnum kw vparse specpat specver pv pfv specparse url_oracle getenv project_root verbatim ext Hws_name Hws_delims
           name m w0 w1 x w2 k w3 w4 n ids kd mo wm w0' w1' x' w2' k' w3' w4' n' ids' kd' mo' wm').
Qed.

(** the marker hypothesis of [C07_accept] holds for every marker text derivable from the marker grammar
    (Text/MarkerAccept.v): the marker component is the compiled syntax tree of the derivation, at any
    position in the requirement *)
Hypothesis Hws_wc : forall x, word_char alnum x = true -> ws x = false.
Hypothesis Hws_mdelims : forall x, In x [34;39;40;41;60;61;62;126;33] -> ws x = false.
Hypothesis Hws_it : ws 105 = false /\ ws 116 = false.
Hypothesis Halpha_in : alpha 105 = true /\ alpha 110 = true.
Hypothesis Halpha_sym : forall x, In x [60;61;62;126;33] -> alpha x = false.
Hypothesis Halnum_kw : forall x, In x [97;110;100;111;114] -> alnum x = true.
Hypothesis Halnum_delims : forall x, In x [40;41;34;39] -> alnum x = false.

Theorem C07_marker_component (ms : msrc) (w : text) : MarkerAccept.wf ws kw ms -> MarkerAccept.blank ws w ->
  marker_ok ws alpha alnum kw vparse specpat specver pv pfv (Some (msrc_text ms ++ w)) []
    (compile_ast pv pfv (ast_of ws kw vparse specpat specver ms)) (warns_of ws kw vparse specpat specver ms).
Proof.
  intros W B. split; [reflexivity|]. intros p.
  exact (parse_markers_cursor_accept ws alpha alnum kw vparse specpat specver pv pfv Hws_wc Hws_mdelims Hws_it Halpha_in Halpha_sym Halnum_kw Halnum_delims ms w p W B).
Qed.
End C07.

Print Assumptions C07_accept.
Print Assumptions C07_white_space_irrelevant.
Print Assumptions C07_marker_component.

(** non-vacuity: the hypotheses are met by ordinary requirements (see also AcceptExample.ex_paren / ex_url) *)
Example C07_nonvacuous := AcceptExample.ex_paren.
