(** C07 placeholder *)
