(** C02 — and / or / negate are the pointwise boolean operations.
    Stated at the concrete marker types, i.e. about the very functions that are extracted and run
    against the crate.  [ok] (sorted cut lists, well-typed nodes) is all that is assumed of operands;
    every diagram that passes the verified checker [m_wfb] satisfies it. *)
From Coq Require Import List Bool NArith.
From PV Require Import Base.Order Base.CutDef DD.DDModel DD.DDBasics DD.DDAnd DD.DDWf Marker.Concrete.
Import ListNotations.

Notation okm := (ok (var:=var) (val:=val) is_range).

Theorem C02_and : forall a b : mdd, okm a -> okm b ->
  forall r : mvaluation, eval r (m_and a b) = eval r a && eval r b.
Proof. intros a b [Sa Ta] [Sb Tb]. exact (tand_sem is_range a Sa Ta b Sb Tb). Qed.

Theorem C02_or : forall a b : mdd, okm a -> okm b ->
  forall r : mvaluation, eval r (m_or a b) = eval r a || eval r b.
Proof. intros a b Oa Ob r. exact (tor_sem is_range a b r Oa Ob). Qed.

Theorem C02_not : forall (a : mdd) (r : mvaluation), eval r (m_not a) = negb (eval r a).
Proof. intros a r. exact (tneg_sem r a). Qed.

(** results are again admissible operands: the operations compose in any order *)
Theorem C02_closed : forall a b : mdd, okm a -> okm b -> okm (m_and a b) /\ okm (m_or a b) /\ okm (m_not a).
Proof. intros a b Oa Ob. repeat split; try apply (tand_ok is_range a Oa b Ob); try apply (tor_ok is_range a b Oa Ob); apply (tneg_ok is_range a Oa). Qed.

(** any expression over and / or / negate, in any grouping, order and repetition *)
Theorem C02_ops : forall e : bexp (var:=var) (val:=val), atoms_ok is_range e ->
  okm (build e) /\ forall r : mvaluation, eval r (build e) = bsem r e.
Proof. exact (ops_sem is_range). Qed.

(** TRUE and FALSE are identities and annihilators, as diagrams *)
Theorem C02_units : forall a : mdd,
  m_and (Leaf true) a = a /\ m_and a (Leaf true) = a /\
  m_and (Leaf false) a = Leaf false /\ m_and a (Leaf false) = Leaf false.
Proof. intros a. repeat split; [apply tand_true_l|apply tand_true_r|apply tand_false_l|apply tand_false_r]. Qed.

(** concrete environments are valuations: the statement for evaluate() is an instance *)
Theorem C02_env : forall (a b : mdd) (e : env) (extras : list str), okm a -> okm b ->
  m_eval e extras (m_and a b) = m_eval e extras a && m_eval e extras b /\
  m_eval e extras (m_or a b) = m_eval e extras a || m_eval e extras b /\
  m_eval e extras (m_not a) = negb (m_eval e extras a).
Proof. intros a b e x Oa Ob. unfold m_eval. rewrite C02_and, C02_or, C02_not; auto. Qed.

(** what the runtime monitor establishes: a diagram accepted by [m_wfb] is an admissible operand *)
Theorem C02_monitor : forall a : mdd, m_wfb a = true -> okm a.
Proof. exact (wfb_ok is_range). Qed.

(** non-vacuity: a non-trivial pair of admissible operands *)
Example C02_example :
  let a : mdd := RNode (VString 1) (Leaf false) [((inr [97%N], Below), Leaf true)] in
  let b : mdd := BNode (VExtra false [120%N]) (Leaf true) (Leaf false) in
  m_wfb a = true /\ m_wfb b = true /\ m_and a b = RNode (VString 1) (Leaf false) [((inr [97%N], Below), b)].
Proof. vm_compute. repeat split; reflexivity. Qed.

Print Assumptions C02_and.
Print Assumptions C02_or.
Print Assumptions C02_not.
Print Assumptions C02_closed.
Print Assumptions C02_ops.
Print Assumptions C02_units.
Print Assumptions C02_env.
Print Assumptions C02_monitor.

(** ** the memo cache and complemented edges: the crate's recursion on ids ([and_i], Interner/AndModel.v)
    computes, for any store and any correct cache, an id denoting exactly [tand] of the operands' diagrams;
    with the theorems above: the real [and] / [or] are pointwise whatever was computed before *)
From PV Require Import Interner.Store Interner.AndModel Interner.AndProofs.
Theorem C02_and_memoised : forall (fuel : nat) (s : mist) (x y : nid),
  SOK0 s -> valid (length (fst s)) x -> valid (length (fst s)) y -> enough_fuel x y fuel ->
  let '(s', r) := and_i fuel s x y in
  SOK0 s' /\ aext (fst s) (fst s') /\ valid (length (fst s')) r /\
  unfold (fst s') r = m_and (unfold (fst s) x) (unfold (fst s) y).
Proof. exact (and_i_spec0 (var:=var) (val:=val)). Qed.
Theorem C02_and_commutes : forall a b : mdd, m_and a b = m_and b a.
Proof. exact (tand_comm (var:=var) (val:=val)). Qed.
Print Assumptions C02_and_memoised.
Print Assumptions C02_and_commutes.
