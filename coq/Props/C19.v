(** C19 — bare URLs, filesystem paths and archive file names are never taken for package names: the
    requirement parser rejects them with the dedicated kinds [EUnsupportedPath] / [EUnsupportedUrl]
    (Pep508ErrorSource::UnsupportedRequirement); the unnamed-requirement parser keeps the verbatim text.
    For every input of the stated shapes, every answer of the dependencies, both feature configurations
    ([ext]), both URL types ([verbatim]).  The hypotheses on the white-space class [ws] say only that the
    characters in question are not white space. *)
From Coq Require Import List NArith String.
From PV Require Import Names.NameModel Marker.Expr Text.Cursor Text.MarkerParse Text.ReqParse Text.UnnamedProofs.
Import ListNotations.
Open Scope N_scope.

Section C19.
Variables ws alpha alnum : N -> bool.
Variable kw : list (text * mvalue).
Variable vparse : text -> option rawversion.
Variables specpat specver : vop -> text -> option (vop * list N).
Variables pv pfv : N.
Variable specparse : text -> option spec.
Variable url_oracle : ukind -> text -> option text.
Variable getenv : text -> option text.
Variable project_root : text.
Variables verbatim ext : bool.
Notation PReq := (parse_requirement ws alpha alnum kw vparse specpat specver pv pfv specparse url_oracle getenv project_root verbatim ext).
Notation PUnnamed := (parse_unnamed ws alpha alnum kw vparse specpat specver pv pfv url_oracle getenv project_root ext).

(** paths starting with `/`, `\` or `.` (after optional white space), whatever follows *)
Theorem C19_path_rejected (w : text) (c : N) (s : text) :
  c = 47 \/ c = 92 \/ c = 46 -> forallb ws w = true -> ws c = false ->
  exists len, PReq (w ++ c :: s) = PErr {| e_kind := EUnsupportedPath; e_start := text_len w; e_len := len |}.
Proof. exact (path_rejected_ws ws alpha alnum kw vparse specpat specver pv pfv specparse url_oracle getenv project_root verbatim ext w c s). Qed.

(** scheme URLs `scheme:rest`: a letter, then letters, digits, `+`, `-`, `.` (each `-`/`.` followed by a
    letter or digit), whatever follows the colon (extras, marker, ${..} references, anything) *)
Theorem C19_scheme_url_rejected (sch rest : text) :
  wf_scheme sch -> ws_free ws sch -> ws 58 = false ->
  exists len, PReq (sch ++ 58 :: rest) = PErr {| e_kind := EUnsupportedUrl; e_start := 0; e_len := len |}.
Proof. exact (scheme_url_rejected ws alpha alnum kw vparse specpat specver pv pfv specparse url_oracle getenv project_root verbatim ext sch rest). Qed.

(** relative paths `name/...` and `name\...` *)
Theorem C19_slash_after_name_rejected (name : text) (c : N) (rest : text) :
  valid_name name = true -> c = 47 \/ c = 92 -> ws_free ws name -> ws c = false ->
  exists len, PReq (name ++ c :: rest) = PErr {| e_kind := EUnsupportedUrl; e_start := 0; e_len := len |}.
Proof. exact (slash_after_name_rejected ws alpha alnum kw vparse specpat specver pv pfv specparse url_oracle getenv project_root verbatim ext name c rest). Qed.

(** an accepted requirement without version or URL never has an archive file name as its name ... *)
Theorem C19_archive_never_named (s : text) (r : requirement) (w : list wkind) :
  PReq s = POk (r, w) -> r_kind r = KNone -> looks_like_archive (raw_name ws s) = false.
Proof. exact (archive_never_named ws alpha alnum kw vparse specpat specver pv pfv specparse url_oracle getenv project_root verbatim ext s r w). Qed.

(** ... it is rejected with the dedicated kind, also when a marker follows *)
Theorem C19_archive_rejected (name w t : text) :
  valid_name name = true -> looks_like_archive name = true ->
  (forall x, name_char x = true -> ws x = false) -> ws 59 = false -> forallb ws w = true ->
  (t = [] \/ exists t', t = 59 :: t') ->
  PReq (name ++ w ++ t) = PErr {| e_kind := EUnsupportedUrl; e_start := 0; e_len := 0 |}.
Proof. exact (archive_rejected ws alpha alnum kw vparse specpat specver pv pfv specparse url_oracle getenv project_root verbatim ext name w t). Qed.

(** what an archive name is: any base name with one of pip's extensions *)
Theorem C19_archive_extensions (base e : text) :
  base <> [] -> mem 47 base = false -> In e (map T ["whl"; "tbz"; "txz"; "tlz"; "zip"; "tgz"; "tar"]%string) ->
  looks_like_archive (base ++ 46 :: e) = true.
Proof. exact (archive_ext base e). Qed.
Theorem C19_archive_tar_gz (base : text) : base <> [] -> mem 47 base = false -> looks_like_archive (base ++ T ".tar.gz") = true.
Proof. exact (archive_tar_gz base). Qed.

(** the unnamed-requirement parser: given() is the scanned URL text without its trailing extras group,
    verbatim; the URL is parsed from its expansion; extras and marker come from the bracket group and the tail *)
Theorem C19_unnamed_given (s : text) (r : unnamed) (w : list wkind) :
  PUnnamed s = POk (r, w) ->
  exists (pre url post : text) (c2 : cursor) (last : option N) (u : text),
    s = pre ++ url ++ post /\ forallb ws pre = true /\ url <> [] /\
    uurl_scan ws (url ++ post) (text_len pre) 0 None = (url, c2, last) /\
    u_given r = Some u /\
    (split_extras url = None /\ u = url /\ u_extras r = [] \/
     (exists (e : text) (c' : cursor), split_extras url = Some (u, e) /\ url = u ++ e /\ parse_extras ws (c_new e) = POk (u_extras r, c'))) /\
    dispatch_url url_oracle ext (expand getenv project_root u) = Some (u_disp r) /\
    parse_tail ws alpha alnum kw vparse specpat specver pv pfv true (c_pos c2) last c2 = POk (u_marker r, w).
Proof. exact (unnamed_given ws alpha alnum kw vparse specpat specver pv pfv url_oracle getenv project_root ext s r w). Qed.
End C19.

Print Assumptions C19_path_rejected.
Print Assumptions C19_scheme_url_rejected.
Print Assumptions C19_slash_after_name_rejected.
Print Assumptions C19_archive_never_named.
Print Assumptions C19_archive_rejected.
Print Assumptions C19_archive_extensions.
Print Assumptions C19_archive_tar_gz.
Print Assumptions C19_unnamed_given.
