(** C15 — markers can be built and used from many threads at once (logic of the locked state machine).

    Proved: for every schedule of atomic locked operations over one shared store, each thread observes
    exactly what it observes running its program alone on an empty store, and markers that show the same
    diagram are the same id whichever thread built them.  Assumed (runtime, outside the model): mutual exclusion
    and poisoning semantics of std::sync::Mutex, publication safety of boxcar::Vec, the Rust memory model, and that
    every mutating operation holds the lock for its whole recursion (audited textually by the check). *)
From Coq Require Import List Bool NArith.
From PV Require Import Base.Order Base.CutDef DD.DDModel
  Interner.Store Interner.StoreProofs Interner.Intern Interner.InternProofs Interner.Sched Marker.Concrete Marker.Expr.
Import ListNotations.

Theorem C15_sched_indep : forall (pv pfv : N) (progs : nat -> list mop) (sched : list nat) (t : nat),
  observe (view (sys_run pv pfv progs sched) t) = observe (solo pv pfv progs (sys_run pv pfv progs sched) t).
Proof. exact sched_indep. Qed.

Theorem C15_cross_thread_identity : forall (pv pfv : N) (progs : nat -> list mop) (sched : list nat) (t u : nat) (x y : nid),
  In x (sy_regs (sys_run pv pfv progs sched) t) -> In y (sy_regs (sys_run pv pfv progs sched) u) ->
  (unfold (sy_arena (sys_run pv pfv progs sched)) x = unfold (sy_arena (sys_run pv pfv progs sched)) y <-> x = y).
Proof. exact cross_thread_identity. Qed.

Example C15_example : (* two threads build the same marker interleaved: same id *)
  let e1 := EExtra false false [97%N] in
  let progs := fun t : nat => [MExpr e1; MNot 0] in
  let s := sys_run 2 1 progs [0; 1; 1; 0]%nat in
  sy_regs s 0%nat = sy_regs s 1%nat /\ length (sy_arena s) = 1%nat.
Proof. vm_compute. split; reflexivity. Qed.

Print Assumptions C15_sched_indep.
Print Assumptions C15_cross_thread_identity.

(** ** the same for the crate's own recursions, and for reads that do not take the lock ([Interner/Conc.v]).

    (1) The scheduler above runs the abstract step (unfold / operate / intern); [sys_step_i] runs [mstep_i]: the
    memoised [and] recursion with the shared memo cache, [restrict], simplify / complexify on ids.  Every thread still
    observes what the abstract sequential run of its own program observes, and a diagram has one id across threads.

    (2) [kind()] - and with it evaluate, to_dnf, Display, cmp - reads arena entries WITHOUT the lock, one node at a
    time, while other threads push nodes.  [aread w k x t]: a traversal that learns id [x] at instant [k] of the world
    [w] (the arena at each instant, growing only by pushes) reads each node at some later instant, its children at
    arbitrary still later instants, pushing the complement bit down as the crate does, and obtains the diagram [t].
    Whatever the timing, [t] is the diagram [x] had when it was learnt, and the traversal never gets stuck; combined
    with (1): a lock-free read of a register, concurrent with any schedule of the other threads' locked operations,
    returns the diagram of the same register in the sequential abstract run of the reader's own program.

    Assumed (runtime): the Mutex gives mutual exclusion to the locked operations; an index obtained from a NodeId
    refers to a slot whose push happened-before (boxcar::Vec publication; ids travel between threads only through
    synchronising channels); a slot is never written after its push. *)
From PV Require Import Interner.AndModel Interner.InternI Interner.InternIProofs Interner.Conc.

Theorem C15_sched_indep_real : forall (pv pfv : N) (progs : nat -> list mop) (sched : list nat) (t : nat),
  observe (forget (view_i (sys_run_i pv pfv progs sched) t)) =
  observe (mrun pv pfv init (firstn (sx_pc (sys_run_i pv pfv progs sched) t) (progs t))).
Proof. exact sched_indep_i. Qed.

Theorem C15_cross_thread_identity_real : forall (pv pfv : N) (progs : nat -> list mop) (sched : list nat) (t u : nat) (x y : nid),
  In x (sx_regs (sys_run_i pv pfv progs sched) t) -> In y (sx_regs (sys_run_i pv pfv progs sched) u) ->
  (unfold (sx_arena (sys_run_i pv pfv progs sched)) x = unfold (sx_arena (sys_run_i pv pfv progs sched)) y <-> x = y).
Proof. exact cross_thread_identity_i. Qed.

Theorem C15_lock_free_read_linearizable : forall (w : world) (k0 k : nat) (x : nid) (t : mdd),
  mono w -> (forall k, Inv (w k)) -> valid (length (w k0)) x -> (k0 <= k)%nat -> aread w k x t -> t = unfold (w k0) x.
Proof. exact aread_linearizable. Qed.

Theorem C15_lock_free_read_never_stuck : forall (w : world) (k0 k : nat) (x : nid), mono w -> (forall k, Inv (w k)) ->
  valid (length (w k0)) x -> (k0 <= k)%nat ->
  (forall delay path, aread_fn w delay (S (rank x)) path k x = Some (unfold (w k0) x)) /\
  aread w k x (unfold (w k0) x).
Proof. exact aread_exists. Qed.

Theorem C15_world_of_schedule : forall (pv pfv : N) (progs : nat -> list mop) (sched : list nat),
  mono (world_of pv pfv progs sched) /\ forall k, Inv (world_of pv pfv progs sched k).
Proof. intros. split; [apply world_of_mono | apply world_of_Inv]. Qed.

Theorem C15_read_during_schedule : forall (pv pfv : N) (progs : nat -> list mop) (sched : list nat) (t k0 k j : nat) (x : nid) (tr : mdd),
  nth_error (sx_regs (sys_run_i pv pfv progs (firstn k0 sched)) t) j = Some x ->
  (k0 <= k)%nat -> aread (world_of pv pfv progs sched) k x tr ->
  tr = unfold (world_of pv pfv progs sched k0) x /\
  tr = nth j (reg_trees (solo_a pv pfv progs (sys_run_i pv pfv progs (firstn k0 sched)) t)) (Leaf true).
Proof. exact conc_read_linearizable. Qed.

Print Assumptions C15_sched_indep_real.
Print Assumptions C15_cross_thread_identity_real.
Print Assumptions C15_lock_free_read_linearizable.
Print Assumptions C15_lock_free_read_never_stuck.
Print Assumptions C15_world_of_schedule.
Print Assumptions C15_read_during_schedule.
