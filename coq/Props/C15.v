(** C15 — markers can be built and used from many threads at once (logic of the locked state machine).

    Proved: for every schedule of atomic locked operations over one shared store, each thread observes
    exactly what it observes running its program alone on an empty store, and markers that show the same
    diagram are the same id whichever thread built them.  Assumed (runtime, outside the model): mutual exclusion
    and poisoning semantics of std::sync::Mutex, publication safety of boxcar::Vec, the Rust memory model, and that
    every mutating operation holds the lock for its whole recursion (audited textually by the check). *)
From Coq Require Import List Bool NArith.
From PV Require Import Base.Order Base.CutDef DD.DDModel
  Interner.Store Interner.StoreProofs Interner.Intern Interner.InternProofs Interner.Sched Marker.Concrete Marker.Expr.
Import ListNotations.

Theorem C15_sched_indep : forall (pv pfv : N) (progs : nat -> list mop) (sched : list nat) (t : nat),
  observe (view (sys_run pv pfv progs sched) t) = observe (solo pv pfv progs (sys_run pv pfv progs sched) t).
Proof. exact sched_indep. Qed.

Theorem C15_cross_thread_identity : forall (pv pfv : N) (progs : nat -> list mop) (sched : list nat) (t u : nat) (x y : nid),
  In x (sy_regs (sys_run pv pfv progs sched) t) -> In y (sy_regs (sys_run pv pfv progs sched) u) ->
  (unfold (sy_arena (sys_run pv pfv progs sched)) x = unfold (sy_arena (sys_run pv pfv progs sched)) y <-> x = y).
Proof. exact cross_thread_identity. Qed.

Example C15_example : (* two threads build the same marker interleaved: same id *)
  let e1 := EExtra false false [97%N] in
  let progs := fun t : nat => [MExpr e1; MNot 0] in
  let s := sys_run 2 1 progs [0; 1; 1; 0]%nat in
  sy_regs s 0%nat = sy_regs s 1%nat /\ length (sy_arena s) = 1%nat.
Proof. vm_compute. split; reflexivity. Qed.

Print Assumptions C15_sched_indep.
Print Assumptions C15_cross_thread_identity.
