(** C08 — the rendered text of a requirement parses back to the same requirement.

    [display_req r mt] is Requirement's Display ([mt] = the text of the marker, when it is not TRUE).
    [disp_ok] lists what each component must satisfy: name and extras are normalised names; the specifier
    list is sorted, each canonical specifier text is re-accepted to the same specifier (also with the
    blank that Display puts before ` ; `) and contains no delimiter; the URL text contains no blank, is
    re-accepted and renders to itself; the marker text is re-accepted to the same diagram (C05's round
    trip: a black box here).  The correspondence run checks those component facts on every case. *)
From Coq Require Import List NArith.
From PV Require Import Names.NameModel DD.DDModel Marker.Concrete Marker.Expr Text.Cursor Text.MarkerParse Text.ReqParse Text.AcceptProofs.
Import ListNotations.
Open Scope N_scope.

Section C08.
Variables ws alpha alnum : N -> bool.
Variable kw : list (text * mvalue).
Variable vparse : text -> option rawversion.
Variables specpat specver : vop -> text -> option (vop * list N).
Variables pv pfv : N.
Variable specparse : text -> option spec.
Variable url_oracle : ukind -> text -> option text.
Variable getenv : text -> option text.
Variable project_root : text.
Variables verbatim ext : bool.
Hypothesis Hws_name : forall x, name_char x = true -> ws x = false.
Hypothesis Hws_delims : forall x, In x [91;93;44;64;40;41;59;60;61;62;126;33] -> ws x = false.
Hypothesis Hws_space : ws 32 = true.

Theorem C08_display_roundtrip r mt wm :
  disp_ok ws alpha alnum kw vparse specpat specver pv pfv specparse url_oracle getenv project_root verbatim ext r mt wm ->
  exists r',
    parse_requirement ws alpha alnum kw vparse specpat specver pv pfv specparse url_oracle getenv project_root verbatim ext (display_req r mt) = POk (r', wm) /\
    r_name r' = r_name r /\ r_extras r' = r_extras r /\ r_marker r' = r_marker r /\ same_kind (r_kind r') (r_kind r).
Proof.
  exact (display_roundtrip ws alpha alnum kw vparse specpat specver pv pfv specparse url_oracle getenv project_root verbatim ext Hws_name Hws_delims r mt wm Hws_space).
Qed.

(** rendering the re-parsed requirement reproduces the same text: Display reads only what [same_kind] preserves *)
Theorem C08_second_rendering (r r' : requirement) (mt : option text) :
  r_name r' = r_name r -> r_extras r' = r_extras r -> same_kind (r_kind r') (r_kind r) ->
  display_req r' mt = display_req r mt.
Proof.
  intros Hn He Hk. unfold display_req. rewrite Hn, He. f_equal. f_equal. f_equal.
  destruct (r_kind r') as [|l|d g], (r_kind r) as [|l'|d' g']; cbn in Hk; try contradiction; subst; reflexivity.
Qed.
End C08.

Print Assumptions C08_display_roundtrip.
Print Assumptions C08_second_rendering.
