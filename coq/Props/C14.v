(** C14 — results do not depend on what the process did before.

    The store (node arena, unique table, complement bit, create_node) is modelled faithfully; an
    interner-level operation is specified as "unfold, apply the L1 operation, intern".  Whatever two
    histories were executed before, a program of marker operations observes the same diagrams (hence the
    same evaluations, DNF, structural order and - because versions enter nodes normalised - the same text)
    and the same pattern of equal markers. *)
From Coq Require Import List Bool NArith.
From PV Require Import Base.Order Base.CutDef DD.DDModel DD.DDBasics DD.DDWf
  Interner.Store Interner.StoreProofs Interner.CreateProofs Interner.Intern Interner.InternProofs Marker.Concrete Marker.Expr.
Import ListNotations.

Notation wfm := (wf (var:=var) (val:=val) is_range).

(** first-come node identity is harmless: two ids are the same exactly when they show the same diagram, in every reachable store *)
Theorem C14_id_is_diagram : forall (a : marena) (x y : nid), Inv a -> valid (length a) x -> valid (length a) y ->
  (unfold a x = unfold a y <-> x = y).
Proof. exact unfold_inj. Qed.

(** existing markers are not disturbed by later interning *)
Theorem C14_stable : forall (a b : marena) (x : nid), valid (length a) x -> unfold (a ++ b) x = unfold a x.
Proof. exact unfold_stable. Qed.

(** create_node in any prior store: invariant kept, append-only, result = the reduced node of the children's diagrams *)
Theorem C14_create_node : forall (a : marena) (n : snode), Inv a -> node_valid (length a) n ->
  let r := create_node a n in
  Inv (fst r) /\ (exists b, fst r = a ++ b) /\ valid (length (fst r)) (snd r) /\
  unfold (fst r) (snd r) = reduce_node (node_tree (unfold_all a) n).
Proof. exact create_node_spec. Qed.

(** every constructor yields well-formed diagrams (the closure needed for interning to be the identity on diagrams) *)
Theorem C14_reach_wf : forall (pv pfv : N) (s : istate) (o : mop), SInv s -> wfm (mop_tree pv pfv s o).
Proof. exact mop_tree_wf. Qed.

(** history independence *)
Theorem C14_hist_indep : forall (pv pfv : N) (h1 h2 w : list mop),
  observe (mrun pv pfv (fresh (st_arena (mrun pv pfv init h1))) w) =
  observe (mrun pv pfv (fresh (st_arena (mrun pv pfv init h2))) w).
Proof. exact hist_indep_histories. Qed.

Example C14_example : (* the same marker after two different histories: same diagram, and equal to itself built twice *)
  let e1 := EExtra false false [97%N] in
  let e2 := EString 1 SEq [98%N] in
  let w := [MExpr e1; MExpr e2; MAnd 0 1; MAnd 1 0] in
  let o := observe (mrun 2 1 (fresh (st_arena (mrun 2 1 init [MExpr e2; MNot 0]))) w) in
  nth 2 (fst o) (Leaf true) = nth 3 (fst o) (Leaf true) /\ nth 3 (nth 2 (snd o) []) false = true /\
  o = observe (mrun 2 1 init w).
Proof. vm_compute. repeat split; reflexivity. Qed.

Print Assumptions C14_id_is_diagram.
Print Assumptions C14_stable.
Print Assumptions C14_create_node.
Print Assumptions C14_reach_wf.
Print Assumptions C14_hist_indep.

(** ** the memoised recursion itself.  [and_i] (Interner/AndModel.v) is the crate's [InternerGuard::and]
    on ids: shortcuts, memo cache keyed by the ordered pair, [Edges::map] / [apply] / [apply_ranges] with
    complemented edges, [create_node], cache insertion, the state threaded through the children in order.
    Whatever the store and whatever (correct) cache entries exist, it returns exactly the id that
    "unfold both operands, apply the L1 operation, intern the result" yields, without adding anything
    that interning would not add - so the abstraction used by [mstep] / [C14_hist_indep] is sound, and the
    cache can never change an answer.  [SOK0 s] = store invariant + every cache entry is correct (true of
    the empty cache and preserved, [and_i_spec0]); fuel = rank x + rank y + 1 suffices. *)
From PV Require Import Interner.AndModel Interner.AndProofs.
Theorem C14_and_refines : forall (fuel : nat) (s : mist) (x y : nid),
  SOK0 s -> valid (length (fst s)) x -> valid (length (fst s)) y -> enough_fuel x y fuel ->
  let '(s', r) := and_i fuel s x y in
  intern (fst s') (m_and (unfold (fst s) x) (unfold (fst s) y)) = (fst s', r).
Proof. exact and_i_refines. Qed.
Theorem C14_or_refines : forall (fuel : nat) (s : mist) (x y : nid),
  SOK0 s -> valid (length (fst s)) x -> valid (length (fst s)) y -> enough_fuel x y fuel ->
  let '(s', r) := or_i fuel s x y in
  intern (fst s') (m_or (unfold (fst s) x) (unfold (fst s) y)) = (fst s', r).
Proof. exact or_i_refines. Qed.
Theorem C14_and_invariant : forall (fuel : nat) (s : mist) (x y : nid),
  SOK0 s -> valid (length (fst s)) x -> valid (length (fst s)) y -> enough_fuel x y fuel ->
  let '(s', r) := and_i fuel s x y in
  SOK0 s' /\ aext (fst s) (fst s') /\ valid (length (fst s')) r /\
  unfold (fst s') r = tand (unfold (fst s) x) (unfold (fst s) y).
Proof. exact (and_i_spec0 (var:=var) (val:=val)). Qed.
Theorem C14_cache_irrelevant : forall (fuel : nat) (s : mist) (x y : nid),
  SOK0 s -> valid (length (fst s)) x -> valid (length (fst s)) y -> enough_fuel x y fuel ->
  let '(s1, r1) := and_i fuel s x y in let '(s2, r2) := and_i fuel (fst s, []) x y in
  unfold (fst s1) r1 = unfold (fst s2) r2.
Proof. exact (and_i_cold_cache (var:=var) (val:=val)). Qed.
Print Assumptions C14_and_refines.
Print Assumptions C14_or_refines.
Print Assumptions C14_and_invariant.
Print Assumptions C14_cache_irrelevant.

(** ** whole programs with the crate's own recursions (and_i + memo cache, or_i, restrict_i, simplify_pv_i,
    complexify_pv_i on ids; Interner/InternI.v): they observe exactly what the abstract programs observe, and
    therefore nothing of the history - neither of the arena nor of the memo cache *)
From PV Require Import Interner.OpsModel Interner.InternI Interner.InternIProofs.
Theorem C14_real_run_observes_abstract : forall (pv pfv : N) (w : list mop),
  observe (forget (mrun_i pv pfv init_i w)) = observe (mrun pv pfv init w).
Proof. exact mrun_i_observe. Qed.
Theorem C14_hist_indep_real : forall (pv pfv : N) (h w : list mop),
  observe (forget (mrun_i pv pfv (fresh_i (mrun_i pv pfv init_i h)) w)) = observe (mrun pv pfv init w).
Proof. exact hist_indep_i. Qed.
Print Assumptions C14_real_run_observes_abstract.
Print Assumptions C14_hist_indep_real.
