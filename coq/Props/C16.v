(** C16 — ordering, equality and hashing of markers are coherent.

    [m_cmp] is the model of [Ord for MarkerTree] (structural comparison through kind()); == and Hash of
    the crate are identity of interned node ids, i.e. identity of unfolded diagrams (C14).  The order is a
    function of the diagrams only.  Requirement derives Eq/Ord/Hash field-wise: a lexicographic product of
    total orders whose equality is identity is again one ([pair_order], [list_order]). *)
From Coq Require Import List Bool NArith.
From PV Require Import Base.Order Base.CutDef DD.DDModel DD.DDBasics DD.DDCmp Marker.Concrete Marker.CmpConcrete.
Import ListNotations.

Theorem C16_cmp_eq : forall a b : mdd, m_cmp a b = Eq <-> a = b.
Proof. exact tcmp_eq. Qed.

Theorem C16_cmp_antisym : forall a b : mdd, m_cmp b a = CompOpp (m_cmp a b).
Proof. exact tcmp_antisym. Qed.

Theorem C16_cmp_trans : forall a b c : mdd, m_cmp a b = Lt -> m_cmp b c = Lt -> m_cmp a c = Lt.
Proof. exact tcmp_trans. Qed.

(** Requirement-like records: (name, extras, marker) ordered field by field is a total order consistent with equality *)
Theorem C16_product : forall x y : str * (list str * mdd), cmp x y = Eq <-> x = y.
Proof. exact cmp_eq. Qed.

Theorem C16_product_trans : forall x y z : str * (list str * mdd), cmp x y = Lt -> cmp y z = Lt -> cmp x z = Lt.
Proof. exact cmp_trans_lt. Qed.

Example C16_example : (* TRUE < FALSE < a version node < a string node < an extra node *)
  let v : mdd := RNode (VVersion 1) (Leaf false) [((inl (0%N, ([3%N], FINAL)), Below), Leaf true)] in
  let s : mdd := RNode (VString 1) (Leaf false) [((inr [97%N], Below), Leaf true)] in
  let e : mdd := BNode (VExtra false [97%N]) (Leaf true) (Leaf false) in
  m_cmp (Leaf true) (Leaf false) = Lt /\ m_cmp (Leaf false) v = Lt /\ m_cmp v s = Lt /\ m_cmp s e = Lt /\ m_cmp e v = Gt.
Proof. vm_compute. repeat split; reflexivity. Qed.

Print Assumptions C16_cmp_eq.
Print Assumptions C16_cmp_antisym.
Print Assumptions C16_cmp_trans.
Print Assumptions C16_product.
Print Assumptions C16_product_trans.
