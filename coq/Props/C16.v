(** C16 — ordering, equality and hashing of markers are coherent.

    [m_cmp] is the model of [Ord for MarkerTree] (structural comparison through kind()); == and Hash of
    the crate are identity of interned node ids, i.e. identity of unfolded diagrams (C14).  The order is a
    function of the diagrams only.  Requirement derives Eq/Ord/Hash field-wise: a lexicographic product of
    total orders whose equality is identity is again one ([pair_order], [list_order]). *)
From Coq Require Import List Bool NArith.
From PV Require Import Base.Order Base.CutDef DD.DDModel DD.DDBasics DD.DDCmp Marker.Concrete Marker.CmpConcrete.
Import ListNotations.

Theorem C16_cmp_eq : forall a b : mdd, m_cmp a b = Eq <-> a = b.
Proof. exact tcmp_eq. Qed.

Theorem C16_cmp_antisym : forall a b : mdd, m_cmp b a = CompOpp (m_cmp a b).
Proof. exact tcmp_antisym. Qed.

Theorem C16_cmp_trans : forall a b c : mdd, m_cmp a b = Lt -> m_cmp b c = Lt -> m_cmp a c = Lt.
Proof. exact tcmp_trans. Qed.

(** Requirement-like records: (name, extras, marker) ordered field by field is a total order consistent with equality *)
Theorem C16_product : forall x y : str * (list str * mdd), cmp x y = Eq <-> x = y.
Proof. exact cmp_eq. Qed.

Theorem C16_product_trans : forall x y z : str * (list str * mdd), cmp x y = Lt -> cmp y z = Lt -> cmp x z = Lt.
Proof. exact cmp_trans_lt. Qed.

Example C16_example : (* TRUE < FALSE < a version node < a string node < an extra node *)
  let v : mdd := RNode (VVersion 1) (Leaf false) [((inl (0%N, ([3%N], FINAL)), Below), Leaf true)] in
  let s : mdd := RNode (VString 1) (Leaf false) [((inr [97%N], Below), Leaf true)] in
  let e : mdd := BNode (VExtra false [97%N]) (Leaf true) (Leaf false) in
  m_cmp (Leaf true) (Leaf false) = Lt /\ m_cmp (Leaf false) v = Lt /\ m_cmp v s = Lt /\ m_cmp s e = Lt /\ m_cmp e v = Gt.
Proof. vm_compute. repeat split; reflexivity. Qed.

Print Assumptions C16_cmp_eq.
Print Assumptions C16_cmp_antisym.
Print Assumptions C16_cmp_trans.
Print Assumptions C16_product.
Print Assumptions C16_product_trans.

(** ** on ids: the crate's [Ord for MarkerTree] never sees an unfolded diagram; it compares [kind()] of the two ids -
    one node each, the complement bits pushed down lazily -, the variable, then the children lexicographically by a
    recursive comparison of child ids ([Interner/CmpModel.v], [cmp_i]).  On every pair of valid ids that walk is [m_cmp]
    of the diagrams, so it is [Eq] exactly for the same id, antisymmetric and transitive, and it does not change when
    more nodes are interned later ("the order depends only on the markers themselves"). *)
From PV Require Import Interner.Store Interner.StoreProofs Interner.Intern Interner.AndModel Interner.InternI Interner.InternIProofs
  Interner.EvalModel Interner.CmpModel Interner.CmpProofs.

Theorem C16_cmp_on_ids : forall (a : marena) (x y : nid), Inv a -> valid (length a) x -> valid (length a) y ->
  m_cmp_i a x y = Some (m_cmp (unfold a x) (unfold a y)).
Proof. exact m_cmp_i_default. Qed.

Theorem C16_cmp_on_ids_eq : forall (a : marena) (x y : nid), Inv a -> valid (length a) x -> valid (length a) y ->
  (m_cmp_i a x y = Some Eq <-> x = y).
Proof. exact m_cmp_i_eq_iff. Qed.

Theorem C16_cmp_on_ids_antisym : forall (a : marena) (x y : nid), Inv a -> valid (length a) x -> valid (length a) y ->
  m_cmp_i a y x = option_map CompOpp (m_cmp_i a x y).
Proof. exact m_cmp_i_antisym. Qed.

Theorem C16_cmp_on_ids_trans : forall (a : marena) (x y z : nid), Inv a -> valid (length a) x -> valid (length a) y -> valid (length a) z ->
  m_cmp_i a x y = Some Lt -> m_cmp_i a y z = Some Lt -> m_cmp_i a x z = Some Lt.
Proof. exact m_cmp_i_trans. Qed.

Theorem C16_cmp_after_more_interning : forall (a b : marena) (x y : nid), Inv a -> valid (length a) x -> valid (length a) y ->
  m_cmp_i (a ++ b) x y = m_cmp_i a x y.
Proof. exact m_cmp_i_stable. Qed.

Theorem C16_cmp_on_reachable_stores : forall (pv pfv : N) (h w : list mop) (i j : nat),
  let s := mrun_i pv pfv (fresh_i (mrun_i pv pfv init_i h)) w in let a := si_arena s in
  m_cmp_i a (regi s i) (regi s j) = Some (m_cmp (reg (forget s) i) (reg (forget s) j)) /\
  (m_cmp_i a (regi s i) (regi s j) = Some Eq <-> regi s i = regi s j) /\
  m_cmp_i a (regi s j) (regi s i) = option_map CompOpp (m_cmp_i a (regi s i) (regi s j)).
Proof. exact cmp_i_reachable. Qed.

Print Assumptions C16_cmp_on_ids.
Print Assumptions C16_cmp_on_ids_eq.
Print Assumptions C16_cmp_on_ids_antisym.
Print Assumptions C16_cmp_on_ids_trans.
Print Assumptions C16_cmp_after_more_interning.
Print Assumptions C16_cmp_on_reachable_stores.
