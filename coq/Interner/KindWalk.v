(** L2: ANY recursive walk over [kind()] on node ids sees exactly the diagram the id denotes.

    EvalProofs.v and CmpProofs.v each prove, for one particular recursion of src/marker/tree.rs, that walking
    [kind()] on ids (one arena node per step, complement bit of the parent pushed down to the children ids)
    computes the corresponding function of the unfolded diagram.  This file proves the general fact once:

    - (G1) [expand_i]: rebuild the diagram by walking [kind_i] recursively.  [expand_i_unfold]: the result is
      [unfold a x]; [expand_i_app]: it does not see later interning; [expand_i_none]: with enough fuel, [None]
      exactly for ids that are not in the arena;
    - (G2) [fold_i] / [fold_dd]: a walk given by an algebra ([fleaf], [frange], [fbool]) on ids and on trees.
      [fold_i_expand]: [fold_i = option_map fold_dd expand_i] (no hypothesis at all), hence
      [fold_i_unfold]: [fold_i fuel a x = Some (fold_dd (unfold a x))];
    - (G3) for markers, with the default fuel: [m_expand_i_unfold], and [m_walk_observation]: every observation
      that is a function of what the recursive [kind()] walk sees is that function of the diagram; instances for
      [DnfModel.to_dnf] ([MarkerTree::to_dnf]) and [MarkerDisplay.show_marker] ([Display]). *)
From Coq Require Import List Bool Arith NArith Lia.
From PV Require Import Base.ListLemmas Base.Order Base.CutDef Base.CutLemmas DD.DDModel DD.DDBasics
  Interner.Store Interner.StoreProofs Interner.AndProofs Interner.Intern Interner.InternI Interner.InternIProofs
  Interner.EvalModel Interner.EvalProofs Marker.Concrete Marker.Expr.
From Coq Require String.
From PV Require Marker.DnfModel Text.MarkerDisplay.
Import ListNotations.
Local Open Scope nat_scope.

Section KindWalk.
Context {var val : Type} `{TotalOrder var} `{TotalOrder val}.
Notation cutV := (cut val).
Notation dd := (dd var val).
Notation snode := (snode (var:=var) (val:=val)).
Notation arena := (list snode).
Notation kview := (kview (var:=var) (val:=val)).

(** ** the children of a range view, one after the other; the walk fails as soon as one child fails *)
Fixpoint traverse_snd {A B : Type} (g : A -> option B) (l : list (cutV * A)) : option (list (cutV * B)) :=
  match l with
  | [] => Some []
  | (c, y) :: l' =>
      match g y with
      | None => None
      | Some z => match traverse_snd g l' with
                  | None => None
                  | Some r => Some ((c, z) :: r)
                  end
      end
  end.

Lemma traverse_snd_spec {A B : Type} (g : A -> option B) (h : A -> B) : forall l : list (cutV * A),
  (forall y, In y (map snd l) -> g y = Some (h y)) -> traverse_snd g l = Some (map_snd h l).
Proof.
  induction l as [|[c y] l IH]; intros G; [reflexivity|].
  cbn [traverse_snd]. rewrite (G y (or_introl eq_refl)). rewrite IH; [reflexivity|].
  intros z Iz. apply G. now right.
Qed.

Lemma traverse_snd_ext {A B : Type} (g g' : A -> option B) : forall l : list (cutV * A),
  (forall y, In y (map snd l) -> g y = g' y) -> traverse_snd g l = traverse_snd g' l.
Proof.
  induction l as [|[c y] l IH]; intros G; [reflexivity|].
  cbn [traverse_snd]. rewrite (G y (or_introl eq_refl)). rewrite IH; [reflexivity|].
  intros z Iz. apply G. now right.
Qed.

Lemma traverse_snd_map {A B C : Type} (g : A -> option B) (f : B -> C) : forall l : list (cutV * A),
  traverse_snd (fun y => option_map f (g y)) l = option_map (map_snd f) (traverse_snd g l).
Proof.
  induction l as [|[c y] l IH]; [reflexivity|].
  cbn [traverse_snd]. destruct (g y) as [z|]; cbn [option_map]; [|reflexivity].
  rewrite IH. destruct (traverse_snd g l) as [r|]; reflexivity.
Qed.

(** a failing child makes the whole list fail *)
Lemma traverse_snd_none {A B : Type} (g : A -> option B) : forall l : list (cutV * A),
  traverse_snd g l = None <-> exists y, In y (map snd l) /\ g y = None.
Proof.
  induction l as [|[c y] l IH]; cbn [traverse_snd map snd].
  - split; [discriminate|]. intros (y & [] & _).
  - destruct (g y) as [z|] eqn:E.
    + destruct (traverse_snd g l) as [r|].
      * split; [discriminate|]. intros (y' & [<-|Iy] & N); [congruence|].
        destruct IH as [_ IH]. discriminate IH. now exists y'.
      * split; [|reflexivity]. intros _. destruct IH as [IH _]. destruct (IH eq_refl) as (y' & Iy & N).
        exists y'. split; [now right|exact N].
    + split; [|reflexivity]. intros _. exists y. split; [now left|exact E].
Qed.

(** ** (G1) the diagram a recursive [kind()] walk sees *)
Fixpoint expand_i (fuel : nat) (a : arena) (x : nid) : option dd :=
  match fuel with
  | O => None
  | S fuel' =>
      match kind_i a x with
      | None => None                                        (* not an id of this arena *)
      | Some KTrue => Some (Leaf true)
      | Some KFalse => Some (Leaf false)
      | Some (KRange k d0 ds) =>
          match expand_i fuel' a d0 with
          | None => None
          | Some t0 => match traverse_snd (expand_i fuel' a) ds with
                       | None => None
                       | Some ts => Some (RNode k t0 ts)
                       end
          end
      | Some (KBool k hi lo) =>
          match expand_i fuel' a hi with
          | None => None
          | Some th => match expand_i fuel' a lo with
                       | None => None
                       | Some tl => Some (BNode k th tl)
                       end
          end
      end
  end.

Theorem expand_i_unfold (a : arena) : Inv a -> forall (fuel : nat) (x : nid),
  valid (length a) x -> rank x < fuel -> expand_i fuel a x = Some (unfold a x).
Proof.
  intros I. induction fuel as [|n IH]; intros x V R; [lia|].
  destruct (kind_i_some a x V) as [kv K]. cbn [expand_i]. rewrite K, (kind_i_unfold a x kv I K).
  pose proof (kind_i_children a x kv I K) as F. rewrite Forall_forall in F.
  assert (forall y, In y (kview_children kv) -> expand_i n a y = Some (unfold a y)) as G.
  { intros y Iy. destruct (F y Iy) as [Ry Vy]. apply IH; [exact Vy|lia]. }
  destruct kv as [| |k d0 ds|k hi lo]; cbn [kview_tree kview_children] in *; [reflexivity|reflexivity| |].
  - rewrite (G d0 (or_introl eq_refl)).
    rewrite (traverse_snd_spec (expand_i n a) (unfold a) ds); [reflexivity|].
    intros y Iy. apply G. now right.
  - rewrite (G hi (or_introl eq_refl)), (G lo (or_intror (or_introl eq_refl))). reflexivity.
Qed.

(** stable under arena extension: no hypothesis on the extension, none on the fuel *)
Theorem expand_i_app (a b : arena) : Inv a -> forall (fuel : nat) (x : nid),
  valid (length a) x -> expand_i fuel (a ++ b) x = expand_i fuel a x.
Proof.
  intros I. induction fuel as [|n IH]; intros x V; [reflexivity|].
  cbn [expand_i]. rewrite (kind_i_app a b x V). destruct (kind_i a x) as [kv|] eqn:K; [|reflexivity].
  pose proof (kind_i_children a x kv I K) as F. rewrite Forall_forall in F.
  destruct kv as [| |k d0 ds|k hi lo]; cbn [kview_children] in *; [reflexivity|reflexivity| |].
  - rewrite (IH d0); [|apply F; now left].
    rewrite (traverse_snd_ext (expand_i n (a ++ b)) (expand_i n a) ds); [reflexivity|].
    intros y Iy. apply IH. apply F. now right.
  - rewrite (IH hi); [|apply F; now left]. rewrite (IH lo); [|apply F; right; now left]. reflexivity.
Qed.

Corollary expand_i_stable (a b : arena) (fuel : nat) (x : nid) :
  Inv a -> valid (length a) x -> rank x < fuel ->
  expand_i fuel (a ++ b) x = expand_i fuel a x /\ expand_i fuel (a ++ b) x = Some (unfold (a ++ b) x).
Proof.
  intros I V R. rewrite (expand_i_app a b I fuel x V). split; [reflexivity|].
  rewrite (unfold_stable a b x V). now apply expand_i_unfold.
Qed.

(** [None] only for out-of-fuel / foreign ids: an id that is not in the arena fails at any fuel, a valid one
    succeeds as soon as the fuel exceeds its rank *)
Lemma expand_i_foreign (a : arena) (fuel : nat) (x : nid) : ~ valid (length a) x -> expand_i fuel a x = None.
Proof.
  intros NV. destruct fuel as [|n]; [reflexivity|]. cbn [expand_i].
  destruct (kind_i_none a x) as [_ K]. now rewrite (K NV).
Qed.

Theorem expand_i_none (a : arena) (fuel : nat) (x : nid) : Inv a -> rank x < fuel ->
  (expand_i fuel a x = None <-> ~ valid (length a) x).
Proof.
  intros I R. split.
  - intros E V. rewrite (expand_i_unfold a I fuel x V R) in E. discriminate.
  - apply expand_i_foreign.
Qed.

(** ** (G2) a walk given by an algebra on views: on ids, and on trees *)
Section Fold.
Context {A : Type}.
Variable fleaf : bool -> A.
Variable frange : var -> A -> list (cutV * A) -> A.
Variable fbool : var -> A -> A -> A.

Fixpoint fold_dd (t : dd) : A :=
  match t with
  | Leaf b => fleaf b
  | RNode k d0 ds =>
      frange k (fold_dd d0)
        ((fix go (l : list (cutV * dd)) : list (cutV * A) :=
            match l with [] => [] | (c, d) :: l' => (c, fold_dd d) :: go l' end) ds)
  | BNode k hi lo => fbool k (fold_dd hi) (fold_dd lo)
  end.

Lemma fold_dd_rnode (k : var) (d0 : dd) (ds : list (cutV * dd)) :
  fold_dd (RNode k d0 ds) = frange k (fold_dd d0) (map_snd fold_dd ds).
Proof. cbn [fold_dd]. now rewrite mapfix_eq. Qed.

Fixpoint fold_i (fuel : nat) (a : arena) (x : nid) : option A :=
  match fuel with
  | O => None
  | S fuel' =>
      match kind_i a x with
      | None => None
      | Some KTrue => Some (fleaf true)
      | Some KFalse => Some (fleaf false)
      | Some (KRange k d0 ds) =>
          match fold_i fuel' a d0 with
          | None => None
          | Some r0 => match traverse_snd (fold_i fuel' a) ds with
                       | None => None
                       | Some rs => Some (frange k r0 rs)
                       end
          end
      | Some (KBool k hi lo) =>
          match fold_i fuel' a hi with
          | None => None
          | Some rh => match fold_i fuel' a lo with
                       | None => None
                       | Some rl => Some (fbool k rh rl)
                       end
          end
      end
  end.

(** the walk with an algebra is the algebra on the diagram the plain walk rebuilds: for ANY arena, id and fuel *)
Theorem fold_i_expand : forall (fuel : nat) (a : arena) (x : nid),
  fold_i fuel a x = option_map fold_dd (expand_i fuel a x).
Proof.
  induction fuel as [|n IH]; intros a x; [reflexivity|].
  cbn [fold_i expand_i]. destruct (kind_i a x) as [kv|]; [|reflexivity].
  destruct kv as [| |k d0 ds|k hi lo]; [reflexivity|reflexivity| |].
  - rewrite (IH a d0). destruct (expand_i n a d0) as [t0|]; cbn [option_map]; [|reflexivity].
    rewrite (traverse_snd_ext (fold_i n a) (fun y => option_map fold_dd (expand_i n a y)) ds (fun y _ => IH a y)).
    rewrite traverse_snd_map. destruct (traverse_snd (expand_i n a) ds) as [ts|]; cbn [option_map]; [|reflexivity].
    now rewrite fold_dd_rnode.
  - rewrite (IH a hi), (IH a lo).
    destruct (expand_i n a hi) as [th|]; cbn [option_map]; [|reflexivity].
    destruct (expand_i n a lo) as [tl|]; reflexivity.
Qed.

Theorem fold_i_unfold (a : arena) : Inv a -> forall (fuel : nat) (x : nid),
  valid (length a) x -> rank x < fuel -> fold_i fuel a x = Some (fold_dd (unfold a x)).
Proof. intros I fuel x V R. rewrite fold_i_expand, (expand_i_unfold a I fuel x V R). reflexivity. Qed.

Theorem fold_i_app (a b : arena) : Inv a -> forall (fuel : nat) (x : nid),
  valid (length a) x -> fold_i fuel (a ++ b) x = fold_i fuel a x.
Proof. intros I fuel x V. rewrite !fold_i_expand, (expand_i_app a b I fuel x V). reflexivity. Qed.
End Fold.

(** the plain walk is the walk with the constructors as algebra, and that fold is the identity on trees *)
Lemma fold_dd_id : forall t : dd, fold_dd (@Leaf var val) (@RNode var val) (@BNode var val) t = t.
Proof.
  induction t as [b|k d0 ds IH0 IHl|k hi lo IHh IHl] using dd_ind2.
  - reflexivity.
  - rewrite fold_dd_rnode, IH0. f_equal. rewrite <- (map_snd_id ds) at 2. apply map_snd_ext. exact IHl.
  - cbn [fold_dd]. now rewrite IHh, IHl.
Qed.

Corollary expand_i_fold (fuel : nat) (a : arena) (x : nid) :
  fold_i (@Leaf var val) (@RNode var val) (@BNode var val) fuel a x = expand_i fuel a x.
Proof.
  rewrite fold_i_expand. destruct (expand_i fuel a x) as [t|]; cbn [option_map]; [|reflexivity]. now rewrite fold_dd_id.
Qed.

(** every function of the tree the walk sees, on an id = that function of the diagram the id denotes *)
Corollary walk_observation {A : Type} (f : dd -> A) (a : arena) (fuel : nat) (x : nid) :
  Inv a -> valid (length a) x -> rank x < fuel -> option_map f (expand_i fuel a x) = Some (f (unfold a x)).
Proof. intros I V R. now rewrite (expand_i_unfold a I fuel x V R). Qed.
End KindWalk.

Print Assumptions expand_i_unfold.
Print Assumptions expand_i_app.
Print Assumptions expand_i_stable.
Print Assumptions expand_i_none.
Print Assumptions fold_i_expand.
Print Assumptions fold_i_unfold.
Print Assumptions fold_i_app.
Print Assumptions expand_i_fold.

(** ** (G3) markers, default fuel *)
Definition m_expand_i (a : marena) (x : nid) : option mdd := expand_i (eval_fuel a) a x.

Theorem m_expand_i_unfold (a : marena) (x : nid) :
  Inv a -> valid (List.length a) x -> m_expand_i a x = Some (unfold a x).
Proof. intros I V. apply expand_i_unfold; [exact I|exact V|now apply rank_le_length]. Qed.

(** any observation that is a function of what a recursive [kind()] walk sees is a function of the diagram *)
Theorem m_walk_observation (a : marena) (x : nid) : Inv a -> valid (List.length a) x ->
  forall (A : Type) (f : mdd -> A), option_map f (m_expand_i a x) = Some (f (unfold a x)).
Proof. intros I V A f. now rewrite (m_expand_i_unfold a x I V). Qed.

(** ... for a walk given by an algebra, run directly on the ids *)
Theorem m_fold_i_unfold {A : Type} (fleaf : bool -> A) (frange : var -> A -> list (cut val * A) -> A)
    (fbool : var -> A -> A -> A) (a : marena) (x : nid) : Inv a -> valid (List.length a) x ->
  fold_i fleaf frange fbool (eval_fuel a) a x = Some (fold_dd fleaf frange fbool (unfold a x)).
Proof. intros I V. apply fold_i_unfold; [exact I|exact V|now apply rank_le_length]. Qed.

(** ... and it is insensitive to whatever is interned later (the fuel grows with the arena; the answer does not change) *)
Theorem m_expand_i_stable (a b : marena) (x : nid) :
  Inv a -> valid (List.length a) x -> m_expand_i (a ++ b) x = m_expand_i a x.
Proof.
  intros I V. unfold m_expand_i. rewrite (expand_i_app a b I (eval_fuel (a ++ b)) x V).
  rewrite (expand_i_unfold a I (eval_fuel (a ++ b)) x V).
  - symmetry. apply expand_i_unfold; [exact I|exact V|now apply rank_le_length].
  - unfold eval_fuel. rewrite app_length. pose proof (rank_le_length _ _ V). lia.
Qed.

(** [MarkerTree::to_dnf] *)
Corollary to_dnf_i_unfold (a : marena) (x : nid) : Inv a -> valid (List.length a) x ->
  option_map DnfModel.to_dnf (m_expand_i a x) = Some (DnfModel.to_dnf (unfold a x)).
Proof. intros I V. exact (m_walk_observation a x I V _ DnfModel.to_dnf). Qed.

Corollary collect_dnf_i_unfold (a : marena) (x : nid) : Inv a -> valid (List.length a) x ->
  option_map DnfModel.collect_dnf (m_expand_i a x) = Some (DnfModel.collect_dnf (unfold a x)).
Proof. intros I V. exact (m_walk_observation a x I V _ DnfModel.collect_dnf). Qed.

(** [Display for MarkerTree] / [try_to_string], for any rendering of keys and versions and any [python_version] index *)
Corollary show_marker_i_unfold (vkey_text skey_text : N -> list N) (vshow : list N -> list N)
    (vshow_raw : rawversion -> list N) (pv : N) (a : marena) (x : nid) : Inv a -> valid (List.length a) x ->
  option_map (MarkerDisplay.show_marker vkey_text skey_text vshow vshow_raw pv) (m_expand_i a x)
  = Some (MarkerDisplay.show_marker vkey_text skey_text vshow vshow_raw pv (unfold a x)).
Proof. intros I V. exact (m_walk_observation a x I V _ (MarkerDisplay.show_marker vkey_text skey_text vshow vshow_raw pv)). Qed.

Print Assumptions m_expand_i_unfold.
Print Assumptions m_walk_observation.
Print Assumptions m_fold_i_unfold.
Print Assumptions m_expand_i_stable.
Print Assumptions to_dnf_i_unfold.
Print Assumptions collect_dnf_i_unfold.
Print Assumptions show_marker_i_unfold.

(** ** on every reachable state: the walk on a register's id rebuilds the diagram the register denotes *)
Corollary expand_i_reachable (pv pfv : N) (h w : list mop) (i : nat) :
  let s := mrun_i pv pfv (fresh_i (mrun_i pv pfv init_i h)) w in
  m_expand_i (si_arena s) (regi s i) = Some (reg (forget s) i).
Proof.
  cbv zeta. set (s := mrun_i pv pfv (fresh_i (mrun_i pv pfv init_i h)) w).
  assert (SInv_i s) as [(I & _ & _) V].
  { apply mrun_i_spec. apply SInv_i_fresh. apply mrun_i_spec. exact SInv_i_init. }
  cbn [fst] in I. pose proof (regi_valid s i V) as Vx.
  change (reg (forget s) i) with (unfold (si_arena s) (regi s i)).
  now apply m_expand_i_unfold.
Qed.

Print Assumptions expand_i_reachable.

(** ** (E) non-vacuity: the arena of the 15-step program of InternIProofs.v (EvalProofs.v: [ex_state], [ex_arena]);
    register 8 holds the COMPLEMENTED id [NNode 7 true], register 12 its negation [NNode 7 false] *)
Module KindWalkExample.
Import String.
Example expand_i_example :
  let a := ex_arena in
  let x := regi ex_state 8 in
  let y := regi ex_state 12 in
  let v1 : cut val := (inl (0%N, ([1%N], FINAL)), Below) in
  let v38 : cut val := (inl (0%N, ([3%N; 8%N], FINAL)), Below) in
  let extra_a : mdd := BNode (VExtra false [97%N]) (Leaf true) (Leaf false) in
  let t : mdd :=
    RNode (VVersion 0%N)
      (RNode (VVersion 1%N) (Leaf false) [(v38, Leaf true)])
      [(v1, RNode (VString 1%N) extra_a [((inr [98%N], Below), Leaf true); ((inr [98%N], Above), extra_a)])] in
  List.length a = 15 /\ x = NNode 7 true /\ y = NNode 7 false /\
  (* the stored node has the children [NNode 5 false], [NNode 3 true]; the walk from the complemented id goes
     through their negations and rebuilds the diagram, which is the unfolding *)
  nth_error a 7 = Some (SR (VVersion 0%N) (NNode 5 false) [(v1, NNode 3 true)]) /\
  m_expand_i a x = Some t /\ unfold a x = t /\
  (* the same index without the bit: the complement, leaf for leaf *)
  m_expand_i a y = Some (tneg t) /\ m_expand_i a y <> m_expand_i a x /\
  (* the walk visits entries 7, 3, 2 and a terminal: fuel 4 is enough, fuel 3 is not *)
  expand_i 4 a x = Some t /\ expand_i 3 a x = None /\
  (* an id that is not in the arena *)
  m_expand_i a (NNode 15 false) = None /\
  (* all registers at once *)
  map (m_expand_i a) (si_regs ex_state) = map (fun z => Some (unfold a z)) (si_regs ex_state) /\
  (* the generic fold on ids: number of leaves the walk reaches, against the same fold of the tree *)
  fold_i (fun _ => 1) (fun _ n0 ns => n0 + fold_right (fun p s => snd p + s) 0 ns) (fun _ nh nl => nh + nl) (eval_fuel a) a x
    = Some 7 /\
  fold_dd (fun _ => 1) (fun _ n0 ns => n0 + fold_right (fun p s => snd p + s) 0 ns) (fun _ nh nl => nh + nl) t = 7 /\
  (* [to_dnf] and [Display] of what the walk sees *)
  option_map DnfModel.to_dnf (m_expand_i a x) =
    Some [[EVersion 0%N OLt [1%N]; EVersion 1%N OGe [3%N; 8%N]];
          [EVersion 0%N OGe [1%N]; EExtra false false [97%N]];
          [EVersion 0%N OGe [1%N]; EString 1%N SEq [98%N]]] /\
  option_map MarkerDisplay.DisplayExamples.show (m_expand_i a x) =
    Some (Some (MarkerDisplay.DisplayExamples.txt
      "(implementation_version < '1' and python_full_version >= '3.8') or (implementation_version >= '1' and extra == 'a') or (implementation_version >= '1' and os_name == 'b')"%string)) /\
  option_map MarkerDisplay.DisplayExamples.show (m_expand_i a y) =
    Some (Some (MarkerDisplay.DisplayExamples.txt
      "(implementation_version < '1' and python_full_version < '3.8') or (implementation_version >= '1' and os_name != 'b' and extra != 'a')"%string)).
Proof. vm_compute. repeat split; try reflexivity. discriminate. Qed.
End KindWalkExample.
