(** L2: [restrict_i], [simplify_i] / [simplify_pv_i], [complexify_i] / [complexify_pv_i] (OpsModel.v) refine the
    L1 operations [trestrict], [tsimplify_pv] / [simplify_pv], [tcomplexify_pv] / [complexify_pv] on the unfolded
    diagrams, for every store that satisfies the invariant of AndProofs.v. *)
From Coq Require Import List Bool Arith Lia.
From PV Require Import Base.ListLemmas Base.Order Base.CutDef Base.CutLemmas DD.DDModel DD.DDBasics DD.DDAnd DD.DDWf DD.DDWfOps
  DD.DDCanon DD.DDRestrict DD.DDPyVer DD.DDPyVerProofs
  Interner.Store Interner.StoreProofs Interner.CreateProofs Interner.AndModel Interner.OpsModel Interner.AndProofs.
Import ListNotations.


(** ** windows: [restrict_window] only looks at the cuts *)
Section Win.
Context {V : Type} `{TotalOrder V}.
Notation cutW := (cut V).

Lemma drop_le_map {A B} (g : A -> B) (lo : cutW) : forall (l : list (cutW * A)) cur,
  drop_le lo (g cur) (map_snd g l) = let (c', l') := drop_le lo cur l in (g c', map_snd g l').
Proof.
  unfold map_snd. induction l as [|[c d] l IH]; intros cur; [reflexivity|].
  cbn [map fst snd drop_le]. destruct (cut_cmp c lo); [apply IH|apply IH|reflexivity].
Qed.

Lemma take_lt_map {A B} (g : A -> B) (hi : cutW) : forall (l : list (cutW * A)),
  take_lt hi (map_snd g l) = map_snd g (take_lt hi l).
Proof.
  unfold map_snd. induction l as [|[c d] l IH]; [reflexivity|].
  cbn [map fst snd take_lt]. destruct (cut_cmp c hi); [reflexivity| |reflexivity]. cbn [map fst snd]. now rewrite IH.
Qed.

Lemma restrict_window_map {A B} (g : A -> B) (w : option cutW * option cutW) (d0 : A) (ds : list (cutW * A)) :
  restrict_window w (g d0) (map_snd g ds) = let (d0', ds') := restrict_window w d0 ds in (g d0', map_snd g ds').
Proof.
  unfold restrict_window. destruct (fst w) as [lo|].
  - rewrite (drop_le_map g lo ds d0). destruct (drop_le lo d0 ds) as [c' l']. destruct (snd w) as [hi|]; [|reflexivity].
    now rewrite take_lt_map.
  - destruct (snd w) as [hi|]; [|reflexivity]. now rewrite take_lt_map.
Qed.

Lemma last_child_map {A B} (g : A -> B) : forall (l : list (cutW * A)) cur, last_child (g cur) (map_snd g l) = g (last_child cur l).
Proof. unfold map_snd. induction l as [|[c d] l IH]; intros cur; [reflexivity|]. cbn [map fst snd last_child]. apply IH. Qed.

Lemma map_snd_app {A B} (g : A -> B) (l1 l2 : list (cutW * A)) : map_snd g (l1 ++ l2) = map_snd g l1 ++ map_snd g l2.
Proof. unfold map_snd. apply map_app. Qed.

Lemma drop_le_reduced {A} (lo : cutW) : forall (l : list (cutW * A)) cur, reduced cur l ->
  reduced (fst (drop_le lo cur l)) (snd (drop_le lo cur l)).
Proof.
  induction l as [|[c d] l IH]; intros cur R; [exact R|].
  cbn [drop_le]. cbn [reduced] in R. destruct R as [N R]. destruct (cut_cmp c lo); [now apply IH|now apply IH|].
  cbn [fst snd reduced]. now split.
Qed.

Lemma take_lt_reduced {A} (hi : cutW) : forall (l : list (cutW * A)) cur, reduced cur l -> reduced cur (take_lt hi l).
Proof.
  induction l as [|[c d] l IH]; intros cur R; [exact R|].
  cbn [take_lt]. cbn [reduced] in R. destruct R as [N R]. destruct (cut_cmp c hi); cbn [reduced]; auto.
Qed.

Lemma restrict_window_reduced {A} (w : option cutW * option cutW) (d0 : A) (ds : list (cutW * A)) : reduced d0 ds ->
  reduced (fst (restrict_window w d0 ds)) (snd (restrict_window w d0 ds)).
Proof.
  intros R. unfold restrict_window.
  assert (reduced (fst (match fst w with None => (d0, ds) | Some lo => drop_le lo d0 ds end))
                  (snd (match fst w with None => (d0, ds) | Some lo => drop_le lo d0 ds end))) as R1.
  { destruct (fst w) as [lo|]; [now apply drop_le_reduced|exact R]. }
  destruct (match fst w with None => (d0, ds) | Some lo => drop_le lo d0 ds end) as [c' l']. cbn [fst snd] in *.
  destruct (snd w) as [hi|]; [now apply take_lt_reduced|exact R1].
Qed.

Lemma drop_le_in {A} (lo : cutW) : forall (l : list (cutW * A)) cur,
  In (fst (drop_le lo cur l)) (cur :: map snd l) /\ incl (map snd (snd (drop_le lo cur l))) (map snd l).
Proof.
  induction l as [|[c d] l IH]; intros cur; [split; [now left|apply incl_refl]|].
  cbn [drop_le map snd]. destruct (IH d) as [I1 I2].
  destruct (cut_cmp c lo); cbn [fst snd map]; try (split; [now right|now apply incl_tl]).
  split; [now left|apply incl_refl].
Qed.

Lemma take_lt_in {A} (hi : cutW) : forall (l : list (cutW * A)), incl (map snd (take_lt hi l)) (map snd l).
Proof.
  induction l as [|[c d] l IH]; [apply incl_refl|]. cbn [take_lt]. destruct (cut_cmp c hi); cbn [map snd]; [intros z []| |intros z []].
  apply incl_cons; [now left|now apply incl_tl].
Qed.

Lemma restrict_window_in {A} (w : option cutW * option cutW) (d0 : A) (ds : list (cutW * A)) :
  In (fst (restrict_window w d0 ds)) (d0 :: map snd ds) /\ incl (map snd (snd (restrict_window w d0 ds))) (map snd ds).
Proof.
  unfold restrict_window.
  assert (In (fst (match fst w with None => (d0, ds) | Some lo => drop_le lo d0 ds end)) (d0 :: map snd ds) /\ incl (map snd (snd (match fst w with None => (d0, ds) | Some lo => drop_le lo d0 ds end))) (map snd ds)) as [I1 I2].
  { destruct (fst w) as [lo|]; [apply drop_le_in|split; [now left|apply incl_refl]]. }
  destruct (match fst w with None => (d0, ds) | Some lo => drop_le lo d0 ds end) as [c' l']. cbn [fst snd] in *.
  split; [exact I1|]. destruct (snd w) as [hi|]; [|exact I2]. eapply incl_tran; [apply take_lt_in|exact I2].
Qed.

Lemma last_child_in {A} : forall (l : list (cutW * A)) cur, In (last_child cur l) (cur :: map snd l).
Proof.
  induction l as [|[c d] l IH]; intros cur; [now left|]. cbn [last_child map snd]. right. apply IH.
Qed.
End Win.

Section OpsProofs.
Context {var val : Type} `{TotalOrder var} `{TotalOrder val}.
Notation cutV := (cut val).
Notation dd := (dd var val).
Notation snode := (snode (var:=var) (val:=val)).
Notation arena := (list snode).
Notation ist := (ist (var:=var) (val:=val)).
Notation window := (window (val:=val)).

Section WithQ.
Variable Q : dd -> Prop.
Hypothesis Q_tand : forall a b, Q a -> Q b -> Q (tand a b).
Hypothesis Q_tneg : forall a, Q a -> Q (tneg a).

(** ** [create_node] without a cache entry, and the re-complemented result *)
Lemma finish_post (a0 : arena) (s1 : ist) (n : snode) (t : dd) :
  SOK Q s1 -> aext a0 (fst s1) -> node_valid (length (fst s1)) n ->
  reduce_node (node_tree (unfold_all (fst s1)) n) = t -> Q t ->
  post Q a0 t (finish s1 n).
Proof.
  intros (I1 & C1 & W1) E1 Vn R Qt. unfold finish.
  destruct (create_node_spec (fst s1) n I1 Vn) as (I2 & E2 & V2 & U2).
  pose proof (create_node_shape (fst s1) n) as Sh.
  destruct (create_node (fst s1) n) as [a' r]. cbn [fst snd] in *.
  assert (aext a0 a') as E02 by (eapply aext_trans; eauto).
  unfold post. cbn [fst snd]. split; [|split; [exact E02|split; [exact V2|now rewrite U2]]].
  split; cbn [fst snd]; [exact I2|]. split.
  - exact (cache_ok_ext (fst s1) a' _ E2 C1).
  - assert (Q (unfold a' r)) as Qr by (now rewrite U2, R).
    intros z Vz. destruct Sh as [-> | (n' & fl & Esh)]; [now apply W1|].
    injection Esh as -> ->.
    assert (valid (length (fst s1)) z \/ exists cz, z = NNode (length (fst s1)) cz) as [Vold | [cz ->]].
    { destruct z as [| |m cz]; [left; exact Logic.I|left; exact Logic.I|]. cbn [valid] in Vz. rewrite app_length in Vz. cbn [length] in Vz.
      destruct (Nat.eq_dec m (length (fst s1))) as [-> | Ne]; [right; eauto|left; cbn [valid]; lia]. }
    + rewrite (unfold_stable (fst s1) [n'] z Vold). now apply W1.
    + destruct (Bool.eqb cz fl) eqn:Eb.
      * apply eqb_prop in Eb. subst cz. exact Qr.
      * replace (NNode (length (fst s1)) cz) with (nnot (NNode (length (fst s1)) fl)) by (destruct cz, fl; try reflexivity; discriminate).
        rewrite unfold_nnot. now apply Q_tneg.
Qed.

Lemma post_nnegate (a0 : arena) (t : dd) (res : ist * nid) (p : nid) :
  post Q a0 t res -> post Q a0 (if is_compl p then tneg t else t) (let (s', r) := res in (s', nnegate r p)).
Proof.
  destruct res as [s' r]. unfold post. cbn [fst snd]. intros (S' & E' & V' & U').
  split; [exact S'|]. split; [exact E'|]. split; [now apply valid_nnegate|].
  unfold nnegate. destruct (is_compl p); [now rewrite unfold_nnot, U'|exact U'].
Qed.

(** a node built from RAW children of a node [p] (not un-complemented) and re-complemented like [p]:
    its diagram is the node built from the un-complemented children *)
Lemma finish_raw (s : ist) (p : nid) k (e0 : nid) (es : list (cutV * nid)) (t : dd) :
  SOK Q s -> valid (length (fst s)) e0 -> Forall (valid (length (fst s))) (map snd es) ->
  reduce_node (RNode k (unfold (fst s) (nnegate e0 p)) (map_snd (fun d => unfold (fst s) (nnegate d p)) es)) = t -> Q t ->
  post Q (fst s) t (let (s', r) := finish s (SR k e0 es) in (s', nnegate r p)).
Proof.
  intros S V0 Vs R Qt.
  set (t0 := reduce_node (node_tree (unfold_all (fst s)) (SR k e0 es))).
  assert (t = if is_compl p then tneg t0 else t0) as Et.
  { rewrite <- R. unfold t0. cbn [node_tree]. change (tree_of (unfold_all (fst s))) with (unfold (fst s)).
    unfold nnegate. destruct (is_compl p); [|reflexivity].
    rewrite <- reduce_node_tneg, tneg_eq. f_equal. f_equal; [apply unfold_nnot|].
    rewrite map_snd_map_snd. apply map_snd_ext. apply Forall_forall. intros d _. apply unfold_nnot. }
  assert (Q t0) as Qt0.
  { destruct (is_compl p); [|now rewrite <- Et]. rewrite <- (tneg_involutive t0), <- Et. now apply Q_tneg. }
  assert (node_valid (length (fst s)) (SR k e0 es)) as Vn by (unfold node_valid; cbn [children]; now constructor).
  pose proof (finish_post (fst s) s (SR k e0 es) t0 S (aext_refl _) Vn eq_refl Qt0) as P.
  apply (post_nnegate (fst s) t0 _ p) in P. rewrite <- Et in P. exact P.
Qed.

(** ** [restrict] *)
Lemma restrict_i_S n f (s : ist) (x : nid) : restrict_i (S n) f s x =
  match node_at (fst s) x with
  | None => (s, x)
  | Some nd =>
      let recurse := let '(s1, nd') := map_node (fun s c => restrict_i n f s c) x s nd in finish s1 nd' in
      match nd with
      | SB k hi lo =>
          match f k with
          | Some v => restrict_i n f s (nnegate (if v then hi else lo) x)
          | None => recurse
          end
      | SR _ _ _ => recurse
      end
  end.
Proof. reflexivity. Qed.

Theorem restrict_i_post (f : var -> option bool) : (forall t, Q t -> Q (trestrict f t)) ->
  forall fuel (s : ist) (x : nid), SOK Q s -> valid (length (fst s)) x -> rank x < fuel ->
  post Q (fst s) (trestrict f (unfold (fst s) x)) (restrict_i fuel f s x).
Proof.
  intros Qf. induction fuel as [|n IH]; intros s x S Vx Hf; [lia|].
  pose proof S as (I & C & W).
  assert (forall s' u, SOK Q s' -> aext (fst s) (fst s') -> valid (length (fst s)) u -> rank u < n ->
            post Q (fst s') (trestrict f (unfold (fst s) u)) (restrict_i n f s' u)) as Hrec.
  { intros s' u S' E' Vu Hr. rewrite <- (aext_unfold _ _ u E' Vu). apply IH; auto. eapply aext_valid; eauto. }
  clear IH. rewrite restrict_i_S.
  destruct x as [| |i c]; [apply post_same; auto|apply post_same; auto|].
  cbn [node_at]. cbn [valid] in Vx. cbn [rank] in Hf.
  destruct (nth_error (fst s) i) as [nd|] eqn:Ex; [|apply nth_error_None in Ex; lia].
  pose proof (entry_children (fst s) I i nd Ex) as Cx. rewrite Forall_forall in Cx.
  assert (forall s' ch, In ch (children nd) -> SOK Q s' -> aext (fst s) (fst s') ->
            post Q (fst s') (trestrict f (unfold (fst s) (nnegate ch (NNode i c)))) (restrict_i n f s' (nnegate ch (NNode i c)))) as HF.
  { intros s' ch Ich S' E'. destruct (Cx ch Ich) as [Rc Vc]. apply Hrec; auto; [now apply valid_nnegate|rewrite rank_nnegate; lia]. }
  assert (node_map (trestrict f) (unfold (fst s) (NNode i c)) = trestrict f (unfold (fst s) (NNode i c)) ->
          post Q (fst s) (trestrict f (unfold (fst s) (NNode i c)))
            (let '(s1, nd') := map_node (fun s c0 => restrict_i n f s c0) (NNode i c) s nd in finish s1 nd')) as Hrecurse.
  { intros En.
    pose proof (map_node_spec Q (fun s ch => restrict_i n f s ch) (trestrict f) (fst s) i c nd I Ex HF s S (aext_refl _)) as Hm.
    cbv zeta in Hm. destruct (map_node _ (NNode i c) s nd) as [s1 n']. cbn [fst snd] in Hm.
    destruct Hm as (S1 & E1 & Vn & Rn).
    apply (finish_post (fst s) s1 n' _ S1 E1 Vn); [now rewrite Rn|]. apply Qf. now apply W. }
  destruct nd as [k d0 ds|k hi lo]; cbv zeta.
  - apply Hrecurse. rewrite (unfold_SR (fst s) i c k d0 ds I Ex). cbn [node_map]. now rewrite (trestrict_eq f (RNode _ _ _)).
  - destruct (f k) as [v|] eqn:Fk.
    + rewrite (unfold_SB (fst s) i c k hi lo I Ex), (trestrict_eq f (BNode _ _ _)), Fk.
      destruct v; [apply (HF s hi); [now left|exact S|apply aext_refl]|apply (HF s lo); [right; now left|exact S|apply aext_refl]].
    + apply Hrecurse. rewrite (unfold_SB (fst s) i c k hi lo I Ex). cbn [node_map]. now rewrite (trestrict_eq f (BNode _ _ _)), Fk.
Qed.


(** ** [simplify_python_versions] *)
Lemma reduce_rnode_reduced k (d0 : dd) (ds : list (cutV * dd)) : reduced d0 ds -> reduce_node (RNode k d0 ds) = mk_rnode k d0 ds.
Proof. intros R. rewrite <- (reduce_rnode_coalesced k d0 ds). now rewrite (coalesce_id dd_eqb dd_eqb_spec ds d0 R). Qed.

Lemma simplify_i_S n pk w (s : ist) (x : nid) : simplify_i (S n) pk w s x =
  match node_at (fst s) x with
  | None => (s, x)
  | Some nd =>
      let recurse := let '(s1, nd') := map_node (fun s c => simplify_i n pk w s c) x s nd in finish s1 nd' in
      match nd with
      | SR k d0 ds =>
          if eqb_of k pk then
            let (d0', ds') := restrict_window w d0 ds in
            let (s', r) := finish s (SR k d0' ds') in (s', nnegate r x)
          else recurse
      | SB _ _ _ => recurse
      end
  end.
Proof. reflexivity. Qed.

(** the stored nodes must have pairwise different adjacent children ([Q_red]): the python_full_version arm does not
    coalesce the edges it keeps *)
Hypothesis Q_red : forall k d0 ds, Q (RNode k d0 ds) -> reduced d0 ds.

Theorem simplify_i_post (pk : var) (w : window) : (forall t, Q t -> Q (tsimplify_pv pk w t)) ->
  forall fuel (s : ist) (x : nid), SOK Q s -> valid (length (fst s)) x -> rank x < fuel ->
  post Q (fst s) (tsimplify_pv pk w (unfold (fst s) x)) (simplify_i fuel pk w s x).
Proof.
  intros Qf. induction fuel as [|n IH]; intros s x S Vx Hf; [lia|].
  pose proof S as (I & C & W).
  assert (forall s' u, SOK Q s' -> aext (fst s) (fst s') -> valid (length (fst s)) u -> rank u < n ->
            post Q (fst s') (tsimplify_pv pk w (unfold (fst s) u)) (simplify_i n pk w s' u)) as Hrec.
  { intros s' u S' E' Vu Hr. rewrite <- (aext_unfold _ _ u E' Vu). apply IH; auto. eapply aext_valid; eauto. }
  clear IH. rewrite simplify_i_S.
  destruct x as [| |i c]; [apply post_same; auto|apply post_same; auto|].
  cbn [node_at]. cbn [valid] in Vx. cbn [rank] in Hf.
  destruct (nth_error (fst s) i) as [nd|] eqn:Ex; [|apply nth_error_None in Ex; lia].
  pose proof (entry_children (fst s) I i nd Ex) as Cx. rewrite Forall_forall in Cx.
  assert (Q (tsimplify_pv pk w (unfold (fst s) (NNode i c)))) as Qt by (apply Qf; now apply W).
  assert (forall s' ch, In ch (children nd) -> SOK Q s' -> aext (fst s) (fst s') ->
            post Q (fst s') (tsimplify_pv pk w (unfold (fst s) (nnegate ch (NNode i c)))) (simplify_i n pk w s' (nnegate ch (NNode i c)))) as HF.
  { intros s' ch Ich S' E'. destruct (Cx ch Ich) as [Rc Vc]. apply Hrec; auto; [now apply valid_nnegate|rewrite rank_nnegate; lia]. }
  assert (node_map (tsimplify_pv pk w) (unfold (fst s) (NNode i c)) = tsimplify_pv pk w (unfold (fst s) (NNode i c)) ->
          post Q (fst s) (tsimplify_pv pk w (unfold (fst s) (NNode i c)))
            (let '(s1, nd') := map_node (fun s c0 => simplify_i n pk w s c0) (NNode i c) s nd in finish s1 nd')) as Hrecurse.
  { intros En.
    pose proof (map_node_spec Q (fun s ch => simplify_i n pk w s ch) (tsimplify_pv pk w) (fst s) i c nd I Ex HF s S (aext_refl _)) as Hm.
    cbv zeta in Hm. destruct (map_node _ (NNode i c) s nd) as [s1 n']. cbn [fst snd] in Hm.
    destruct Hm as (S1 & E1 & Vn & Rn).
    apply (finish_post (fst s) s1 n' _ S1 E1 Vn); [now rewrite Rn|exact Qt]. }
  destruct nd as [k d0 ds|k hi lo]; cbv zeta.
  - destruct (eqb_of k pk) eqn:Ek.
    + (* the python_full_version node: the raw children inside the window *)
      pose proof (W (NNode i c) Vx) as Qx.
      rewrite (unfold_SR (fst s) i c k d0 ds I Ex) in Qx, Qt |- *. apply Q_red in Qx.
      rewrite (tsimplify_eq pk w (RNode _ _ _)), Ek in Qt |- *.
      set (u := fun d => unfold (fst s) (nnegate d (NNode i c))) in *.
      change (unfold (fst s) (nnegate d0 (NNode i c))) with (u d0) in *.
      pose proof (restrict_window_reduced w (u d0) (map_snd u ds) Qx) as Rw.
      pose proof (restrict_window_in w d0 ds) as [In0 Ins].
      rewrite (restrict_window_map u w d0 ds) in Rw, Qt |- *.
      destruct (restrict_window w d0 ds) as [d0' ds']. cbn [fst snd] in *.
      apply finish_raw.
      * exact S.
      * exact (proj2 (Cx d0' In0)).
      * apply Forall_forall. intros z Iz. apply Cx. right. now apply Ins.
      * now apply reduce_rnode_reduced.
      * exact Qt.
    + apply Hrecurse. rewrite (unfold_SR (fst s) i c k d0 ds I Ex). cbn [node_map]. now rewrite (tsimplify_eq pk w (RNode _ _ _)), Ek.
  - apply Hrecurse. rewrite (unfold_SB (fst s) i c k hi lo I Ex). cbn [node_map]. now rewrite (tsimplify_eq pk w (BNode _ _ _)).
Qed.

Lemma simplify_pv_i_post (pk : var) (w : window) : (forall t, Q t -> Q (tsimplify_pv pk w t)) ->
  forall fuel (s : ist) (x : nid), SOK Q s -> valid (length (fst s)) x -> rank x < fuel ->
  post Q (fst s) (simplify_pv pk w (unfold (fst s) x)) (simplify_pv_i fuel pk w s x).
Proof.
  intros Qf fuel s x S Vx Hf. unfold simplify_pv_i, simplify_pv.
  destruct (unbounded w); [now apply post_same|].
  destruct (window_empty w); [apply post_same; [exact S|exact Logic.I|reflexivity]|].
  now apply simplify_i_post.
Qed.

(** ** [and_i] with a finer fuel: the sum of the DEPTHS of the operands' diagrams.  (The fuel [S (S (length arena))]
    that [complexify_i] passes is in general less than the sum of the ranks, but the window node has depth 1.) *)
Lemma depth_child_id (a : arena) i c (n : snode) ch : Inv a -> nth_error a i = Some n -> In ch (children n) ->
  depth (unfold a (nnegate ch (NNode i c))) < depth (unfold a (NNode i c)).
Proof.
  intros I E Ich. destruct n as [k d0 ds|k h l]; cbn [children] in Ich.
  - rewrite (unfold_SR a i c k d0 ds I E). apply depth_child. destruct Ich as [<- | Ich]; [now left|right].
    rewrite map_snd_children. now apply (in_map (fun d => unfold a (nnegate d (NNode i c)))).
  - rewrite (unfold_SB a i c k h l I E). cbn [depth]. destruct Ich as [<- | [<- | []]]; lia.
Qed.

Lemma depth_rnode_le k (d0 : dd) (ds : list (cutV * dd)) m :
  depth d0 <= m -> Forall (fun d => depth d <= m) (map snd ds) -> depth (RNode k d0 ds) <= S m.
Proof.
  intros L0 F. cbn [depth].
  assert ((fix go (l : list (cutV * dd)) := match l with [] => 0 | (_, d) :: l' => Nat.max (depth d) (go l') end) ds <= m); [|lia].
  induction ds as [|[c d] ds IH]; [lia|]. cbn [map snd] in F. inversion F as [|? ? Ld F']; subst. specialize (IH F'). lia.
Qed.

Lemma depth_le_rank (a : arena) : Inv a -> forall n (x : nid), rank x <= n -> valid (length a) x -> depth (unfold a x) <= rank x.
Proof.
  intros I. induction n as [|n IH]; intros x R V.
  - destruct x; [cbn; lia|cbn; lia|cbn [rank] in R; lia].
  - destruct x as [| |i c]; [cbn; lia|cbn; lia|]. cbn [valid] in V. cbn [rank] in R |- *.
    destruct (nth_error a i) as [m|] eqn:E; [|apply nth_error_None in E; lia].
    pose proof (entry_children a I i m E) as Cm. rewrite Forall_forall in Cm.
    assert (forall ch, In ch (children m) -> depth (unfold a (nnegate ch (NNode i c))) <= i) as Hch.
    { intros ch Ich. destruct (Cm ch Ich) as [Rc Vc].
      pose proof (IH (nnegate ch (NNode i c))) as Hd. rewrite rank_nnegate in Hd.
      assert (rank ch <= n) as Rn by lia. specialize (Hd Rn (proj2 (valid_nnegate _ ch (NNode i c)) Vc)). lia. }
    destruct m as [k d0 ds|k h l]; cbn [children] in Hch.
    + rewrite (unfold_SR a i c k d0 ds I E). apply depth_rnode_le; [apply Hch; now left|].
      rewrite map_snd_children, Forall_map. apply Forall_forall. intros d Id. apply Hch. now right.
    + rewrite (unfold_SB a i c k h l I E). cbn [depth].
      pose proof (Hch h (or_introl eq_refl)). pose proof (Hch l (or_intror (or_introl eq_refl))). lia.
Qed.

Theorem and_i_post_depth : forall fuel (s : ist) (x y : nid),
  SOK Q s -> valid (length (fst s)) x -> valid (length (fst s)) y ->
  depth (unfold (fst s) x) + depth (unfold (fst s) y) < fuel ->
  post Q (fst s) (tand (unfold (fst s) x) (unfold (fst s) y)) (and_i fuel s x y).
Proof.
  induction fuel as [|f IH]; intros s x y S Vx Vy Hf; [lia|].
  pose proof S as (I & C & W).
  assert (forall s' u v, SOK Q s' -> aext (fst s) (fst s') -> valid (length (fst s)) u -> valid (length (fst s)) v ->
            depth (unfold (fst s) u) + depth (unfold (fst s) v) < f ->
            post Q (fst s') (tand (unfold (fst s) u) (unfold (fst s) v)) (and_i f s' u v)) as Hrec.
  { intros s' u v S' E' Vu Vv Hr. rewrite <- (aext_unfold _ _ u E' Vu), <- (aext_unfold _ _ v E' Vv) in Hr |- *.
    apply IH; auto; eapply aext_valid; eauto. }
  clear IH. rewrite and_i_S.
  pose proof (tand_eq (unfold (fst s) x) (unfold (fst s) y)) as Et. unfold tand_step in Et.
  rewrite (is_true_unfold (fst s) x I Vx), (is_true_unfold (fst s) y I Vy),
          (is_false_unfold (fst s) x I Vx), (is_false_unfold (fst s) y I Vy) in Et.
  rewrite <- (nid_eqb_trees (fst s) x y I Vx Vy) in Et.
  rewrite <- (unfold_nnot (fst s) x) in Et.
  rewrite <- (nid_eqb_trees (fst s) (nnot x) y I (proj2 (valid_nnot _ x) Vx) Vy) in Et.
  destruct (is_true_id x) eqn:Tx. { rewrite Et. now apply post_same. }
  destruct (is_true_id y) eqn:Ty. { rewrite Et. now apply post_same. }
  unfold and_body.
  destruct (nid_eqb x y) eqn:Exy. { rewrite Et. now apply post_same. }
  destruct (is_false_id x || is_false_id y) eqn:Ef. { rewrite Et. apply post_same; [exact S|exact Logic.I|reflexivity]. }
  destruct (nid_eqb (nnot x) y) eqn:Enxy. { rewrite Et. apply post_same; [exact S|exact Logic.I|reflexivity]. }
  destruct (cache_get (snd s) x y) as [r|] eqn:G.
  { destruct (C x y r G) as (_ & _ & Vr & Ur). now apply post_same. }
  destruct x as [| |i c]; [discriminate Tx|cbn [is_false_id orb] in Ef; discriminate Ef|].
  destruct y as [| |j c']; [discriminate Ty|cbn [is_false_id orb] in Ef; discriminate Ef|].
  cbn [node_at]. cbn [valid] in Vx, Vy.
  destruct (nth_error (fst s) i) as [nx|] eqn:Ex; [|apply nth_error_None in Ex; lia].
  destruct (nth_error (fst s) j) as [ny|] eqn:Ey; [|apply nth_error_None in Ey; lia].
  pose proof (entry_children (fst s) I i nx Ex) as Cx. pose proof (entry_children (fst s) I j ny Ey) as Cy.
  rewrite Forall_forall in Cx, Cy.
  pose proof (var_of_unfold (fst s) i c nx I Ex) as Kx. pose proof (var_of_unfold (fst s) j c' ny I Ey) as Ky.
  destruct (cmp (svar nx) (svar ny)) eqn:Cm.
  - rewrite (tand_core_eq _ _ _ _ Kx Ky Cm) in Et.
    assert (forall s' ch ch', In ch (children nx) -> In ch' (children ny) -> SOK Q s' -> aext (fst s) (fst s') ->
              post Q (fst s') (tand (unfold (fst s) (nnegate ch (NNode i c))) (unfold (fst s) (nnegate ch' (NNode j c'))))
                   (and_i f s' (nnegate ch (NNode i c)) (nnegate ch' (NNode j c')))) as HF.
    { intros s' ch ch' Ich Ich' S' E'. destruct (Cx ch Ich) as [Rc Vc]. destruct (Cy ch' Ich') as [Rc' Vc'].
      pose proof (depth_child_id (fst s) i c nx ch I Ex Ich). pose proof (depth_child_id (fst s) j c' ny ch' I Ey Ich').
      apply Hrec; auto; try (now apply valid_nnegate). lia. }
    pose proof (apply_node_spec Q (fun s a b => and_i f s a b) (fst s) i c j c' nx ny I Ex Ey HF s S (aext_refl _)) as Hm.
    cbv zeta in Hm. destruct (apply_node _ (NNode i c) (NNode j c') s nx ny) as [s1 n]. cbn [fst snd] in Hm.
    destruct Hm as (S1 & E1 & Vn & Rn).
    apply (finish_spec Q Q_tand Q_tneg (fst s) s1 n (NNode i c) (NNode j c') S1 E1 Vn Vx Vy). now rewrite Rn, Et.
  - rewrite (tand_core_lt _ _ _ _ Kx Ky Cm) in Et.
    assert (forall s' ch, In ch (children nx) -> SOK Q s' -> aext (fst s) (fst s') ->
              post Q (fst s') ((fun d => tand d (unfold (fst s) (NNode j c'))) (unfold (fst s) (nnegate ch (NNode i c))))
                   (and_i f s' (nnegate ch (NNode i c)) (NNode j c'))) as HF.
    { intros s' ch Ich S' E'. destruct (Cx ch Ich) as [Rc Vc]. cbv beta.
      pose proof (depth_child_id (fst s) i c nx ch I Ex Ich).
      apply Hrec; auto; try (now apply valid_nnegate). lia. }
    pose proof (map_node_spec Q (fun s ch => and_i f s ch (NNode j c')) (fun d => tand d (unfold (fst s) (NNode j c')))
                  (fst s) i c nx I Ex HF s S (aext_refl _)) as Hm.
    cbv zeta in Hm. destruct (map_node _ (NNode i c) s nx) as [s1 n]. cbn [fst snd] in Hm.
    destruct Hm as (S1 & E1 & Vn & Rn).
    apply (finish_spec Q Q_tand Q_tneg (fst s) s1 n (NNode i c) (NNode j c') S1 E1 Vn Vx Vy). now rewrite Rn, Et.
  - rewrite (tand_core_gt _ _ _ _ Kx Ky Cm) in Et.
    assert (forall s' ch, In ch (children ny) -> SOK Q s' -> aext (fst s) (fst s') ->
              post Q (fst s') ((fun d => tand d (unfold (fst s) (NNode i c))) (unfold (fst s) (nnegate ch (NNode j c'))))
                   (and_i f s' (nnegate ch (NNode j c')) (NNode i c))) as HF.
    { intros s' ch Ich S' E'. destruct (Cy ch Ich) as [Rc Vc]. cbv beta.
      pose proof (depth_child_id (fst s) j c' ny ch I Ey Ich).
      apply Hrec; auto; try (now apply valid_nnegate). lia. }
    pose proof (map_node_spec Q (fun s ch => and_i f s ch (NNode i c)) (fun d => tand d (unfold (fst s) (NNode i c)))
                  (fst s) j c' ny I Ey HF s S (aext_refl _)) as Hm.
    cbv zeta in Hm. destruct (map_node _ (NNode j c') s ny) as [s1 n]. cbn [fst snd] in Hm.
    destruct Hm as (S1 & E1 & Vn & Rn).
    apply (finish_spec Q Q_tand Q_tneg (fst s) s1 n (NNode i c) (NNode j c') S1 E1 Vn Vx Vy). now rewrite Rn, Et.
Qed.

(** ** [complexify_python_versions] *)
(** the window node *)
Lemma window_snode_valid len (pk : var) (w : window) : node_valid len (window_snode pk w).
Proof. unfold node_valid, window_snode. destruct w as [[lo|] [hi|]]; cbn [fst snd children map]; repeat constructor. Qed.

Lemma window_snode_tree (T : list dd) (pk : var) (w : window) : reduce_node (node_tree T (window_snode pk w)) = window_node pk w.
Proof. destruct w as [[lo|] [hi|]]; reflexivity. Qed.

Lemma depth_window_node (pk : var) (w : window) : depth (window_node pk w) <= 1.
Proof. destruct w as [[lo|] [hi|]]; cbn; lia. Qed.

Lemma finish_window (s : ist) (pk : var) (w : window) : SOK Q s -> Q (window_node pk w) ->
  post Q (fst s) (window_node pk w) (finish s (window_snode pk w)).
Proof.
  intros S Qw. apply finish_post; [exact S|apply aext_refl|apply window_snode_valid|apply window_snode_tree|exact Qw].
Qed.

Lemma post_aext (a0 a1 : arena) (t : dd) (res : ist * nid) : aext a0 a1 -> post Q a1 t res -> post Q a0 t res.
Proof. intros E (S' & E' & V' & U'). split; [exact S'|]. split; [eapply aext_trans; eauto|]. split; [exact V'|exact U']. Qed.

(** the clipped edge list with the crate's explicit tests instead of coalescing *)
Definition clip_smart (w : window) (d0 : dd) (ds : list (cutV * dd)) : dd * list (cutV * dd) :=
  let (d0', ds') := restrict_window w d0 ds in
  let ds'' := match snd w with
              | None => ds'
              | Some hi => if dd_eqb (Leaf false) (last_child d0' ds') then ds' else ds' ++ [(hi, Leaf false)]
              end in
  match fst w with
  | None => (d0', ds'')
  | Some lo => if dd_eqb (Leaf false) d0' then (d0', ds'') else (Leaf false, (lo, d0') :: ds'')
  end.

Lemma coalesce_app_last (hi : cutV) (z : dd) : forall (l : list (cutV * dd)) cur, reduced cur l ->
  coalesce dd_eqb cur (l ++ [(hi, z)]) = if dd_eqb z (last_child cur l) then l else l ++ [(hi, z)].
Proof.
  induction l as [|[c a] l IH]; intros cur R.
  - cbn [app coalesce last_child]. rewrite (dd_eqb_sym z cur). now destruct (dd_eqb cur z).
  - cbn [reduced] in R. destruct R as [N R]. cbn [app coalesce last_child].
    apply (dd_eqb_false cur a) in N. rewrite N, (IH a R). now destruct (dd_eqb z (last_child a l)).
Qed.

Lemma mk_rnode_coalesce k (d0 : dd) (ds : list (cutV * dd)) : mk_rnode k d0 (coalesce dd_eqb d0 ds) = mk_rnode k d0 ds.
Proof. unfold mk_rnode. now rewrite (coalesce_id dd_eqb dd_eqb_spec _ d0 (reduced_coalesce dd_eqb dd_eqb_spec ds d0)). Qed.

Lemma clip_smart_spec k (w : window) (d0 : dd) (ds : list (cutV * dd)) : reduced d0 ds ->
  reduced (fst (clip_smart w d0 ds)) (snd (clip_smart w d0 ds)) /\
  mk_rnode k (fst (clip_smart w d0 ds)) (snd (clip_smart w d0 ds)) = mk_rnode k (fst (clip_window w d0 ds)) (snd (clip_window w d0 ds)).
Proof.
  intros R. pose proof (restrict_window_reduced w d0 ds R) as R1. unfold clip_smart, clip_window.
  destruct (restrict_window w d0 ds) as [d0' ds']. cbn [fst snd] in R1.
  set (dsc := match snd w with None => ds' | Some hi => ds' ++ [(hi, Leaf false)] end).
  set (dss := match snd w with
              | None => ds'
              | Some hi => if dd_eqb (Leaf false) (last_child d0' ds') then ds' else ds' ++ [(hi, Leaf false)]
              end).
  assert (coalesce dd_eqb d0' dsc = dss) as Hc.
  { unfold dsc, dss. destruct (snd w) as [hi|]; [now apply coalesce_app_last|now apply coalesce_id; [apply dd_eqb_spec|]]. }
  assert (reduced d0' dss) as R2 by (rewrite <- Hc; apply (reduced_coalesce dd_eqb dd_eqb_spec)).
  destruct (fst w) as [lo|].
  - destruct (dd_eqb (Leaf false) d0') eqn:E; cbn [fst snd].
    + split; [exact R2|]. apply dd_eqb_spec in E. subst d0'.
      unfold mk_rnode at 2. cbn [coalesce]. rewrite dd_eqb_refl. fold (mk_rnode k (Leaf false) dsc).
      now rewrite <- Hc, mk_rnode_coalesce.
    + split; [cbn [reduced]; split; [now apply dd_eqb_false|exact R2]|].
      unfold mk_rnode. cbn [coalesce]. rewrite E, Hc. now rewrite (coalesce_id dd_eqb dd_eqb_spec dss d0' R2).
  - cbn [fst snd]. split; [exact R2|]. now rewrite <- Hc, mk_rnode_coalesce.
Qed.

Lemma nid_eqb_nnot (p q : nid) : nid_eqb (nnot p) (nnot q) = nid_eqb p q.
Proof. destruct p as [| |i c], q as [| |j c']; try reflexivity. cbn [nnot nid_eqb]. now destruct c, c'. Qed.
Lemma nid_eqb_nnegate (p q x : nid) : nid_eqb (nnegate p x) (nnegate q x) = nid_eqb p q.
Proof. unfold nnegate. destruct (is_compl x); [apply nid_eqb_nnot|reflexivity]. Qed.

(** the crate's computation of the edges of the new node, on ids, is [clip_smart] on the diagrams *)
Lemma clip_ids (u : nid -> dd) (P : nid -> Prop) (exclude : nid) (w : window) (d0 : nid) (ds : list (cutV * nid)) :
  u exclude = Leaf false -> P exclude -> (forall y, P y -> nid_eqb exclude y = dd_eqb (Leaf false) (u y)) ->
  P d0 -> Forall P (map snd ds) ->
  let (d0', ds') := restrict_window w d0 ds in
  let ds'' := match snd w with
              | None => ds'
              | Some hi => if nid_eqb exclude (last_child d0' ds') then ds' else ds' ++ [(hi, exclude)]
              end in
  let '(e0, es) := match fst w with
                   | None => (d0', ds'')
                   | Some lo => if nid_eqb exclude d0' then (d0', ds'') else (exclude, (lo, d0') :: ds'')
                   end in
  P e0 /\ Forall P (map snd es) /\ (u e0, map_snd u es) = clip_smart w (u d0) (map_snd u ds).
Proof.
  intros Hex Pex Hinj P0 Ps. unfold clip_smart. rewrite (restrict_window_map u w d0 ds).
  pose proof (restrict_window_in w d0 ds) as [In0 Ins].
  destruct (restrict_window w d0 ds) as [d0' ds']. cbn [fst snd] in In0, Ins.
  assert (forall z, In z (d0 :: map snd ds) -> P z) as Pall.
  { intros z [<- | Iz]; [exact P0|]. rewrite Forall_forall in Ps. now apply Ps. }
  assert (P d0') as P0' by (now apply Pall).
  assert (Forall P (map snd ds')) as Ps' by (apply Forall_forall; intros z Iz; apply Pall; right; now apply Ins).
  assert (P (last_child d0' ds')) as Pl.
  { destruct (last_child_in ds' d0') as [<- | Il]; [exact P0'|]. rewrite Forall_forall in Ps'. now apply Ps'. }
  cbv zeta. rewrite (last_child_map u ds' d0'), <- (Hinj _ Pl), <- (Hinj _ P0').
  set (ds2 := match snd w with
              | None => ds'
              | Some hi => if nid_eqb exclude (last_child d0' ds') then ds' else ds' ++ [(hi, exclude)]
              end).
  assert (Forall P (map snd ds2) /\
          map_snd u ds2 = match snd w with
                          | None => map_snd u ds'
                          | Some hi => if nid_eqb exclude (last_child d0' ds') then map_snd u ds' else map_snd u ds' ++ [(hi, Leaf false)]
                          end) as [Ps2 E2].
  { unfold ds2. destruct (snd w) as [hi|]; [|now split]. destruct (nid_eqb exclude (last_child d0' ds')); [now split|]. split.
    - rewrite map_app, Forall_app. split; [exact Ps'|]. cbn [map snd]. now constructor.
    - rewrite map_snd_app. unfold map_snd at 2. cbn [map fst snd]. now rewrite Hex. }
  rewrite <- E2. destruct (fst w) as [lo|]; [|now split].
  destruct (nid_eqb exclude d0'); [now split|].
  split; [exact Pex|]. split; [cbn [map snd]; now constructor|].
  unfold map_snd at 1. cbn [map fst snd]. now rewrite Hex.
Qed.

Lemma complexify_i_S n pk w (s : ist) (x : nid) : complexify_i (S n) pk w s x =
  match x with
  | NFalse => (s, x)
  | NTrue => finish s (window_snode pk w)
  | NNode _ _ =>
      match node_at (fst s) x with
      | None => (s, x)
      | Some nd =>
          let conjoin := let (s1, rng) := finish s (window_snode pk w) in and_i (S (S (length (fst s1)))) s1 x rng in
          let recurse := let '(s1, nd') := map_node (fun s c => complexify_i n pk w s c) x s nd in finish s1 nd' in
          match nd with
          | SR k d0 ds =>
              match cmp k pk with
              | Eq =>
                  let exclude := nnegate NFalse x in
                  let (d0', ds') := restrict_window w d0 ds in
                  let ds'' := match snd w with
                              | None => ds'
                              | Some hi => if nid_eqb exclude (last_child d0' ds') then ds' else ds' ++ [(hi, exclude)]
                              end in
                  let '(e0, es) := match fst w with
                                   | None => (d0', ds'')
                                   | Some lo => if nid_eqb exclude d0' then (d0', ds'') else (exclude, (lo, d0') :: ds'')
                                   end in
                  let (s', r) := finish s (SR k e0 es) in (s', nnegate r x)
              | Gt => conjoin
              | Lt => recurse
              end
          | SB k _ _ =>
              match cmp k pk with
              | Gt => conjoin
              | _ => recurse
              end
          end
      end
  end.
Proof. reflexivity. Qed.

Theorem complexify_i_post (pk : var) (w : window) : Q (window_node pk w) -> (forall t, Q t -> Q (tcomplexify_pv pk w t)) ->
  forall fuel (s : ist) (x : nid), SOK Q s -> valid (length (fst s)) x -> rank x < fuel ->
  post Q (fst s) (tcomplexify_pv pk w (unfold (fst s) x)) (complexify_i fuel pk w s x).
Proof.
  intros Qw Qf. induction fuel as [|n IH]; intros s x S Vx Hf; [lia|].
  pose proof S as (I & C & W).
  assert (forall s' u, SOK Q s' -> aext (fst s) (fst s') -> valid (length (fst s)) u -> rank u < n ->
            post Q (fst s') (tcomplexify_pv pk w (unfold (fst s) u)) (complexify_i n pk w s' u)) as Hrec.
  { intros s' u S' E' Vu Hr. rewrite <- (aext_unfold _ _ u E' Vu). apply IH; auto. eapply aext_valid; eauto. }
  clear IH. rewrite complexify_i_S.
  destruct x as [| |i c]; [now apply finish_window|apply post_same; auto|].
  cbn [node_at]. cbn [valid] in Vx. cbn [rank] in Hf.
  destruct (nth_error (fst s) i) as [nd|] eqn:Ex; [|apply nth_error_None in Ex; lia].
  pose proof (entry_children (fst s) I i nd Ex) as Cx. rewrite Forall_forall in Cx.
  assert (Q (tcomplexify_pv pk w (unfold (fst s) (NNode i c)))) as Qt by (apply Qf; now apply W).
  assert (forall s' ch, In ch (children nd) -> SOK Q s' -> aext (fst s) (fst s') ->
            post Q (fst s') (tcomplexify_pv pk w (unfold (fst s) (nnegate ch (NNode i c)))) (complexify_i n pk w s' (nnegate ch (NNode i c)))) as HF.
  { intros s' ch Ich S' E'. destruct (Cx ch Ich) as [Rc Vc]. apply Hrec; auto; [now apply valid_nnegate|rewrite rank_nnegate; lia]. }
  assert (node_map (tcomplexify_pv pk w) (unfold (fst s) (NNode i c)) = tcomplexify_pv pk w (unfold (fst s) (NNode i c)) ->
          post Q (fst s) (tcomplexify_pv pk w (unfold (fst s) (NNode i c)))
            (let '(s1, nd') := map_node (fun s c0 => complexify_i n pk w s c0) (NNode i c) s nd in finish s1 nd')) as Hrecurse.
  { intros En.
    pose proof (map_node_spec Q (fun s ch => complexify_i n pk w s ch) (tcomplexify_pv pk w) (fst s) i c nd I Ex HF s S (aext_refl _)) as Hm.
    cbv zeta in Hm. destruct (map_node _ (NNode i c) s nd) as [s1 n']. cbn [fst snd] in Hm.
    destruct Hm as (S1 & E1 & Vn & Rn).
    apply (finish_post (fst s) s1 n' _ S1 E1 Vn); [now rewrite Rn|exact Qt]. }
  assert (tcomplexify_pv pk w (unfold (fst s) (NNode i c)) = tand (unfold (fst s) (NNode i c)) (window_node pk w) ->
          post Q (fst s) (tcomplexify_pv pk w (unfold (fst s) (NNode i c)))
            (let (s1, rng) := finish s (window_snode pk w) in and_i (Datatypes.S (Datatypes.S (length (fst s1)))) s1 (NNode i c) rng)) as Hconjoin.
  { intros Et. rewrite Et. pose proof (finish_window s pk w S Qw) as P1.
    destruct (finish s (window_snode pk w)) as [s1 rng]. destruct P1 as (S1 & E1 & V1 & U1). cbn [fst snd] in *.
    assert (valid (length (fst s1)) (NNode i c)) as Vx1 by (eapply aext_valid; [exact E1|exact Vx]).
    pose proof (depth_le_rank (fst s1) (proj1 S1) _ (NNode i c) (le_n _) Vx1) as D1. cbn [rank valid] in D1, Vx1.
    pose proof (depth_window_node pk w) as D2. rewrite <- U1 in D2.
    assert (depth (unfold (fst s1) (NNode i c)) + depth (unfold (fst s1) rng) < Datatypes.S (Datatypes.S (length (fst s1)))) as Hd by lia.
    pose proof (and_i_post_depth _ s1 (NNode i c) rng S1 Vx1 V1 Hd) as P2.
    rewrite U1, (aext_unfold (fst s) (fst s1) (NNode i c) E1 Vx) in P2. exact (post_aext _ _ _ _ E1 P2). }
  destruct nd as [k d0 ds|k hi lo]; cbv zeta.
  - destruct (cmp k pk) eqn:Ck.
    + (* the python_full_version node *)
      pose proof (W (NNode i c) Vx) as Qx.
      rewrite (unfold_SR (fst s) i c k d0 ds I Ex) in Qx, Qt |- *. apply Q_red in Qx.
      rewrite (tcomplexify_eq pk w (RNode _ _ _)), Ck in Qt |- *.
      set (u := fun d => unfold (fst s) (nnegate d (NNode i c))) in *.
      change (unfold (fst s) (nnegate d0 (NNode i c))) with (u d0) in *.
      set (exclude := nnegate NFalse (NNode i c)).
      assert (u exclude = Leaf false) as Hex by (unfold u, exclude; destruct c; reflexivity).
      assert (valid (length (fst s)) exclude) as Pex by (unfold exclude; destruct c; exact Logic.I).
      assert (forall y, valid (length (fst s)) y -> nid_eqb exclude y = dd_eqb (Leaf false) (u y)) as Hinj.
      { intros y Vy. rewrite <- Hex. unfold u.
        rewrite <- (nid_eqb_trees (fst s) _ _ I (proj2 (valid_nnegate _ exclude (NNode i c)) Pex) (proj2 (valid_nnegate _ y (NNode i c)) Vy)).
        symmetry. apply nid_eqb_nnegate. }
      assert (valid (length (fst s)) d0) as P0 by (apply Cx; now left).
      assert (Forall (valid (length (fst s))) (map snd ds)) as Ps by (apply Forall_forall; intros z Iz; apply Cx; now right).
      pose proof (clip_ids u (valid (length (fst s))) exclude w d0 ds Hex Pex Hinj P0 Ps) as Hc.
      destruct (restrict_window w d0 ds) as [d0' ds']. cbv zeta in Hc.
      destruct (match fst w with
                | None => _
                | Some lo => _
                end) as [e0 es].
      destruct Hc as (Pe0 & Pes & Ec).
      destruct (clip_smart_spec k w (u d0) (map_snd u ds) Qx) as [Rs Es]. rewrite <- Ec in Rs, Es. cbn [fst snd] in Rs, Es.
      destruct (clip_window w (u d0) (map_snd u ds)) as [c0 cs]. cbn [fst snd] in Es.
      apply finish_raw; [exact S|exact Pe0|exact Pes| |exact Qt].
      fold u. change (unfold (fst s) (nnegate e0 (NNode i c))) with (u e0). now rewrite (reduce_rnode_reduced k _ _ Rs).
    + apply Hrecurse. rewrite (unfold_SR (fst s) i c k d0 ds I Ex). cbn [node_map]. now rewrite (tcomplexify_eq pk w (RNode _ _ _)), Ck.
    + apply Hconjoin. rewrite (unfold_SR (fst s) i c k d0 ds I Ex). now rewrite (tcomplexify_eq pk w (RNode _ _ _)), Ck.
  - destruct (cmp k pk) eqn:Ck.
    + apply Hrecurse. rewrite (unfold_SB (fst s) i c k hi lo I Ex). cbn [node_map]. now rewrite (tcomplexify_eq pk w (BNode _ _ _)), Ck.
    + apply Hrecurse. rewrite (unfold_SB (fst s) i c k hi lo I Ex). cbn [node_map]. now rewrite (tcomplexify_eq pk w (BNode _ _ _)), Ck.
    + apply Hconjoin. rewrite (unfold_SB (fst s) i c k hi lo I Ex). now rewrite (tcomplexify_eq pk w (BNode _ _ _)), Ck.
Qed.

Lemma complexify_pv_i_post (pk : var) (w : window) :
  (window_empty w = false -> Q (window_node pk w)) ->
  (window_empty w = false -> forall t, Q t -> Q (tcomplexify_pv pk w t)) ->
  forall fuel (s : ist) (x : nid), SOK Q s -> valid (length (fst s)) x -> rank x < fuel ->
  post Q (fst s) (complexify_pv pk w (unfold (fst s) x)) (complexify_pv_i fuel pk w s x).
Proof.
  intros Qw Qf fuel s x S Vx Hf. unfold complexify_pv_i, complexify_pv.
  rewrite (is_false_unfold (fst s) x (proj1 S) Vx).
  destruct (is_false_id x || unbounded w); [now apply post_same|].
  destruct (window_empty w); [apply post_same; [exact S|exact Logic.I|reflexivity]|].
  apply complexify_i_post; auto.
Qed.

End WithQ.

(** ** the theorems for the two instances of the state invariant *)
Variable is_range : var -> bool.
Notation SOKwf := (SOKwf is_range).

Lemma wf_red k (d0 : dd) (ds : list (cutV * dd)) : wf is_range (RNode k d0 ds) -> reduced d0 ds.
Proof. intros W. inversion W; subst; assumption. Qed.

(** [restrict]: no condition on the stored diagrams is needed ... *)
Theorem restrict_i_spec0 (fuel : nat) (f : var -> option bool) (s : ist) (x : nid) :
  SOK0 s -> valid (length (fst s)) x -> rank x < fuel ->
  let '(s', r) := restrict_i fuel f s x in
  SOK0 s' /\ aext (fst s) (fst s') /\ valid (length (fst s')) r /\ unfold (fst s') r = trestrict f (unfold (fst s) x).
Proof.
  intros S V Hf. pose proof (restrict_i_post (fun _ => True) (fun _ _ => Logic.I) f (fun _ _ => Logic.I) fuel s x S V Hf) as P.
  destruct (restrict_i fuel f s x) as [s' r]. exact P.
Qed.

(** ... and well-formedness of every stored diagram is kept *)
Theorem restrict_i_spec (fuel : nat) (f : var -> option bool) (s : ist) (x : nid) :
  SOKwf s -> valid (length (fst s)) x -> rank x < fuel ->
  let '(s', r) := restrict_i fuel f s x in
  SOKwf s' /\ aext (fst s) (fst s') /\ valid (length (fst s')) r /\ unfold (fst s') r = trestrict f (unfold (fst s) x).
Proof.
  intros S V Hf.
  pose proof (restrict_i_post (wf is_range) (tneg_wf is_range) f (fun t Wt => proj1 (restrict_wf is_range f t Wt)) fuel s x S V Hf) as P.
  destruct (restrict_i fuel f s x) as [s' r]. exact P.
Qed.

(** [simplify_python_versions]: the stored diagrams must be well formed (adjacent edges of a stored node lead to
    different children): the arm at the python_full_version node does not coalesce *)
Theorem simplify_i_spec (fuel : nat) (pk : var) (w : window) (s : ist) (x : nid) :
  SOKwf s -> valid (length (fst s)) x -> rank x < fuel ->
  let '(s', r) := simplify_i fuel pk w s x in
  SOKwf s' /\ aext (fst s) (fst s') /\ valid (length (fst s')) r /\ unfold (fst s') r = tsimplify_pv pk w (unfold (fst s) x).
Proof.
  intros S V Hf.
  pose proof (simplify_i_post (wf is_range) (tneg_wf is_range) wf_red pk w (fun t Wt => proj1 (simplify_wf is_range pk w t Wt)) fuel s x S V Hf) as P.
  destruct (simplify_i fuel pk w s x) as [s' r]. exact P.
Qed.

Theorem simplify_pv_i_spec (fuel : nat) (pk : var) (w : window) (s : ist) (x : nid) :
  SOKwf s -> valid (length (fst s)) x -> rank x < fuel ->
  let '(s', r) := simplify_pv_i fuel pk w s x in
  SOKwf s' /\ aext (fst s) (fst s') /\ valid (length (fst s')) r /\ unfold (fst s') r = simplify_pv pk w (unfold (fst s) x).
Proof.
  intros S V Hf.
  pose proof (simplify_pv_i_post (wf is_range) (tneg_wf is_range) wf_red pk w (fun t Wt => proj1 (simplify_wf is_range pk w t Wt)) fuel s x S V Hf) as P.
  destruct (simplify_pv_i fuel pk w s x) as [s' r]. exact P.
Qed.

(** [complexify_python_versions] *)
Theorem complexify_i_spec (fuel : nat) (pk : var) (w : window) (s : ist) (x : nid) :
  is_range pk = true -> window_empty w = false ->
  SOKwf s -> valid (length (fst s)) x -> rank x < fuel ->
  let '(s', r) := complexify_i fuel pk w s x in
  SOKwf s' /\ aext (fst s) (fst s') /\ valid (length (fst s')) r /\ unfold (fst s') r = tcomplexify_pv pk w (unfold (fst s) x).
Proof.
  intros Rp NE S V Hf.
  pose proof (complexify_i_post (wf is_range) (wf_tand is_range) (tneg_wf is_range) wf_red pk w
                (proj1 (window_node_wf is_range pk w Rp NE)) (fun t Wt => proj1 (complexify_wf is_range pk w Rp NE t Wt)) fuel s x S V Hf) as P.
  destruct (complexify_i fuel pk w s x) as [s' r]. exact P.
Qed.

Theorem complexify_pv_i_spec (fuel : nat) (pk : var) (w : window) (s : ist) (x : nid) :
  is_range pk = true ->
  SOKwf s -> valid (length (fst s)) x -> rank x < fuel ->
  let '(s', r) := complexify_pv_i fuel pk w s x in
  SOKwf s' /\ aext (fst s) (fst s') /\ valid (length (fst s')) r /\ unfold (fst s') r = complexify_pv pk w (unfold (fst s) x).
Proof.
  intros Rp S V Hf.
  pose proof (complexify_pv_i_post (wf is_range) (wf_tand is_range) (tneg_wf is_range) wf_red pk w
                (fun NE => proj1 (window_node_wf is_range pk w Rp NE)) (fun NE t Wt => proj1 (complexify_wf is_range pk w Rp NE t Wt)) fuel s x S V Hf) as P.
  destruct (complexify_pv_i fuel pk w s x) as [s' r]. exact P.
Qed.

(** the conjunction with the fuel that [complexify_i] passes: the sum of the depths suffices *)
Theorem and_i_spec_depth (fuel : nat) (s : ist) (x y : nid) :
  SOKwf s -> valid (length (fst s)) x -> valid (length (fst s)) y ->
  depth (unfold (fst s) x) + depth (unfold (fst s) y) < fuel ->
  let '(s', r) := and_i fuel s x y in
  SOKwf s' /\ aext (fst s) (fst s') /\ valid (length (fst s')) r /\
  unfold (fst s') r = tand (unfold (fst s) x) (unfold (fst s) y).
Proof.
  intros S Vx Vy Hf. pose proof (and_i_post_depth (wf is_range) (wf_tand is_range) (tneg_wf is_range) fuel s x y S Vx Vy Hf) as P.
  destruct (and_i fuel s x y) as [s' r]. exact P.
Qed.
End OpsProofs.

Print Assumptions restrict_i_spec0.
Print Assumptions restrict_i_spec.
Print Assumptions simplify_i_spec.
Print Assumptions simplify_pv_i_spec.
Print Assumptions complexify_i_spec.
Print Assumptions complexify_pv_i_spec.
Print Assumptions and_i_spec_depth.


(** ** the concrete marker instance: the ids computed by the recursions on ids are the ids that "unfold the operand,
    apply the L1 operation, intern the result" (the abstraction of Intern.v) yields, in the store they leave behind *)
From Coq Require Import NArith.
From PV Require Import Marker.Concrete Marker.Expr Interner.Intern Interner.InternProofs.
Local Open Scope nat_scope.

Notation mwindow := (window (val:=val)).

Corollary restrict_i_refines (fuel : nat) (E : list str) (s : mist) (x : nid) :
  SOK0 s -> valid (length (fst s)) x -> rank x < fuel ->
  let '(s', r) := restrict_i fuel (extras_present E) s x in
  intern (fst s') (m_simplify_extras E (unfold (fst s) x)) = (fst s', r).
Proof.
  intros S V Hf. pose proof (restrict_i_spec0 fuel (extras_present E) s x S V Hf) as P.
  destruct (restrict_i fuel (extras_present E) s x) as [s' r]. destruct P as (S' & E' & V' & U').
  unfold m_simplify_extras. rewrite <- U'. apply (intern_present (rank r) (fst s') r (proj1 S') V' (le_n _)).
Qed.

Corollary restrict_i_refines_wf (fuel : nat) (E : list str) (s : mist) (x : nid) :
  SOKwf is_range s -> valid (length (fst s)) x -> rank x < fuel ->
  let '(s', r) := restrict_i fuel (extras_present E) s x in
  SOKwf is_range s' /\ intern (fst s') (m_simplify_extras E (unfold (fst s) x)) = (fst s', r).
Proof.
  intros S V Hf. pose proof (restrict_i_spec is_range fuel (extras_present E) s x S V Hf) as P.
  destruct (restrict_i fuel (extras_present E) s x) as [s' r]. destruct P as (S' & E' & V' & U').
  split; [exact S'|]. unfold m_simplify_extras. rewrite <- U'. apply (intern_present (rank r) (fst s') r (proj1 S') V' (le_n _)).
Qed.

Corollary simplify_pv_i_refines (fuel : nat) (pfv : N) (w : mwindow) (s : mist) (x : nid) :
  SOKwf is_range s -> valid (length (fst s)) x -> rank x < fuel ->
  let '(s', r) := simplify_pv_i fuel (VVersion pfv) w s x in
  SOKwf is_range s' /\ intern (fst s') (m_simplify_pv pfv w (unfold (fst s) x)) = (fst s', r).
Proof.
  intros S V Hf. pose proof (simplify_pv_i_spec is_range fuel (VVersion pfv) w s x S V Hf) as P.
  destruct (simplify_pv_i fuel (VVersion pfv) w s x) as [s' r]. destruct P as (S' & E' & V' & U').
  split; [exact S'|]. unfold m_simplify_pv. rewrite <- U'. apply (intern_present (rank r) (fst s') r (proj1 S') V' (le_n _)).
Qed.

Corollary complexify_pv_i_refines (fuel : nat) (pfv : N) (w : mwindow) (s : mist) (x : nid) :
  SOKwf is_range s -> valid (length (fst s)) x -> rank x < fuel ->
  let '(s', r) := complexify_pv_i fuel (VVersion pfv) w s x in
  SOKwf is_range s' /\ intern (fst s') (m_complexify_pv pfv w (unfold (fst s) x)) = (fst s', r).
Proof.
  intros S V Hf. pose proof (complexify_pv_i_spec is_range fuel (VVersion pfv) w s x eq_refl S V Hf) as P.
  destruct (complexify_pv_i fuel (VVersion pfv) w s x) as [s' r]. destruct P as (S' & E' & V' & U').
  split; [exact S'|]. unfold m_complexify_pv. rewrite <- U'. apply (intern_present (rank r) (fst s') r (proj1 S') V' (le_n _)).
Qed.

Print Assumptions restrict_i_refines.
Print Assumptions restrict_i_refines_wf.
Print Assumptions simplify_pv_i_refines.
Print Assumptions complexify_pv_i_refines.

(** non-vacuity.  [t] is [(k0 >= '1' and (os_name == 'b' or extra == 'a')) or (k0 < '1' and python_full_version >= '3.8')]
    (4 arena entries, complemented root); the window is ['3.9', '3.11').  [restrict_i] goes through a node of a fixed
    extra; [simplify_pv_i] through the python_full_version arm below a complemented edge; [complexify_pv_i] through the
    recursive arm, the python_full_version arm (both [exclude] tests) and the conjunction arm (one cache entry per run,
    with the fuel [S (S (length arena))]); each returns the id that [intern] gives for the L1 result. *)
Example ops_i_example :
  let t : mdd := m_or (m_and (expression 2%N 1%N (EVersion 0%N OGe [1%N]))
                          (m_or (expression 2%N 1%N (EString 1%N SEq [98%N])) (expression 2%N 1%N (EExtra false false [97%N]))))
                      (m_and (expression 2%N 1%N (EVersion 0%N OLt [1%N])) (expression 2%N 1%N (EVersion 1%N OGe [3%N; 8%N]))) in
  let w : mwindow := (Some (final_version [3%N; 9%N], Below), Some (final_version [3%N; 11%N], Below)) in
  let '(a, x) := intern [] t in
  let '(s1, r1) := restrict_i (S (rank x)) (extras_present [[97%N]]) (a, []) x in
  let '(s2, r2) := simplify_pv_i (S (rank x)) (VVersion 1%N) w s1 x in
  let '(s3, r3) := complexify_pv_i (S (rank x)) (VVersion 1%N) w s2 x in
  let '(s4, r4) := complexify_pv_i (S (rank x)) (VVersion 1%N) w s3 (nnot x) in
  length a = 4 /\ x = NNode 3 true /\
  length (fst s1) = 5 /\ length (fst s2) = 6 /\ length (fst s3) = 9 /\ length (snd s3) = 1 /\ length (fst s4) = 11 /\ length (snd s4) = 2 /\
  unfold (fst s1) r1 = m_simplify_extras [[97%N]] t /\
  unfold (fst s2) r2 = m_simplify_pv 1%N w t /\
  unfold (fst s3) r3 = m_complexify_pv 1%N w t /\
  unfold (fst s4) r4 = m_complexify_pv 1%N w (m_not t) /\
  intern (fst s1) (m_simplify_extras [[97%N]] t) = (fst s1, r1) /\
  intern (fst s2) (m_simplify_pv 1%N w t) = (fst s2, r2) /\
  intern (fst s3) (m_complexify_pv 1%N w t) = (fst s3, r3) /\
  intern (fst s4) (m_complexify_pv 1%N w (m_not t)) = (fst s4, r4).
Proof. vm_compute. repeat split; reflexivity. Qed.

(** why [simplify_i] / [complexify_i] are stated for [SOKwf] and not for [SOK0]: the store invariant [Inv] alone allows a
    stored node with equal adjacent children (no such node is ever created: every reachable store satisfies [SOKwf]);
    the python_full_version arm keeps a sub-list of the raw edges without coalescing it, [tsimplify_pv] coalesces *)
Example simplify_i_needs_wf :
  let c1 : cut val := (final_version [3%N; 8%N], Below) in
  let c2 : cut val := (final_version [3%N; 9%N], Below) in
  let c3 : cut val := (final_version [3%N; 10%N], Below) in
  let a : marena := [SR (VVersion 1%N) NTrue [(c1, NTrue); (c2, NFalse); (c3, NTrue)]] in
  let w : mwindow := (None, Some c3) in
  let '(s', r) := simplify_i 2 (VVersion 1%N) w (a, []) (NNode 0 false) in
  SOK0 (a, []) /\ valid (length a) (NNode 0 false) /\
  unfold (fst s') r = RNode (VVersion 1%N) (Leaf true) [(c1, Leaf true); (c2, Leaf false)] /\
  tsimplify_pv (VVersion 1%N) w (unfold a (NNode 0 false)) = RNode (VVersion 1%N) (Leaf true) [(c2, Leaf false)].
Proof.
  cbv zeta. split; [|vm_compute; repeat split; auto].
  apply SOK0_init. constructor.
  - intros i n E. destruct i as [|i]; [|destruct i; discriminate E]. injection E as <-. repeat constructor.
  - intros i n E. destruct i as [|i]; [|destruct i; discriminate E]. injection E as <-. split; reflexivity.
  - intros i j n Ei Ej. destruct i as [|i]; [|destruct i; discriminate Ei]. destruct j as [|j]; [reflexivity|destruct j; discriminate Ej].
Qed.
