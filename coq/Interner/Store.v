(** L2: the hash-consing store of src/marker/algebra.rs (node arena + unique table, ids with a
    complement bit, [create_node]'s normalisation).  Definitions only.

    The unique table of the crate maps a node to the index at which it was pushed; both are updated
    together ([entry(node).or_insert_with(push)]), so it is modelled as a search of the arena. *)
From Coq Require Import List Bool Arith.
From PV Require Import Base.Order Base.CutDef DD.DDModel.
Import ListNotations.

Section Store.
Context {var val : Type} `{TotalOrder var} `{TotalOrder val}.
Notation cutV := (cut val).
Notation dd := (dd var val).

(** NodeId: TRUE = 0, FALSE = 1 (the complement of TRUE), otherwise an arena index with a complement bit *)
Inductive nid := NTrue | NFalse | NNode (i : nat) (c : bool).

Definition nnot (x : nid) : nid :=
  match x with NTrue => NFalse | NFalse => NTrue | NNode i c => NNode i (negb c) end.
Definition is_compl (x : nid) : bool :=
  match x with NTrue => false | NFalse => true | NNode _ c => c end.
Definition nnegate (x parent : nid) : nid := if is_compl parent then nnot x else x.

Definition nid_eqb (x y : nid) : bool :=
  match x, y with
  | NTrue, NTrue | NFalse, NFalse => true
  | NNode i c, NNode j c' => Nat.eqb i j && Bool.eqb c c'
  | _, _ => false
  end.

Inductive snode :=
| SR (k : var) (d0 : nid) (ds : list (cutV * nid))
| SB (k : var) (hi lo : nid).

Definition first_child (n : snode) : nid := match n with SR _ d0 _ => d0 | SB _ hi _ => hi end.
Definition children (n : snode) : list nid :=
  match n with SR _ d0 ds => d0 :: map snd ds | SB _ hi lo => [hi; lo] end.
Definition node_not (n : snode) : snode :=
  match n with
  | SR k d0 ds => SR k (nnot d0) (map_snd nnot ds)
  | SB k hi lo => SB k (nnot hi) (nnot lo)
  end.

Fixpoint edges_eqb (la lb : list (cutV * nid)) : bool :=
  match la, lb with
  | [], [] => true
  | (c, x) :: la', (c', y) :: lb' => eqb_of c c' && nid_eqb x y && edges_eqb la' lb'
  | _, _ => false
  end.
Definition snode_eqb (a b : snode) : bool :=
  match a, b with
  | SR k d0 ds, SR k' e0 es => eqb_of k k' && nid_eqb d0 e0 && edges_eqb ds es
  | SB k h l, SB k' h' l' => eqb_of k k' && nid_eqb h h' && nid_eqb l l'
  | _, _ => false
  end.

Definition arena := list snode.

(** the unique table: index of the first equal node *)
Fixpoint find_node (n : snode) (a : arena) (base : nat) : option nat :=
  match a with
  | [] => None
  | m :: a' => if snode_eqb n m then Some base else find_node n a' (S base)
  end.

(** [create_node]: first child never complemented; a node whose children are all the same is that child;
    otherwise the existing index of an equal node, or a fresh one *)
Definition create_node (a : arena) (n : snode) : arena * nid :=
  let first := first_child n in
  let flipped := is_compl first in
  let n' := if flipped then node_not n else n in
  let first' := if flipped then nnot first else first in
  if forallb (nid_eqb first') (children n') then (a, if flipped then nnot first' else first')
  else match find_node n' a 0 with
       | Some i => (a, NNode i flipped)
       | None => (a ++ [n'], NNode (length a) flipped)
       end.

(** ** unfolding an id into the diagram that [kind()] shows *)
Definition tree_of (trees : list dd) (x : nid) : dd :=
  match x with
  | NTrue => Leaf true
  | NFalse => Leaf false
  | NNode i c => let t := nth i trees (Leaf false) in if c then tneg t else t
  end.

Definition node_tree (trees : list dd) (n : snode) : dd :=
  match n with
  | SR k d0 ds => RNode k (tree_of trees d0) (map_snd (tree_of trees) ds)
  | SB k hi lo => BNode k (tree_of trees hi) (tree_of trees lo)
  end.

(** the diagram of every arena entry, in index order: each node is built from entries before it *)
Definition unfold_all (a : arena) : list dd :=
  fold_left (fun trees n => trees ++ [node_tree trees n]) a [].

Definition unfold (a : arena) (x : nid) : dd := tree_of (unfold_all a) x.

(** an id is valid in an arena *)
Definition valid (len : nat) (x : nid) : Prop := match x with NNode i _ => i < len | _ => True end.
End Store.
