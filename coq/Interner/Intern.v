(** L2: interning a diagram bottom-up through [create_node], and the programs of marker operations
    executed against a store.  Definitions only.

    What is modelled faithfully here is the store (arena, unique table, complement bit, [create_node]).
    The memoised recursion of [and] itself is abstracted: an interner-level operation is "unfold the
    operands, apply the L1 operation, intern the result" - its results are the ids the real recursion
    must produce if it refines the L1 operation (which the step-wise correspondence of C02 checks on
    warm caches). *)
From Coq Require Import List Bool Arith NArith.
From PV Require Import Base.Order Base.CutDef DD.DDModel DD.DDPyVer Interner.Store Marker.Concrete Marker.Expr.
Import ListNotations.

Notation marena := (list (snode (var:=var) (val:=val))).

Fixpoint intern (a : marena) (t : mdd) : marena * nid :=
  match t with
  | Leaf true => (a, NTrue)
  | Leaf false => (a, NFalse)
  | RNode k d0 ds =>
      let (a0, x0) := intern a d0 in
      let (a1, xs) :=
        (fix go (a : marena) (l : list (cut val * mdd)) : marena * list (cut val * nid) :=
           match l with
           | [] => (a, [])
           | (c, d) :: l' => let (a', x) := intern a d in let (a'', xs) := go a' l' in (a'', (c, x) :: xs)
           end) a0 ds in
      create_node a1 (SR k x0 xs)
  | BNode k hi lo =>
      let (a0, xh) := intern a hi in
      let (a1, xl) := intern a0 lo in
      create_node a1 (SB k xh xl)
  end.

(** marker operations as a user program sees them: registers hold ids *)
Inductive mop :=
| MExpr (e : mexpr)
| MAnd (i j : nat) | MOr (i j : nat) | MNot (i : nat)
| MSimplifyExtras (extras : list str) (i : nat)
| MSimplifyPv (w : window (val:=val)) (i : nat)
| MComplexifyPv (w : window (val:=val)) (i : nat).

Record istate := { st_arena : marena; st_regs : list nid }.

Definition reg (s : istate) (i : nat) : mdd := unfold (st_arena s) (nth i (st_regs s) NTrue).

(** the L1 meaning of an operation on unfolded operands *)
Definition mop_tree (pv pfv : N) (s : istate) (o : mop) : mdd :=
  match o with
  | MExpr e => expression pv pfv e
  | MAnd i j => m_and (reg s i) (reg s j)
  | MOr i j => m_or (reg s i) (reg s j)
  | MNot i => m_not (reg s i)
  | MSimplifyExtras ex i => m_simplify_extras ex (reg s i)
  | MSimplifyPv w i => m_simplify_pv pfv w (reg s i)
  | MComplexifyPv w i => m_complexify_pv pfv w (reg s i)
  end.

Definition mstep (pv pfv : N) (s : istate) (o : mop) : istate :=
  let (a', x) := intern (st_arena s) (mop_tree pv pfv s o) in
  {| st_arena := a'; st_regs := st_regs s ++ [x] |}.

Definition mrun (pv pfv : N) (s : istate) (w : list mop) : istate := fold_left (mstep pv pfv) w s.

(** what a program can observe of its registers: the diagrams (hence evaluation, DNF, text, structural order)
    and which registers hold the same marker *)
Definition observe (s : istate) : list mdd * list (list bool) :=
  (map (unfold (st_arena s)) (st_regs s),
   map (fun x => map (fun y => nid_eqb x y) (st_regs s)) (st_regs s)).

(** the complement bit of the id that interning a diagram yields (a function of the diagram alone) *)
Definition m_compl (t : mdd) : bool := is_compl (snd (intern [] t)).
(** the number of arena entries a diagram needs *)
Definition m_nodes (t : mdd) : nat := length (fst (intern [] t)).
