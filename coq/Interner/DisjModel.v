(** L2: [InternerGuard::is_disjoint] on node ids (src/marker/algebra.rs:328-362 and Edges::is_disjoint /
    is_disjoint_ranges): a pure recursion over the store (no cache, no node creation), complemented edges
    un-complemented relative to their parent.  Definitions only; DisjProofs.v shows that it computes the L1
    [tdisjoint] of the unfolded diagrams. *)
From Coq Require Import List Bool Arith.
From PV Require Import Base.Order Base.CutDef DD.DDModel Interner.Store Interner.AndModel.
Import ListNotations.

Section DisjI.
Context {var val : Type} `{TotalOrder var} `{TotalOrder val}.
Notation snode := (snode (var:=var) (val:=val)).
Notation arena := (list snode).

Definition is_true_id (x : nid) : bool := match x with NTrue => true | _ => false end.

Fixpoint disjoint_i (fuel : nat) (a : arena) (x y : nid) {struct fuel} : bool :=
  match fuel with
  | O => false
  | S f =>
      if is_false_id x || is_false_id y then true
      else if is_true_id x || is_true_id y then false
      else if nid_eqb x y then false
      else if nid_eqb (nnot x) y then true
      else
        match node_at a x, node_at a y with
        | Some nx, Some ny =>
            match cmp (svar nx) (svar ny) with
            | Lt => forallb (fun c => disjoint_i f a (nnegate c x) y) (children nx)
            | Gt => forallb (fun c => disjoint_i f a (nnegate c y) x) (children ny)
            | Eq =>
                match nx, ny with
                | SR _ d0 ds, SR _ e0 es =>
                    disjoint_i f a (nnegate d0 x) (nnegate e0 y) &&
                    forallb (fun p : cut val * (nid * nid) => disjoint_i f a (nnegate (fst (snd p)) x) (nnegate (snd (snd p)) y))
                            (merge (fun u v => (u, v)) d0 ds e0 es)
                | SB _ h l, SB _ h' l' =>
                    disjoint_i f a (nnegate h x) (nnegate h' y) && disjoint_i f a (nnegate l x) (nnegate l' y)
                | _, _ => true
                end
            end
        | _, _ => false
        end
  end.
End DisjI.
