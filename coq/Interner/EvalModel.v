(** L2: evaluation on node ids, as src/marker/tree.rs does it.  Definitions only (EvalProofs.v has the theorems).

    [MarkerTree::evaluate_reporter_impl], [evaluate_extras] and [evaluate_extras_and_python_version] never see
    an unfolded diagram: each step calls [kind()] on an id, which reads ONE arena node and hands back the
    children ids with the complement bit of the parent pushed down ([child.negate(self.0)]), chooses among these
    children, and recurses on a child id.

    - [kind_i]     what [kind()] shows for an id;
    - [edges_of]   the [(range, child)] pairs that [VersionMarkerTree::edges] / [StringMarkerTree::children]
                   yield: the i-th range lies between cut i-1 and cut i;
    - [eval_i]     the loop of [evaluate_reporter_impl]: first edge whose range contains the value of the
                   environment ([false] when no edge matches), high / low child of a boolean node;
    - [eval_any_i] the loop of [evaluate_extras]: [any] over all the children, except for the variables fixed by
                   [f] (the extras), where the edge is chosen;
    - [eval_any_pv_i] the loop of [evaluate_extras_and_python_version].

    All recursions are on a fuel argument (the crate recurses along strictly decreasing arena indices);
    [None] means: out of fuel, or an id that is not in the arena. *)
From Coq Require Import List Bool Arith NArith.
From PV Require Import Base.Order Base.CutDef DD.DDModel Interner.Store Interner.Intern Marker.Concrete.
Import ListNotations.

Section EvalModel.
Context {var val : Type} `{TotalOrder var} `{TotalOrder val}.
Notation cutV := (cut val).
Notation snode := (snode (var:=var) (val:=val)).
Notation arena := (list snode).

(** ** (M1) [kind()] *)
Inductive kview :=
| KTrue
| KFalse
| KRange (k : var) (d0 : nid) (ds : list (cutV * nid))    (* Version / String: children already negated by the id *)
| KBool (k : var) (hi lo : nid).                          (* In / Contains / Extra *)

Definition kind_i (a : arena) (x : nid) : option kview :=
  match x with
  | NTrue => Some KTrue
  | NFalse => Some KFalse
  | NNode i _ =>
      match nth_error a i with
      | None => None                                        (* not an id of this arena *)
      | Some (SR k d0 ds) => Some (KRange k (nnegate d0 x) (map_snd (fun d => nnegate d x) ds))
      | Some (SB k hi lo) => Some (KBool k (nnegate hi x) (nnegate lo x))
      end
  end.

(** ** ranges and edges *)
(** a range is given by its two bounding cuts ([None]: unbounded on that side) *)
Definition edge := (option cutV * option cutV * nid)%type.

(** [Ranges::contains] for the range between two cuts *)
Definition in_range (v : val) (lo hi : option cutV) : bool :=
  match lo with None => true | Some c => negb (left_of v c) end &&
  match hi with None => true | Some c => left_of v c end.

(** the edges of a range node in order: the first child up to the first cut, ..., the last child from the last cut on *)
Fixpoint edges_from (lo : option cutV) (d : nid) (ds : list (cutV * nid)) : list edge :=
  match ds with
  | [] => [(lo, None, d)]
  | (c, d') :: ds' => (lo, Some c, d) :: edges_from (Some c) d' ds'
  end.
Definition edges_of (d0 : nid) (ds : list (cutV * nid)) : list edge := edges_from None d0 ds.

(** [for (range, tree) in edges { if range.contains(v) { return tree... } }] : the child of the first edge that matches *)
Fixpoint first_edge (v : val) (es : list edge) : option nid :=
  match es with
  | [] => None
  | (lo, hi, y) :: es' => if in_range v lo hi then Some y else first_edge v es'
  end.

(** ** (M2) [evaluate_reporter_impl] *)
Fixpoint eval_i (fuel : nat) (a : arena) (r : valuation var val) (x : nid) : option bool :=
  match fuel with
  | O => None
  | S fuel' =>
      match kind_i a x with
      | None => None
      | Some KTrue => Some true
      | Some KFalse => Some false
      | Some (KRange k d0 ds) =>
          match first_edge (rv r k) (edges_of d0 ds) with
          | Some y => eval_i fuel' a r y
          | None => Some false                              (* the trailing [false] of the crate: no edge matched *)
          end
      | Some (KBool k hi lo) => eval_i fuel' a r (if bv r k then hi else lo)
      end
  end.

(** ** (M3) [evaluate_extras] *)
(** [Iterator::any] with a partial predicate (left to right, stops at the first [true]) *)
Fixpoint any_i {A : Type} (g : A -> option bool) (l : list A) : option bool :=
  match l with
  | [] => Some false
  | y :: l' =>
      match g y with
      | None => None
      | Some true => Some true
      | Some false => any_i g l'
      end
  end.

Fixpoint eval_any_i (fuel : nat) (a : arena) (f : var -> option bool) (x : nid) : option bool :=
  match fuel with
  | O => None
  | S fuel' =>
      match kind_i a x with
      | None => None
      | Some KTrue => Some true
      | Some KFalse => Some false
      | Some (KRange k d0 ds) =>
          any_i (fun e : edge => eval_any_i fuel' a f (snd e)) (edges_of d0 ds)
      | Some (KBool k hi lo) =>
          match f k with
          | Some b => eval_any_i fuel' a f (if b then hi else lo)       (* [marker.edge(..)] *)
          | None => any_i (eval_any_i fuel' a f) [hi; lo]               (* [marker.children().any(..)] *)
          end
      end
  end.

(** [evaluate_extras_and_python_version]: [allowed k lo hi] says whether the edge with that range of a node
    keyed by [k] may be taken at all *)
Fixpoint eval_any_allowed_i (fuel : nat) (a : arena) (allowed : var -> option cutV -> option cutV -> bool)
    (f : var -> option bool) (x : nid) : option bool :=
  match fuel with
  | O => None
  | S fuel' =>
      match kind_i a x with
      | None => None
      | Some KTrue => Some true
      | Some KFalse => Some false
      | Some (KRange k d0 ds) =>
          any_i (fun e : edge =>
                   if allowed k (fst (fst e)) (snd (fst e)) then eval_any_allowed_i fuel' a allowed f (snd e)
                   else Some false)
                (edges_of d0 ds)
      | Some (KBool k hi lo) =>
          match f k with
          | Some b => eval_any_allowed_i fuel' a allowed f (if b then hi else lo)
          | None => any_i (eval_any_allowed_i fuel' a allowed f) [hi; lo]
          end
      end
  end.
End EvalModel.

(** ** the concrete instances (for extraction and for the theorems) *)
(** fuel that always suffices for a valid id: the recursion descends along arena indices *)
Definition eval_fuel (a : marena) : nat := S (length a).

(** [MarkerTree::evaluate] *)
Definition m_eval_i (fuel : nat) (a : marena) (e : env) (extras : list str) (x : nid) : option bool :=
  eval_i fuel a (val_of_env e extras) x.

(** [MarkerTree::evaluate_extras]: version / string / in / contains nodes: any child; extra nodes: the edge chosen
    by membership of the (valid) name in the active extras *)
Definition m_eval_extras_i (fuel : nat) (a : marena) (extras : list str) (x : nid) : option bool :=
  eval_any_i fuel a (extras_only extras) x.

(** [MarkerTree::evaluate_extras_and_python_version]: an edge of a node keyed by the python_version key [pvk]
    is skipped unless its range contains one of the candidate versions *)
Definition pv_allowed (pvk : N) (pvs : list version) (k : var) (lo hi : option (cut val)) : bool :=
  match k with
  | VVersion k' => if N.eqb k' pvk then existsb (fun v => in_range (inl v) lo hi) pvs else true
  | _ => true
  end.

Definition m_eval_extras_pv_i (fuel : nat) (a : marena) (pvk : N) (pvs : list version) (extras : list str) (x : nid)
  : option bool :=
  eval_any_allowed_i fuel a (pv_allowed pvk pvs) (extras_only extras) x.
