(** L2: programs of marker operations executed with the crate's own recursions on ids ([and_i] with its
    memo cache, [or_i], [restrict_i], [simplify_pv_i], [complexify_pv_i]; negation flips the complement bit;
    a parsed comparison is interned as its one-variable diagram).  The state carries the arena, the memo
    cache and the registers.  Definitions only; InternIProofs.v shows that such a run observes exactly what
    the abstract run of Intern.v observes, from any reachable state (arena AND cache). *)
From Coq Require Import List Bool Arith NArith.
From PV Require Import Base.Order Base.CutDef DD.DDModel DD.DDPyVer Interner.Store Interner.Intern Interner.AndModel Interner.OpsModel
  Marker.Concrete Marker.Expr.
Import ListNotations.

Notation mcache := (cache).
Record istate_i := { si_arena : marena; si_cache : mcache; si_regs : list nid }.

Definition regi (s : istate_i) (i : nat) : nid := nth i (si_regs s) NTrue.

(** enough fuel for every recursion: they descend along arena indices *)
Definition big (s : istate_i) : nat := S (S (2 * length (si_arena s))).

Definition mstep_i (pv pfv : N) (s : istate_i) (o : mop) : istate_i :=
  let st : ist (var:=var) (val:=val) := (si_arena s, si_cache s) in
  let '(st', x) :=
    match o with
    | MExpr e => let (a', x) := intern (si_arena s) (expression pv pfv e) in ((a', si_cache s), x)
    | MAnd i j => and_i (big s) st (regi s i) (regi s j)
    | MOr i j => or_i (big s) st (regi s i) (regi s j)
    | MNot i => (st, nnot (regi s i))
    | MSimplifyExtras ex i => restrict_i (big s) (extras_present ex) st (regi s i)
    | MSimplifyPv w i => simplify_pv_i (big s) (VVersion pfv) w st (regi s i)
    | MComplexifyPv w i => complexify_pv_i (big s) (VVersion pfv) w st (regi s i)
    end in
  {| si_arena := fst st'; si_cache := snd st'; si_regs := si_regs s ++ [x] |}.

Definition mrun_i (pv pfv : N) (s : istate_i) (w : list mop) : istate_i := fold_left (mstep_i pv pfv) w s.

(** forgetting the cache: the state an observer sees *)
Definition forget (s : istate_i) : istate := {| st_arena := si_arena s; st_regs := si_regs s |}.
Definition init_i : istate_i := {| si_arena := []; si_cache := []; si_regs := [] |}.
(** a new program started in whatever arena and cache earlier work left behind *)
Definition fresh_i (s : istate_i) : istate_i := {| si_arena := si_arena s; si_cache := si_cache s; si_regs := [] |}.
