(** L2: the structural order on node ids, as src/marker/tree.rs computes it.  Definitions only (CmpProofs.v has
    the theorems).

    [impl Ord for MarkerTree] is [self.kind().cmp(&other.kind())]: it never sees an unfolded diagram.  Each step
    calls [kind()] on BOTH ids (one arena node each, children handed back with the complement bit of the parent
    pushed down, [EvalModel.kind_i]), compares

    - the kind of view (derived [Ord] of [MarkerTreeKind]: True < False < Version < String < In < Contains < Extra;
      in the model the discriminant of the variable kinds is part of the order on [var], and a range node is below
      a boolean node with an equal variable, exactly as [DDCmp.tcmp] has it),
    - then the key (and value) = the variable,
    - then [edges()] / [children()] lexicographically ([Iterator::cmp]), a pair of edges by its range and then by
      [MarkerTree::cmp] of the two child IDS - a recursive call of the same function.

    Everything is lazy, as [Ordering::then_with] and [Iterator::cmp] are: the first difference decides, nothing
    after it is looked at.

    - [edges_cmp_i]  the loop over the edges of two range nodes (cut form, like [DDCmp.edges_cmp]);
    - [cmp_kview]    one comparison of two views, children compared by [g];
    - [cmp_i]        the recursion, on a fuel argument (the crate recurses along strictly decreasing arena
                     indices); [None] means: out of fuel, or an id that is not in the arena. *)
From Coq Require Import List Bool Arith NArith.
From PV Require Import Base.Order Base.CutDef DD.DDModel DD.DDCmp Interner.Store Interner.Intern Interner.EvalModel
  Marker.Concrete Marker.CmpConcrete.
Import ListNotations.

Section CmpModel.
Context {var val : Type} `{TotalOrder var} `{TotalOrder val}.
Notation cutV := (cut val).
Notation snode := (snode (var:=var) (val:=val)).
Notation arena := (list snode).
Notation kview := (kview (var:=var) (val:=val)).

(** ** [self.edges().cmp(other.edges())] of two range nodes.
    The i-th edge is (range between cut i and cut i+1, child i); all earlier edges being equal, the two ranges start
    at the same cut, so they are ordered by their upper cut, and a range that is unbounded above (last edge) comes
    after one that is bounded.  [d] / [e] are the children of the current edges, [ds] / [es] what follows. *)
Fixpoint edges_cmp_i (g : nid -> nid -> option comparison)
    (d : nid) (ds : list (cutV * nid)) (e : nid) (es : list (cutV * nid)) : option comparison :=
  match ds, es with
  | [], [] => g d e
  | [], _ :: _ => Some Gt
  | _ :: _, [] => Some Lt
  | (c, d') :: ds', (c', e') :: es' =>
      match cut_cmp c c' with
      | Eq => match g d e with
              | Some Eq => edges_cmp_i g d' ds' e' es'
              | r => r                                        (* decided, or the recursive call failed *)
              end
      | r => Some r
      end
  end.

(** ** [MarkerTreeKind::cmp]: discriminant, then key / value, then children ([g] compares two child ids) *)
Definition cmp_kview (g : nid -> nid -> option comparison) (kx ky : kview) : option comparison :=
  match kx, ky with
  | KTrue, KTrue => Some Eq
  | KTrue, _ => Some Lt
  | KFalse, KTrue => Some Gt
  | KFalse, KFalse => Some Eq
  | KFalse, _ => Some Lt
  | KRange _ _ _, KTrue | KRange _ _ _, KFalse => Some Gt
  | KBool _ _ _, KTrue | KBool _ _ _, KFalse => Some Gt
  | KRange k d0 ds, KRange k' e0 es =>
      match cmp k k' with
      | Eq => edges_cmp_i g d0 ds e0 es
      | c => Some c
      end
  | KRange k _ _, KBool k' _ _ => Some (match cmp k k' with Eq => Lt | c => c end)
  | KBool k _ _, KRange k' _ _ => Some (match cmp k k' with Eq => Gt | c => c end)
  | KBool k hi lo, KBool k' hi' lo' =>
      match cmp k k' with
      | Eq => match g hi hi' with                             (* [(true, high)] then [(false, low)] *)
              | Some Eq => g lo lo'
              | r => r
              end
      | c => Some c
      end
  end.

(** ** [MarkerTree::cmp] *)
Fixpoint cmp_i (fuel : nat) (a : arena) (x y : nid) : option comparison :=
  match fuel with
  | O => None
  | S fuel' =>
      match kind_i a x, kind_i a y with
      | Some kx, Some ky => cmp_kview (cmp_i fuel' a) kx ky
      | _, _ => None                                          (* not an id of this arena *)
      end
  end.
End CmpModel.

(** ** the concrete instance (for extraction and for the theorems) *)
(** fuel that always suffices for two valid ids: each recursive call is on two children, both of smaller rank *)
Definition cmp_fuel (a : marena) : nat := S (length a).

(** [MarkerTree::cmp] with an explicit fuel *)
Definition m_cmp_fuel_i (fuel : nat) (a : marena) (x y : nid) : option comparison := cmp_i fuel a x y.

(** [MarkerTree::cmp] *)
Definition m_cmp_i (a : marena) (x y : nid) : option comparison := cmp_i (cmp_fuel a) a x y.
