(** L2: the order on node ids (CmpModel.v: what [impl Ord for MarkerTree] runs, one [kind()] call per id and step,
    complement bit pushed down lazily) is exactly the L1 structural order [DDCmp.tcmp] on the diagrams the ids
    denote:

    - [cmp_i_refines]   [cmp_i fuel a x y = Some (tcmp (unfold a x) (unfold a y))] when [fuel] exceeds both ranks;
    - [cmp_i_fuel_mono] / [cmp_i_sound]   an answer obtained with ANY fuel is that answer;
    - [cmp_i_eq_iff], [cmp_i_antisym], [cmp_i_trans]   on ids: [Eq] exactly for the same id, antisymmetric, transitive;
    - [cmp_i_app]       the order of two ids does not change when more nodes are interned later (no hypothesis on
                        the extension, none on the fuel);
    - [m_cmp_i_default] and the [m_cmp_i_*] corollaries: the instance at the marker types with the default fuel;
    - [cmp_i_reachable] / [cmp_i_later]: on every reachable state of the interned machine. *)
From Coq Require Import List Bool Arith NArith Lia.
From PV Require Import Base.ListLemmas Base.Order Base.CutDef Base.CutLemmas DD.DDModel DD.DDBasics DD.DDCmp
  Interner.Store Interner.StoreProofs Interner.Intern Interner.InternI Interner.InternIProofs
  Interner.EvalModel Interner.EvalProofs Interner.CmpModel Marker.Concrete Marker.Expr Marker.CmpConcrete.
Import ListNotations.
Local Open Scope nat_scope.

Section CmpProofs.
Context {var val : Type} `{TotalOrder var} `{TotalOrder val}.
Notation cutV := (cut val).
Notation dd := (dd var val).
Notation snode := (snode (var:=var) (val:=val)).
Notation arena := (list snode).
Notation kview := (kview (var:=var) (val:=val)).

Lemma map_snd_cons {A B : Type} (f : A -> B) (c : cutV) (x : A) (l : list (cutV * A)) :
  map_snd f ((c, x) :: l) = (c, f x) :: map_snd f l.
Proof. reflexivity. Qed.

(** ** the loop over the edges *)
Lemma edges_cmp_i_spec (g : nid -> nid -> option comparison) (u : nid -> dd) :
  forall (ds : list (cutV * nid)) (d : nid) (es : list (cutV * nid)) (e : nid),
  (forall d', In d' (d :: map snd ds) -> forall e', In e' (e :: map snd es) -> g d' e' = Some (tcmp (u d') (u e'))) ->
  edges_cmp_i g d ds e es = Some (edges_cmp (tcmp (u d)) (map_snd tcmp (map_snd u ds)) (u e) (map_snd u es)).
Proof.
  induction ds as [|[c d1] ds IH]; intros d es e G; destruct es as [|[c' e1] es].
  - cbn [edges_cmp_i]. unfold map_snd. cbn [map edges_cmp]. apply G; now left.
  - reflexivity.
  - reflexivity.
  - rewrite !map_snd_cons, edges_cmp_cons. cbn [edges_cmp_i].
    destruct (cut_cmp c c'); [|reflexivity|reflexivity].
    rewrite (G d (or_introl eq_refl) e (or_introl eq_refl)).
    destruct (tcmp (u d) (u e)); [|reflexivity|reflexivity].
    apply IH. intros d' Id e' Ie. apply G; right; assumption.
Qed.

Lemma edges_cmp_i_ext (g g' : nid -> nid -> option comparison) :
  forall (ds : list (cutV * nid)) (d : nid) (es : list (cutV * nid)) (e : nid),
  (forall d', In d' (d :: map snd ds) -> forall e', In e' (e :: map snd es) -> g d' e' = g' d' e') ->
  edges_cmp_i g d ds e es = edges_cmp_i g' d ds e es.
Proof.
  induction ds as [|[c d1] ds IH]; intros d es e G; destruct es as [|[c' e1] es]; cbn [edges_cmp_i]; try reflexivity.
  - apply G; now left.
  - destruct (cut_cmp c c'); [|reflexivity|reflexivity].
    rewrite (G d (or_introl eq_refl) e (or_introl eq_refl)).
    destruct (g' d e) as [[| |]|]; try reflexivity.
    apply IH. intros d' Id e' Ie. apply G; right; assumption.
Qed.

Lemma edges_cmp_i_mono (g g' : nid -> nid -> option comparison) :
  (forall d e r, g d e = Some r -> g' d e = Some r) ->
  forall (ds : list (cutV * nid)) (d : nid) (es : list (cutV * nid)) (e : nid) (r : comparison),
  edges_cmp_i g d ds e es = Some r -> edges_cmp_i g' d ds e es = Some r.
Proof.
  intros G. induction ds as [|[c d1] ds IH]; intros d es e r; destruct es as [|[c' e1] es]; cbn [edges_cmp_i]; auto.
  destruct (cut_cmp c c'); auto.
  destruct (g d e) as [r0|] eqn:E; [|discriminate]. rewrite (G d e r0 E).
  destruct r0; auto.
Qed.

(** ** one comparison of two views *)
Lemma cmp_kview_spec (a : arena) (g : nid -> nid -> option comparison) (kx ky : kview) :
  (forall d, In d (kview_children kx) -> forall e, In e (kview_children ky) ->
             g d e = Some (tcmp (unfold a d) (unfold a e))) ->
  cmp_kview g kx ky = Some (tcmp (kview_tree a kx) (kview_tree a ky)).
Proof.
  intros G.
  destruct kx as [| |k d0 ds|k hi lo]; destruct ky as [| |k' e0 es|k' hi' lo'];
    cbn [cmp_kview kview_tree kview_children] in *; try reflexivity.
  - rewrite tcmp_rnode. destruct (cmp k k'); [|reflexivity|reflexivity].
    apply (edges_cmp_i_spec g (unfold a)). exact G.
  - cbn [tcmp]. destruct (cmp k k'); [|reflexivity|reflexivity].
    rewrite (G hi (or_introl eq_refl) hi' (or_introl eq_refl)).
    destruct (tcmp (unfold a hi) (unfold a hi')); [|reflexivity|reflexivity].
    apply G; right; now left.
Qed.

Lemma cmp_kview_ext (g g' : nid -> nid -> option comparison) (kx ky : kview) :
  (forall d, In d (kview_children kx) -> forall e, In e (kview_children ky) -> g d e = g' d e) ->
  cmp_kview g kx ky = cmp_kview g' kx ky.
Proof.
  intros G.
  destruct kx as [| |k d0 ds|k hi lo]; destruct ky as [| |k' e0 es|k' hi' lo'];
    cbn [cmp_kview kview_children] in *; try reflexivity.
  - destruct (cmp k k'); [|reflexivity|reflexivity]. apply edges_cmp_i_ext. exact G.
  - destruct (cmp k k'); [|reflexivity|reflexivity].
    rewrite (G hi (or_introl eq_refl) hi' (or_introl eq_refl)).
    destruct (g' hi hi') as [[| |]|]; try reflexivity.
    apply G; right; now left.
Qed.

Lemma cmp_kview_mono (g g' : nid -> nid -> option comparison) (kx ky : kview) (r : comparison) :
  (forall d e r, g d e = Some r -> g' d e = Some r) ->
  cmp_kview g kx ky = Some r -> cmp_kview g' kx ky = Some r.
Proof.
  intros G.
  destruct kx as [| |k d0 ds|k hi lo]; destruct ky as [| |k' e0 es|k' hi' lo']; cbn [cmp_kview]; auto.
  - destruct (cmp k k'); auto. apply edges_cmp_i_mono. exact G.
  - destruct (cmp k k'); auto.
    destruct (g hi hi') as [r0|] eqn:E; [|discriminate]. rewrite (G hi hi' r0 E).
    destruct r0; auto.
Qed.

(** ** (T1) [MarkerTree::cmp] on two ids = the L1 order on the diagrams the ids denote.
    Fuel: more than the larger of the two ranks (each recursive call is on a child of [x] and a child of [y]). *)
Theorem cmp_i_refines (a : arena) : Inv a -> forall (fuel : nat) (x y : nid),
  valid (length a) x -> valid (length a) y -> rank x < fuel -> rank y < fuel ->
  cmp_i fuel a x y = Some (tcmp (unfold a x) (unfold a y)).
Proof.
  intros I. induction fuel as [|f IH]; intros x y Vx Vy Rx Ry; [lia|].
  destruct (kind_i_some a x Vx) as [kx Kx]. destruct (kind_i_some a y Vy) as [ky Ky].
  cbn [cmp_i]. rewrite Kx, Ky, (kind_i_unfold a x kx I Kx), (kind_i_unfold a y ky I Ky).
  pose proof (kind_i_children a x kx I Kx) as Fx. pose proof (kind_i_children a y ky I Ky) as Fy.
  rewrite Forall_forall in Fx, Fy.
  apply cmp_kview_spec. intros d Id e Ie.
  destruct (Fx d Id) as [Rd Vd]. destruct (Fy e Ie) as [Re Ve].
  apply IH; [exact Vd|exact Ve|lia|lia].
Qed.

(** more fuel never changes an answer (no invariant needed) ... *)
Theorem cmp_i_fuel_mono (a : arena) : forall (fuel fuel' : nat) (x y : nid) (r : comparison),
  fuel <= fuel' -> cmp_i fuel a x y = Some r -> cmp_i fuel' a x y = Some r.
Proof.
  induction fuel as [|f IH]; intros fuel' x y r L E; [discriminate|].
  destruct fuel' as [|f']; [lia|]. cbn [cmp_i] in *.
  destruct (kind_i a x) as [kx|]; [|discriminate]. destruct (kind_i a y) as [ky|]; [|discriminate].
  revert E. apply cmp_kview_mono. intros d e r0. apply IH. lia.
Qed.

(** ... so whatever the fuel, an answer is the L1 answer (laziness can produce one with less fuel than the ranks) *)
Corollary cmp_i_sound (a : arena) (fuel : nat) (x y : nid) (r : comparison) :
  Inv a -> valid (length a) x -> valid (length a) y ->
  cmp_i fuel a x y = Some r -> r = tcmp (unfold a x) (unfold a y).
Proof.
  intros I Vx Vy E.
  pose proof (cmp_i_fuel_mono a fuel (fuel + S (rank x + rank y)) x y r (Nat.le_add_r _ _) E) as E'.
  rewrite (cmp_i_refines a I _ x y Vx Vy) in E' by lia. now injection E'.
Qed.

(** the only failures: out of fuel, or an id that is not in the arena *)
Lemma cmp_i_none_invalid (a : arena) (fuel : nat) (x y : nid) :
  ~ valid (length a) x \/ ~ valid (length a) y -> cmp_i fuel a x y = None.
Proof.
  intros NV. destruct fuel as [|f]; [reflexivity|]. cbn [cmp_i].
  destruct NV as [NV|NV]; apply kind_i_none in NV; rewrite NV; [reflexivity|].
  destruct (kind_i a x); reflexivity.
Qed.

(** ** (T2) the order on ids *)
(** [Eq] exactly for the same id: [Ord] agrees with [==] of ids (and with identity of diagrams) *)
Theorem cmp_i_eq_iff (a : arena) (fuel : nat) (x y : nid) :
  Inv a -> valid (length a) x -> valid (length a) y -> rank x < fuel -> rank y < fuel ->
  (cmp_i fuel a x y = Some Eq <-> x = y).
Proof.
  intros I Vx Vy Rx Ry. rewrite (cmp_i_refines a I fuel x y Vx Vy Rx Ry).
  rewrite <- (unfold_inj a x y I Vx Vy), <- (tcmp_eq (unfold a x) (unfold a y)).
  split; [intros E; now injection E|intros ->; reflexivity].
Qed.

(** with any fuel, [Some Eq] is only ever answered for the same id *)
Corollary cmp_i_eq_sound (a : arena) (fuel : nat) (x y : nid) :
  Inv a -> valid (length a) x -> valid (length a) y -> cmp_i fuel a x y = Some Eq -> x = y.
Proof.
  intros I Vx Vy E. apply (unfold_inj a x y I Vx Vy). apply tcmp_eq.
  symmetry. exact (cmp_i_sound a fuel x y Eq I Vx Vy E).
Qed.

Theorem cmp_i_antisym (a : arena) (fuel : nat) (x y : nid) :
  Inv a -> valid (length a) x -> valid (length a) y -> rank x < fuel -> rank y < fuel ->
  cmp_i fuel a y x = option_map CompOpp (cmp_i fuel a x y).
Proof.
  intros I Vx Vy Rx Ry.
  rewrite (cmp_i_refines a I fuel x y Vx Vy Rx Ry), (cmp_i_refines a I fuel y x Vy Vx Ry Rx).
  cbn [option_map]. f_equal. apply tcmp_antisym.
Qed.

Theorem cmp_i_trans (a : arena) (fuel : nat) (x y z : nid) :
  Inv a -> valid (length a) x -> valid (length a) y -> valid (length a) z ->
  rank x < fuel -> rank y < fuel -> rank z < fuel ->
  cmp_i fuel a x y = Some Lt -> cmp_i fuel a y z = Some Lt -> cmp_i fuel a x z = Some Lt.
Proof.
  intros I Vx Vy Vz Rx Ry Rz.
  rewrite (cmp_i_refines a I fuel x y Vx Vy Rx Ry), (cmp_i_refines a I fuel y z Vy Vz Ry Rz),
    (cmp_i_refines a I fuel x z Vx Vz Rx Rz).
  intros E1 E2. injection E1 as E1. injection E2 as E2. f_equal. exact (tcmp_trans _ _ _ E1 E2).
Qed.

(** the order does not see later interning (no hypothesis on the extension, none on the fuel) *)
Theorem cmp_i_app (a b : arena) : Inv a -> forall (fuel : nat) (x y : nid),
  valid (length a) x -> valid (length a) y -> cmp_i fuel (a ++ b) x y = cmp_i fuel a x y.
Proof.
  intros I. induction fuel as [|f IH]; intros x y Vx Vy; [reflexivity|].
  cbn [cmp_i]. rewrite (kind_i_app a b x Vx), (kind_i_app a b y Vy).
  destruct (kind_i a x) as [kx|] eqn:Kx; [|reflexivity]. destruct (kind_i a y) as [ky|] eqn:Ky; [|reflexivity].
  pose proof (kind_i_children a x kx I Kx) as Fx. pose proof (kind_i_children a y ky I Ky) as Fy.
  rewrite Forall_forall in Fx, Fy.
  apply cmp_kview_ext. intros d Id e Ie. apply IH; [apply (Fx d Id)|apply (Fy e Ie)].
Qed.

Corollary cmp_i_stable (a b : arena) (fuel : nat) (x y : nid) :
  Inv a -> valid (length a) x -> valid (length a) y -> rank x < fuel -> rank y < fuel ->
  cmp_i fuel (a ++ b) x y = cmp_i fuel a x y /\
  cmp_i fuel (a ++ b) x y = Some (tcmp (unfold (a ++ b) x) (unfold (a ++ b) y)).
Proof.
  intros I Vx Vy Rx Ry. rewrite (cmp_i_app a b I fuel x y Vx Vy). split; [reflexivity|].
  rewrite (unfold_stable a b x Vx), (unfold_stable a b y Vy). now apply cmp_i_refines.
Qed.
End CmpProofs.

Print Assumptions cmp_i_refines.
Print Assumptions cmp_i_fuel_mono.
Print Assumptions cmp_i_sound.
Print Assumptions cmp_i_eq_iff.
Print Assumptions cmp_i_eq_sound.
Print Assumptions cmp_i_antisym.
Print Assumptions cmp_i_trans.
Print Assumptions cmp_i_app.
Print Assumptions cmp_i_stable.

(** ** (T3) the instance at the marker types *)
Theorem m_cmp_fuel_i_refines (a : marena) (fuel : nat) (x y : nid) :
  Inv a -> valid (length a) x -> valid (length a) y -> rank x < fuel -> rank y < fuel ->
  m_cmp_fuel_i fuel a x y = Some (m_cmp (unfold a x) (unfold a y)).
Proof. intros I Vx Vy Rx Ry. now apply cmp_i_refines. Qed.

(** the default fuel suffices *)
Theorem m_cmp_i_default (a : marena) (x y : nid) :
  Inv a -> valid (length a) x -> valid (length a) y -> m_cmp_i a x y = Some (m_cmp (unfold a x) (unfold a y)).
Proof.
  intros I Vx Vy. unfold m_cmp_i, cmp_fuel.
  apply cmp_i_refines; [exact I|exact Vx|exact Vy|now apply rank_le_length|now apply rank_le_length].
Qed.

Theorem m_cmp_i_eq_iff (a : marena) (x y : nid) :
  Inv a -> valid (length a) x -> valid (length a) y -> (m_cmp_i a x y = Some Eq <-> x = y).
Proof.
  intros I Vx Vy. unfold m_cmp_i, cmp_fuel.
  apply cmp_i_eq_iff; [exact I|exact Vx|exact Vy|now apply rank_le_length|now apply rank_le_length].
Qed.

Theorem m_cmp_i_antisym (a : marena) (x y : nid) :
  Inv a -> valid (length a) x -> valid (length a) y -> m_cmp_i a y x = option_map CompOpp (m_cmp_i a x y).
Proof.
  intros I Vx Vy. unfold m_cmp_i, cmp_fuel.
  apply cmp_i_antisym; [exact I|exact Vx|exact Vy|now apply rank_le_length|now apply rank_le_length].
Qed.

Theorem m_cmp_i_trans (a : marena) (x y z : nid) :
  Inv a -> valid (length a) x -> valid (length a) y -> valid (length a) z ->
  m_cmp_i a x y = Some Lt -> m_cmp_i a y z = Some Lt -> m_cmp_i a x z = Some Lt.
Proof.
  intros I Vx Vy Vz. unfold m_cmp_i, cmp_fuel.
  apply cmp_i_trans; [exact I|exact Vx|exact Vy|exact Vz|now apply rank_le_length|now apply rank_le_length|now apply rank_le_length].
Qed.

(** same fuel: nothing interned later is looked at *)
Theorem m_cmp_fuel_i_stable (a b : marena) (fuel : nat) (x y : nid) :
  Inv a -> valid (length a) x -> valid (length a) y -> m_cmp_fuel_i fuel (a ++ b) x y = m_cmp_fuel_i fuel a x y.
Proof. intros I Vx Vy. now apply cmp_i_app. Qed.

(** default fuel (which grows with the arena): same answer *)
Theorem m_cmp_i_stable (a b : marena) (x y : nid) :
  Inv a -> valid (length a) x -> valid (length a) y -> m_cmp_i (a ++ b) x y = m_cmp_i a x y.
Proof.
  intros I Vx Vy. rewrite (m_cmp_i_default a x y I Vx Vy). unfold m_cmp_i.
  rewrite (cmp_i_app a b I (cmp_fuel (a ++ b)) x y Vx Vy).
  apply cmp_i_refines; [exact I|exact Vx|exact Vy| |];
    unfold cmp_fuel; rewrite app_length;
    [pose proof (rank_le_length _ _ Vx)|pose proof (rank_le_length _ _ Vy)]; lia.
Qed.

Print Assumptions m_cmp_fuel_i_refines.
Print Assumptions m_cmp_i_default.
Print Assumptions m_cmp_i_eq_iff.
Print Assumptions m_cmp_i_antisym.
Print Assumptions m_cmp_i_trans.
Print Assumptions m_cmp_fuel_i_stable.
Print Assumptions m_cmp_i_stable.

(** ** on every reachable state: whatever program [h] ran before (arena and memo cache left behind) and whatever
    program [w] produced the registers, [MarkerTree::cmp] on two registers' ids gives the L1 order of the diagrams
    the registers denote, and [Equal] exactly when the two ids are the same *)
Corollary cmp_i_reachable (pv pfv : N) (h w : list mop) (i j : nat) :
  let s := mrun_i pv pfv (fresh_i (mrun_i pv pfv init_i h)) w in
  let a := si_arena s in
  m_cmp_i a (regi s i) (regi s j) = Some (m_cmp (reg (forget s) i) (reg (forget s) j)) /\
  (m_cmp_i a (regi s i) (regi s j) = Some Eq <-> regi s i = regi s j) /\
  m_cmp_i a (regi s j) (regi s i) = option_map CompOpp (m_cmp_i a (regi s i) (regi s j)).
Proof.
  cbv zeta. set (s := mrun_i pv pfv (fresh_i (mrun_i pv pfv init_i h)) w).
  assert (SInv_i s) as [(I & _ & _) V].
  { apply mrun_i_spec. apply SInv_i_fresh. apply mrun_i_spec. exact SInv_i_init. }
  cbn [fst] in I. pose proof (regi_valid s i V) as Vi. pose proof (regi_valid s j V) as Vj.
  change (reg (forget s) i) with (unfold (si_arena s) (regi s i)).
  change (reg (forget s) j) with (unfold (si_arena s) (regi s j)).
  split; [now apply m_cmp_i_default|]. split; [now apply m_cmp_i_eq_iff|now apply m_cmp_i_antisym].
Qed.

(** ... and no later program changes how two existing ids compare *)
Corollary cmp_i_later (pv pfv : N) (s : istate_i) (w : list mop) (x y : nid) :
  SInv_i s -> valid (length (si_arena s)) x -> valid (length (si_arena s)) y ->
  m_cmp_i (si_arena (mrun_i pv pfv s w)) x y = m_cmp_i (si_arena s) x y /\
  forall fuel, m_cmp_fuel_i fuel (si_arena (mrun_i pv pfv s w)) x y = m_cmp_fuel_i fuel (si_arena s) x y.
Proof.
  intros S Vx Vy. destruct (mrun_i_spec pv pfv w s S) as [_ [b ->]]. destruct S as [(I & _ & _) _]. cbn [fst] in I.
  split; [now apply m_cmp_i_stable|intros fuel; now apply m_cmp_fuel_i_stable].
Qed.

Print Assumptions cmp_i_reachable.
Print Assumptions cmp_i_later.

(** ** (E) non-vacuity: the 15-step program of InternIProofs.v ([EvalProofs.ex_state], [ex_arena]).
    Register 8 is the COMPLEMENTED id [NNode 7 true], register 12 its negation [NNode 7 false] (same arena node,
    other complement bit); registers 0 / 5 are [k0 >= '1'] / [k0 < '1'] ([NNode 0 true] / [NNode 0 false]);
    register 1 is [os_name == 'b'], register 2 is [extra == 'a']; registers 9 and 14 hold the same id. *)
Example cmp_i_example :
  let a := ex_arena in
  let r := regi ex_state in
  length a = 15 /\ r 8 = NNode 7 true /\ r 12 = NNode 7 false /\ r 0 = NNode 0 true /\ r 5 = NNode 0 false /\
  (* what [kind()] shows for the two ids of entry 7: same key and cut, children negated for the complemented one *)
  kind_i a (r 8) = Some (KRange (VVersion 0%N) (NNode 5 true) [((inl (0%N, ([1%N], FINAL)), Below), NNode 3 false)]) /\
  kind_i a (r 12) = Some (KRange (VVersion 0%N) (NNode 5 false) [((inl (0%N, ([1%N], FINAL)), Below), NNode 3 true)]) /\
  (* an id against its negation: never [Eq], and opposite answers in the two directions *)
  m_cmp_i a (r 8) (r 12) = Some Gt /\ m_cmp_i a (r 12) (r 8) = Some Lt /\
  m_cmp_i a (r 0) (r 5) = Some Gt /\ m_cmp_i a (r 5) (r 0) = Some Lt /\
  m_cmp_i a NTrue NFalse = Some Lt /\ m_cmp_i a NFalse NTrue = Some Gt /\
  (* different registers, both directions: a string node is below an extra node, a version node below both *)
  m_cmp_i a (r 1) (r 2) = Some Lt /\ m_cmp_i a (r 2) (r 1) = Some Gt /\
  m_cmp_i a (r 0) (r 1) = Some Lt /\ m_cmp_i a (r 1) (r 0) = Some Gt /\
  m_cmp_i a (r 8) (r 6) = Some Lt /\ m_cmp_i a (r 6) (r 8) = Some Gt /\
  (* the same id in two registers, and an id against itself *)
  r 9 = r 14 /\ m_cmp_i a (r 9) (r 14) = Some Eq /\ m_cmp_i a (r 8) (r 8) = Some Eq /\
  (* the same answers as the L1 order on the unfolded diagrams *)
  m_cmp (unfold a (r 8)) (unfold a (r 12)) = Gt /\ m_cmp (unfold a (r 1)) (unfold a (r 2)) = Lt /\
  (* all 15 x 15 pairs of registers at once against L1 *)
  map (fun x => map (m_cmp_i a x) (si_regs ex_state)) (si_regs ex_state) =
    map (fun x => map (fun y => Some (m_cmp (unfold a x) (unfold a y))) (si_regs ex_state)) (si_regs ex_state) /\
  (* fuel: [r 8] against itself walks entries 7, 5 and a terminal, then 3, 2 and a terminal: depth 4 (far less than
     its rank 8); against [r 12] the first children ([NNode 5 true] / [NNode 5 false]: entry 5, then its first child,
     a terminal) already differ and the second children are not looked at; registers 1 and 2 differ in the variable:
     one step *)
  m_cmp_fuel_i 4 a (r 8) (r 8) = Some Eq /\ m_cmp_fuel_i 3 a (r 8) (r 8) = None /\
  m_cmp_fuel_i 3 a (r 8) (r 12) = Some Gt /\ m_cmp_fuel_i 2 a (r 8) (r 12) = None /\
  m_cmp_fuel_i 1 a (r 1) (r 2) = Some Lt /\ m_cmp_fuel_i 0 a (r 1) (r 2) = None /\
  (* an id that is not in the arena *)
  m_cmp_i a (NNode 15 false) (r 8) = None /\ m_cmp_i a (r 8) (NNode 15 false) = None.
Proof. vm_compute. repeat split; reflexivity. Qed.
