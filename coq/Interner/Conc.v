(** C15 (lock-free reads + the real recursions under a scheduler).

    In the crate every mutation (pushing a node to the append-only arena, updating the memo cache) happens while
    one global Mutex is held, but the READ-ONLY traversals ([kind()], on which evaluate / to_dnf / Display / cmp
    are built) read arena entries WITHOUT the lock, one node at a time, while other threads keep pushing nodes.

    Part A: a world is the arena at every instant; it only grows.  A traversal that reads every node at an
            arbitrary later instant (each child at its own arbitrary later instant) obtains exactly the diagram
            that the id showed at the instant the id was learnt, and never gets stuck.
    Part B: the scheduler of Sched.v, over the crate's real recursions and the shared memo cache ([mstep_i]).
    Part C: both together: under every schedule, an asynchronous traversal of a register of thread [t] returns the
            diagram of that register, which is the one of the sequential (solo, abstract) run of [t]'s program. *)
From Coq Require Import List Bool Arith NArith Lia.
From PV Require Import Base.ListLemmas Base.Order Base.CutDef Base.CutLemmas DD.DDModel DD.DDBasics DD.DDWf
  Interner.Store Interner.StoreProofs Interner.CreateProofs Interner.Intern Interner.AndModel Interner.OpsModel
  Interner.InternProofs Interner.Sched Interner.AndProofs Interner.InternI Interner.InternIProofs
  Marker.Concrete Marker.Expr.
Import ListNotations.
Local Open Scope nat_scope.

(** * Part A: lock-free reads of an append-only arena are linearizable *)

Definition world := nat -> marena.
Definition mono (w : world) : Prop := forall k, exists ext, w (S k) = w k ++ ext.

(** [aread w k x t]: a traversal that learns id [x] at instant [k] obtains diagram [t].  The node of [NNode i c] is
    read at some instant [k' >= k]; its children are the ids [nnegate d (NNode i c)] (the complement bit is pushed
    down lazily, as [kind()] does); each child is traversed from its own arbitrary instant [>= k'].  Every
    derivation is one timing of the reads; the relation contains all of them. *)
Inductive aread (w : world) : nat -> nid -> mdd -> Prop :=
| AR_true k : aread w k NTrue (Leaf true)
| AR_false k : aread w k NFalse (Leaf false)
| AR_range k k' i c kv d0 ds k0' t0 ts :
    k <= k' -> nth_error (w k') i = Some (SR kv d0 ds) ->
    k' <= k0' -> aread w k0' (nnegate d0 (NNode i c)) t0 ->
    areads w k' (NNode i c) ds ts ->
    aread w k (NNode i c) (RNode kv t0 ts)
| AR_bool k k' i c kv h l kh kl th tl :
    k <= k' -> nth_error (w k') i = Some (SB kv h l) ->
    k' <= kh -> aread w kh (nnegate h (NNode i c)) th ->
    k' <= kl -> aread w kl (nnegate l (NNode i c)) tl ->
    aread w k (NNode i c) (BNode kv th tl)
(** the edges of a range node read at instant [k], whose parent id is [p]: each child from its own instant [>= k] *)
with areads (w : world) : nat -> nid -> list (cut val * nid) -> list (cut val * mdd) -> Prop :=
| ARs_nil k p : areads w k p [] []
| ARs_cons k p cu d ds k1 t ts :
    k <= k1 -> aread w k1 (nnegate d p) t -> areads w k p ds ts ->
    areads w k p ((cu, d) :: ds) ((cu, t) :: ts).

Scheme aread_mind := Minimality for aread Sort Prop
  with areads_mind := Minimality for areads Sort Prop.
Combined Scheme aread_areads_ind from aread_mind, areads_mind.

Lemma mono_aext (w : world) : mono w -> forall k k', k <= k' -> aext (w k) (w k').
Proof.
  intros M k k' L. induction L as [|m L IH]; [apply aext_refl|].
  eapply aext_trans; [exact IH|]. destruct (M m) as [e E]. exists e. exact E.
Qed.

(** an entry that exists at instant [k0] is read unchanged at every later instant *)
Lemma read_stable (w : world) : mono w -> forall k0 k' i, k0 <= k' -> i < length (w k0) ->
  nth_error (w k') i = nth_error (w k0) i.
Proof. intros M k0 k' i L Hi. destruct (mono_aext w M k0 k' L) as [b ->]. now apply nth_error_app1. Qed.

(** the ids a reader finds in entry [i] (after pushing the complement bit down) are ids of the same arena, of smaller rank *)
Lemma entry_children_valid (a : marena) i c n : Inv a -> nth_error a i = Some n ->
  Forall (fun d => valid (length a) (nnegate d (NNode i c)) /\ rank (nnegate d (NNode i c)) <= i) (children n).
Proof.
  intros I E. pose proof (entry_children a I i n E) as F. eapply Forall_impl; [|exact F].
  cbn beta. intros d [R V]. split; [now apply valid_nnegate|now rewrite rank_nnegate].
Qed.

(** (A2, progress) a reader that holds a valid id of instant [k0] finds its entry at every later instant, the same
    entry as at [k0], and all the ids in it are again valid ids of instant [k0]: the traversal is never stuck *)
Theorem aread_progress (w : world) (k0 : nat) : mono w -> (forall k, Inv (w k)) ->
  forall i c, valid (length (w k0)) (NNode i c) -> forall k', k0 <= k' ->
  exists n, nth_error (w k') i = Some n /\ nth_error (w k0) i = Some n /\
            Forall (fun d => valid (length (w k0)) (nnegate d (NNode i c)) /\ rank (nnegate d (NNode i c)) <= i) (children n).
Proof.
  intros M I i c V k' L. cbn [valid] in V.
  destruct (nth_error (w k0) i) as [n|] eqn:E; [|apply nth_error_None in E; lia].
  exists n. split; [rewrite (read_stable w M k0 k' i L V); exact E|]. split; [reflexivity|].
  exact (entry_children_valid (w k0) i c n (I k0) E).
Qed.

Lemma aread_lin_mut (w : world) : mono w -> (forall k, Inv (w k)) ->
  (forall k x t, aread w k x t -> forall k0, k0 <= k -> valid (length (w k0)) x -> t = unfold (w k0) x) /\
  (forall k p ds ts, areads w k p ds ts -> forall k0, k0 <= k ->
     Forall (fun d => valid (length (w k0)) (nnegate d p)) (map snd ds) ->
     ts = map_snd (fun d => unfold (w k0) (nnegate d p)) ds).
Proof.
  intros M I. apply aread_areads_ind.
  - intros k k0 _ _. reflexivity.
  - intros k k0 _ _. reflexivity.
  - intros k k' i c kv d0 ds k0' t0 ts L E L0 _ IH0 _ IHs k0 Lk V.
    destruct (aread_progress w k0 M I i c V k') as (n & E1 & E0 & F); [lia|].
    rewrite E in E1. injection E1 as <-. cbn [children] in F.
    inversion F as [|? ? [V0 _] Fs]; subst.
    rewrite (unfold_SR (w k0) i c kv d0 ds (I k0) E0). f_equal.
    + apply IH0; [lia|exact V0].
    + apply IHs; [lia|]. eapply Forall_impl; [|exact Fs]. cbn beta. intros d [Vd _]. exact Vd.
  - intros k k' i c kv h l kh kl th tl L E Lh _ IHh Ll _ IHl k0 Lk V.
    destruct (aread_progress w k0 M I i c V k') as (n & E1 & E0 & F); [lia|].
    rewrite E in E1. injection E1 as <-. cbn [children] in F.
    inversion F as [|? ? [Vh _] F']; subst. inversion F' as [|? ? [Vl _] _]; subst.
    rewrite (unfold_SB (w k0) i c kv h l (I k0) E0). f_equal.
    + apply IHh; [lia|exact Vh].
    + apply IHl; [lia|exact Vl].
  - intros k p k0 _ _. reflexivity.
  - intros k p cu d ds k1 t ts L _ IH _ IHs k0 Lk F.
    cbn [map snd] in F. inversion F as [|? ? Vd Fs]; subst.
    rewrite (IHs k0 Lk Fs), (IH k0 (Nat.le_trans _ _ _ Lk L) Vd). reflexivity.
Qed.

(** (A1) whatever the timing of the reads, the traversal returns the diagram the id showed when it was learnt *)
Theorem aread_linearizable (w : world) (k0 k : nat) (x : nid) (t : mdd) :
  mono w -> (forall k, Inv (w k)) -> valid (length (w k0)) x -> k0 <= k -> aread w k x t -> t = unfold (w k0) x.
Proof. intros M I V L A. exact (proj1 (aread_lin_mut w M I) k x t A k0 L V). Qed.
Print Assumptions aread_linearizable.

(** ... in particular two traversals of the same id, with whatever timings, return the same diagram *)
Corollary aread_deterministic (w : world) (k0 k1 k2 : nat) (x : nid) (t1 t2 : mdd) :
  mono w -> (forall k, Inv (w k)) -> valid (length (w k0)) x -> k0 <= k1 -> k0 <= k2 ->
  aread w k1 x t1 -> aread w k2 x t2 -> t1 = t2.
Proof.
  intros M I V L1 L2 A1 A2.
  rewrite (aread_linearizable w k0 k1 x t1 M I V L1 A1). symmetry. exact (aread_linearizable w k0 k2 x t2 M I V L2 A2).
Qed.

(** ** the same traversal as a function of an explicit timing oracle

    [delay path] is how long the reader waits before it reads the node it reached along [path] (the list of child
    positions from the root); a child is started at the instant its parent was read.  All timings of [aread] are
    of this form.  The function returns [None] when a read finds no entry (stuck) or the fuel runs out. *)
Section Oracle.
Variable w : world.
Variable delay : list nat -> nat.

Fixpoint read_edges (rd : list nat -> nat -> nid -> option mdd) (path : list nat) (k : nat) (p : nid) (j : nat)
    (ds : list (cut val * nid)) : option (list (cut val * mdd)) :=
  match ds with
  | [] => Some []
  | (cu, d) :: ds' =>
      match rd (path ++ [j]) k (nnegate d p), read_edges rd path k p (S j) ds' with
      | Some t, Some ts => Some ((cu, t) :: ts)
      | _, _ => None
      end
  end.

Fixpoint aread_fn (fuel : nat) (path : list nat) (k : nat) (x : nid) : option mdd :=
  match fuel with
  | 0 => None
  | S f =>
      match x with
      | NTrue => Some (Leaf true)
      | NFalse => Some (Leaf false)
      | NNode i c =>
          let k' := k + delay path in
          match nth_error (w k') i with
          | None => None
          | Some (SR kv d0 ds) =>
              match aread_fn f (path ++ [0]) k' (nnegate d0 x), read_edges (aread_fn f) path k' x 1 ds with
              | Some t0, Some ts => Some (RNode kv t0 ts)
              | _, _ => None
              end
          | Some (SB kv h l) =>
              match aread_fn f (path ++ [0]) k' (nnegate h x), aread_fn f (path ++ [1]) k' (nnegate l x) with
              | Some th, Some tl => Some (BNode kv th tl)
              | _, _ => None
              end
          end
      end
  end.

Lemma read_edges_sound (rd : list nat -> nat -> nid -> option mdd) :
  (forall path k x t, rd path k x = Some t -> aread w k x t) ->
  forall ds path k p j ts, read_edges rd path k p j ds = Some ts -> areads w k p ds ts.
Proof.
  intros Hrd. induction ds as [|[cu d] ds IH]; intros path k p j ts E; cbn [read_edges] in E.
  - injection E as <-. constructor.
  - destruct (rd (path ++ [j]) k (nnegate d p)) as [t|] eqn:E1; [|discriminate].
    destruct (read_edges rd path k p (S j) ds) as [ts'|] eqn:E2; [|discriminate].
    injection E as <-. apply (ARs_cons w k p cu d ds k t ts'); [lia|now apply (Hrd _ _ _ _ E1)|now apply (IH _ _ _ _ _ E2)].
Qed.

(** every run of the function is one timing of the relation *)
Lemma aread_fn_sound : forall fuel path k x t, aread_fn fuel path k x = Some t -> aread w k x t.
Proof.
  induction fuel as [|f IH]; intros path k x t E; cbn [aread_fn] in E; [discriminate|].
  destruct x as [| |i c].
  - injection E as <-. constructor.
  - injection E as <-. constructor.
  - cbv zeta in E. destruct (nth_error (w (k + delay path)) i) as [[kv d0 ds|kv h l]|] eqn:En; [| |discriminate].
    + destruct (aread_fn f (path ++ [0]) (k + delay path) (nnegate d0 (NNode i c))) as [t0|] eqn:E0; [|discriminate].
      destruct (read_edges (aread_fn f) path (k + delay path) (NNode i c) 1 ds) as [ts|] eqn:Es; [|discriminate].
      injection E as <-.
      apply (AR_range w k (k + delay path) i c kv d0 ds (k + delay path) t0 ts); [lia|exact En|lia|now apply (IH _ _ _ _ E0)|].
      exact (read_edges_sound (aread_fn f) IH ds path _ _ _ ts Es).
    + destruct (aread_fn f (path ++ [0]) (k + delay path) (nnegate h (NNode i c))) as [th|] eqn:Eh; [|discriminate].
      destruct (aread_fn f (path ++ [1]) (k + delay path) (nnegate l (NNode i c))) as [tl|] eqn:El; [|discriminate].
      injection E as <-.
      apply (AR_bool w k (k + delay path) i c kv h l (k + delay path) (k + delay path) th tl);
        [lia|exact En|lia|now apply (IH _ _ _ _ Eh)|lia|now apply (IH _ _ _ _ El)].
Qed.

Hypothesis M : mono w.
Hypothesis I : forall k, Inv (w k).

Lemma read_edges_total (rd : list nat -> nat -> nid -> option mdd) (k0 k : nat) (p : nid) (path : list nat) :
  forall ds j,
  (forall path' d, In d (map snd ds) -> rd path' k (nnegate d p) = Some (unfold (w k0) (nnegate d p))) ->
  read_edges rd path k p j ds = Some (map_snd (fun d => unfold (w k0) (nnegate d p)) ds).
Proof.
  induction ds as [|[cu d] ds IH]; intros j F; [reflexivity|].
  cbn [read_edges]. rewrite (F (path ++ [j]) d) by (cbn [map snd]; now left).
  rewrite (IH (S j)); [reflexivity|]. intros path' d' Id. apply F. cbn [map snd]. now right.
Qed.

(** (A2, existence) for every timing oracle the traversal terminates with an answer (it is never stuck), and the
    answer is the diagram the id showed at the instant it was learnt *)
Theorem aread_fn_total (k0 : nat) : forall fuel path k x,
  valid (length (w k0)) x -> k0 <= k -> rank x < fuel ->
  aread_fn fuel path k x = Some (unfold (w k0) x).
Proof.
  induction fuel as [|f IH]; intros path k x V L R; [lia|]. cbn [aread_fn].
  destruct x as [| |i c]; [reflexivity|reflexivity|]. cbv zeta.
  destruct (aread_progress w k0 M I i c V (k + delay path)) as (n & E1 & E0 & F); [lia|].
  cbn [rank] in R. rewrite E1. destruct n as [kv d0 ds|kv h l]; cbn [children] in F.
  - inversion F as [|? ? [V0 R0] Fs]; subst.
    rewrite (IH (path ++ [0]) (k + delay path) _ V0); [|lia|lia].
    rewrite (read_edges_total (aread_fn f) k0 (k + delay path) (NNode i c) path ds 1).
    + now rewrite (unfold_SR (w k0) i c kv d0 ds (I k0) E0).
    + intros path' d Id. rewrite Forall_forall in Fs. destruct (Fs d Id) as [Vd Rd].
      apply IH; [exact Vd|lia|lia].
  - inversion F as [|? ? [Vh Rh] F']; subst. inversion F' as [|? ? [Vl Rl] _]; subst.
    rewrite (IH (path ++ [0]) (k + delay path) _ Vh); [|lia|lia].
    rewrite (IH (path ++ [1]) (k + delay path) _ Vl); [|lia|lia].
    now rewrite (unfold_SB (w k0) i c kv h l (I k0) E0).
Qed.
End Oracle.

(** (A2, existence, relational form) the linearized answer is obtained under every timing oracle, hence
    [aread w k x (unfold (w k0) x)] holds *)
Theorem aread_exists (w : world) (k0 k : nat) (x : nid) : mono w -> (forall k, Inv (w k)) ->
  valid (length (w k0)) x -> k0 <= k ->
  (forall delay path, aread_fn w delay (S (rank x)) path k x = Some (unfold (w k0) x)) /\
  aread w k x (unfold (w k0) x).
Proof.
  intros M I V L.
  assert (forall delay path, aread_fn w delay (S (rank x)) path k x = Some (unfold (w k0) x)) as T.
  { intros delay path. apply (aread_fn_total w delay M I k0); [exact V|exact L|lia]. }
  split; [exact T|]. exact (aread_fn_sound w (fun _ => 0) _ [] k x _ (T (fun _ => 0) [])).
Qed.
Print Assumptions aread_exists.

(** * Part B: the scheduler over the crate's real recursions and the shared memo cache *)
Section SchedI.
Variables pv pfv : N.
Variable progs : nat -> list mop.       (* the program of each thread *)

(** shared arena, shared memo cache, the registers and the program counter of each thread *)
Record sys_i := { sx_arena : marena; sx_cache : mcache; sx_regs : nat -> list nid; sx_pc : nat -> nat }.

Definition view_i (s : sys_i) (t : nat) : istate_i :=
  {| si_arena := sx_arena s; si_cache := sx_cache s; si_regs := sx_regs s t |}.

(** thread [t] takes the lock and performs its next operation with the real recursions *)
Definition sys_step_i (s : sys_i) (t : nat) : sys_i :=
  match nth_error (progs t) (sx_pc s t) with
  | None => s
  | Some o =>
      let st := mstep_i pv pfv (view_i s t) o in
      {| sx_arena := si_arena st; sx_cache := si_cache st;
         sx_regs := fun u => if Nat.eqb u t then si_regs st else sx_regs s u;
         sx_pc := fun u => if Nat.eqb u t then S (sx_pc s t) else sx_pc s u |}
  end.

Definition sys_init_i : sys_i := {| sx_arena := []; sx_cache := []; sx_regs := fun _ => []; sx_pc := fun _ => 0 |}.
Definition sys_run_i (sched : list nat) : sys_i := fold_left sys_step_i sched sys_init_i.

(** what thread [t] would have after running the same prefix of its program alone: abstractly, and with the real recursions *)
Definition solo_a (s : sys_i) (t : nat) : istate := mrun pv pfv init (firstn (sx_pc s t) (progs t)).
Definition solo_i (s : sys_i) (t : nat) : istate_i := mrun_i pv pfv init_i (firstn (sx_pc s t) (progs t)).

Definition SysInv_i (s : sys_i) : Prop :=
  forall t, SInv_i (view_i s t) /\ reg_trees (forget (view_i s t)) = reg_trees (solo_a s t).

Lemma sys_step_i_inv (s : sys_i) (t : nat) : SysInv_i s ->
  SysInv_i (sys_step_i s t) /\ aext (sx_arena s) (sx_arena (sys_step_i s t)).
Proof.
  intros SI. unfold sys_step_i. destruct (nth_error (progs t) (sx_pc s t)) as [o|] eqn:E; [|split; [exact SI|apply aext_refl]].
  destruct (SI t) as [St Et].
  destruct (mstep_i_spec pv pfv (view_i s t) o St) as (St' & Ext & Tr).
  cbv zeta. set (st := mstep_i pv pfv (view_i s t) o) in *.
  split; [|exact Ext].
  intros u. unfold view_i, solo_a. cbn [sx_arena sx_cache sx_regs sx_pc]. destruct (Nat.eqb_spec u t) as [-> | Ne].
  - split.
    + destruct St' as [A B]. split; cbn [si_arena si_cache si_regs]; assumption.
    + rewrite (firstn_snoc _ _ _ E). unfold mrun. rewrite fold_left_app. cbn [fold_left].
      fold (mrun pv pfv init (firstn (sx_pc s t) (progs t))). fold (solo_a s t).
      assert (SInv (solo_a s t)) as Ss by (apply mrun_spec; apply SInv_fresh, Inv_nil).
      destruct (mstep_spec pv pfv (solo_a s t) o Ss) as (_ & _ & Tr').
      rewrite Tr'. refine (eq_trans Tr _). rewrite Et. f_equal. f_equal. now apply mop_tree_trees.
  - destruct (SI u) as [[Su Vu] Eu]. destruct St' as [S' _]. cbn [view_i si_arena si_cache si_regs] in *.
    assert (forall y, In y (sx_regs s u) -> valid (length (si_arena st)) y /\ unfold (si_arena st) y = unfold (sx_arena s) y) as Hold.
    { intros y Iy. rewrite Forall_forall in Vu. split; [eapply aext_valid; eauto|apply aext_unfold; auto]. }
    split.
    + split; cbn [si_arena si_cache si_regs]; [exact S'|]. apply Forall_forall. intros y Iy. exact (proj1 (Hold y Iy)).
    + refine (eq_trans _ Eu). unfold reg_trees, forget. cbn [st_arena st_regs si_arena si_regs].
      apply map_ext_in. intros y Iy. exact (proj2 (Hold y Iy)).
Qed.

Lemma sys_init_i_inv : SysInv_i sys_init_i.
Proof. intros t. split; [exact SInv_i_init|reflexivity]. Qed.

Lemma sys_run_i_snoc (sched : list nat) (t : nat) : sys_run_i (sched ++ [t]) = sys_step_i (sys_run_i sched) t.
Proof. unfold sys_run_i. now rewrite fold_left_app. Qed.

Lemma sys_run_i_inv : forall sched, SysInv_i (sys_run_i sched).
Proof.
  induction sched as [|t sched IH] using rev_ind; [exact sys_init_i_inv|].
  rewrite sys_run_i_snoc. now apply sys_step_i_inv.
Qed.

(** (B1) every thread observes what a sequential execution of its own program observes, under every schedule,
    with the real recursions and the memo cache shared between the threads *)
Theorem sched_indep_i (sched : list nat) (t : nat) :
  observe (forget (view_i (sys_run_i sched) t)) =
  observe (mrun pv pfv init (firstn (sx_pc (sys_run_i sched) t) (progs t))).
Proof.
  destruct (sys_run_i_inv sched t) as [S E]. apply observe_trees; [now apply SInv_i_forget| |exact E].
  apply mrun_spec. apply SInv_fresh, Inv_nil.
Qed.

(** ... which is also what the real recursions observe when the thread runs alone in a new process *)
Corollary sched_indep_i_real (sched : list nat) (t : nat) :
  observe (forget (view_i (sys_run_i sched) t)) =
  observe (forget (mrun_i pv pfv init_i (firstn (sx_pc (sys_run_i sched) t) (progs t)))).
Proof. rewrite sched_indep_i. symmetry. apply mrun_i_observe. Qed.

(** (B2) markers built on different threads show the same diagram exactly when they are the same id *)
Theorem cross_thread_identity_i (sched : list nat) (t u : nat) (x y : nid) :
  In x (sx_regs (sys_run_i sched) t) -> In y (sx_regs (sys_run_i sched) u) ->
  (unfold (sx_arena (sys_run_i sched)) x = unfold (sx_arena (sys_run_i sched)) y <-> x = y).
Proof.
  intros Ix Iy. destruct (sys_run_i_inv sched t) as [[(I & _) Vt] _]. destruct (sys_run_i_inv sched u) as [[_ Vu] _].
  cbn [view_i si_arena si_cache si_regs fst] in *. rewrite Forall_forall in Vt, Vu. apply unfold_inj; auto.
Qed.

(** (B3) the arena at each instant of a schedule: instant [k] is the state after the first [k] scheduled steps *)
Definition world_of (sched : list nat) : world := fun k => sx_arena (sys_run_i (firstn k sched)).

Lemma firstn_S_cases {A} (l : list A) (k : nat) :
  firstn (S k) l = firstn k l \/ exists x, firstn (S k) l = firstn k l ++ [x].
Proof.
  destruct (nth_error l k) as [x|] eqn:E.
  - right. exists x. now apply firstn_snoc.
  - left. apply nth_error_None in E. rewrite !firstn_all2; auto.
Qed.

Theorem world_of_mono (sched : list nat) : mono (world_of sched).
Proof.
  intros k. unfold world_of. destruct (firstn_S_cases sched k) as [-> | [t ->]].
  - exists []. now rewrite app_nil_r.
  - rewrite sys_run_i_snoc. exact (proj2 (sys_step_i_inv _ t (sys_run_i_inv _))).
Qed.

Theorem world_of_Inv (sched : list nat) : forall k, Inv (world_of sched k).
Proof. intros k. destruct (sys_run_i_inv (firstn k sched) 0) as [[(I & _) _] _]. exact I. Qed.

(** every register of every thread is a valid id of the arena of that instant *)
Lemma regs_valid (sched : list nat) (t : nat) (x : nid) :
  In x (sx_regs (sys_run_i sched) t) -> valid (length (sx_arena (sys_run_i sched))) x.
Proof.
  intros Ix. destruct (sys_run_i_inv sched t) as [[_ V] _]. cbn [view_i si_arena si_regs] in V.
  rewrite Forall_forall in V. now apply V.
Qed.

(** * Part C: lock-free traversals of a thread's markers, concurrent with the other threads' locked operations *)

(** for every schedule, thread [t], instant [k0], and id [x] held in register [j] of thread [t] at instant [k0]:
    a traversal of [x] started at any instant [k >= k0], reading each node at whatever later instants (while the
    other threads keep interning), returns the diagram [x] shows at [k0] - the diagram register [j] holds in the
    sequential abstract run of thread [t]'s program *)
Theorem conc_read_linearizable (sched : list nat) (t k0 k j : nat) (x : nid) (tr : mdd) :
  nth_error (sx_regs (sys_run_i (firstn k0 sched)) t) j = Some x ->
  k0 <= k -> aread (world_of sched) k x tr ->
  tr = unfold (world_of sched k0) x /\
  tr = nth j (reg_trees (solo_a (sys_run_i (firstn k0 sched)) t)) (Leaf true).
Proof.
  intros Ex L A.
  assert (valid (length (world_of sched k0)) x) as V by (apply (regs_valid (firstn k0 sched) t); eapply nth_error_In; eauto).
  pose proof (aread_linearizable (world_of sched) k0 k x tr (world_of_mono sched) (world_of_Inv sched) V L A) as Et.
  split; [exact Et|]. rewrite Et.
  destruct (sys_run_i_inv (firstn k0 sched) t) as [_ <-].
  unfold reg_trees, forget, view_i. cbn [st_arena st_regs si_arena si_regs]. symmetry.
  apply nth_error_nth. now apply map_nth_error.
Qed.

(** and such a traversal always completes, under every timing *)
Theorem conc_read_total (sched : list nat) (t k0 k : nat) (x : nid) :
  In x (sx_regs (sys_run_i (firstn k0 sched)) t) -> k0 <= k ->
  (forall delay path, aread_fn (world_of sched) delay (S (rank x)) path k x = Some (unfold (world_of sched k0) x)) /\
  aread (world_of sched) k x (unfold (world_of sched k0) x).
Proof.
  intros Ix L. apply aread_exists; [apply world_of_mono|apply world_of_Inv| |exact L].
  exact (regs_valid (firstn k0 sched) t x Ix).
Qed.
End SchedI.

Print Assumptions sched_indep_i.
Print Assumptions sched_indep_i_real.
Print Assumptions cross_thread_identity_i.
Print Assumptions world_of_mono.
Print Assumptions world_of_Inv.
Print Assumptions conc_read_linearizable.
Print Assumptions conc_read_total.

(** * Example: two threads; thread 0 finishes [k0 >= 1 and os_name == 'b'] at instant 3, then thread 1 keeps interning *)
Definition conc_ex_progs (t : nat) : list mop :=
  if Nat.eqb t 0
  then [MExpr (EVersion 0%N OGe [1%N]); MExpr (EString 1%N SEq [98%N]); MAnd 0 1]
  else [MExpr (EExtra false false [97%N]); MExpr (EVersion 1%N OGe [3%N; 8%N]); MOr 0 1; MNot 2].
Definition conc_ex_sched : list nat := [0; 0; 0; 1; 1; 1; 1].
Definition conc_ex_world : world := world_of 2%N 1%N conc_ex_progs conc_ex_sched.
Definition conc_ex_x : nid := nth 2 (sx_regs (sys_run_i 2%N 1%N conc_ex_progs (firstn 3 conc_ex_sched)) 0) NTrue.

Example conc_example :
  (* the arena grows from 3 to 6 entries after thread 0 obtained its marker at instant 3; the id is complemented *)
  map (fun k => length (conc_ex_world k)) [0; 1; 2; 3; 4; 5; 6; 7; 8] = [0; 1; 2; 3; 4; 5; 6; 6; 6] /\
  conc_ex_x = NNode 2 true /\
  (* traversals with different timings (root read at instant 4 resp. 5, grandchildren up to instant 11) *)
  aread_fn conc_ex_world (fun p => 1 + length p) 10 [] 3 conc_ex_x = Some (unfold (conc_ex_world 3) conc_ex_x) /\
  aread_fn conc_ex_world (fun p => 3 * length p) 10 [] 5 conc_ex_x = Some (unfold (conc_ex_world 3) conc_ex_x) /\
  (* it is the diagram of register 2 in the sequential abstract run of thread 0 *)
  unfold (conc_ex_world 3) conc_ex_x = nth 2 (reg_trees (mrun 2%N 1%N init (conc_ex_progs 0))) (Leaf true) /\
  unfold (conc_ex_world 3) conc_ex_x =
    RNode (VVersion 0) (Leaf false)
      [(inl (0%N, ([1%N], [5%N; 0%N; 0%N; 0%N])), Below,
        RNode (VString 1) (Leaf false) [(inr [98%N], Below, Leaf true); (inr [98%N], Above, Leaf false)])] /\
  (* validity matters: an id that does not exist yet at the instant of the read makes the reader stuck *)
  aread_fn conc_ex_world (fun _ => 0) 10 [] 3 (NNode 5 false) = None /\
  negb (match aread_fn conc_ex_world (fun _ => 3) 10 [] 3 (NNode 5 false) with Some _ => false | None => true end) = true.
Proof. vm_compute. repeat split; reflexivity. Qed.

(** the theorem of Part C on this instance: every asynchronous traversal of that register, whatever its timing *)
Example conc_example_thm (k : nat) (tr : mdd) : 3 <= k -> aread conc_ex_world k conc_ex_x tr ->
  tr = RNode (VVersion 0) (Leaf false)
         [(inl (0%N, ([1%N], [5%N; 0%N; 0%N; 0%N])), Below,
           RNode (VString 1) (Leaf false) [(inr [98%N], Below, Leaf true); (inr [98%N], Above, Leaf false)])].
Proof.
  intros L A.
  destruct (conc_read_linearizable 2%N 1%N conc_ex_progs conc_ex_sched 0 3 k 2 conc_ex_x tr) as [E _]; [reflexivity|exact L|exact A|].
  rewrite E. vm_compute. reflexivity.
Qed.
