(** L2: a program of marker operations executed with the crate's own recursions on ids (InternI.v: [and_i] with
    its memo cache, [or_i], [restrict_i], [simplify_pv_i], [complexify_pv_i], the complement bit, [intern] of a
    parsed comparison) observes exactly what the abstract run of Intern.v observes ("unfold the operands, apply
    the L1 operation, intern the result"), from any reachable state - arena AND memo cache.  Hence C14 (history
    independence) holds for the real recursions, cache included. *)
From Coq Require Import List Bool Arith NArith Lia.
From PV Require Import Base.ListLemmas Base.Order Base.CutDef Base.CutLemmas DD.DDModel DD.DDBasics DD.DDAnd DD.DDWf DD.DDWfOps DD.DDCanon
  DD.DDRestrict DD.DDPyVer DD.DDPyVerProofs
  Interner.Store Interner.StoreProofs Interner.CreateProofs Interner.Intern Interner.AndModel Interner.OpsModel
  Interner.InternProofs Interner.AndProofs Interner.OpsProofs Interner.InternI
  Marker.Concrete Marker.Expr Marker.ExprProofs Marker.ExtrasProofs.
Import ListNotations.
Local Open Scope nat_scope.

Notation msnode := (snode (var:=var) (val:=val)).
(** every valid id of the arena unfolds to a well-formed diagram *)
Notation WFm := (WFQ wfm).

(** ** [intern] keeps the state invariant of the recursions: every id of the extended arena is well formed *)

(** [create_node] adds at most one entry, the one it returns *)
Lemma create_WFm (a : marena) (n : msnode) :
  WFm a -> wfm (unfold (fst (create_node a n)) (snd (create_node a n))) -> WFm (fst (create_node a n)).
Proof.
  intros W1 Qr. pose proof (create_node_shape a n) as Sh.
  destruct (create_node a n) as [a' r]. cbn [fst snd] in *.
  intros z Vz. destruct Sh as [-> | (n' & fl & Esh)]; [now apply W1|].
  injection Esh as -> ->.
  assert (valid (length a) z \/ exists cz, z = NNode (length a) cz) as [Vold | [cz ->]].
  { destruct z as [| |m cz]; [left; exact Logic.I|left; exact Logic.I|].
    cbn [valid] in Vz. rewrite app_length in Vz. cbn [length] in Vz.
    destruct (Nat.eq_dec m (length a)) as [-> | Ne]; [right; eauto|left; cbn [valid]; lia]. }
  - rewrite (unfold_stable a [n'] z Vold). now apply W1.
  - destruct (Bool.eqb cz fl) eqn:Eb.
    + apply eqb_prop in Eb. subst cz. exact Qr.
    + replace (NNode (length a) cz) with (nnot (NNode (length a) fl)) by (destruct cz, fl; try reflexivity; discriminate).
      rewrite unfold_nnot. now apply tneg_wf.
Qed.

(** the loop of [intern] over the edges of a range node *)
Fixpoint intern_go (a : marena) (l : list (cut val * mdd)) : marena * list (cut val * nid) :=
  match l with
  | [] => (a, [])
  | (c, d) :: l' => let (a', x) := intern a d in let (a'', xs) := intern_go a' l' in (a'', (c, x) :: xs)
  end.

Lemma intern_rnode (a : marena) k (d0 : mdd) (ds : list (cut val * mdd)) :
  intern a (RNode k d0 ds) =
  let (a0, x0) := intern a d0 in let (a1, xs) := intern_go a0 ds in create_node a1 (SR k x0 xs).
Proof. reflexivity. Qed.

Lemma intern_go_WFm : forall (l : list (cut val * mdd)) (b : marena), Inv b -> WFm b -> Forall wfm (map snd l) ->
  Forall (fun d : mdd => forall a : marena, Inv a -> WFm a -> wfm d -> WFm (fst (intern a d))) (map snd l) ->
  WFm (fst (intern_go b l)).
Proof.
  induction l as [|[c d] l IH]; intros b Ib Wb Fl Fh.
  - exact Wb.
  - cbn [map snd] in Fl, Fh. inversion Fl as [|? ? Wd Fl']; subst. inversion Fh as [|? ? Hd Fh']; subst.
    cbn [intern_go].
    destruct (intern_spec d b Ib (wf_nfr _ Wd)) as (Id & _). pose proof (Hd b Ib Wb Wd) as Wd'.
    destruct (intern b d) as [b' x]. cbn [fst snd] in *.
    specialize (IH b' Id Wd' Fl' Fh'). destruct (intern_go b' l) as [b'' xs]. exact IH.
Qed.

Lemma intern_WFm : forall (t : mdd) (a : marena), Inv a -> WFm a -> wfm t -> WFm (fst (intern a t)).
Proof.
  induction t as [b|k d0 ds IH0 IHl|k hi lo IHh IHl] using dd_ind2; intros a I W Wt.
  - destruct b; exact W.
  - destruct (intern_spec (RNode k d0 ds) a I (wf_nfr _ Wt)) as (_ & _ & _ & U).
    assert (wfm d0 /\ Forall wfm (map snd ds)) as [W0 Ws].
    { inversion Wt; subst. split; [assumption|].
      match goal with F : Forall _ (map snd ds) |- _ => rewrite Forall_forall in F; apply Forall_forall; intros d Id; now apply F end. }
    destruct (intern_spec d0 a I (wf_nfr _ W0)) as (I0 & _). pose proof (IH0 a I W W0) as WQ0.
    rewrite intern_rnode in U |- *. destruct (intern a d0) as [a0 x0]. cbn [fst snd] in I0, WQ0.
    pose proof (intern_go_WFm ds a0 I0 WQ0 Ws IHl) as W1.
    destruct (intern_go a0 ds) as [a1 xs]. cbn [fst] in W1.
    apply (create_WFm a1 (SR k x0 xs) W1). exact (eq_ind_r (fun t : mdd => wfm t) Wt U).
  - destruct (intern_spec (BNode k hi lo) a I (wf_nfr _ Wt)) as (_ & _ & _ & U).
    assert (wfm hi /\ wfm lo) as [Wh Wl] by (inversion Wt; subst; split; assumption).
    destruct (intern_spec hi a I (wf_nfr _ Wh)) as (I0 & _). pose proof (IHh a I W Wh) as WQ0.
    cbn [intern] in U |- *. destruct (intern a hi) as [a0 xh]. cbn [fst snd] in I0, WQ0.
    pose proof (IHl a0 I0 WQ0 Wl) as W1.
    destruct (intern a0 lo) as [a1 xl]. cbn [fst] in W1.
    apply (create_WFm a1 (SB k xh xl) W1). exact (eq_ind_r (fun t : mdd => wfm t) Wt U).
Qed.

(** interning a well-formed diagram: the memo cache stays correct (the arena only grows), every id stays well formed *)
Lemma intern_SOKwf (a : marena) (c : mcache) (t : mdd) : SOKwf is_range (a, c) -> wfm t ->
  let r := intern a t in
  SOKwf is_range (fst r, c) /\ aext a (fst r) /\ valid (length (fst r)) (snd r) /\ unfold (fst r) (snd r) = t.
Proof.
  intros (I & C & W) Wt. cbn [fst snd] in *. cbv zeta.
  destruct (intern_spec t a I (wf_nfr _ Wt)) as (I' & E' & V' & U').
  pose proof (intern_WFm t a I W Wt) as W'.
  split; [|split; [exact E'|split; [exact V'|exact U']]].
  split; cbn [fst snd]; [exact I'|]. split; [|exact W'].
  exact (cache_ok_ext a (fst (intern a t)) c E' C).
Qed.

(** ** the invariant of a state of the real run *)
Definition SInv_i (s : istate_i) : Prop :=
  SOKwf is_range (si_arena s, si_cache s) /\ Forall (valid (length (si_arena s))) (si_regs s).

Lemma SInv_i_forget s : SInv_i s -> SInv (forget s).
Proof.
  intros [(I & C & W) V]. cbn [fst snd] in *. split; [exact I|]. cbn [forget st_arena st_regs]. split; [exact V|].
  rewrite Forall_forall in *. intros x Ix. apply W. now apply V.
Qed.

Lemma valid_rank n (x : nid) : valid n x -> rank x <= n.
Proof. destruct x; cbn [valid rank]; lia. Qed.

Lemma regi_valid s i : Forall (valid (length (si_arena s))) (si_regs s) -> valid (length (si_arena s)) (regi s i).
Proof.
  intros V. unfold regi. destruct (nth_in_or_default i (si_regs s) NTrue) as [In | ->]; [|exact Logic.I].
  rewrite Forall_forall in V. now apply V.
Qed.

(** the two notions of "register [i]" agree, out-of-range registers included *)
Lemma reg_forget s i : reg (forget s) i = unfold (si_arena s) (regi s i).
Proof. reflexivity. Qed.

(** ** one operation *)
Section Run.
Variables pv pfv : N.

(** the state / id pair that [mstep_i] computes *)
Definition step_res (s : istate_i) (o : mop) : mist * nid :=
  let st : mist := (si_arena s, si_cache s) in
  match o with
  | MExpr e => let (a', x) := intern (si_arena s) (expression pv pfv e) in ((a', si_cache s), x)
  | MAnd i j => and_i (big s) st (regi s i) (regi s j)
  | MOr i j => or_i (big s) st (regi s i) (regi s j)
  | MNot i => (st, nnot (regi s i))
  | MSimplifyExtras ex i => restrict_i (big s) (extras_present ex) st (regi s i)
  | MSimplifyPv w i => simplify_pv_i (big s) (VVersion pfv) w st (regi s i)
  | MComplexifyPv w i => complexify_pv_i (big s) (VVersion pfv) w st (regi s i)
  end.

Lemma mstep_i_res (s : istate_i) (o : mop) :
  mstep_i pv pfv s o =
  {| si_arena := fst (fst (step_res s o)); si_cache := snd (fst (step_res s o)); si_regs := si_regs s ++ [snd (step_res s o)] |}.
Proof.
  change (mstep_i pv pfv s o) with
    (let '(st', x) := step_res s o in {| si_arena := fst st'; si_cache := snd st'; si_regs := si_regs s ++ [x] |}).
  destruct (step_res s o) as [[a c] x]. reflexivity.
Qed.

(** every operation returns a good state (arena, cache, every id well formed) extending the arena, and a valid id
    of the L1 meaning of the operation *)
Lemma step_res_post (s : istate_i) (o : mop) : SInv_i s ->
  let r := step_res s o in
  SOKwf is_range (fst r) /\ aext (si_arena s) (fst (fst r)) /\ valid (length (fst (fst r))) (snd r) /\
  unfold (fst (fst r)) (snd r) = mop_tree pv pfv (forget s) o.
Proof.
  intros [S V]. cbv zeta.
  assert (forall i, valid (length (fst (si_arena s, si_cache s))) (regi s i)) as Vr by (intros i; now apply regi_valid).
  assert (forall i, rank (regi s i) < big s) as R1.
  { intros i. pose proof (valid_rank _ _ (Vr i)) as L. cbn [fst] in L. unfold big. lia. }
  assert (forall i j, enough_fuel (regi s i) (regi s j) (big s)) as R2.
  { intros i j. pose proof (valid_rank _ _ (Vr i)) as Li. pose proof (valid_rank _ _ (Vr j)) as Lj. cbn [fst] in Li, Lj.
    unfold enough_fuel, big. lia. }
  destruct o as [e|i j|i j|i|ex i|w i|w i]; unfold step_res; cbv zeta; cbn [mop_tree]; rewrite ?reg_forget.
  - pose proof (intern_SOKwf (si_arena s) (si_cache s) (expression pv pfv e) S (expression_wf pv pfv e)) as P. cbv zeta in P.
    destruct (intern (si_arena s) (expression pv pfv e)) as [a' x]. exact P.
  - pose proof (and_i_spec is_range (big s) (si_arena s, si_cache s) (regi s i) (regi s j) S (Vr i) (Vr j) (R2 i j)) as P.
    destruct (and_i (big s) (si_arena s, si_cache s) (regi s i) (regi s j)) as [s' r]. exact P.
  - pose proof (or_i_spec is_range (big s) (si_arena s, si_cache s) (regi s i) (regi s j) S (Vr i) (Vr j) (R2 i j)) as P.
    destruct (or_i (big s) (si_arena s, si_cache s) (regi s i) (regi s j)) as [s' r]. exact P.
  - cbn [fst snd]. split; [exact S|]. split; [apply aext_refl|]. split; [apply valid_nnot; exact (Vr i)|].
    apply unfold_nnot.
  - pose proof (restrict_i_spec is_range (big s) (extras_present ex) (si_arena s, si_cache s) (regi s i) S (Vr i) (R1 i)) as P.
    destruct (restrict_i (big s) (extras_present ex) (si_arena s, si_cache s) (regi s i)) as [s' r]. exact P.
  - pose proof (simplify_pv_i_spec is_range (big s) (VVersion pfv) w (si_arena s, si_cache s) (regi s i) S (Vr i) (R1 i)) as P.
    destruct (simplify_pv_i (big s) (VVersion pfv) w (si_arena s, si_cache s) (regi s i)) as [s' r]. exact P.
  - pose proof (complexify_pv_i_spec is_range (big s) (VVersion pfv) w (si_arena s, si_cache s) (regi s i) eq_refl S (Vr i) (R1 i)) as P.
    destruct (complexify_pv_i (big s) (VVersion pfv) w (si_arena s, si_cache s) (regi s i)) as [s' r]. exact P.
Qed.

(** one step: same L1 tree, invariant kept, arena only grows *)
Theorem mstep_i_spec (s : istate_i) (o : mop) : SInv_i s ->
  let s' := mstep_i pv pfv s o in
  SInv_i s' /\ aext (si_arena s) (si_arena s') /\
  reg_trees (forget s') = reg_trees (forget s) ++ [mop_tree pv pfv (forget s) o].
Proof.
  intros Si. pose proof (step_res_post s o Si) as P. cbv zeta in P |- *. rewrite mstep_i_res.
  destruct (step_res s o) as [[a' c'] x]. cbn [fst snd si_arena si_cache si_regs] in *.
  destruct P as (S' & E' & V' & U'). destruct Si as [S V].
  assert (forall y, In y (si_regs s) -> valid (length a') y /\ unfold a' y = unfold (si_arena s) y) as Hold.
  { intros y Iy. rewrite Forall_forall in V. split; [eapply aext_valid; eauto|apply aext_unfold; auto]. }
  split; [|split].
  - split; cbn [si_arena si_cache si_regs]; [exact S'|].
    apply Forall_app. split; [|constructor; auto]. apply Forall_forall. intros y Iy. now apply Hold.
  - exact E'.
  - unfold reg_trees, forget. cbn [st_arena st_regs si_arena si_regs]. rewrite map_app. cbn [map]. rewrite U'. f_equal.
    apply map_ext_in. intros y Iy. now apply Hold.
Qed.

Lemma mrun_i_spec : forall (w : list mop) (s : istate_i), SInv_i s ->
  SInv_i (mrun_i pv pfv s w) /\ aext (si_arena s) (si_arena (mrun_i pv pfv s w)).
Proof.
  induction w as [|o w IH]; intros s S; cbn [mrun_i fold_left].
  - split; [exact S|apply aext_refl].
  - destruct (mstep_i_spec s o S) as (S' & E' & _). destruct (IH _ S') as (S'' & E'').
    split; [exact S''|eapply aext_trans; eauto].
Qed.

(** ** simulation: the real run against the abstract run from whatever abstract state shows the same register diagrams *)
Theorem mrun_i_sim (w : list mop) : forall (si : istate_i) (sa : istate),
  SInv_i si -> SInv sa -> reg_trees (forget si) = reg_trees sa ->
  observe (forget (mrun_i pv pfv si w)) = observe (mrun pv pfv sa w).
Proof.
  induction w as [|o w IH]; intros si sa Si Sa E; cbn [mrun_i mrun fold_left].
  - apply observe_trees; [now apply SInv_i_forget|exact Sa|exact E].
  - destruct (mstep_i_spec si o Si) as (Si' & _ & Ti). destruct (mstep_spec pv pfv sa o Sa) as (Sa' & _ & Ta).
    apply IH; [exact Si'|exact Sa'|].
    rewrite Ti, Ta, E. f_equal. f_equal. now apply mop_tree_trees.
Qed.

Lemma SInv_i_init : SInv_i init_i.
Proof.
  split; [|constructor]. cbn [init_i si_arena si_cache]. split; [exact Inv_nil|]. split; [apply cache_ok_nil|].
  intros x Vx. cbn [fst length] in Vx. destruct x as [| |i c]; [constructor|constructor|cbn [valid] in Vx; lia].
Qed.

Lemma SInv_i_fresh (s : istate_i) : SInv_i s -> SInv_i (fresh_i s).
Proof. intros [S _]. split; [exact S|constructor]. Qed.

(** the real run of a program in a new process observes what the abstract run observes *)
Corollary mrun_i_observe (w : list mop) : observe (forget (mrun_i pv pfv init_i w)) = observe (mrun pv pfv init w).
Proof. apply mrun_i_sim; [exact SInv_i_init|apply SInv_fresh, Inv_nil|reflexivity]. Qed.

(** C14 for the real recursions, memo cache included: a program started in the arena AND the cache left behind by
    any earlier program [h] observes what it observes in a fresh process *)
Corollary hist_indep_i (h w : list mop) :
  observe (forget (mrun_i pv pfv (fresh_i (mrun_i pv pfv init_i h)) w)) = observe (mrun pv pfv init w).
Proof.
  apply mrun_i_sim; [|apply SInv_fresh, Inv_nil|reflexivity].
  apply SInv_i_fresh. apply mrun_i_spec. exact SInv_i_init.
Qed.

(** ... hence two histories cannot be told apart by a later program, and the real run after a history agrees with
    the abstract run after any other history *)
Corollary hist_indep_i_histories (h1 h2 w : list mop) :
  observe (forget (mrun_i pv pfv (fresh_i (mrun_i pv pfv init_i h1)) w)) =
  observe (forget (mrun_i pv pfv (fresh_i (mrun_i pv pfv init_i h2)) w)).
Proof. now rewrite !hist_indep_i. Qed.

Corollary hist_indep_i_abstract (h1 h2 w : list mop) :
  observe (forget (mrun_i pv pfv (fresh_i (mrun_i pv pfv init_i h1)) w)) =
  observe (mrun pv pfv (fresh (st_arena (mrun pv pfv init h2))) w).
Proof. rewrite hist_indep_i. apply (hist_indep_histories pv pfv [] h2 w). Qed.
End Run.

Print Assumptions SInv_i_forget.
Print Assumptions mstep_i_spec.
Print Assumptions mrun_i_sim.
Print Assumptions mrun_i_observe.
Print Assumptions hist_indep_i.
Print Assumptions hist_indep_i_histories.
Print Assumptions hist_indep_i_abstract.

(** ** non-vacuity: a 15-step program using every kind of operation *)
Fixpoint list_eqb {A : Type} (f : A -> A -> bool) (l1 l2 : list A) : bool :=
  match l1, l2 with
  | [], [] => true
  | x :: l1', y :: l2' => f x y && list_eqb f l1' l2'
  | _, _ => false
  end.

Lemma list_eqb_sound {A : Type} (f : A -> A -> bool) : (forall x y, f x y = true -> x = y) ->
  forall l1 l2, list_eqb f l1 l2 = true -> l1 = l2.
Proof.
  intros Hf. induction l1 as [|x l1 IH]; intros [|y l2] E; cbn [list_eqb] in E; try discriminate; [reflexivity|].
  apply andb_true_iff in E as [E1 E2]. f_equal; [now apply Hf|now apply IH].
Qed.

Definition observe_eqb (o1 o2 : list mdd * list (list bool)) : bool :=
  list_eqb dd_eqb (fst o1) (fst o2) && list_eqb (list_eqb Bool.eqb) (snd o1) (snd o2).

Lemma observe_eqb_sound o1 o2 : observe_eqb o1 o2 = true -> o1 = o2.
Proof.
  destruct o1 as [t1 m1], o2 as [t2 m2]. unfold observe_eqb. cbn [fst snd]. intros E. apply andb_true_iff in E as [E1 E2].
  f_equal.
  - apply (list_eqb_sound dd_eqb); [|exact E1]. intros x y. apply dd_eqb_spec.
  - apply (list_eqb_sound (list_eqb Bool.eqb)); [|exact E2]. apply list_eqb_sound. intros x y. apply eqb_prop.
Qed.

(** python_version is key 2, python_full_version key 1; the window is ['3.9', '3.11').
    r8 = [(k0 >= '1' and (os_name == 'b' or extra == 'a')) or (k0 < '1' and python_full_version >= '3.8')] *)
Definition example_window : window (val:=val) :=
  (Some (inl (0%N, ([3%N; 9%N], FINAL)), Below), Some (inl (0%N, ([3%N; 11%N], FINAL)), Below)).

Definition example_program : list mop :=
  [ MExpr (EVersion 0%N OGe [1%N]);                  (* r0 *)
    MExpr (EString 1%N SEq [98%N]);                  (* r1 *)
    MExpr (EExtra false false [97%N]);               (* r2 *)
    MOr 1 2;                                         (* r3 *)
    MAnd 0 3;                                        (* r4 *)
    MExpr (EVersion 0%N OLt [1%N]);                  (* r5 *)
    MExpr (EVersion 1%N OGe [3%N; 8%N]);             (* r6 *)
    MAnd 5 6;                                        (* r7 *)
    MOr 4 7;                                         (* r8 *)
    MSimplifyExtras [[97%N]] 8;                      (* r9 *)
    MSimplifyPv example_window 8;                    (* r10 *)
    MComplexifyPv example_window 8;                  (* r11 *)
    MNot 8;                                          (* r12 *)
    MComplexifyPv example_window 12;                 (* r13 *)
    MAnd 9 40 ].                                     (* r14: register 40 does not exist: TRUE on both sides *)

Example mrun_i_example :
  let si := mrun_i 2%N 1%N init_i example_program in
  let sa := mrun 2%N 1%N init example_program in
  length example_program = 15 /\
  observe_eqb (observe (forget si)) (observe sa) = true /\
  length (si_regs si) = 15 /\
  negb (Nat.eqb (length (si_cache si)) 0) = true /\
  length (si_cache si) = 6 /\ length (si_arena si) = 15 /\
  (* run again in the arena and cache left behind: the memo cache answers, nothing is added, same observation *)
  let si2 := mrun_i 2%N 1%N (fresh_i si) example_program in
  observe_eqb (observe (forget si2)) (observe sa) = true /\
  length (si_arena si2) = length (si_arena si) /\ length (si_cache si2) = length (si_cache si).
Proof. vm_compute. repeat split; reflexivity. Qed.
