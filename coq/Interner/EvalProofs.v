(** L2: the evaluators on node ids (EvalModel.v: what src/marker/tree.rs runs, one [kind()] call per step,
    complement bit pushed down lazily) compute exactly the L1 evaluators on the diagram the id denotes:

    - [eval_i_refines]          [evaluate_reporter_impl]             = [eval] of the unfolded diagram;
    - [eval_i_stable]           ... and is insensitive to whatever is interned later;
    - [eval_any_i_refines] / [m_eval_extras_i_refines]
                                [evaluate_extras]                    = [eval_any] / [m_eval_extras];
    - [m_eval_extras_pv_i_refines]
                                [evaluate_extras_and_python_version] = [m_eval_extras_pv].

    The "first edge whose range contains the value" loop of the crate and the "walk the cuts" loop of
    DDModel.eval choose the same child for ANY list of cuts, sorted or not ([first_edge_lookup]); in particular
    the trailing [false] of [evaluate_reporter_impl] is never reached. *)
From Coq Require Import List Bool Arith NArith Lia.
From PV Require Import Base.ListLemmas Base.Order Base.CutDef Base.CutLemmas DD.DDModel DD.DDBasics DD.DDRestrict
  Interner.Store Interner.StoreProofs Interner.AndProofs Interner.Intern Interner.InternI Interner.InternIProofs
  Interner.EvalModel Marker.Concrete Marker.Expr.
Import ListNotations.
Local Open Scope nat_scope.

Section EvalProofs.
Context {var val : Type} `{TotalOrder var} `{TotalOrder val}.
Notation cutV := (cut val).
Notation dd := (dd var val).
Notation snode := (snode (var:=var) (val:=val)).
Notation arena := (list snode).
Notation kview := (kview (var:=var) (val:=val)).
Notation edge := (edge (val:=val)).

(** ** what [kind()] shows: it exists for valid ids, its children are older valid ids, and it is one layer of [unfold] *)
Definition kview_children (kv : kview) : list nid :=
  match kv with
  | KTrue | KFalse => []
  | KRange _ d0 ds => d0 :: map snd ds
  | KBool _ hi lo => [hi; lo]
  end.

Definition kview_tree (a : arena) (kv : kview) : dd :=
  match kv with
  | KTrue => Leaf true
  | KFalse => Leaf false
  | KRange k d0 ds => RNode k (unfold a d0) (map_snd (unfold a) ds)
  | KBool k hi lo => BNode k (unfold a hi) (unfold a lo)
  end.

Lemma kind_i_some (a : arena) (x : nid) : valid (length a) x -> exists kv, kind_i a x = Some kv.
Proof.
  destruct x as [| |i c]; cbn [kind_i valid]; intros V; [eexists; reflexivity|eexists; reflexivity|].
  destruct (nth_error a i) as [n|] eqn:E; [|apply nth_error_None in E; lia].
  destruct n; eexists; reflexivity.
Qed.

Lemma kind_i_none (a : arena) (x : nid) : kind_i a x = None <-> ~ valid (length a) x.
Proof.
  split.
  - intros K V. destruct (kind_i_some a x V) as [kv E]. congruence.
  - intros NV. destruct x as [| |i c]; cbn [valid] in NV; [tauto|tauto|]. cbn [kind_i].
    destruct (nth_error a i) as [n|] eqn:E; [|reflexivity].
    exfalso. apply NV. apply nth_error_Some. congruence.
Qed.

Lemma kind_i_children (a : arena) (x : nid) (kv : kview) : Inv a -> kind_i a x = Some kv ->
  Forall (fun y => rank y < rank x /\ valid (length a) y) (kview_children kv).
Proof.
  intros I K. destruct x as [| |i c]; cbn [kind_i] in K; [injection K as <-; constructor|injection K as <-; constructor|].
  destruct (nth_error a i) as [n|] eqn:E; [|discriminate].
  pose proof (entry_children a I i n E) as F.
  assert (forall y, In y (children n) ->
            rank (nnegate y (NNode i c)) < rank (NNode i c) /\ valid (length a) (nnegate y (NNode i c))) as G.
  { rewrite Forall_forall in F. intros y Iy. destruct (F y Iy) as [R V].
    rewrite rank_nnegate. split; [cbn [rank]; lia|now apply valid_nnegate]. }
  destruct n as [k d0 ds|k h l]; injection K as <-; cbn [kview_children children] in *.
  - constructor; [apply G; now left|].
    rewrite map_snd_children. apply Forall_forall. intros y Iy. apply in_map_iff in Iy as (z & <- & Iz).
    apply G. now right.
  - constructor; [apply G; now left|]. constructor; [apply G; right; now left|constructor].
Qed.

Lemma kind_i_unfold (a : arena) (x : nid) (kv : kview) : Inv a -> kind_i a x = Some kv -> unfold a x = kview_tree a kv.
Proof.
  intros I K. destruct x as [| |i c]; cbn [kind_i] in K; [injection K as <-; reflexivity|injection K as <-; reflexivity|].
  destruct (nth_error a i) as [n|] eqn:E; [|discriminate].
  destruct n as [k d0 ds|k h l]; injection K as <-; cbn [kview_tree].
  - rewrite (unfold_SR a i c k d0 ds I E). now rewrite map_snd_map_snd.
  - apply (unfold_SB a i c k h l I E).
Qed.

Lemma kind_i_app (a b : arena) (x : nid) : valid (length a) x -> kind_i (a ++ b) x = kind_i a x.
Proof. destruct x as [| |i c]; cbn [kind_i valid]; intros V; try reflexivity. now rewrite nth_error_app1. Qed.

(** ** the two loops over the edges of a range node choose the same child *)
Lemma first_edge_lookup (v : val) : forall (ds : list (cutV * nid)) (lo : option cutV) (d : nid),
  match lo with None => True | Some c => left_of v c = false end ->
  first_edge v (edges_from lo d ds) = Some (lookup_from v d ds).
Proof.
  induction ds as [|[c d'] ds IH]; intros lo d Hlo; cbn [edges_from first_edge lookup_from]; unfold in_range.
  - destruct lo as [c0|]; [rewrite Hlo|]; reflexivity.
  - destruct (left_of v c) eqn:E.
    + destruct lo as [c0|]; [rewrite Hlo|]; reflexivity.
    + rewrite andb_false_r. apply IH. exact E.
Qed.

Corollary first_edge_of (v : val) (d0 : nid) (ds : list (cutV * nid)) :
  first_edge v (edges_of d0 ds) = Some (lookup_from v d0 ds).
Proof. apply first_edge_lookup. exact Logic.I. Qed.

(** ... so the trailing [false] of [evaluate_reporter_impl] is dead code, for any edge list of this shape *)
Corollary first_edge_total (v : val) (d0 : nid) (ds : list (cutV * nid)) : first_edge v (edges_of d0 ds) <> None.
Proof. rewrite first_edge_of. discriminate. Qed.

Lemma lookup_child (v : val) (d0 : nid) (ds : list (cutV * nid)) : In (lookup_from v d0 ds) (d0 :: map snd ds).
Proof. destruct (lookup_in v ds d0) as [E|I]; [left; now rewrite E|now right]. Qed.

(** ** (T1) [evaluate_reporter_impl] on an id = [eval] of the diagram the id denotes *)
Theorem eval_i_refines (a : arena) (r : valuation var val) : Inv a -> forall (fuel : nat) (x : nid),
  valid (length a) x -> rank x < fuel -> eval_i fuel a r x = Some (eval r (unfold a x)).
Proof.
  intros I. induction fuel as [|f IH]; intros x V R; [lia|].
  destruct (kind_i_some a x V) as [kv K]. cbn [eval_i]. rewrite K, (kind_i_unfold a x kv I K).
  pose proof (kind_i_children a x kv I K) as F. rewrite Forall_forall in F.
  destruct kv as [| |k d0 ds|k hi lo]; cbn [kview_tree kview_children] in *; [reflexivity|reflexivity| |].
  - rewrite first_edge_of, eval_rnode, (lookup_map_snd (unfold a)).
    destruct (F _ (lookup_child (rv r k) d0 ds)) as [Ry Vy].
    apply IH; [exact Vy|lia].
  - cbn [eval]. destruct (bv r k).
    + destruct (F hi (or_introl eq_refl)) as [Ry Vy]. apply IH; [exact Vy|lia].
    + destruct (F lo (or_intror (or_introl eq_refl))) as [Ry Vy]. apply IH; [exact Vy|lia].
Qed.

(** the default fuel suffices *)
Lemma rank_le_length (n : nat) (x : nid) : valid n x -> rank x < S n.
Proof. destruct x; cbn; lia. Qed.

(** ** (T2) evaluation does not see later interning (no hypothesis on the extension, none on the fuel) *)
Theorem eval_i_app (a b : arena) (r : valuation var val) : Inv a -> forall (fuel : nat) (x : nid),
  valid (length a) x -> eval_i fuel (a ++ b) r x = eval_i fuel a r x.
Proof.
  intros I. induction fuel as [|f IH]; intros x V; [reflexivity|].
  cbn [eval_i]. rewrite (kind_i_app a b x V). destruct (kind_i a x) as [kv|] eqn:K; [|reflexivity].
  pose proof (kind_i_children a x kv I K) as F. rewrite Forall_forall in F.
  destruct kv as [| |k d0 ds|k hi lo]; cbn [kview_children] in *; [reflexivity|reflexivity| |].
  - rewrite first_edge_of. apply IH. apply (F _ (lookup_child (rv r k) d0 ds)).
  - apply IH. destruct (bv r k); apply F; [now left|right; now left].
Qed.

Corollary eval_i_stable (a b : arena) (r : valuation var val) (fuel : nat) (x : nid) :
  Inv a -> valid (length a) x -> rank x < fuel ->
  eval_i fuel (a ++ b) r x = eval_i fuel a r x /\ eval_i fuel (a ++ b) r x = Some (eval r (unfold (a ++ b) x)).
Proof.
  intros I V R. rewrite (eval_i_app a b r I fuel x V). split; [reflexivity|].
  rewrite (unfold_stable a b x V). now apply eval_i_refines.
Qed.

(** ** [Iterator::any] *)
Lemma any_i_spec {A : Type} (g : A -> option bool) (h : A -> bool) : forall l : list A,
  (forall y, In y l -> g y = Some (h y)) -> any_i g l = Some (existsb h l).
Proof.
  induction l as [|y l IH]; intros G; [reflexivity|].
  cbn [any_i existsb]. rewrite (G y (or_introl eq_refl)). destruct (h y); [reflexivity|].
  apply IH. intros z Iz. apply G. now right.
Qed.

Lemma any_i_ext {A : Type} (g g' : A -> option bool) : forall l : list A,
  (forall y, In y l -> g y = g' y) -> any_i g l = any_i g' l.
Proof.
  induction l as [|y l IH]; intros G; [reflexivity|].
  cbn [any_i]. rewrite (G y (or_introl eq_refl)). destruct (g' y) as [[|]|]; try reflexivity.
  apply IH. intros z Iz. apply G. now right.
Qed.

Lemma edges_children : forall (ds : list (cutV * nid)) (lo : option cutV) (d : nid),
  map snd (edges_from lo d ds) = d :: map snd ds.
Proof. induction ds as [|[c d'] ds IH]; intros lo d; cbn [edges_from map snd]; [reflexivity|]. now rewrite IH. Qed.

Lemma existsb_map' {A B : Type} (p : B -> bool) (u : A -> B) (l : list A) : existsb p (map u l) = existsb (fun y => p (u y)) l.
Proof. induction l as [|y l IH]; cbn [map existsb]; [reflexivity|]. now rewrite IH. Qed.

Lemma existsb_edges (h : nid -> bool) : forall (ds : list (cutV * nid)) (lo : option cutV) (d : nid),
  existsb (fun e : edge => h (snd e)) (edges_from lo d ds) = h d || existsb h (map snd ds).
Proof.
  induction ds as [|[c d'] ds IH]; intros lo d; cbn [edges_from existsb map snd]; [reflexivity|]. now rewrite IH.
Qed.

(** ** (T3) [evaluate_extras] on an id = [eval_any] of the diagram the id denotes *)
Theorem eval_any_i_refines (a : arena) (f : var -> option bool) : Inv a -> forall (fuel : nat) (x : nid),
  valid (length a) x -> rank x < fuel -> eval_any_i fuel a f x = Some (eval_any f (unfold a x)).
Proof.
  intros I. induction fuel as [|n IH]; intros x V R; [lia|].
  destruct (kind_i_some a x V) as [kv K]. cbn [eval_any_i]. rewrite K, (kind_i_unfold a x kv I K).
  pose proof (kind_i_children a x kv I K) as F. rewrite Forall_forall in F.
  assert (forall y, In y (kview_children kv) -> eval_any_i n a f y = Some (eval_any f (unfold a y))) as G.
  { intros y Iy. destruct (F y Iy) as [Ry Vy]. apply IH; [exact Vy|lia]. }
  rewrite eval_any_eq.
  destruct kv as [| |k d0 ds|k hi lo]; cbn [kview_tree kview_children] in *; [reflexivity|reflexivity| |].
  - rewrite (any_i_spec _ (fun e : edge => eval_any f (unfold a (snd e)))).
    + unfold edges_of. rewrite (existsb_edges (fun y => eval_any f (unfold a y))).
      rewrite map_snd_children, (existsb_map' (eval_any f) (unfold a)). reflexivity.
    + intros e Ie. apply G. unfold edges_of in Ie. rewrite <- (edges_children ds None d0). now apply in_map.
  - destruct (f k) as [[|]|].
    + apply G. now left.
    + apply G. right. now left.
    + rewrite (any_i_spec _ (fun y => eval_any f (unfold a y))); [cbn [existsb]; now rewrite orb_false_r|exact G].
Qed.

Theorem eval_any_i_app (a b : arena) (f : var -> option bool) : Inv a -> forall (fuel : nat) (x : nid),
  valid (length a) x -> eval_any_i fuel (a ++ b) f x = eval_any_i fuel a f x.
Proof.
  intros I. induction fuel as [|n IH]; intros x V; [reflexivity|].
  cbn [eval_any_i]. rewrite (kind_i_app a b x V). destruct (kind_i a x) as [kv|] eqn:K; [|reflexivity].
  pose proof (kind_i_children a x kv I K) as F. rewrite Forall_forall in F.
  destruct kv as [| |k d0 ds|k hi lo]; cbn [kview_children] in *; [reflexivity|reflexivity| |].
  - apply any_i_ext. intros e Ie. apply IH. apply F. unfold edges_of in Ie.
    rewrite <- (edges_children ds None d0). now apply in_map.
  - destruct (f k) as [bb|].
    + apply IH. destruct bb; apply F; [now left|right; now left].
    + apply any_i_ext. intros y Iy. apply IH. now apply F.
Qed.

(** ** [evaluate_extras_and_python_version]: the loop over the edges with the ranges at hand *)
Fixpoint pv_go {A : Type} (al : option cutV -> option cutV -> bool) (E : A -> bool)
    (lo : option cutV) (cur : bool) (l : list (cutV * A)) : bool :=
  match l with
  | [] => al lo None && cur
  | (c, d) :: l' => (al lo (Some c) && cur) || pv_go al E (Some c) (E d) l'
  end.

Lemma pv_go_map_snd {A B : Type} (al : option cutV -> option cutV -> bool) (E : B -> bool) (u : A -> B) :
  forall (l : list (cutV * A)) lo cur, pv_go al E lo cur (map_snd u l) = pv_go al (fun y => E (u y)) lo cur l.
Proof.
  unfold map_snd. induction l as [|[c d] l IH]; intros lo cur; cbn [map pv_go fst snd]; [reflexivity|]. now rewrite IH.
Qed.

Lemma any_edges_allowed (al : option cutV -> option cutV -> bool) (g : nid -> option bool) (h : nid -> bool) :
  forall (ds : list (cutV * nid)) (lo : option cutV) (d : nid),
  (forall y, In y (d :: map snd ds) -> g y = Some (h y)) ->
  any_i (fun e : edge => if al (fst (fst e)) (snd (fst e)) then g (snd e) else Some false) (edges_from lo d ds)
  = Some (pv_go al h lo (h d) ds).
Proof.
  induction ds as [|[c d'] ds IH]; intros lo d G; cbn [edges_from any_i pv_go fst snd].
  - rewrite (G d (or_introl eq_refl)). destruct (al lo None), (h d); reflexivity.
  - rewrite (G d (or_introl eq_refl)).
    assert (any_i (fun e : edge => if al (fst (fst e)) (snd (fst e)) then g (snd e) else Some false)
              (edges_from (Some c) d' ds) = Some (pv_go al h (Some c) (h d') ds)) as E.
    { apply IH. intros y Iy. apply G. now right. }
    destruct (al lo (Some c)), (h d); cbn [andb orb]; try reflexivity; exact E.
Qed.
End EvalProofs.

Print Assumptions eval_i_refines.
Print Assumptions eval_i_app.
Print Assumptions eval_i_stable.
Print Assumptions eval_any_i_refines.
Print Assumptions eval_any_i_app.

(** ** the concrete instances *)
Theorem m_eval_i_refines (a : marena) (e : env) (extras : list str) (fuel : nat) (x : nid) :
  Inv a -> valid (length a) x -> rank x < fuel ->
  m_eval_i fuel a e extras x = Some (m_eval e extras (unfold a x)).
Proof. intros I V R. now apply eval_i_refines. Qed.

Corollary m_eval_i_default (a : marena) (e : env) (extras : list str) (x : nid) :
  Inv a -> valid (length a) x -> m_eval_i (eval_fuel a) a e extras x = Some (m_eval e extras (unfold a x)).
Proof. intros I V. apply m_eval_i_refines; [exact I|exact V|now apply rank_le_length]. Qed.

Theorem m_eval_i_stable (a b : marena) (e : env) (extras : list str) (fuel : nat) (x : nid) :
  Inv a -> valid (length a) x -> m_eval_i fuel (a ++ b) e extras x = m_eval_i fuel a e extras x.
Proof. intros I V. now apply eval_i_app. Qed.

(** (T3) [evaluate_extras] *)
Theorem m_eval_extras_i_refines (a : marena) (extras : list str) (fuel : nat) (x : nid) :
  Inv a -> valid (length a) x -> rank x < fuel ->
  m_eval_extras_i fuel a extras x = Some (m_eval_extras extras (unfold a x)).
Proof. intros I V R. now apply eval_any_i_refines. Qed.

Theorem m_eval_extras_i_stable (a b : marena) (extras : list str) (fuel : nat) (x : nid) :
  Inv a -> valid (length a) x -> m_eval_extras_i fuel (a ++ b) extras x = m_eval_extras_i fuel a extras x.
Proof. intros I V. now apply eval_any_i_app. Qed.

(** [evaluate_extras_and_python_version] *)
Lemma eval_any_pv_go (pvk : N) (pvs : list version) (f : var -> option bool) (k : var) :
  forall (ds : list (cut val * mdd)) (lo : option (cut val)) (cur : bool),
  (fix go (lo : option (cut val)) (cur : bool) (l : list (cut val * mdd)) : bool :=
     match l with
     | [] => pv_allowed pvk pvs k lo None && cur
     | (c, d) :: l' => (pv_allowed pvk pvs k lo (Some c) && cur) || go (Some c) (eval_any_pv pvk pvs f d) l'
     end) lo cur ds
  = pv_go (pv_allowed pvk pvs k) (eval_any_pv pvk pvs f) lo cur ds.
Proof. induction ds as [|[c d] ds IH]; intros lo cur; cbn [pv_go]; [reflexivity|]. now rewrite IH. Qed.

Lemma eval_any_pv_rnode (pvk : N) (pvs : list version) (f : var -> option bool) k (d0 : mdd) (ds : list (cut val * mdd)) :
  eval_any_pv pvk pvs f (RNode k d0 ds) =
  pv_go (pv_allowed pvk pvs k) (eval_any_pv pvk pvs f) None (eval_any_pv pvk pvs f d0) ds.
Proof. rewrite <- eval_any_pv_go. reflexivity. Qed.

Theorem m_eval_extras_pv_i_refines (a : marena) (pvk : N) (pvs : list version) (extras : list str) : Inv a ->
  forall (fuel : nat) (x : nid), valid (length a) x -> rank x < fuel ->
  m_eval_extras_pv_i fuel a pvk pvs extras x = Some (m_eval_extras_pv pvk pvs extras (unfold a x)).
Proof.
  unfold m_eval_extras_pv_i, m_eval_extras_pv. set (f := extras_only extras).
  intros I. induction fuel as [|n IH]; intros x V R; [lia|].
  destruct (kind_i_some a x V) as [kv K]. cbn [eval_any_allowed_i]. rewrite K, (kind_i_unfold a x kv I K).
  pose proof (kind_i_children a x kv I K) as F. rewrite Forall_forall in F.
  assert (forall y, In y (kview_children kv) ->
            eval_any_allowed_i n a (pv_allowed pvk pvs) f y = Some (eval_any_pv pvk pvs f (unfold a y))) as G.
  { intros y Iy. destruct (F y Iy) as [Ry Vy]. apply IH; [exact Vy|lia]. }
  destruct kv as [| |k d0 ds|k hi lo]; cbn [kview_tree kview_children] in *; [reflexivity|reflexivity| |].
  - rewrite eval_any_pv_rnode, pv_go_map_snd. unfold edges_of.
    apply (any_edges_allowed (pv_allowed pvk pvs k) _ (fun y => eval_any_pv pvk pvs f (unfold a y))). exact G.
  - cbn [eval_any_pv]. destruct (f k) as [[|]|].
    + apply G. now left.
    + apply G. right. now left.
    + rewrite (any_i_spec _ (fun y => eval_any_pv pvk pvs f (unfold a y))); [cbn [existsb]; now rewrite orb_false_r|exact G].
Qed.

Print Assumptions m_eval_i_refines.
Print Assumptions m_eval_i_default.
Print Assumptions m_eval_i_stable.
Print Assumptions m_eval_extras_i_refines.
Print Assumptions m_eval_extras_i_stable.
Print Assumptions m_eval_extras_pv_i_refines.

(** ** on every reachable state: whatever program [h] ran before (arena and memo cache left behind) and whatever
    program [w] produced the registers, the crate-style evaluators on a register's id give the L1 answers on the
    diagram the register denotes, with the default fuel *)
Corollary eval_i_reachable (pv pfv : N) (h w : list mop) (e : env) (extras : list str) (pvk : N) (pvs : list version) (i : nat) :
  let s := mrun_i pv pfv (fresh_i (mrun_i pv pfv init_i h)) w in
  let a := si_arena s in
  let x := regi s i in
  m_eval_i (eval_fuel a) a e extras x = Some (m_eval e extras (reg (forget s) i)) /\
  m_eval_extras_i (eval_fuel a) a extras x = Some (m_eval_extras extras (reg (forget s) i)) /\
  m_eval_extras_pv_i (eval_fuel a) a pvk pvs extras x = Some (m_eval_extras_pv pvk pvs extras (reg (forget s) i)).
Proof.
  cbv zeta. set (s := mrun_i pv pfv (fresh_i (mrun_i pv pfv init_i h)) w).
  assert (SInv_i s) as [(I & _ & _) V].
  { apply mrun_i_spec. apply SInv_i_fresh. apply mrun_i_spec. exact SInv_i_init. }
  cbn [fst] in I. pose proof (regi_valid s i V) as Vx.
  pose proof (rank_le_length _ _ Vx) as R.
  change (reg (forget s) i) with (unfold (si_arena s) (regi s i)).
  split; [now apply m_eval_i_refines|]. split; [now apply m_eval_extras_i_refines|now apply m_eval_extras_pv_i_refines].
Qed.

(** ... and no later program changes what evaluating an existing id does (same fuel, nodes interned meanwhile are not seen) *)
Corollary eval_i_later (pv pfv : N) (s : istate_i) (w : list mop) (e : env) (extras : list str) (fuel : nat) (x : nid) :
  SInv_i s -> valid (length (si_arena s)) x ->
  m_eval_i fuel (si_arena (mrun_i pv pfv s w)) e extras x = m_eval_i fuel (si_arena s) e extras x /\
  m_eval_extras_i fuel (si_arena (mrun_i pv pfv s w)) extras x = m_eval_extras_i fuel (si_arena s) extras x.
Proof.
  intros S V. destruct (mrun_i_spec pv pfv w s S) as [_ [b ->]]. destruct S as [(I & _ & _) _]. cbn [fst] in I.
  split; [now apply m_eval_i_stable|now apply m_eval_extras_i_stable].
Qed.

Print Assumptions eval_i_reachable.
Print Assumptions eval_i_later.

(** ** (E) non-vacuity: the 15-step program of InternIProofs.v run with the crate's recursions; register 8 holds a
    COMPLEMENTED id ([NNode 7 true]:
    [(k0 >= '1' and (os_name == 'b' or extra == 'a')) or (k0 < '1' and python_full_version >= '3.8')]), register 12 its
    negation (the same index without the bit), register 2 is [extra == 'a'] *)
Definition ex_state : istate_i := mrun_i 2%N 1%N init_i example_program.
Definition ex_arena : marena := si_arena ex_state.
(** version key 0 has release [k0], every other version key [pfv]; every string key reads [os] *)
Definition ex_env (k0 : list N) (pfv : list N) (os : str) : env :=
  {| env_version := fun k => if N.eqb k 0 then (0%N, (k0, FINAL)) else (0%N, (pfv, FINAL));
     env_string := fun _ => os |}.

Example eval_i_example :
  let a := ex_arena in
  let x := regi ex_state 8 in
  let env1 := ex_env [2%N] [3%N; 7%N] [98%N] in       (* k0 = 2, os_name = 'b' *)
  let env2 := ex_env [0%N] [3%N; 7%N] [98%N] in       (* k0 = 0, python_full_version = 3.7 *)
  length a = 15 /\ x = NNode 7 true /\ regi ex_state 12 = NNode 7 false /\
  (* [kind()] of the complemented id: the stored children [NNode 5 false], [NNode 3 true] come out negated *)
  nth_error a 7 = Some (SR (VVersion 0%N) (NNode 5 false) [((inl (0%N, ([1%N], FINAL)), Below), NNode 3 true)]) /\
  kind_i a x = Some (KRange (VVersion 0%N) (NNode 5 true) [((inl (0%N, ([1%N], FINAL)), Below), NNode 3 false)]) /\
  (* two environments, on the complemented id and on its negation; same answers as L1 evaluation of the unfolded diagram *)
  m_eval_i (eval_fuel a) a env1 [] x = Some true /\ m_eval env1 [] (unfold a x) = true /\
  m_eval_i (eval_fuel a) a env2 [] x = Some false /\ m_eval env2 [] (unfold a x) = false /\
  m_eval_i (eval_fuel a) a env1 [] (regi ex_state 12) = Some false /\
  m_eval_i (eval_fuel a) a env2 [] (regi ex_state 12) = Some true /\
  (* the walk under env2 visits entries 7, 5 and a terminal: fuel 3 is enough, fuel 2 is not *)
  m_eval_i 3 a env2 [] x = Some false /\ m_eval_i 2 a env2 [] x = None /\
  (* an id that is not in the arena *)
  m_eval_i (eval_fuel a) a env1 [] (NNode 15 false) = None /\
  (* all registers at once against L1 *)
  map (m_eval_i (eval_fuel a) a env2 [[97%N]]) (si_regs ex_state) =
    map (fun y => Some (m_eval env2 [[97%N]] (unfold a y))) (si_regs ex_state) /\
  (* [evaluate_extras] *)
  m_eval_extras_i (eval_fuel a) a [] x = Some true /\
  m_eval_extras_i (eval_fuel a) a [] (regi ex_state 2) = Some false /\
  m_eval_extras_i (eval_fuel a) a [[97%N]] (regi ex_state 2) = Some true /\
  m_eval_extras_i (eval_fuel a) a [] (nnot (regi ex_state 2)) = Some true /\
  map (m_eval_extras_i (eval_fuel a) a []) (si_regs ex_state) =
    map (fun y => Some (m_eval_extras [] (unfold a y))) (si_regs ex_state) /\
  (* [evaluate_extras_and_python_version] with version key 1 as the python_version key, candidates 3.7 / 3.9 *)
  map (m_eval_extras_pv_i (eval_fuel a) a 1%N [(0%N, ([3%N; 7%N], FINAL))] []) (si_regs ex_state) =
    map (fun y => Some (m_eval_extras_pv 1%N [(0%N, ([3%N; 7%N], FINAL))] [] (unfold a y))) (si_regs ex_state) /\
  m_eval_extras_pv_i (eval_fuel a) a 1%N [(0%N, ([3%N; 7%N], FINAL))] [] (regi ex_state 6) = Some false /\
  m_eval_extras_pv_i (eval_fuel a) a 1%N [(0%N, ([3%N; 9%N], FINAL))] [] (regi ex_state 6) = Some true.
Proof. vm_compute. repeat split; reflexivity. Qed.
