(** L2 proofs: interning yields the id of the diagram; programs of marker operations observe the same
    thing whatever the store contained before (C14), and under every interleaving of atomic steps (C15). *)
From Coq Require Import List Bool Arith NArith Lia.
From PV Require Import Base.ListLemmas Base.Order Base.CutDef Base.CutLemmas DD.DDModel DD.DDBasics DD.DDAnd DD.DDWf DD.DDWfOps DD.DDCanon
  DD.DDRestrict DD.DDPyVer DD.DDPyVerProofs
  Interner.Store Interner.StoreProofs Interner.CreateProofs Interner.Intern Marker.Concrete Marker.Expr Marker.ExprProofs Marker.ExtrasProofs.
Import ListNotations.

Local Open Scope nat_scope.
Notation wfm := (wf (var:=var) (val:=val) is_range).

Definition ext (a a' : marena) : Prop := exists b, a' = a ++ b.
Lemma ext_refl a : ext a a. Proof. exists []. now rewrite app_nil_r. Qed.
Lemma ext_trans a b c : ext a b -> ext b c -> ext a c.
Proof. intros [x ->] [y ->]. exists (x ++ y). now rewrite app_assoc. Qed.
Lemma ext_length a a' : ext a a' -> length a <= length a'.
Proof. intros [b ->]. rewrite app_length. lia. Qed.
Lemma ext_valid a a' (x : nid) : ext a a' -> valid (length a) x -> valid (length a') x.
Proof. intros E. apply valid_mono. now apply ext_length. Qed.
Lemma ext_unfold a a' (x : nid) : ext a a' -> valid (length a) x -> unfold a' x = unfold a x.
Proof. intros [b ->]. apply unfold_stable. Qed.

(** node-wise reduced: no node all of whose children are the same *)
Fixpoint nfr (t : mdd) : Prop :=
  match t with
  | Leaf _ => True
  | RNode k d0 ds => reduce_node t = t /\ nfr d0 /\
      (fix all (l : list (cut val * mdd)) : Prop := match l with [] => True | (_, d) :: l' => nfr d /\ all l' end) ds
  | BNode k hi lo => reduce_node t = t /\ nfr hi /\ nfr lo
  end.

Lemma nfr_rnode k d0 ds : nfr (RNode k d0 ds) <-> reduce_node (RNode k d0 ds) = RNode k d0 ds /\ nfr d0 /\ Forall nfr (map snd ds).
Proof.
  cbn [nfr].
  assert ((fix all (l : list (cut val * mdd)) : Prop := match l with [] => True | (_, d) :: l' => nfr d /\ all l' end) ds
          <-> Forall nfr (map snd ds)) as ->; [|tauto].
  induction ds as [|[c d] ds IH]; cbn; [split; auto|]. rewrite IH. split; [intros [? ?]; constructor; auto|intros F; inversion F; auto].
Qed.

Lemma wf_nfr : forall t : mdd, wfm t -> nfr t.
Proof.
  induction t as [b|k d0 ds IH0 IHl|k hi lo IHh IHl] using dd_ind2; intros W.
  - exact I.
  - apply nfr_rnode. inversion W; subst. split; [|split].
    + cbn [reduce_node]. destruct ds as [|[c d] ds']; [contradiction|]. cbn [map snd forallb].
      match goal with R : reduced d0 _ |- _ => cbn in R; destruct R as [N _] end.
      apply (dd_eqb_false d0 d) in N. now rewrite N.
    + now apply IH0.
    + rewrite Forall_forall in *. intros x Ix. apply IHl; auto.
      match goal with F : forall x, In x _ -> wf _ x /\ _ |- _ => now apply F end.
  - inversion W; subst. cbn [nfr]. split; [|split; auto].
    cbn [reduce_node]. match goal with N : hi <> lo |- _ => apply (dd_eqb_false hi lo) in N; now rewrite N end.
Qed.

(** interning a reduced diagram gives an id that shows that diagram, in any store *)
Definition intern_ok (a : marena) (t : mdd) : Prop :=
  let r := intern a t in
  Inv (fst r) /\ ext a (fst r) /\ valid (length (fst r)) (snd r) /\ unfold (fst r) (snd r) = t.

Theorem intern_spec : forall (t : mdd) (a : marena), Inv a -> nfr t -> intern_ok a t.
Proof.
  induction t as [b|k d0 ds IH0 IHl|k hi lo IHh IHl] using dd_ind2; intros a I N; unfold intern_ok.
  - destruct b; cbn [intern fst snd]; (split; [exact I|split; [apply ext_refl|split; [exact Logic.I|reflexivity]]]).
  - apply nfr_rnode in N as (R & N0 & Ns). cbn [intern].
    destruct (IH0 a I N0) as (I0 & E0 & V0 & U0). destruct (intern a d0) as [a0 x0]. cbn [fst snd] in *.
    (* the loop over the edges *)
    assert (forall (l : list (cut val * mdd)) (b : marena), Inv b -> Forall nfr (map snd l) ->
              Forall (fun d => forall a, Inv a -> nfr d -> intern_ok a d) (map snd l) ->
              let r := (fix go (a : marena) (l : list (cut val * mdd)) : marena * list (cut val * nid) :=
                          match l with
                          | [] => (a, [])
                          | (c, d) :: l' => let (a', x) := intern a d in let (a'', xs) := go a' l' in (a'', (c, x) :: xs)
                          end) b l in
              Inv (fst r) /\ ext b (fst r) /\ Forall (valid (length (fst r))) (map snd (snd r)) /\
              map_snd (unfold (fst r)) (snd r) = l) as Hloop.
    { induction l as [|[c d] l IHl']; intros b Ib Nl Fl.
      - cbn [fst snd map]. split; [exact Ib|split; [apply ext_refl|split; [constructor|reflexivity]]].
      - cbn [map snd] in Nl, Fl. inversion Nl as [|? ? Nd Nl']; subst. inversion Fl as [|? ? Fd Fl']; subst.
        destruct (Fd b Ib Nd) as (Id & Ed & Vd & Ud). destruct (intern b d) as [b' x]. cbn [fst snd] in *.
        specialize (IHl' b' Id Nl' Fl'). cbn zeta in IHl'.
        destruct ((fix go (a : marena) (l : list (cut val * mdd)) : marena * list (cut val * nid) :=
                     match l with
                     | [] => (a, [])
                     | (c, d) :: l' => let (a', x) := intern a d in let (a'', xs) := go a' l' in (a'', (c, x) :: xs)
                     end) b' l) as [b'' xs] eqn:Eg.
        cbn [fst snd] in *. destruct IHl' as (I'' & E'' & V'' & U'').
        split; [exact I''|]. split; [eapply ext_trans; eauto|]. split.
        + cbn [map snd]. constructor; auto. eapply ext_valid; eauto.
        + unfold map_snd in *. cbn [map fst snd]. rewrite U''. f_equal. f_equal. rewrite (ext_unfold b' b'' x E'' Vd). exact Ud. }
    specialize (Hloop ds a0 I0 Ns IHl). cbn zeta in Hloop.
    destruct ((fix go (a : marena) (l : list (cut val * mdd)) : marena * list (cut val * nid) :=
                 match l with
                 | [] => (a, [])
                 | (c, d) :: l' => let (a', x) := intern a d in let (a'', xs) := go a' l' in (a'', (c, x) :: xs)
                 end) a0 ds) as [a1 xs] eqn:Eg.
    cbn [fst snd] in *. destruct Hloop as (I1 & E1 & V1 & U1).
    assert (node_valid (length a1) (SR k x0 xs)) as Vn.
    { unfold node_valid. cbn [children]. constructor; auto. eapply ext_valid; eauto. }
    destruct (create_node_spec a1 (SR k x0 xs) I1 Vn) as (I2 & E2 & V2 & U2).
    cbv zeta. split; [exact I2|]. split; [eapply ext_trans; [exact E0|eapply ext_trans; eauto]|]. split; [exact V2|].
    refine (eq_trans U2 _). cbn [node_tree]. change (tree_of (unfold_all a1)) with (unfold a1).
    rewrite (ext_unfold a0 a1 x0 E1 V0), U0, U1. exact R.
  - cbn [nfr] in N. destruct N as (R & Nh & Nl). cbn [intern].
    destruct (IHh a I Nh) as (I0 & E0 & V0 & U0). destruct (intern a hi) as [a0 xh]. cbn [fst snd] in *.
    destruct (IHl a0 I0 Nl) as (I1 & E1 & V1 & U1). destruct (intern a0 lo) as [a1 xl]. cbn [fst snd] in *.
    assert (node_valid (length a1) (SB (val:=val) k xh xl)) as Vn.
    { unfold node_valid. cbn [children]. repeat constructor; auto. eapply ext_valid; eauto. }
    destruct (create_node_spec a1 (SB k xh xl) I1 Vn) as (I2 & E2 & V2 & U2).
    cbv zeta. split; [exact I2|]. split; [eapply ext_trans; [exact E0|eapply ext_trans; eauto]|]. split; [exact V2|].
    refine (eq_trans U2 _). cbn [node_tree]. change (tree_of (unfold_all a1)) with (unfold a1).
    rewrite (ext_unfold a0 a1 xh E1 V0), U0, U1. exact R.
Qed.

(** ** programs of marker operations *)
Section Programs.
Variables pv pfv : N.

Definition SInv (s : istate) : Prop :=
  Inv (st_arena s) /\ Forall (valid (length (st_arena s))) (st_regs s) /\
  Forall (fun x => wfm (unfold (st_arena s) x)) (st_regs s).

Definition reg_trees (s : istate) : list mdd := map (unfold (st_arena s)) (st_regs s).

Lemma reg_as_nth (s : istate) (i : nat) : reg s i = nth i (reg_trees s) (Leaf true).
Proof.
  unfold reg, reg_trees. destruct (Nat.lt_ge_cases i (length (st_regs s))) as [L | G].
  - rewrite (nth_indep _ (Leaf true) (unfold (st_arena s) NTrue)) by (now rewrite map_length). now rewrite map_nth.
  - rewrite !nth_overflow; auto. now rewrite map_length.
Qed.

Lemma reg_wf (s : istate) (i : nat) : SInv s -> wfm (reg s i).
Proof.
  intros (_ & _ & W). unfold reg. destruct (Nat.lt_ge_cases i (length (st_regs s))) as [L | G].
  - rewrite Forall_forall in W. apply W. now apply nth_In.
  - rewrite nth_overflow by exact G. constructor.
Qed.

Lemma pyver_wf (w : window (val:=val)) (t : mdd) : wfm t -> wfm (m_simplify_pv pfv w t) /\ wfm (m_complexify_pv pfv w t).
Proof.
  intros W. unfold m_simplify_pv, m_complexify_pv, simplify_pv, complexify_pv. split.
  - destruct (unbounded w); auto. destruct (window_empty w); [constructor|]. now apply simplify_wf.
  - destruct (is_false t || unbounded w); auto. destruct (window_empty w) eqn:NE; [constructor|].
    now apply (complexify_wf is_range (VVersion pfv) w eq_refl NE).
Qed.

(** every constructor of markers yields a well-formed diagram from well-formed operands *)
Theorem mop_tree_wf (s : istate) (o : mop) : SInv s -> wfm (mop_tree pv pfv s o).
Proof.
  intros S. destruct o as [e|i j|i j|i|ex i|w i|w i]; cbn [mop_tree].
  - apply expression_wf.
  - apply (tand_wf is_range); now apply reg_wf.
  - apply tor_wf; now apply reg_wf.
  - apply tneg_wf. now apply reg_wf.
  - apply simplify_extras_wf. now apply reg_wf.
  - apply pyver_wf. now apply reg_wf.
  - apply pyver_wf. now apply reg_wf.
Qed.

Lemma mop_tree_trees (s1 s2 : istate) (o : mop) : reg_trees s1 = reg_trees s2 -> mop_tree pv pfv s1 o = mop_tree pv pfv s2 o.
Proof.
  intros E. assert (forall i, reg s1 i = reg s2 i) as R by (intros i; now rewrite !reg_as_nth, E).
  destruct o; cbn [mop_tree]; now rewrite ?R.
Qed.

Theorem mstep_spec (s : istate) (o : mop) : SInv s ->
  SInv (mstep pv pfv s o) /\ ext (st_arena s) (st_arena (mstep pv pfv s o)) /\
  reg_trees (mstep pv pfv s o) = reg_trees s ++ [mop_tree pv pfv s o].
Proof.
  intros S. pose proof (mop_tree_wf s o S) as W. destruct S as (I & V & Wr).
  destruct (intern_spec (mop_tree pv pfv s o) (st_arena s) I (wf_nfr _ W)) as (I' & E' & V' & U').
  unfold mstep. destruct (intern (st_arena s) (mop_tree pv pfv s o)) as [a' x]. cbn [fst snd] in *.
  assert (forall y, In y (st_regs s) -> valid (length a') y /\ unfold a' y = unfold (st_arena s) y) as Hold.
  { intros y Iy. rewrite Forall_forall in V. split; [eapply ext_valid; eauto|apply ext_unfold; auto]. }
  split; [|split].
  - split; [exact I'|]. cbn [st_arena st_regs]. split.
    + apply Forall_app. split; [|constructor; auto]. apply Forall_forall. intros y Iy. now apply Hold.
    + apply Forall_app. split; [|constructor; [now rewrite U'|constructor]].
      apply Forall_forall. intros y Iy. destruct (Hold y Iy) as [_ ->]. rewrite Forall_forall in Wr. now apply Wr.
  - exact E'.
  - unfold reg_trees. cbn [st_arena st_regs]. rewrite map_app. cbn [map]. rewrite U'. f_equal.
    apply map_ext_in. intros y Iy. now apply Hold.
Qed.

Lemma mrun_spec : forall (w : list mop) (s : istate), SInv s -> SInv (mrun pv pfv s w) /\ ext (st_arena s) (st_arena (mrun pv pfv s w)).
Proof.
  induction w as [|o w IH]; intros s S; cbn [mrun fold_left].
  - split; [exact S|apply ext_refl].
  - destruct (mstep_spec s o S) as (S' & E' & _). destruct (IH _ S') as (S'' & E''). split; [exact S''|eapply ext_trans; eauto].
Qed.

Lemma observe_trees (s1 s2 : istate) : SInv s1 -> SInv s2 -> reg_trees s1 = reg_trees s2 -> observe s1 = observe s2.
Proof.
  intros (I1 & V1 & _) (I2 & V2 & _) E. unfold observe. fold (reg_trees s1). fold (reg_trees s2). rewrite E. f_equal.
  assert (forall s, Inv (st_arena s) -> Forall (valid (length (st_arena s))) (st_regs s) ->
            map (fun x => map (fun y => nid_eqb x y) (st_regs s)) (st_regs s)
            = map (fun tx => map (fun ty => dd_eqb tx ty) (reg_trees s)) (reg_trees s)) as G.
  { intros s I V. unfold reg_trees. rewrite map_map. apply map_ext_in. intros x Ix. rewrite map_map. apply map_ext_in. intros y Iy.
    rewrite Forall_forall in V. now apply nid_eqb_trees; auto. }
  now rewrite (G s1 I1 V1), (G s2 I2 V2), E.
Qed.

(** C14: what a program observes does not depend on the state the store was in when it started *)
Theorem hist_indep : forall (w : list mop) (s1 s2 : istate), SInv s1 -> SInv s2 -> reg_trees s1 = reg_trees s2 ->
  observe (mrun pv pfv s1 w) = observe (mrun pv pfv s2 w).
Proof.
  induction w as [|o w IH]; intros s1 s2 S1 S2 E; cbn [mrun fold_left].
  - now apply observe_trees.
  - destruct (mstep_spec s1 o S1) as (S1' & _ & T1), (mstep_spec s2 o S2) as (S2' & _ & T2).
    apply IH; auto. rewrite T1, T2, E. f_equal. f_equal. now apply mop_tree_trees.
Qed.

Definition fresh (a : marena) : istate := {| st_arena := a; st_regs := [] |}.
Definition init : istate := fresh [].

Lemma SInv_fresh (a : marena) : Inv a -> SInv (fresh a).
Proof. intros I. split; [exact I|split; constructor]. Qed.

(** ... in particular after any two histories [h1], [h2] of operations *)
Corollary hist_indep_histories (h1 h2 w : list mop) :
  observe (mrun pv pfv (fresh (st_arena (mrun pv pfv init h1))) w) =
  observe (mrun pv pfv (fresh (st_arena (mrun pv pfv init h2))) w).
Proof.
  apply hist_indep; try reflexivity; apply SInv_fresh; apply mrun_spec; apply SInv_fresh, Inv_nil.
Qed.
End Programs.
