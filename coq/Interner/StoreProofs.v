(** L2 proofs: the store invariant, stability of unfolding under growth, and injectivity of
    unfolding (two ids are equal exactly when they show the same diagram) - whatever was interned before. *)
From Coq Require Import List Bool Arith Lia.
From PV Require Import Base.Order Base.CutDef Base.CutLemmas DD.DDModel DD.DDBasics DD.DDWfOps Interner.Store.
Import ListNotations.

Section Store.
Context {var val : Type} `{TotalOrder var} `{TotalOrder val}.
Notation cutV := (cut val).
Notation dd := (dd var val).
Notation nid := (nid).
Notation snode := (snode (var:=var) (val:=val)).
Notation arena := (list snode).

(** ** ids *)
Lemma nid_eqb_spec (x y : nid) : nid_eqb x y = true <-> x = y.
Proof.
  destruct x as [| |i c], y as [| |j c']; cbn; try (split; congruence).
  rewrite andb_true_iff, Nat.eqb_eq. split.
  - intros [-> E]. destruct c, c'; cbn in E; congruence.
  - intros [= -> ->]. split; auto. now destruct c'.
Qed.

Lemma nnot_involutive (x : nid) : nnot (nnot x) = x.
Proof. destruct x as [| |i c]; cbn; auto. now rewrite negb_involutive. Qed.
Lemma is_compl_nnot (x : nid) : is_compl (nnot x) = negb (is_compl x).
Proof. destruct x as [| |i c]; reflexivity. Qed.
Lemma valid_nnot n (x : nid) : valid n (nnot x) <-> valid n x.
Proof. destruct x; cbn; tauto. Qed.

Lemma tree_of_nnot (T : list dd) (x : nid) : tree_of T (nnot x) = tneg (tree_of T x).
Proof.
  destruct x as [| |i c]; cbn [tree_of nnot]; try reflexivity.
  destruct c; cbn [negb]; [now rewrite tneg_involutive|reflexivity].
Qed.

Lemma tree_of_prefix (T1 T2 : list dd) (x : nid) : valid (length T1) x -> tree_of (T1 ++ T2) x = tree_of T1 x.
Proof. destruct x as [| |i c]; cbn; auto. intros L. now rewrite app_nth1. Qed.

Lemma edges_eqb_spec : forall la lb : list (cutV * nid), edges_eqb la lb = true <-> la = lb.
Proof.
  induction la as [|[c x] la IH]; destruct lb as [|[c' y] lb]; cbn; try (split; congruence).
  rewrite !andb_true_iff, eqb_of_spec, nid_eqb_spec, IH. split; [intros [[-> ->] ->]; auto|intros [= -> -> ->]; auto].
Qed.

Lemma snode_eqb_spec (a b : snode) : snode_eqb a b = true <-> a = b.
Proof.
  destruct a as [k d0 ds|k h l], b as [k' e0 es|k' h' l']; cbn; try (split; congruence).
  - rewrite !andb_true_iff, eqb_of_spec, nid_eqb_spec, edges_eqb_spec. split; [intros [[-> ->] ->]; auto|intros [= -> -> ->]; auto].
  - rewrite !andb_true_iff, eqb_of_spec, !nid_eqb_spec. split; [intros [[-> ->] ->]; auto|intros [= -> -> ->]; auto].
Qed.

(** ** unfolding *)
Lemma unfold_all_app (a : arena) (n : snode) : unfold_all (a ++ [n]) = unfold_all a ++ [node_tree (unfold_all a) n].
Proof. unfold unfold_all. now rewrite fold_left_app. Qed.

Lemma length_unfold_all : forall a : arena, length (unfold_all a) = length a.
Proof.
  induction a as [|n a IH] using rev_ind; [reflexivity|]. rewrite unfold_all_app, !app_length, IH. reflexivity.
Qed.

Lemma unfold_all_prefix : forall (b a : arena), exists T, unfold_all (a ++ b) = unfold_all a ++ T.
Proof.
  induction b as [|n b IH] using rev_ind; intros a.
  - exists []. now rewrite !app_nil_r.
  - destruct (IH a) as [T E]. rewrite app_assoc, unfold_all_app, E. eexists. now rewrite <- app_assoc.
Qed.

Definition node_valid (len : nat) (n : snode) : Prop := Forall (valid len) (children n).

Lemma node_tree_prefix (T1 T2 : list dd) (n : snode) : node_valid (length T1) n -> node_tree (T1 ++ T2) n = node_tree T1 n.
Proof.
  unfold node_valid. destruct n as [k d0 ds|k h l]; cbn [children node_tree]; intros F.
  - inversion F as [|? ? V0 Vs]; subst. rewrite tree_of_prefix by exact V0. f_equal.
    apply map_snd_ext. rewrite Forall_forall in *. intros x I. now apply tree_of_prefix, Vs.
  - inversion F as [|? ? Vh Vl]; subst. inversion Vl; subst. now rewrite !tree_of_prefix.
Qed.

(** the store invariant *)
Record Inv (a : arena) : Prop := {
  inv_closed : forall i n, nth_error a i = Some n -> node_valid i n;
  inv_normal : forall i n, nth_error a i = Some n ->
      is_compl (first_child n) = false /\ forallb (nid_eqb (first_child n)) (children n) = false;
  inv_unique : forall i j n, nth_error a i = Some n -> nth_error a j = Some n -> i = j
}.

Lemma Inv_nil : Inv [].
Proof. constructor; intros; destruct i; discriminate. Qed.

Lemma valid_mono n m (x : nid) : n <= m -> valid n x -> valid m x.
Proof. destruct x; cbn; auto. intros; lia. Qed.

(** the diagram of entry [i] is built from the diagrams of the whole arena *)
Lemma unfold_entry : forall (a : arena), Inv a -> forall i n, nth_error a i = Some n ->
  nth i (unfold_all a) (Leaf false) = node_tree (unfold_all a) n.
Proof.
  induction a as [|m a IH] using rev_ind; intros I i n E; [destruct i; discriminate|].
  assert (Inv a) as Ia.
  { constructor.
    - intros j p Ej. apply (inv_closed _ I j p). rewrite nth_error_app1; auto. apply nth_error_Some. congruence.
    - intros j p Ej. apply (inv_normal _ I j p). rewrite nth_error_app1; auto. apply nth_error_Some. congruence.
    - intros j j' p Ej Ej'. apply (inv_unique _ I j j' p); rewrite nth_error_app1; auto; apply nth_error_Some; congruence. }
  rewrite unfold_all_app.
  assert (i < length a \/ i = length a) as [L | ->].
  { assert (i < length (a ++ [m])) by (apply nth_error_Some; congruence). rewrite app_length in *. cbn in *. lia. }
  - rewrite nth_error_app1 in E by exact L.
    rewrite app_nth1 by (now rewrite length_unfold_all). rewrite (IH Ia i n E).
    symmetry. apply node_tree_prefix. rewrite length_unfold_all.
    pose proof (inv_closed _ Ia i n E) as V. unfold node_valid in *. rewrite Forall_forall in *. intros x Ix.
    eapply valid_mono; [|apply V; exact Ix]. lia.
  - rewrite nth_error_app2 in E by lia. rewrite Nat.sub_diag in E. cbn in E. injection E as <-.
    rewrite app_nth2 by (rewrite length_unfold_all; lia). rewrite length_unfold_all, Nat.sub_diag. cbn [nth].
    symmetry. apply node_tree_prefix. rewrite length_unfold_all.
    apply (inv_closed _ I (length a) m). rewrite nth_error_app2 by lia. now rewrite Nat.sub_diag.
Qed.

Theorem unfold_stable (a b : arena) (x : nid) : valid (length a) x -> unfold (a ++ b) x = unfold a x.
Proof.
  intros V. unfold unfold. destruct (unfold_all_prefix b a) as [T ->]. apply tree_of_prefix. now rewrite length_unfold_all.
Qed.

(** complement commutes with node construction *)
Lemma node_tree_not (T : list dd) (n : snode) : node_tree T (node_not n) = tneg (node_tree T n).
Proof.
  destruct n as [k d0 ds|k h l]; cbn [node_not node_tree]; rewrite tneg_eq.
  - rewrite tree_of_nnot, !map_snd_map_snd. f_equal. apply map_snd_ext. apply Forall_forall. intros x _. apply tree_of_nnot.
  - now rewrite !tree_of_nnot.
Qed.

Lemma node_tree_not_leaf (T : list dd) (n : snode) b : node_tree T n <> Leaf b.
Proof. destruct n; discriminate. Qed.

Definition rank (x : nid) : nat := match x with NNode i _ => S i | _ => 0 end.

(** ** injectivity of unfolding *)
Section Inj.
Variable a : arena.
Hypothesis I : Inv a.
Let T := unfold_all a.

Lemma unfold_node (i : nat) (c : bool) (n : snode) : nth_error a i = Some n ->
  tree_of T (NNode i c) = if c then tneg (node_tree T n) else node_tree T n.
Proof. intros E. cbn [tree_of]. unfold T. now rewrite (unfold_entry a I i n E). Qed.

Lemma node_inj_step (n : nat) :
  (forall x y, rank x <= n -> rank y <= n -> valid (length a) x -> valid (length a) y -> tree_of T x = tree_of T y -> x = y) ->
  forall p q : snode, Forall (fun x => rank x <= n /\ valid (length a) x) (children p) ->
                      Forall (fun x => rank x <= n /\ valid (length a) x) (children q) ->
  node_tree T p = node_tree T q -> p = q.
Proof.
  intros IH p q Fp Fq E.
  destruct p as [k d0 ds|k h l], q as [k' e0 es|k' h' l']; cbn [node_tree children] in *; try discriminate.
  - injection E as -> E0 Es. inversion Fp as [|? ? [R0 V0] Fds]; subst. inversion Fq as [|? ? [R0' V0'] Fes]; subst.
    rewrite (IH d0 e0 R0 R0' V0 V0' E0). f_equal.
    clear - IH Fds Fes Es. revert es Fes Es. induction ds as [|[c x] ds IHd]; intros [|[c' y] es] Fes Es; try discriminate; auto.
    unfold map_snd in Es. cbn [map fst snd] in Es. injection Es as -> Ex Es.
    cbn [map snd] in Fds, Fes. inversion Fds as [|? ? [Rx Vx] Fds']; subst. inversion Fes as [|? ? [Ry Vy] Fes']; subst.
    rewrite (IH x y Rx Ry Vx Vy Ex). f_equal. apply IHd; auto.
  - injection E as -> Eh El. inversion Fp as [|? ? [Rh Vh] Fp']; subst. inversion Fp' as [|? ? [Rl Vl] _]; subst.
    inversion Fq as [|? ? [Rh' Vh'] Fq']; subst. inversion Fq' as [|? ? [Rl' Vl'] _]; subst.
    now rewrite (IH h h' Rh Rh' Vh Vh' Eh), (IH l l' Rl Rl' Vl Vl' El).
Qed.

Lemma entry_children (i : nat) (p : snode) : nth_error a i = Some p ->
  Forall (fun x => rank x <= i /\ valid (length a) x) (children p).
Proof.
  intros E. pose proof (inv_closed _ I i p E) as V. unfold node_valid in V.
  assert (i < length a) by (apply nth_error_Some; congruence).
  rewrite Forall_forall in *. intros x Ix. specialize (V x Ix). destruct x as [| |j c]; cbn in *; split; auto; lia.
Qed.

Lemma children_not (p : snode) : children (node_not p) = map nnot (children p).
Proof. destruct p as [k d0 ds|k h l]; cbn; [|reflexivity]. f_equal. unfold map_snd. rewrite !map_map. reflexivity. Qed.

Theorem unfold_inj_rank : forall n x y, rank x <= n -> rank y <= n -> valid (length a) x -> valid (length a) y ->
  tree_of T x = tree_of T y -> x = y.
Proof.
  induction n as [|n IH]; intros x y Rx Ry Vx Vy E.
  - destruct x as [| |i c], y as [| |j c']; cbn in *; try lia; congruence.
  - destruct x as [| |i c], y as [| |j c']; try (cbn in E; congruence).
    + (* leaf / node *) exfalso. cbn [valid] in Vy. destruct (nth_error a j) as [q|] eqn:Eq; [|apply nth_error_None in Eq; lia].
      rewrite (unfold_node j c' q Eq) in E. cbn [tree_of] in E.
      destruct c'; [rewrite <- node_tree_not in E|]; symmetry in E; eapply node_tree_not_leaf; eauto.
    + exfalso. cbn [valid] in Vy. destruct (nth_error a j) as [q|] eqn:Eq; [|apply nth_error_None in Eq; lia].
      rewrite (unfold_node j c' q Eq) in E. cbn [tree_of] in E.
      destruct c'; [rewrite <- node_tree_not in E|]; symmetry in E; eapply node_tree_not_leaf; eauto.
    + exfalso. cbn [valid] in Vx. destruct (nth_error a i) as [p|] eqn:Ep; [|apply nth_error_None in Ep; lia].
      rewrite (unfold_node i c p Ep) in E. cbn [tree_of] in E.
      destruct c; [rewrite <- node_tree_not in E|]; eapply node_tree_not_leaf; eauto.
    + exfalso. cbn [valid] in Vx. destruct (nth_error a i) as [p|] eqn:Ep; [|apply nth_error_None in Ep; lia].
      rewrite (unfold_node i c p Ep) in E. cbn [tree_of] in E.
      destruct c; [rewrite <- node_tree_not in E|]; eapply node_tree_not_leaf; eauto.
    + (* node / node *)
      cbn [valid rank] in *.
      destruct (nth_error a i) as [p|] eqn:Ep; [|apply nth_error_None in Ep; lia].
      destruct (nth_error a j) as [q|] eqn:Eq; [|apply nth_error_None in Eq; lia].
      rewrite (unfold_node i c p Ep), (unfold_node j c' q Eq) in E.
      assert (Forall (fun x => rank x <= n /\ valid (length a) x) (children p)) as Fp.
      { eapply Forall_impl; [|apply (entry_children i p Ep)]. cbn. intros x [? ?]; split; auto; lia. }
      assert (Forall (fun x => rank x <= n /\ valid (length a) x) (children q)) as Fq.
      { eapply Forall_impl; [|apply (entry_children j q Eq)]. cbn. intros x [? ?]; split; auto; lia. }
      assert (forall r : snode, Forall (fun x => rank x <= n /\ valid (length a) x) (children r) ->
                                Forall (fun x => rank x <= n /\ valid (length a) x) (children (node_not r))) as Fnot.
      { intros r Fr. rewrite children_not, Forall_map. eapply Forall_impl; [|exact Fr]. cbn. intros x [Rk Vk].
        split; [destruct x; cbn in *; auto|now apply valid_nnot]. }
      destruct c, c'.
      * apply tneg_inj in E. apply (node_inj_step n IH p q Fp Fq) in E. subst q. now rewrite (inv_unique _ I i j p Ep Eq).
      * exfalso. rewrite <- node_tree_not in E. apply (node_inj_step n IH _ q (Fnot p Fp) Fq) in E.
        destruct (inv_normal _ I j q Eq) as [Nq _]. destruct (inv_normal _ I i p Ep) as [Np _].
        rewrite <- E in Nq. destruct p; cbn in Nq, Np; rewrite is_compl_nnot, Np in Nq; discriminate.
      * exfalso. rewrite <- node_tree_not in E. apply (node_inj_step n IH p _ Fp (Fnot q Fq)) in E.
        destruct (inv_normal _ I j q Eq) as [Nq _]. destruct (inv_normal _ I i p Ep) as [Np _].
        rewrite E in Np. destruct q; cbn in Nq, Np; rewrite is_compl_nnot, Nq in Np; discriminate.
      * apply (node_inj_step n IH p q Fp Fq) in E. subst q. now rewrite (inv_unique _ I i j p Ep Eq).
Qed.
End Inj.

(** two ids are equal exactly when the diagrams they show are equal: node identity does not depend on what was interned before *)
Theorem unfold_inj (a : arena) (x y : nid) : Inv a -> valid (length a) x -> valid (length a) y ->
  (unfold a x = unfold a y <-> x = y).
Proof.
  intros I Vx Vy. split; [|now intros ->].
  apply (unfold_inj_rank a I (Nat.max (rank x) (rank y))); auto; lia.
Qed.
End Store.
