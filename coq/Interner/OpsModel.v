(** L2: [restrict] (simplify_extras), [simplify_python_versions] and [complexify_python_versions] on node
    ids (src/marker/algebra.rs:368-386, 394-462, 471-600), with complemented edges and [create_node], as the
    code does them: [restrict] and the recursive arms go through [Edges::map] (children un-complemented
    relative to the parent, result not re-complemented); the arms at the python_full_version node work on
    the RAW children of the node and re-complement the created node ([.negate(i)]), and [complexify] tests
    its "always false" child against the first / last raw child instead of relying on coalescing.
    Definitions only; OpsProofs.v shows that they refine the L1 functions on the unfolded diagrams.
    The entry-point checks (unbounded / empty range, FALSE) are in [simplify_pv_i] / [complexify_pv_i]. *)
From Coq Require Import List Bool Arith.
From PV Require Import Base.Order Base.CutDef DD.DDModel DD.DDPyVer Interner.Store Interner.AndModel.
Import ListNotations.

Section OpsI.
Context {var val : Type} `{TotalOrder var} `{TotalOrder val}.
Notation cutV := (cut val).
Notation snode := (snode (var:=var) (val:=val)).
Notation ist := (ist (var:=var) (val:=val)).

Definition finish (s1 : ist) (n : snode) : ist * nid :=
  let (a', r) := create_node (fst s1) n in ((a', snd s1), r).

(** [restrict] *)
Fixpoint restrict_i (fuel : nat) (f : var -> option bool) (s : ist) (x : nid) {struct fuel} : ist * nid :=
  match fuel with
  | O => (s, x)
  | S n =>
      match node_at (fst s) x with
      | None => (s, x)
      | Some nd =>
          let recurse := let '(s1, nd') := map_node (fun s c => restrict_i n f s c) x s nd in finish s1 nd' in
          match nd with
          | SB k hi lo =>
              match f k with
              | Some v => restrict_i n f s (nnegate (if v then hi else lo) x)
              | None => recurse
              end
          | SR _ _ _ => recurse
          end
      end
  end.

(** [simplify_python_versions] below the entry checks *)
Fixpoint simplify_i (fuel : nat) (pk : var) (w : window) (s : ist) (x : nid) {struct fuel} : ist * nid :=
  match fuel with
  | O => (s, x)
  | S n =>
      match node_at (fst s) x with
      | None => (s, x)
      | Some nd =>
          let recurse := let '(s1, nd') := map_node (fun s c => simplify_i n pk w s c) x s nd in finish s1 nd' in
          match nd with
          | SR k d0 ds =>
              if eqb_of k pk then
                let (d0', ds') := restrict_window w d0 ds in
                let (s', r) := finish s (SR k d0' ds') in (s', nnegate r x)
              else recurse
          | SB _ _ _ => recurse
          end
      end
  end.
Definition simplify_pv_i (fuel : nat) (pk : var) (w : window) (s : ist) (x : nid) : ist * nid :=
  if unbounded w then (s, x) else if window_empty w then (s, NFalse) else simplify_i fuel pk w s x.

(** the stored node of the range itself: true inside the window *)
Definition window_snode (pk : var) (w : window) : snode :=
  let ds := match snd w with None => [] | Some hi => [(hi, NFalse)] end in
  match fst w with None => SR pk NTrue ds | Some lo => SR pk NFalse ((lo, NTrue) :: ds) end.

(** [complexify_python_versions] below the entry checks *)
Fixpoint complexify_i (fuel : nat) (pk : var) (w : window) (s : ist) (x : nid) {struct fuel} : ist * nid :=
  match fuel with
  | O => (s, x)
  | S n =>
      match x with
      | NFalse => (s, x)
      | NTrue => finish s (window_snode pk w)
      | NNode _ _ =>
          match node_at (fst s) x with
          | None => (s, x)
          | Some nd =>
              let conjoin := let (s1, rng) := finish s (window_snode pk w) in and_i (S (S (length (fst s1)))) s1 x rng in
              let recurse := let '(s1, nd') := map_node (fun s c => complexify_i n pk w s c) x s nd in finish s1 nd' in
              match nd with
              | SR k d0 ds =>
                  match cmp k pk with
                  | Eq =>
                      let exclude := nnegate NFalse x in
                      let (d0', ds') := restrict_window w d0 ds in
                      let ds'' := match snd w with
                                  | None => ds'
                                  | Some hi => if nid_eqb exclude (last_child d0' ds') then ds' else ds' ++ [(hi, exclude)]
                                  end in
                      let '(e0, es) := match fst w with
                                       | None => (d0', ds'')
                                       | Some lo => if nid_eqb exclude d0' then (d0', ds'') else (exclude, (lo, d0') :: ds'')
                                       end in
                      let (s', r) := finish s (SR k e0 es) in (s', nnegate r x)
                  | Gt => conjoin
                  | Lt => recurse
                  end
              | SB k _ _ =>
                  match cmp k pk with
                  | Gt => conjoin
                  | _ => recurse
                  end
              end
          end
      end
  end.
Definition complexify_pv_i (fuel : nat) (pk : var) (w : window) (s : ist) (x : nid) : ist * nid :=
  if is_false_id x || unbounded w then (s, x)
  else if window_empty w then (s, NFalse)
  else complexify_i fuel pk w s x.
End OpsI.
