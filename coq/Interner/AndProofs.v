(** L2: the memoised recursion [and_i] on node ids (AndModel.v) refines the L1 conjunction [tand]:
    the id it returns denotes exactly [tand] of the diagrams of its operands, whatever the arena and
    the (valid) memo cache contained before.  So the abstraction made in Intern.v ("unfold, apply the
    L1 operation, intern") is sound for [and] / [or]. *)
From Coq Require Import List Bool Arith Lia.
From PV Require Import Base.ListLemmas Base.Order Base.CutDef Base.CutLemmas DD.DDModel DD.DDBasics DD.DDAnd DD.DDWf DD.DDWfOps
  Interner.Store Interner.StoreProofs Interner.CreateProofs Interner.AndModel.
Import ListNotations.

Section AndProofs.
Context {var val : Type} `{TotalOrder var} `{TotalOrder val}.
Notation cutV := (cut val).
Notation dd := (dd var val).
Notation snode := (snode (var:=var) (val:=val)).
Notation arena := (list snode).
Notation ist := (ist (var:=var) (val:=val)).

(** ** [tand] is commutative (unconditionally: no typing or ordering hypothesis is needed) *)
Lemma dd_eqb_sym (a b : dd) : dd_eqb a b = dd_eqb b a.
Proof.
  destruct (dd_eqb a b) eqn:E.
  - apply dd_eqb_spec in E; subst. symmetry. apply dd_eqb_refl.
  - symmetry. apply dd_eqb_false. apply dd_eqb_false in E. congruence.
Qed.

Lemma dd_eqb_tneg_swap (a b : dd) : dd_eqb (tneg a) b = dd_eqb (tneg b) a.
Proof.
  destruct (dd_eqb (tneg a) b) eqn:E.
  - apply dd_eqb_spec in E; subst. rewrite tneg_involutive. symmetry. apply dd_eqb_refl.
  - symmetry. apply dd_eqb_false. apply dd_eqb_false in E. intros E'. apply E. subst a. apply tneg_involutive.
Qed.

Lemma tand_step_comm (a b : dd) : tand_core a b = tand_core b a -> tand_step a b = tand_step b a.
Proof.
  intros Hc. unfold tand_step.
  destruct (is_true a) eqn:Ta, (is_true b) eqn:Tb; try reflexivity.
  - apply is_true_eq in Ta, Tb. congruence.
  - rewrite (dd_eqb_sym b a). destruct (dd_eqb a b) eqn:E; [now apply dd_eqb_spec in E|].
    rewrite (orb_comm (is_false b)). destruct (is_false a || is_false b); [reflexivity|].
    rewrite (dd_eqb_tneg_swap b a). destruct (dd_eqb (tneg a) b); [reflexivity|exact Hc].
Qed.

Theorem tand_comm : forall a b : dd, tand a b = tand b a.
Proof.
  induction a as [x|ka a0 la IHa0 IHla|ka ha la IHha IHla] using dd_ind2;
  induction b as [y|kb b0 lb IHb0 IHlb|kb hb lb IHhb IHlb] using dd_ind2;
  rewrite (tand_eq _ _); symmetry; rewrite (tand_eq _ _); symmetry; apply tand_step_comm; unfold tand_core; try reflexivity.
  - (* RNode / RNode *)
    rewrite (cmp_antisym ka kb). destruct (cmp ka kb) eqn:C; cbn [CompOpp].
    + apply cmp_eq in C; subst kb. rewrite (IHa0 b0). f_equal.
      rewrite (merge_map_l appf tand la a0 lb b0), (merge_map_l appf tand lb b0 la a0).
      rewrite (merge_flip (fun a1 b1 => appf (tand a1) b1) lb b0 la a0).
      apply merge_ext_in. intros a1 b1 Ha1 _. unfold appf. destruct Ha1 as [-> | I]; [apply IHa0|].
      rewrite Forall_forall in IHla. now apply IHla.
    + rewrite (IHa0 (RNode kb b0 lb)). f_equal. apply map_snd_ext.
      rewrite Forall_forall in *. intros d I. now apply IHla.
    + rewrite IHb0. f_equal. apply map_snd_ext. exact IHlb.
  - (* RNode / BNode *)
    rewrite (cmp_antisym ka kb). destruct (cmp ka kb) eqn:C; cbn [CompOpp]; [reflexivity| |].
    + rewrite (IHa0 (BNode kb hb lb)). f_equal. apply map_snd_ext.
      rewrite Forall_forall in *. intros d I. now apply IHla.
    + now rewrite IHhb, IHlb.
  - (* BNode / RNode *)
    rewrite (cmp_antisym ka kb). destruct (cmp ka kb) eqn:C; cbn [CompOpp]; [reflexivity| |].
    + now rewrite (IHha (RNode kb b0 lb)), (IHla (RNode kb b0 lb)).
    + rewrite IHb0. f_equal. apply map_snd_ext. exact IHlb.
  - (* BNode / BNode *)
    rewrite (cmp_antisym ka kb). destruct (cmp ka kb) eqn:C; cbn [CompOpp].
    + apply cmp_eq in C; subst kb. now rewrite (IHha hb), (IHla lb).
    + now rewrite (IHha (BNode kb hb lb)), (IHla (BNode kb hb lb)).
    + now rewrite IHhb, IHlb.
Qed.

(** ** arena extension, the cache invariant, the state invariant *)
Definition aext (a a' : arena) : Prop := exists b, a' = a ++ b.
Lemma aext_refl a : aext a a. Proof. exists []. now rewrite app_nil_r. Qed.
Lemma aext_trans a b c : aext a b -> aext b c -> aext a c.
Proof. intros [x ->] [y ->]. exists (x ++ y). now rewrite app_assoc. Qed.
Lemma aext_length a a' : aext a a' -> length a <= length a'.
Proof. intros [b ->]. rewrite app_length. lia. Qed.
Lemma aext_valid a a' (x : nid) : aext a a' -> valid (length a) x -> valid (length a') x.
Proof. intros E. apply valid_mono. now apply aext_length. Qed.
Lemma aext_unfold a a' (x : nid) : aext a a' -> valid (length a) x -> unfold a' x = unfold a x.
Proof. intros [b ->]. apply unfold_stable. Qed.

(** every memoised answer is a valid id that denotes the conjunction of the diagrams of its key *)
Definition cache_ok (a : arena) (c : cache) : Prop :=
  forall x y r, cache_get c x y = Some r ->
    valid (length a) x /\ valid (length a) y /\ valid (length a) r /\ unfold a r = tand (unfold a x) (unfold a y).

(** The state invariant is parametrised by a property [Q] of diagrams that conjunction and complement
    preserve and that every id of the arena satisfies: with [Q := fun _ => True] this is just the store
    invariant and the cache invariant, with [Q := wf is_range] every stored diagram is well formed (what
    every reachable store satisfies, cf. [SInv] in InternProofs.v) - and stays so. *)
Section WithQ.
Variable Q : dd -> Prop.
Hypothesis Q_tand : forall a b, Q a -> Q b -> Q (tand a b).
Hypothesis Q_tneg : forall a, Q a -> Q (tneg a).

Definition WFQ (a : arena) : Prop := forall x, valid (length a) x -> Q (unfold a x).

Definition SOK (s : ist) : Prop := Inv (fst s) /\ cache_ok (fst s) (snd s) /\ WFQ (fst s).

Lemma cache_ok_nil a : cache_ok a [].
Proof. intros x y r G. discriminate. Qed.

Lemma cache_ok_ext a a' c : aext a a' -> cache_ok a c -> cache_ok a' c.
Proof.
  intros E C x y r G. destruct (C x y r G) as (Vx & Vy & Vr & U).
  split; [eapply aext_valid; eauto|]. split; [eapply aext_valid; eauto|]. split; [eapply aext_valid; eauto|].
  rewrite (aext_unfold a a' r E Vr), (aext_unfold a a' x E Vx), (aext_unfold a a' y E Vy). exact U.
Qed.

Lemma cache_ok_cons a c x y r : cache_ok a c -> valid (length a) x -> valid (length a) y -> valid (length a) r ->
  unfold a r = tand (unfold a x) (unfold a y) -> cache_ok a (((x, y), r) :: c).
Proof.
  intros C Vx Vy Vr U x' y' r' G. cbn [cache_get] in G. destruct (nid_eqb x' x && nid_eqb y' y) eqn:E.
  - apply andb_true_iff in E as [Ex Ey]. apply nid_eqb_spec in Ex, Ey. subst. injection G as <-. auto.
  - exact (C x' y' r' G).
Qed.

(** what a call returns: a good state extending the arena [a], and a valid id that denotes [t] *)
Definition post (a : arena) (t : dd) (res : ist * nid) : Prop :=
  SOK (fst res) /\ aext a (fst (fst res)) /\ valid (length (fst (fst res))) (snd res) /\ unfold (fst (fst res)) (snd res) = t.

(** ** ids and the diagrams they denote *)
Lemma rank_nnegate (c p : nid) : rank (nnegate c p) = rank c.
Proof. unfold nnegate. destruct (is_compl p); [|reflexivity]. destruct c; reflexivity. Qed.
Lemma valid_nnegate n (c p : nid) : valid n (nnegate c p) <-> valid n c.
Proof. unfold nnegate. destruct (is_compl p); [apply valid_nnot|tauto]. Qed.
Lemma rank_nnot (x : nid) : rank (nnot x) = rank x.
Proof. destruct x; reflexivity. Qed.

Lemma unfold_nnot (a : arena) (x : nid) : unfold a (nnot x) = tneg (unfold a x).
Proof. apply tree_of_nnot. Qed.

Lemma unfold_SR (a : arena) i c k d0 ds : Inv a -> nth_error a i = Some (SR k d0 ds) ->
  unfold a (NNode i c) = RNode k (unfold a (nnegate d0 (NNode i c))) (map_snd (fun d => unfold a (nnegate d (NNode i c))) ds).
Proof.
  intros I E. unfold unfold at 1. rewrite (unfold_node a I i c _ E). cbn [node_tree].
  destruct c; cbn [nnegate is_compl]; [|reflexivity].
  rewrite tneg_eq. f_equal; [symmetry; apply tree_of_nnot|].
  rewrite map_snd_map_snd. apply map_snd_ext. apply Forall_forall. intros d _. symmetry. apply tree_of_nnot.
Qed.

Lemma unfold_SB (a : arena) i c k h l : Inv a -> nth_error a i = Some (SB k h l) ->
  unfold a (NNode i c) = BNode k (unfold a (nnegate h (NNode i c))) (unfold a (nnegate l (NNode i c))).
Proof.
  intros I E. unfold unfold at 1. rewrite (unfold_node a I i c _ E). cbn [node_tree].
  destruct c; cbn [nnegate is_compl]; [|reflexivity].
  rewrite tneg_eq. f_equal; symmetry; apply tree_of_nnot.
Qed.

Lemma var_of_unfold (a : arena) i c n : Inv a -> nth_error a i = Some n -> var_of (unfold a (NNode i c)) = Some (svar n).
Proof.
  intros I E. destruct n as [k d0 ds|k h l]; [rewrite (unfold_SR a i c k d0 ds I E)|rewrite (unfold_SB a i c k h l I E)]; reflexivity.
Qed.

Definition is_true_id (x : nid) : bool := match x with NTrue => true | _ => false end.

Lemma is_true_unfold (a : arena) (x : nid) : Inv a -> valid (length a) x -> is_true (unfold a x) = is_true_id x.
Proof.
  intros I V. destruct (is_true (unfold a x)) eqn:E.
  - apply is_true_eq in E. change (Leaf true) with (unfold a NTrue) in E.
    apply (unfold_inj a x NTrue I V Logic.I) in E. now subst.
  - destruct x; try reflexivity. discriminate.
Qed.

Lemma is_false_unfold (a : arena) (x : nid) : Inv a -> valid (length a) x -> is_false (unfold a x) = is_false_id x.
Proof.
  intros I V. destruct (is_false (unfold a x)) eqn:E.
  - apply is_false_eq in E. change (Leaf false) with (unfold a NFalse) in E.
    apply (unfold_inj a x NFalse I V Logic.I) in E. now subst.
  - destruct x; try reflexivity. discriminate.
Qed.

(** ** coalescing by id equality and [create_node]'s reduction give [mk_rnode] / [mk_bnode] *)
Lemma coalesce_unfold (a : arena) : Inv a -> forall (es : list (cutV * nid)) (e0 : nid),
  valid (length a) e0 -> Forall (valid (length a)) (map snd es) ->
  map_snd (unfold a) (coalesce nid_eqb e0 es) = coalesce dd_eqb (unfold a e0) (map_snd (unfold a) es).
Proof.
  intros I. unfold map_snd. induction es as [|[c e] es IH]; intros e0 V0 Vs; [reflexivity|].
  cbn [map snd] in Vs. inversion Vs as [|? ? Ve Vs']; subst.
  cbn [coalesce map fst snd]. rewrite <- (nid_eqb_trees a e0 e I V0 Ve).
  destruct (nid_eqb e0 e); cbn [map fst snd]; [now apply IH|]. f_equal. now apply IH.
Qed.

Lemma reduce_rnode_coalesced k (d0 : dd) (ds : list (cutV * dd)) :
  reduce_node (RNode k d0 (coalesce dd_eqb d0 ds)) = mk_rnode k d0 ds.
Proof.
  unfold mk_rnode. pose proof (reduced_coalesce dd_eqb dd_eqb_spec ds d0) as R.
  destruct (coalesce dd_eqb d0 ds) as [|[c d] l]; cbn [reduce_node map snd forallb]; [reflexivity|].
  cbn [reduced] in R. destruct R as [N _]. apply (dd_eqb_false d0 d) in N. now rewrite N.
Qed.

Lemma reduce_SR (a : arena) k (e0 : nid) (es : list (cutV * nid)) : Inv a ->
  valid (length a) e0 -> Forall (valid (length a)) (map snd es) ->
  node_valid (length a) (SR k e0 (coalesce nid_eqb e0 es)) /\
  reduce_node (node_tree (unfold_all a) (SR k e0 (coalesce nid_eqb e0 es))) = mk_rnode k (unfold a e0) (map_snd (unfold a) es).
Proof.
  intros I V0 Vs. split.
  - unfold node_valid. cbn [children]. constructor; [exact V0|].
    rewrite Forall_forall in *. intros x Ix. apply Vs. eapply coalesce_children; eauto.
  - cbn [node_tree]. change (tree_of (unfold_all a)) with (unfold a).
    rewrite (coalesce_unfold a I es e0 V0 Vs). apply reduce_rnode_coalesced.
Qed.

Lemma reduce_SB (a : arena) k (h l : nid) :
  reduce_node (node_tree (unfold_all a) (SB k h l)) = mk_bnode k (unfold a h) (unfold a l).
Proof. reflexivity. Qed.

(** ** threading the state through a list of edges *)
Lemma map_state_spec {A : Type} (F : ist -> A -> ist * nid) (g : A -> dd) (a0 : arena) :
  forall (l : list (cutV * A)),
  (forall s el, In el (map snd l) -> SOK s -> aext a0 (fst s) -> post (fst s) (g el) (F s el)) ->
  forall s, SOK s -> aext a0 (fst s) ->
  let r := map_state F s l in
  SOK (fst r) /\ aext (fst s) (fst (fst r)) /\ Forall (valid (length (fst (fst r)))) (map snd (snd r)) /\
  map_snd (unfold (fst (fst r))) (snd r) = map_snd g l.
Proof.
  induction l as [|[c el] l IH]; intros HF s S E; cbn zeta.
  - cbn [map_state fst snd map]. split; [exact S|]. split; [apply aext_refl|]. split; [constructor|reflexivity].
  - cbn [map_state].
    destruct (HF s el (or_introl eq_refl) S E) as (S1 & E1 & V1 & U1).
    destruct (F s el) as [s1 b]. cbn [fst snd] in *.
    assert (aext a0 (fst s1)) as E01 by (eapply aext_trans; eauto).
    assert (forall s el, In el (map snd l) -> SOK s -> aext a0 (fst s) -> post (fst s) (g el) (F s el)) as HF'
      by (intros s' el' I'; apply HF; right; exact I').
    specialize (IH HF' s1 S1 E01). cbn zeta in IH.
    destruct (map_state F s1 l) as [s2 bs]. cbn [fst snd] in *. destruct IH as (S2 & E2 & V2 & U2).
    split; [exact S2|]. split; [eapply aext_trans; eauto|]. split.
    + cbn [map snd]. constructor; [eapply aext_valid; eauto|exact V2].
    + unfold map_snd in *. cbn [map fst snd]. rewrite U2. f_equal. f_equal.
      rewrite (aext_unfold (fst s1) (fst s2) b E2 V1). exact U1.
Qed.


(** ** [Edges::map] *)
Definition node_map (g : dd -> dd) (t : dd) : dd :=
  match t with
  | RNode k d0 ds => mk_rnode k (g d0) (map_snd g ds)
  | BNode k h l => mk_bnode k (g h) (g l)
  | Leaf b => Leaf b
  end.

Lemma map_node_spec (F : ist -> nid -> ist * nid) (g : dd -> dd) (a0 : arena) (i : nat) (c : bool) (n : snode) :
  Inv a0 -> nth_error a0 i = Some n ->
  (forall s ch, In ch (children n) -> SOK s -> aext a0 (fst s) ->
     post (fst s) (g (unfold a0 (nnegate ch (NNode i c)))) (F s (nnegate ch (NNode i c)))) ->
  forall s, SOK s -> aext a0 (fst s) ->
  let r := map_node F (NNode i c) s n in
  SOK (fst r) /\ aext (fst s) (fst (fst r)) /\ node_valid (length (fst (fst r))) (snd r) /\
  reduce_node (node_tree (unfold_all (fst (fst r))) (snd r)) = node_map g (unfold a0 (NNode i c)).
Proof.
  intros I0 En HF s S E. cbn zeta. destruct n as [k d0 ds|k h l]; cbn [map_node].
  - rewrite (unfold_SR a0 i c k d0 ds I0 En). cbn [node_map]. cbn [children] in HF.
    destruct (HF s d0 (or_introl eq_refl) S E) as (S0 & E0 & V0 & U0).
    destruct (F s (nnegate d0 (NNode i c))) as [s0 e0]. cbn [fst snd] in *.
    assert (aext a0 (fst s0)) as E00 by (eapply aext_trans; eauto).
    pose proof (map_state_spec (fun s ch => F s (nnegate ch (NNode i c))) (fun ch => g (unfold a0 (nnegate ch (NNode i c)))) a0 ds
                  (fun s' ch I' => HF s' ch (or_intror I')) s0 S0 E00) as Hl.
    cbn zeta in Hl. destruct (map_state _ s0 ds) as [s1 es]. cbn [fst snd] in *. destruct Hl as (S1 & E1 & V1 & U1).
    assert (valid (length (fst s1)) e0) as V0' by (eapply aext_valid; eauto).
    destruct (reduce_SR (fst s1) k e0 es (proj1 S1) V0' V1) as [Vn Rn].
    split; [exact S1|]. split; [eapply aext_trans; eauto|]. split; [exact Vn|].
    rewrite Rn, U1, (aext_unfold (fst s0) (fst s1) e0 E1 V0), U0. now rewrite map_snd_map_snd.
  - rewrite (unfold_SB a0 i c k h l I0 En). cbn [node_map]. cbn [children] in HF.
    destruct (HF s h (or_introl eq_refl) S E) as (S0 & E0 & V0 & U0).
    destruct (F s (nnegate h (NNode i c))) as [s0 eh]. cbn [fst snd] in *.
    assert (aext a0 (fst s0)) as E00 by (eapply aext_trans; eauto).
    destruct (HF s0 l (or_intror (or_introl eq_refl)) S0 E00) as (S1 & E1 & V1 & U1).
    destruct (F s0 (nnegate l (NNode i c))) as [s1 el]. cbn [fst snd] in *.
    split; [exact S1|]. split; [eapply aext_trans; eauto|]. split.
    + unfold node_valid. cbn [children]. constructor; [eapply aext_valid; eauto|]. constructor; [exact V1|constructor].
    + rewrite reduce_SB, U1, (aext_unfold (fst s0) (fst s1) eh E1 V0), U0. reflexivity.
Qed.

(** ** [Edges::apply] *)
Definition node_app (tx ty : dd) : dd :=
  match tx, ty with
  | RNode k a0 la, RNode _ b0 lb => mk_rnode k (tand a0 b0) (merge appf (tand a0) (map_snd tand la) b0 lb)
  | BNode k ha la, BNode _ hb lb => mk_bnode k (tand ha hb) (tand la lb)
  | _, _ => Leaf false
  end.

Lemma merge_map_r {A B B' C : Type} (f : A -> B' -> C) (psi : B -> B') (la : list (cutV * A)) ca (lb : list (cutV * B)) cb :
  merge f ca la (psi cb) (map_snd psi lb) = merge (fun a b => f a (psi b)) ca la cb lb.
Proof.
  rewrite (merge_flip f la ca (map_snd psi lb) (psi cb)).
  rewrite (merge_map_l (fun b a => f a b) psi lb cb la ca).
  rewrite (merge_flip (fun b a => f a (psi b)) lb cb la ca). reflexivity.
Qed.

Lemma apply_node_spec (F : ist -> nid -> nid -> ist * nid) (a0 : arena) (i : nat) (c : bool) (j : nat) (c' : bool) (nx ny : snode) :
  Inv a0 -> nth_error a0 i = Some nx -> nth_error a0 j = Some ny ->
  (forall s ch ch', In ch (children nx) -> In ch' (children ny) -> SOK s -> aext a0 (fst s) ->
     post (fst s) (tand (unfold a0 (nnegate ch (NNode i c))) (unfold a0 (nnegate ch' (NNode j c'))))
          (F s (nnegate ch (NNode i c)) (nnegate ch' (NNode j c')))) ->
  forall s, SOK s -> aext a0 (fst s) ->
  let r := apply_node F (NNode i c) (NNode j c') s nx ny in
  SOK (fst r) /\ aext (fst s) (fst (fst r)) /\ node_valid (length (fst (fst r))) (snd r) /\
  reduce_node (node_tree (unfold_all (fst (fst r))) (snd r)) = node_app (unfold a0 (NNode i c)) (unfold a0 (NNode j c')).
Proof.
  intros I0 Ex Ey HF s S E. cbn zeta.
  destruct nx as [k d0 ds|k h l], ny as [k' e0 es|k' h' l']; cbn [apply_node].
  - (* range / range *)
    rewrite (unfold_SR a0 i c k d0 ds I0 Ex), (unfold_SR a0 j c' k' e0 es I0 Ey). cbn [node_app]. cbn [children] in HF.
    destruct (HF s d0 e0 (or_introl eq_refl) (or_introl eq_refl) S E) as (S0 & E0 & V0 & U0).
    destruct (F s (nnegate d0 (NNode i c)) (nnegate e0 (NNode j c'))) as [s0 r0]. cbn [fst snd] in *.
    assert (aext a0 (fst s0)) as E00 by (eapply aext_trans; eauto).
    set (pairs := merge (fun a b : nid => (a, b)) d0 ds e0 es).
    assert (Forall (fun p : nid * nid => In (fst p) (d0 :: map snd ds) /\ In (snd p) (e0 :: map snd es)) (map snd pairs)) as Hp.
    { apply merge_children. intros a b Ha Hb. cbn [fst snd]. split.
      - destruct Ha as [-> | Ia]; [now left|now right].
      - destruct Hb as [-> | Ib]; [now left|now right]. }
    pose proof (map_state_spec (fun s (p : nid * nid) => F s (nnegate (fst p) (NNode i c)) (nnegate (snd p) (NNode j c')))
                  (fun p : nid * nid => tand (unfold a0 (nnegate (fst p) (NNode i c))) (unfold a0 (nnegate (snd p) (NNode j c')))) a0 pairs) as Hl.
    assert (forall s' (el : nid * nid), In el (map snd pairs) -> SOK s' -> aext a0 (fst s') ->
              post (fst s') (tand (unfold a0 (nnegate (fst el) (NNode i c))) (unfold a0 (nnegate (snd el) (NNode j c'))))
                   (F s' (nnegate (fst el) (NNode i c)) (nnegate (snd el) (NNode j c')))) as HF'.
    { intros s' el Iel. rewrite Forall_forall in Hp. destruct (Hp el Iel) as [I1 I2]. now apply HF. }
    specialize (Hl HF' s0 S0 E00). cbn zeta in Hl.
    destruct (map_state _ s0 pairs) as [s1 rs]. cbn [fst snd] in *. destruct Hl as (S1 & E1 & V1 & U1).
    assert (valid (length (fst s1)) r0) as V0' by (eapply aext_valid; eauto).
    destruct (reduce_SR (fst s1) k r0 rs (proj1 S1) V0' V1) as [Vn Rn].
    split; [exact S1|]. split; [eapply aext_trans; eauto|]. split; [exact Vn|].
    rewrite Rn, U1, (aext_unfold (fst s0) (fst s1) r0 E1 V0), U0. f_equal.
    unfold pairs. rewrite (merge_map_out (fun a b : nid => (a, b))). cbn [fst snd].
    rewrite map_snd_map_snd.
    pose proof (merge_map_l appf (fun d => tand (unfold a0 (nnegate d (NNode i c)))) ds d0
                  (map_snd (fun d => unfold a0 (nnegate d (NNode j c'))) es) (unfold a0 (nnegate e0 (NNode j c')))) as M1.
    cbv beta in M1. rewrite M1.
    pose proof (merge_map_r (fun a b => appf (tand (unfold a0 (nnegate a (NNode i c)))) b)
                  (fun d => unfold a0 (nnegate d (NNode j c'))) ds d0 es e0) as M2.
    cbv beta in M2. rewrite M2. reflexivity.
  - (* range / boolean: [unreachable!] in the crate; both sides are FALSE *)
    rewrite (unfold_SR a0 i c k d0 ds I0 Ex), (unfold_SB a0 j c' k' h' l' I0 Ey). cbn [node_app fst snd svar].
    split; [exact S|]. split; [apply aext_refl|]. split; [repeat constructor|reflexivity].
  - rewrite (unfold_SB a0 i c k h l I0 Ex), (unfold_SR a0 j c' k' e0 es I0 Ey). cbn [node_app fst snd svar].
    split; [exact S|]. split; [apply aext_refl|]. split; [repeat constructor|reflexivity].
  - (* boolean / boolean *)
    rewrite (unfold_SB a0 i c k h l I0 Ex), (unfold_SB a0 j c' k' h' l' I0 Ey). cbn [node_app]. cbn [children] in HF.
    destruct (HF s h h' (or_introl eq_refl) (or_introl eq_refl) S E) as (S0 & E0 & V0 & U0).
    destruct (F s (nnegate h (NNode i c)) (nnegate h' (NNode j c'))) as [s0 rh]. cbn [fst snd] in *.
    assert (aext a0 (fst s0)) as E00 by (eapply aext_trans; eauto).
    destruct (HF s0 l l' (or_intror (or_introl eq_refl)) (or_intror (or_introl eq_refl)) S0 E00) as (S1 & E1 & V1 & U1).
    destruct (F s0 (nnegate l (NNode i c)) (nnegate l' (NNode j c'))) as [s1 rl]. cbn [fst snd] in *.
    split; [exact S1|]. split; [eapply aext_trans; eauto|]. split.
    + unfold node_valid. cbn [children]. constructor; [eapply aext_valid; eauto|]. constructor; [exact V1|constructor].
    + rewrite reduce_SB, U1, (aext_unfold (fst s0) (fst s1) rh E1 V0), U0. reflexivity.
Qed.

(** ** the recursive step of [tand] in terms of [node_map] / [node_app] *)
Lemma tand_core_lt (a b : dd) ka kb : var_of a = Some ka -> var_of b = Some kb -> cmp ka kb = Lt ->
  tand_core a b = node_map (fun d => tand d b) a.
Proof.
  destruct a as [x|ka' a0 la|ka' ha la], b as [y|kb' b0 lb|kb' hb lb]; cbn [var_of]; try discriminate;
    intros [= ->] [= ->] C; unfold tand_core; rewrite C; reflexivity.
Qed.

Lemma tand_core_gt (a b : dd) ka kb : var_of a = Some ka -> var_of b = Some kb -> cmp ka kb = Gt ->
  tand_core a b = node_map (fun d => tand d a) b.
Proof.
  destruct a as [x|ka' a0 la|ka' ha la], b as [y|kb' b0 lb|kb' hb lb]; cbn [var_of]; try discriminate;
    intros [= ->] [= ->] C; unfold tand_core; rewrite C; cbn [node_map].
  - rewrite (tand_comm b0). f_equal. apply map_snd_ext. apply Forall_forall. intros d _. apply tand_comm.
  - now rewrite (tand_comm hb), (tand_comm lb).
  - rewrite (tand_comm b0). f_equal. apply map_snd_ext. apply Forall_forall. intros d _. apply tand_comm.
  - now rewrite (tand_comm hb), (tand_comm lb).
Qed.

Lemma tand_core_eq (a b : dd) ka kb : var_of a = Some ka -> var_of b = Some kb -> cmp ka kb = Eq ->
  tand_core a b = node_app a b.
Proof.
  destruct a as [x|ka' a0 la|ka' ha la], b as [y|kb' b0 lb|kb' hb lb]; cbn [var_of]; try discriminate;
    intros [= ->] [= ->] C; unfold tand_core; rewrite C; reflexivity.
Qed.

(** ** the last step: [create_node] and the cache insertion *)
Lemma create_node_shape (a : arena) (n : snode) :
  fst (create_node a n) = a \/ exists n' fl, create_node a n = (a ++ [n'], NNode (length a) fl).
Proof.
  unfold create_node. destruct (forallb _ _); [left; reflexivity|].
  destruct (find_node _ a 0); [left; reflexivity|right; eauto].
Qed.

Lemma finish_spec (a0 : arena) (s1 : ist) (n : snode) (x y : nid) :
  SOK s1 -> aext a0 (fst s1) -> node_valid (length (fst s1)) n ->
  valid (length a0) x -> valid (length a0) y ->
  reduce_node (node_tree (unfold_all (fst s1)) n) = tand (unfold a0 x) (unfold a0 y) ->
  post a0 (tand (unfold a0 x) (unfold a0 y)) (let (a', r) := create_node (fst s1) n in ((a', ((x, y), r) :: snd s1), r)).
Proof.
  intros (I1 & C1 & W1) E1 Vn Vx Vy R.
  destruct (create_node_spec (fst s1) n I1 Vn) as (I2 & E2 & V2 & U2).
  pose proof (create_node_shape (fst s1) n) as Sh.
  destruct (create_node (fst s1) n) as [a' r]. cbn [fst snd] in *.
  assert (aext a0 a') as E02 by (eapply aext_trans; eauto).
  unfold post. cbn [fst snd]. split; [|split; [exact E02|split; [exact V2|now rewrite U2]]].
  split; cbn [fst snd]; [exact I2|]. split.
  - apply cache_ok_cons; [exact (cache_ok_ext (fst s1) a' _ E2 C1)|eapply aext_valid; eauto|eapply aext_valid; eauto|exact V2|].
    rewrite U2, R. now rewrite (aext_unfold a0 a' x E02 Vx), (aext_unfold a0 a' y E02 Vy).
  - (* the only id that is new is the result (and its complement) *)
    assert (Q (unfold a' r)) as Qr.
    { rewrite U2, R. apply Q_tand.
      - rewrite <- (aext_unfold a0 (fst s1) x E1 Vx). apply W1. eapply aext_valid; eauto.
      - rewrite <- (aext_unfold a0 (fst s1) y E1 Vy). apply W1. eapply aext_valid; eauto. }
    intros z Vz. destruct Sh as [-> | (n' & fl & Esh)]; [now apply W1|].
    injection Esh as -> ->.
    assert (valid (length (fst s1)) z \/ exists cz, z = NNode (length (fst s1)) cz) as [Vold | [cz ->]].
    { destruct z as [| |m cz]; [left; exact Logic.I|left; exact Logic.I|]. cbn [valid] in Vz. rewrite app_length in Vz. cbn [length] in Vz.
      destruct (Nat.eq_dec m (length (fst s1))) as [-> | Ne]; [right; eauto|left; cbn [valid]; lia]. }
    + rewrite (unfold_stable (fst s1) [n'] z Vold). now apply W1.
    + destruct (Bool.eqb cz fl) eqn:Eb.
      * apply eqb_prop in Eb. subst cz. exact Qr.
      * replace (NNode (length (fst s1)) cz) with (nnot (NNode (length (fst s1)) fl)) by (destruct cz, fl; try reflexivity; discriminate).
        rewrite unfold_nnot. now apply Q_tneg.
Qed.


(** ** the main theorem *)
Definition and_body (f : nat) (s : ist) (x y : nid) : ist * nid :=
  if nid_eqb x y then (s, x)
  else if is_false_id x || is_false_id y then (s, NFalse)
  else if nid_eqb (nnot x) y then (s, NFalse)
  else
    match cache_get (snd s) x y with
    | Some r => (s, r)
    | None =>
        match node_at (fst s) x, node_at (fst s) y with
        | Some nx, Some ny =>
            let '(s1, n) :=
              match cmp (svar nx) (svar ny) with
              | Lt => map_node (fun s c => and_i f s c y) x s nx
              | Gt => map_node (fun s c => and_i f s c x) y s ny
              | Eq => apply_node (fun s a b => and_i f s a b) x y s nx ny
              end in
            let (a', r) := create_node (fst s1) n in
            ((a', ((x, y), r) :: snd s1), r)
        | _, _ => (s, NFalse)
        end
    end.

Lemma and_i_S f (s : ist) (x y : nid) :
  and_i (S f) s x y = if is_true_id x then (s, y) else if is_true_id y then (s, x) else and_body f s x y.
Proof. destruct x, y; reflexivity. Qed.

Lemma post_same (s : ist) (t : dd) (r : nid) : SOK s -> valid (length (fst s)) r -> unfold (fst s) r = t -> post (fst s) t (s, r).
Proof. intros S V U. unfold post. cbn [fst snd]. split; [exact S|]. split; [apply aext_refl|]. split; [exact V|exact U]. Qed.

(** fuel: the sum of the ranks of the operands (an id's rank is its arena index + 1, 0 for the terminals;
    the children of the node at index [i] have rank at most [i]) *)
Theorem and_i_post : forall fuel (s : ist) (x y : nid),
  SOK s -> valid (length (fst s)) x -> valid (length (fst s)) y -> rank x + rank y < fuel ->
  post (fst s) (tand (unfold (fst s) x) (unfold (fst s) y)) (and_i fuel s x y).
Proof.
  induction fuel as [|f IH]; intros s x y S Vx Vy Hf; [lia|].
  pose proof S as (I & C & W).
  assert (forall s' u v, SOK s' -> aext (fst s) (fst s') -> valid (length (fst s)) u -> valid (length (fst s)) v ->
            rank u + rank v < f -> post (fst s') (tand (unfold (fst s) u) (unfold (fst s) v)) (and_i f s' u v)) as Hrec.
  { intros s' u v S' E' Vu Vv Hr. rewrite <- (aext_unfold _ _ u E' Vu), <- (aext_unfold _ _ v E' Vv).
    apply IH; auto; eapply aext_valid; eauto. }
  clear IH. rewrite and_i_S.
  pose proof (tand_eq (unfold (fst s) x) (unfold (fst s) y)) as Et. unfold tand_step in Et.
  rewrite (is_true_unfold (fst s) x I Vx), (is_true_unfold (fst s) y I Vy),
          (is_false_unfold (fst s) x I Vx), (is_false_unfold (fst s) y I Vy) in Et.
  rewrite <- (nid_eqb_trees (fst s) x y I Vx Vy) in Et.
  rewrite <- (unfold_nnot (fst s) x) in Et.
  rewrite <- (nid_eqb_trees (fst s) (nnot x) y I (proj2 (valid_nnot _ x) Vx) Vy) in Et.
  destruct (is_true_id x) eqn:Tx. { rewrite Et. now apply post_same. }
  destruct (is_true_id y) eqn:Ty. { rewrite Et. now apply post_same. }
  unfold and_body.
  destruct (nid_eqb x y) eqn:Exy. { rewrite Et. now apply post_same. }
  destruct (is_false_id x || is_false_id y) eqn:Ef. { rewrite Et. apply post_same; [exact S|exact Logic.I|reflexivity]. }
  destruct (nid_eqb (nnot x) y) eqn:Enxy. { rewrite Et. apply post_same; [exact S|exact Logic.I|reflexivity]. }
  destruct (cache_get (snd s) x y) as [r|] eqn:G.
  { destruct (C x y r G) as (_ & _ & Vr & Ur). now apply post_same. }
  destruct x as [| |i c]; [discriminate Tx|cbn [is_false_id orb] in Ef; discriminate Ef|].
  destruct y as [| |j c']; [discriminate Ty|cbn [is_false_id orb] in Ef; discriminate Ef|].
  cbn [node_at]. cbn [valid] in Vx, Vy.
  destruct (nth_error (fst s) i) as [nx|] eqn:Ex; [|apply nth_error_None in Ex; lia].
  destruct (nth_error (fst s) j) as [ny|] eqn:Ey; [|apply nth_error_None in Ey; lia].
  pose proof (entry_children (fst s) I i nx Ex) as Cx. pose proof (entry_children (fst s) I j ny Ey) as Cy.
  rewrite Forall_forall in Cx, Cy.
  pose proof (var_of_unfold (fst s) i c nx I Ex) as Kx. pose proof (var_of_unfold (fst s) j c' ny I Ey) as Ky.
  cbn [rank] in Hf.
  destruct (cmp (svar nx) (svar ny)) eqn:Cm.
  - (* same variable: [apply] *)
    rewrite (tand_core_eq _ _ _ _ Kx Ky Cm) in Et.
    assert (forall s' ch ch', In ch (children nx) -> In ch' (children ny) -> SOK s' -> aext (fst s) (fst s') ->
              post (fst s') (tand (unfold (fst s) (nnegate ch (NNode i c))) (unfold (fst s) (nnegate ch' (NNode j c'))))
                   (and_i f s' (nnegate ch (NNode i c)) (nnegate ch' (NNode j c')))) as HF.
    { intros s' ch ch' Ich Ich' S' E'. destruct (Cx ch Ich) as [Rc Vc]. destruct (Cy ch' Ich') as [Rc' Vc'].
      apply Hrec; auto; try (now apply valid_nnegate). rewrite !rank_nnegate. lia. }
    pose proof (apply_node_spec (fun s a b => and_i f s a b) (fst s) i c j c' nx ny I Ex Ey HF s S (aext_refl _)) as Hm.
    cbv zeta in Hm. destruct (apply_node _ (NNode i c) (NNode j c') s nx ny) as [s1 n]. cbn [fst snd] in Hm.
    destruct Hm as (S1 & E1 & Vn & Rn).
    apply (finish_spec (fst s) s1 n (NNode i c) (NNode j c') S1 E1 Vn Vx Vy). now rewrite Rn, Et.
  - (* the variable of [x] comes first: [map] over the children of [x] *)
    rewrite (tand_core_lt _ _ _ _ Kx Ky Cm) in Et.
    assert (forall s' ch, In ch (children nx) -> SOK s' -> aext (fst s) (fst s') ->
              post (fst s') ((fun d => tand d (unfold (fst s) (NNode j c'))) (unfold (fst s) (nnegate ch (NNode i c))))
                   (and_i f s' (nnegate ch (NNode i c)) (NNode j c'))) as HF.
    { intros s' ch Ich S' E'. destruct (Cx ch Ich) as [Rc Vc]. cbv beta.
      apply Hrec; auto; try (now apply valid_nnegate). rewrite rank_nnegate. cbn [rank]. lia. }
    pose proof (map_node_spec (fun s ch => and_i f s ch (NNode j c')) (fun d => tand d (unfold (fst s) (NNode j c')))
                  (fst s) i c nx I Ex HF s S (aext_refl _)) as Hm.
    cbv zeta in Hm. destruct (map_node _ (NNode i c) s nx) as [s1 n]. cbn [fst snd] in Hm.
    destruct Hm as (S1 & E1 & Vn & Rn).
    apply (finish_spec (fst s) s1 n (NNode i c) (NNode j c') S1 E1 Vn Vx Vy). now rewrite Rn, Et.
  - (* the variable of [y] comes first: [map] over the children of [y], with the operands swapped as the crate does *)
    rewrite (tand_core_gt _ _ _ _ Kx Ky Cm) in Et.
    assert (forall s' ch, In ch (children ny) -> SOK s' -> aext (fst s) (fst s') ->
              post (fst s') ((fun d => tand d (unfold (fst s) (NNode i c))) (unfold (fst s) (nnegate ch (NNode j c'))))
                   (and_i f s' (nnegate ch (NNode j c')) (NNode i c))) as HF.
    { intros s' ch Ich S' E'. destruct (Cy ch Ich) as [Rc Vc]. cbv beta.
      apply Hrec; auto; try (now apply valid_nnegate). rewrite rank_nnegate. cbn [rank]. lia. }
    pose proof (map_node_spec (fun s ch => and_i f s ch (NNode i c)) (fun d => tand d (unfold (fst s) (NNode i c)))
                  (fst s) j c' ny I Ey HF s S (aext_refl _)) as Hm.
    cbv zeta in Hm. destruct (map_node _ (NNode j c') s ny) as [s1 n]. cbn [fst snd] in Hm.
    destruct Hm as (S1 & E1 & Vn & Rn).
    apply (finish_spec (fst s) s1 n (NNode i c) (NNode j c') S1 E1 Vn Vx Vy). now rewrite Rn, Et.
Qed.

Definition enough_fuel (x y : nid) (fuel : nat) : Prop := rank x + rank y < fuel.

Theorem and_i_spec_gen (fuel : nat) (s : ist) (x y : nid) :
  SOK s -> valid (length (fst s)) x -> valid (length (fst s)) y -> enough_fuel x y fuel ->
  let '(s', r) := and_i fuel s x y in
  SOK s' /\ aext (fst s) (fst s') /\ valid (length (fst s')) r /\
  unfold (fst s') r = tand (unfold (fst s) x) (unfold (fst s) y).
Proof.
  intros S Vx Vy Hf. pose proof (and_i_post fuel s x y S Vx Vy Hf) as P.
  destruct (and_i fuel s x y) as [s' r]. exact P.
Qed.

(** [or] *)
Corollary or_i_spec_gen (fuel : nat) (s : ist) (x y : nid) :
  SOK s -> valid (length (fst s)) x -> valid (length (fst s)) y -> enough_fuel x y fuel ->
  let '(s', r) := or_i fuel s x y in
  SOK s' /\ aext (fst s) (fst s') /\ valid (length (fst s')) r /\
  unfold (fst s') r = tor (unfold (fst s) x) (unfold (fst s) y).
Proof.
  intros S Vx Vy Hf. unfold or_i.
  assert (enough_fuel (nnot x) (nnot y) fuel) as Hf' by (unfold enough_fuel in *; now rewrite !rank_nnot).
  pose proof (and_i_post fuel s (nnot x) (nnot y) S (proj2 (valid_nnot _ x) Vx) (proj2 (valid_nnot _ y) Vy) Hf') as P.
  destruct (and_i fuel s (nnot x) (nnot y)) as [s' r]. destruct P as (S' & E' & V' & U'). cbn [fst snd] in *.
  split; [exact S'|]. split; [exact E'|]. split; [now apply valid_nnot|].
  rewrite unfold_nnot, U', !unfold_nnot. reflexivity.
Qed.

(** the cache never changes an answer: any two valid caches over the same arena give ids of the same diagram
    (and then, by [unfold_inj], the same id in any common extension of the two resulting arenas) *)
Corollary and_i_cache_irrelevant_gen (fuel1 fuel2 : nat) (a : arena) (c1 c2 : cache) (x y : nid) :
  SOK (a, c1) -> SOK (a, c2) -> valid (length a) x -> valid (length a) y ->
  enough_fuel x y fuel1 -> enough_fuel x y fuel2 ->
  let '(s1, r1) := and_i fuel1 (a, c1) x y in
  let '(s2, r2) := and_i fuel2 (a, c2) x y in
  unfold (fst s1) r1 = unfold (fst s2) r2.
Proof.
  intros S1 S2 Vx Vy H1 H2.
  pose proof (and_i_post fuel1 (a, c1) x y S1 Vx Vy H1) as P1. pose proof (and_i_post fuel2 (a, c2) x y S2 Vx Vy H2) as P2.
  destruct (and_i fuel1 (a, c1) x y) as [s1 r1]. destruct (and_i fuel2 (a, c2) x y) as [s2 r2].
  destruct P1 as (_ & _ & _ & U1). destruct P2 as (_ & _ & _ & U2). cbn [fst snd] in *. now rewrite U1, U2.
Qed.

End WithQ.

(** every id of a store satisfying [Inv] denotes a node-wise reduced diagram *)
Lemma unfold_reduced (a : arena) (x : nid) : Inv a -> valid (length a) x -> reduce_node (unfold a x) = unfold a x.
Proof.
  intros I V. destruct x as [| |i c]; [reflexivity|reflexivity|]. cbn [valid] in V.
  destruct (nth_error a i) as [m|] eqn:E; [|apply nth_error_None in E; lia].
  unfold unfold. rewrite (unfold_node a I i c m E).
  assert (reduce_node (node_tree (unfold_all a) m) = node_tree (unfold_all a) m) as R.
  { apply not_all_equal_reduce; [exact I| |exact (proj2 (inv_normal _ I i m E))].
    pose proof (inv_closed _ I i m E) as Vm. unfold node_valid in *. rewrite Forall_forall in *.
    intros z Iz. eapply valid_mono; [|apply Vm; exact Iz]. lia. }
  destruct c; [rewrite reduce_node_tneg; now f_equal|exact R].
Qed.

(** ** the two instances: no condition on the stored diagrams / every stored diagram well formed *)
Variable is_range : var -> bool.

Definition SOK0 : ist -> Prop := SOK (fun _ => True).
Definition SOKwf : ist -> Prop := SOK (wf is_range).

Lemma SOKwf_SOK0 (s : ist) : SOKwf s -> SOK0 s.
Proof. intros (I & C & _). split; [exact I|]. split; [exact C|]. intros x _. exact Logic.I. Qed.

Lemma SOK0_init (a : arena) : Inv a -> SOK0 (a, []).
Proof. intros I. split; [exact I|]. split; [apply cache_ok_nil|]. intros x _. exact Logic.I. Qed.

Lemma wf_tand (a b : dd) : wf is_range a -> wf is_range b -> wf is_range (tand a b).
Proof. intros Wa Wb. exact (proj1 (tand_wf is_range a Wa b Wb)). Qed.

(** the theorem as asked for: the state invariant contains the well-formedness of every stored diagram,
    and it is re-established *)
Theorem and_i_spec (fuel : nat) (s : ist) (x y : nid) :
  SOKwf s -> valid (length (fst s)) x -> valid (length (fst s)) y -> enough_fuel x y fuel ->
  let '(s', r) := and_i fuel s x y in
  SOKwf s' /\ aext (fst s) (fst s') /\ valid (length (fst s')) r /\
  unfold (fst s') r = tand (unfold (fst s) x) (unfold (fst s) y).
Proof. exact (and_i_spec_gen (wf is_range) wf_tand (tneg_wf is_range) fuel s x y). Qed.

(** ... and it is not needed for the result itself *)
Theorem and_i_spec0 (fuel : nat) (s : ist) (x y : nid) :
  SOK0 s -> valid (length (fst s)) x -> valid (length (fst s)) y -> enough_fuel x y fuel ->
  let '(s', r) := and_i fuel s x y in
  SOK0 s' /\ aext (fst s) (fst s') /\ valid (length (fst s')) r /\
  unfold (fst s') r = tand (unfold (fst s) x) (unfold (fst s) y).
Proof. exact (and_i_spec_gen (fun _ => True) (fun _ _ _ _ => Logic.I) (fun _ _ => Logic.I) fuel s x y). Qed.

Corollary or_i_spec (fuel : nat) (s : ist) (x y : nid) :
  SOKwf s -> valid (length (fst s)) x -> valid (length (fst s)) y -> enough_fuel x y fuel ->
  let '(s', r) := or_i fuel s x y in
  SOKwf s' /\ aext (fst s) (fst s') /\ valid (length (fst s')) r /\
  unfold (fst s') r = tor (unfold (fst s) x) (unfold (fst s) y).
Proof. exact (or_i_spec_gen (wf is_range) wf_tand (tneg_wf is_range) fuel s x y). Qed.

Corollary or_i_spec0 (fuel : nat) (s : ist) (x y : nid) :
  SOK0 s -> valid (length (fst s)) x -> valid (length (fst s)) y -> enough_fuel x y fuel ->
  let '(s', r) := or_i fuel s x y in
  SOK0 s' /\ aext (fst s) (fst s') /\ valid (length (fst s')) r /\
  unfold (fst s') r = tor (unfold (fst s) x) (unfold (fst s) y).
Proof. exact (or_i_spec_gen (fun _ => True) (fun _ _ _ _ => Logic.I) (fun _ _ => Logic.I) fuel s x y). Qed.

Corollary and_i_cache_irrelevant (fuel1 fuel2 : nat) (a : arena) (c1 c2 : cache) (x y : nid) :
  SOK0 (a, c1) -> SOK0 (a, c2) -> valid (length a) x -> valid (length a) y ->
  enough_fuel x y fuel1 -> enough_fuel x y fuel2 ->
  let '(s1, r1) := and_i fuel1 (a, c1) x y in
  let '(s2, r2) := and_i fuel2 (a, c2) x y in
  unfold (fst s1) r1 = unfold (fst s2) r2.
Proof. exact (and_i_cache_irrelevant_gen (fun _ => True) (fun _ _ _ _ => Logic.I) (fun _ _ => Logic.I) fuel1 fuel2 a c1 c2 x y). Qed.

(** in particular the memoised run agrees with the run on an empty cache *)
Corollary and_i_cold_cache (fuel : nat) (s : ist) (x y : nid) :
  SOK0 s -> valid (length (fst s)) x -> valid (length (fst s)) y -> enough_fuel x y fuel ->
  let '(s1, r1) := and_i fuel s x y in
  let '(s2, r2) := and_i fuel (fst s, []) x y in
  unfold (fst s1) r1 = unfold (fst s2) r2.
Proof.
  intros S Vx Vy Hf. destruct s as [a c]. cbn [fst] in *.
  apply (and_i_cache_irrelevant fuel fuel a c [] x y); auto. apply SOK0_init. exact (proj1 S).
Qed.
End AndProofs.

Print Assumptions tand_comm.
Print Assumptions and_i_spec.
Print Assumptions and_i_spec0.
Print Assumptions or_i_spec.
Print Assumptions and_i_cache_irrelevant.
Print Assumptions and_i_cold_cache.

(** ** the concrete marker instance: [and_i] yields the id that the abstract operation of Intern.v yields *)
From Coq Require Import NArith.
From PV Require Import Marker.Concrete Marker.Expr Interner.Intern Interner.InternProofs.
Local Open Scope nat_scope.

Notation mist := (ist (var:=var) (val:=val)).

(** [aext] is the [ext] of InternProofs.v *)
Lemma aext_is_ext (a a' : marena) : aext a a' <-> ext a a'.
Proof. reflexivity. Qed.

Lemma intern_go_present (a : marena) (p : nid) : forall es : list (cut val * nid),
  (forall d, In d (map snd es) -> intern a (unfold a (nnegate d p)) = (a, nnegate d p)) ->
  (fix go (a : marena) (l : list (cut val * mdd)) : marena * list (cut val * nid) :=
     match l with
     | [] => (a, [])
     | (c, d) :: l' => let (a', x) := intern a d in let (a'', xs) := go a' l' in (a'', (c, x) :: xs)
     end) a (map_snd (fun d => unfold a (nnegate d p)) es) = (a, map_snd (fun d => nnegate d p) es).
Proof.
  unfold map_snd. induction es as [|[c d] es IH]; intros Hd; [reflexivity|].
  cbn [map fst snd]. rewrite (Hd d (or_introl eq_refl)). rewrite IH; [reflexivity|].
  intros d' I'. apply Hd. right. exact I'.
Qed.

(** interning a diagram that some id of the store already denotes finds that id and adds nothing *)
Lemma intern_present : forall n (a : marena) (x : nid), Inv a -> valid (length a) x -> rank x <= n ->
  intern a (unfold a x) = (a, x).
Proof.
  induction n as [|n IH]; intros a x I V R.
  - destruct x; [reflexivity|reflexivity|cbn [rank] in R; lia].
  - destruct x as [| |i c]; [reflexivity|reflexivity|]. cbn [valid] in V. cbn [rank] in R.
    destruct (nth_error a i) as [m|] eqn:E; [|apply nth_error_None in E; lia].
    pose proof (entry_children a I i m E) as Cm. rewrite Forall_forall in Cm.
    assert (forall ch, In ch (children m) -> intern a (unfold a (nnegate ch (NNode i c))) = (a, nnegate ch (NNode i c))) as Hch.
    { intros ch Ich. destruct (Cm ch Ich) as [Rc Vc]. apply IH; [exact I|now apply valid_nnegate|rewrite rank_nnegate; lia]. }
    assert (forall m', node_valid (length a) m' -> node_tree (unfold_all a) m' = unfold a (NNode i c) ->
                       create_node a m' = (a, NNode i c)) as Hcn.
    { intros m' Vm' Em'. destruct (create_node_spec a m' I Vm') as (I2 & E2 & V2 & U2).
      pose proof (create_node_shape a m') as Sh. destruct (create_node a m') as [a' r]. cbn [fst snd] in *.
      rewrite Em', (unfold_reduced a (NNode i c) I V) in U2.
      assert (valid (length a') (NNode i c)) as V' by (destruct E2 as [b ->]; rewrite app_length; cbn [valid]; lia).
      assert (r = NNode i c) as ->.
      { apply (unfold_inj a' r (NNode i c) I2 V2 V'). rewrite U2. symmetry. destruct E2 as [b ->]. apply unfold_stable. exact V. }
      destruct Sh as [-> | (n' & fl & Esh)]; [reflexivity|]. injection Esh as _ Ei _. lia. }
    assert (forall ch, In ch (children m) -> valid (length a) (nnegate ch (NNode i c))) as Vch.
    { intros ch Ich. destruct (Cm ch Ich) as [Rc Vc]. now apply valid_nnegate. }
    destruct m as [k d0 ds|k h l]; cbn [children] in Hch, Vch.
    + rewrite (unfold_SR a i c k d0 ds I E). cbn [intern].
      rewrite (Hch d0 (or_introl eq_refl)).
      rewrite (intern_go_present a (NNode i c) ds (fun d Id => Hch d (or_intror Id))).
      apply Hcn.
      * unfold node_valid. cbn [children]. constructor; [apply Vch; now left|].
        rewrite map_snd_children, Forall_map, Forall_forall. intros d Id. apply Vch. now right.
      * rewrite (unfold_SR a i c k d0 ds I E). cbn [node_tree]. now rewrite map_snd_map_snd.
    + rewrite (unfold_SB a i c k h l I E). cbn [intern].
      rewrite (Hch h (or_introl eq_refl)), (Hch l (or_intror (or_introl eq_refl))).
      apply Hcn.
      * unfold node_valid. cbn [children]. constructor; [apply Vch; now left|]. constructor; [apply Vch; right; now left|constructor].
      * rewrite (unfold_SB a i c k h l I E). reflexivity.
Qed.

(** the id computed by the memoised recursion is the id that "unfold the operands, apply [m_and], intern the
    result" (the abstraction of Intern.v) yields - in the store [and_i] leaves behind, where nothing has to be added *)
Corollary and_i_refines (fuel : nat) (s : mist) (x y : nid) :
  SOK0 s -> valid (length (fst s)) x -> valid (length (fst s)) y -> enough_fuel x y fuel ->
  let '(s', r) := and_i fuel s x y in
  intern (fst s') (m_and (unfold (fst s) x) (unfold (fst s) y)) = (fst s', r).
Proof.
  intros S Vx Vy Hf. pose proof (and_i_spec0 fuel s x y S Vx Vy Hf) as P.
  destruct (and_i fuel s x y) as [s' r]. destruct P as (S' & E' & V' & U').
  unfold m_and. rewrite <- U'. apply (intern_present (rank r) (fst s') r (proj1 S') V' (le_n _)).
Qed.

Corollary or_i_refines (fuel : nat) (s : mist) (x y : nid) :
  SOK0 s -> valid (length (fst s)) x -> valid (length (fst s)) y -> enough_fuel x y fuel ->
  let '(s', r) := or_i fuel s x y in
  intern (fst s') (m_or (unfold (fst s) x) (unfold (fst s) y)) = (fst s', r).
Proof.
  intros S Vx Vy Hf. pose proof (or_i_spec0 fuel s x y S Vx Vy Hf) as P.
  destruct (or_i fuel s x y) as [s' r]. destruct P as (S' & E' & V' & U').
  unfold m_or. rewrite <- U'. apply (intern_present (rank r) (fst s') r (proj1 S') V' (le_n _)).
Qed.

Print Assumptions and_i_refines.
Print Assumptions or_i_refines.

(** non-vacuity: two interned markers, [(os_name == 'b' or extra == 'a')] and
    [(k0 >= '3.8' and not os_name < 'c')]; the recursion goes through the [Greater] arm (operands swapped),
    then the [Equal] arm (merge of the two cut lists) below a complemented edge, creates two nodes and two
    cache entries, and returns the id [intern] gives for [m_and]; a second call is answered from the cache;
    [or_i] likewise *)
Example and_i_example :
  let t1 : mdd := m_or (expression 2%N 1%N (EString 1%N SEq [98%N])) (expression 2%N 1%N (EExtra false false [97%N])) in
  let t2 : mdd := m_and (expression 2%N 1%N (EVersion 0%N OGe [3%N; 8%N])) (m_not (expression 2%N 1%N (EString 1%N SLt [99%N]))) in
  let '(a1, x) := intern [] t1 in
  let '(a2, y) := intern a1 t2 in
  let '(s', r) := and_i (S (rank x + rank y)) (a2, []) x y in
  let '(s'', r') := or_i (S (rank x + rank y)) s' x y in
  length a2 = 4 /\ length (fst s') = 6 /\ length (snd s') = 2 /\ r = NNode 5 true /\
  unfold (fst s') r = m_and t1 t2 /\
  intern (fst s') (m_and t1 t2) = (fst s', r) /\
  intern a2 (m_and t1 t2) = (fst s', r) /\
  and_i 1 s' x y = (s', r) /\
  unfold (fst s'') r' = m_or t1 t2 /\
  intern (fst s'') (m_or t1 t2) = (fst s'', r').
Proof. vm_compute. repeat split; reflexivity. Qed.
