(** L2: the recursion [disjoint_i] on node ids (DisjModel.v) computes the L1 [tdisjoint] of the unfolded
    diagrams, in every store satisfying the invariant.  Hence it is symmetric, its verdicts never change
    when the store grows, and it answers [true] exactly when the memoised [and_i] returns FALSE. *)
From Coq Require Import List Bool Arith Lia.
From PV Require Import Base.ListLemmas Base.Order Base.CutDef Base.CutLemmas DD.DDModel DD.DDBasics DD.DDAnd DD.DDDisjoint
  Interner.Store Interner.StoreProofs Interner.CreateProofs Interner.AndModel Interner.AndProofs Interner.DisjModel.
Import ListNotations.

Section DisjProofs.
Context {var val : Type} `{TotalOrder var} `{TotalOrder val}.
Notation cutV := (cut val).
Notation dd := (dd var val).
Notation snode := (snode (var:=var) (val:=val)).
Notation arena := (list snode).
Notation ist := (ist (var:=var) (val:=val)).

(** ** list helpers *)
Lemma dj_forallb_ext_in {A} (f g : A -> bool) (l : list A) : (forall x, In x l -> f x = g x) -> forallb f l = forallb g l.
Proof. induction l as [|x l IH]; cbn [forallb]; [reflexivity|]. intros Hl. rewrite (Hl x (or_introl eq_refl)), IH; [reflexivity|]. intros z Iz. apply Hl. now right. Qed.

Lemma dj_forallb_map {A B} (f : B -> bool) (g : A -> B) (l : list A) : forallb f (map g l) = forallb (fun x => f (g x)) l.
Proof. induction l as [|x l IH]; cbn [map forallb]; [reflexivity|]. now rewrite IH. Qed.

Lemma dj_forallb_snd {A B} (h : B -> bool) (l : list (A * B)) : forallb (fun p => h (snd p)) l = forallb h (map snd l).
Proof. induction l as [|x l IH]; cbn [map forallb]; [reflexivity|]. now rewrite IH. Qed.

Lemma dj_forallb_id {A} (f : A -> bool) (l : list A) : forallb f l = forallb (fun x => x) (map f l).
Proof. induction l as [|x l IH]; cbn [map forallb]; [reflexivity|]. now rewrite IH. Qed.

(** ** the recursive step of [tdisjoint] over the list of children *)
Definition tchildren (t : dd) : list dd :=
  match t with Leaf _ => [] | RNode _ d0 ds => d0 :: map snd ds | BNode _ h l => [h; l] end.

Definition tdis_app (tx ty : dd) : bool :=
  match tx, ty with
  | RNode _ a0 la, RNode _ b0 lb =>
      tdisjoint a0 b0 && forallb (fun x => x) (map snd (merge appf (tdisjoint a0) (map_snd tdisjoint la) b0 lb))
  | BNode _ ha la, BNode _ hb lb => tdisjoint ha hb && tdisjoint la lb
  | _, _ => true
  end.

Lemma tdis_core_lt (a b : dd) ka kb : var_of a = Some ka -> var_of b = Some kb -> cmp ka kb = Lt ->
  tdis_core a b = forallb (fun d => tdisjoint d b) (tchildren a).
Proof.
  destruct a as [x|ka' a0 la|ka' ha la], b as [y|kb' b0 lb|kb' hb lb]; cbn [var_of]; try discriminate;
    intros [= ->] [= ->] C; unfold tdis_core; rewrite C; cbn [tchildren forallb]; rewrite ?andb_true_r; reflexivity.
Qed.

Lemma tdis_core_gt (a b : dd) ka kb : var_of a = Some ka -> var_of b = Some kb -> cmp ka kb = Gt ->
  tdis_core a b = forallb (fun d => tdisjoint d a) (tchildren b).
Proof.
  destruct a as [x|ka' a0 la|ka' ha la], b as [y|kb' b0 lb|kb' hb lb]; cbn [var_of]; try discriminate;
    intros [= ->] [= ->] C; unfold tdis_core; rewrite C; cbn [tchildren forallb]; rewrite ?andb_true_r.
  - rewrite (tdisjoint_sym (RNode ka a0 la) b0). f_equal. apply dj_forallb_ext_in. intros d _. apply tdisjoint_sym.
  - now rewrite (tdisjoint_sym (RNode ka a0 la) hb), (tdisjoint_sym (RNode ka a0 la) lb).
  - rewrite (tdisjoint_sym (BNode ka ha la) b0). f_equal. apply dj_forallb_ext_in. intros d _. apply tdisjoint_sym.
  - now rewrite (tdisjoint_sym (BNode ka ha la) hb), (tdisjoint_sym (BNode ka ha la) lb).
Qed.

Lemma tdis_core_eq (a b : dd) ka kb : var_of a = Some ka -> var_of b = Some kb -> cmp ka kb = Eq ->
  tdis_core a b = tdis_app a b.
Proof.
  destruct a as [x|ka' a0 la|ka' ha la], b as [y|kb' b0 lb|kb' hb lb]; cbn [var_of]; try discriminate;
    intros [= ->] [= ->] C; unfold tdis_core; rewrite C; reflexivity.
Qed.

(** ** ids: the children of an unfolded id *)
Lemma tchildren_unfold (a : arena) i c (n : snode) : Inv a -> nth_error a i = Some n ->
  tchildren (unfold a (NNode i c)) = map (fun ch => unfold a (nnegate ch (NNode i c))) (children n).
Proof.
  intros I E. destruct n as [k d0 ds|k h l].
  - rewrite (unfold_SR a i c k d0 ds I E). cbn [tchildren children map]. f_equal. apply map_snd_children.
  - rewrite (unfold_SB a i c k h l I E). reflexivity.
Qed.

Lemma is_true_unfold' (a : arena) (x : nid) : Inv a -> valid (length a) x -> is_true (unfold a x) = is_true_id x.
Proof. exact (is_true_unfold a x). Qed.

(** the [Lt] / [Gt] arms: all children of one operand against the other operand *)
Lemma disj_map_arm (D : nid -> bool) (a : arena) i c (n : snode) (t : dd) : Inv a -> nth_error a i = Some n ->
  (forall ch, In ch (children n) -> D (nnegate ch (NNode i c)) = tdisjoint (unfold a (nnegate ch (NNode i c))) t) ->
  forallb (fun ch => D (nnegate ch (NNode i c))) (children n) = forallb (fun d => tdisjoint d t) (tchildren (unfold a (NNode i c))).
Proof.
  intros I E HD. rewrite (tchildren_unfold a i c n I E), dj_forallb_map. apply dj_forallb_ext_in. exact HD.
Qed.

(** the [Eq] arm: the pairs of children that the merge of the two cut lists brings together *)
Lemma disj_app_arm (D : nid -> nid -> bool) (a : arena) i c j c' (nx ny : snode) :
  Inv a -> nth_error a i = Some nx -> nth_error a j = Some ny ->
  (forall ch ch', In ch (children nx) -> In ch' (children ny) ->
     D (nnegate ch (NNode i c)) (nnegate ch' (NNode j c'))
     = tdisjoint (unfold a (nnegate ch (NNode i c))) (unfold a (nnegate ch' (NNode j c')))) ->
  match nx, ny with
  | SR _ d0 ds, SR _ e0 es =>
      D (nnegate d0 (NNode i c)) (nnegate e0 (NNode j c')) &&
      forallb (fun p : cutV * (nid * nid) => D (nnegate (fst (snd p)) (NNode i c)) (nnegate (snd (snd p)) (NNode j c')))
              (merge (fun u v => (u, v)) d0 ds e0 es)
  | SB _ h l, SB _ h' l' =>
      D (nnegate h (NNode i c)) (nnegate h' (NNode j c')) && D (nnegate l (NNode i c)) (nnegate l' (NNode j c'))
  | _, _ => true
  end = tdis_app (unfold a (NNode i c)) (unfold a (NNode j c')).
Proof.
  intros I Ex Ey HD. destruct nx as [k d0 ds|k h l], ny as [k' e0 es|k' h' l'].
  - rewrite (unfold_SR a i c k d0 ds I Ex), (unfold_SR a j c' k' e0 es I Ey). cbn [tdis_app]. cbn [children] in HD.
    rewrite (HD d0 e0 (or_introl eq_refl) (or_introl eq_refl)). f_equal.
    set (pairs := merge (fun u v : nid => (u, v)) d0 ds e0 es).
    assert (Forall (fun p : nid * nid => In (fst p) (d0 :: map snd ds) /\ In (snd p) (e0 :: map snd es)) (map snd pairs)) as Hp.
    { apply merge_children. intros u v Hu Hv. cbn [fst snd]. split.
      - destruct Hu as [-> | Iu]; [now left|now right].
      - destruct Hv as [-> | Iv]; [now left|now right]. }
    rewrite (dj_forallb_snd (fun q : nid * nid => D (nnegate (fst q) (NNode i c)) (nnegate (snd q) (NNode j c'))) pairs).
    rewrite (dj_forallb_ext_in _ (fun q : nid * nid => tdisjoint (unfold a (nnegate (fst q) (NNode i c))) (unfold a (nnegate (snd q) (NNode j c'))))
               (map snd pairs)).
    2:{ intros q Iq. rewrite Forall_forall in Hp. destruct (Hp q Iq) as [I1 I2]. now apply HD. }
    rewrite dj_forallb_id, <- (map_snd_children _ pairs). unfold pairs.
    rewrite (merge_map_out (fun u v : nid => (u, v))). cbn [fst snd].
    rewrite map_snd_map_snd.
    pose proof (merge_map_l appf (fun d => tdisjoint (unfold a (nnegate d (NNode i c)))) ds d0
                  (map_snd (fun d => unfold a (nnegate d (NNode j c'))) es) (unfold a (nnegate e0 (NNode j c')))) as M1.
    cbv beta in M1. rewrite M1.
    pose proof (merge_map_r (fun u v => appf (tdisjoint (unfold a (nnegate u (NNode i c)))) v)
                  (fun d => unfold a (nnegate d (NNode j c'))) ds d0 es e0) as M2.
    cbv beta in M2. rewrite M2. reflexivity.
  - rewrite (unfold_SR a i c k d0 ds I Ex), (unfold_SB a j c' k' h' l' I Ey). reflexivity.
  - rewrite (unfold_SB a i c k h l I Ex), (unfold_SR a j c' k' e0 es I Ey). reflexivity.
  - rewrite (unfold_SB a i c k h l I Ex), (unfold_SB a j c' k' h' l' I Ey). cbn [tdis_app]. cbn [children] in HD.
    rewrite (HD h h' (or_introl eq_refl) (or_introl eq_refl)).
    rewrite (HD l l' (or_intror (or_introl eq_refl)) (or_intror (or_introl eq_refl))). reflexivity.
Qed.

(** ** one step of [disjoint_i] *)
Definition disj_body (f : nat) (a : arena) (x y : nid) : bool :=
  match node_at a x, node_at a y with
  | Some nx, Some ny =>
      match cmp (svar nx) (svar ny) with
      | Lt => forallb (fun c => disjoint_i f a (nnegate c x) y) (children nx)
      | Gt => forallb (fun c => disjoint_i f a (nnegate c y) x) (children ny)
      | Eq =>
          match nx, ny with
          | SR _ d0 ds, SR _ e0 es =>
              disjoint_i f a (nnegate d0 x) (nnegate e0 y) &&
              forallb (fun p : cutV * (nid * nid) => disjoint_i f a (nnegate (fst (snd p)) x) (nnegate (snd (snd p)) y))
                      (merge (fun u v => (u, v)) d0 ds e0 es)
          | SB _ h l, SB _ h' l' =>
              disjoint_i f a (nnegate h x) (nnegate h' y) && disjoint_i f a (nnegate l x) (nnegate l' y)
          | _, _ => true
          end
      end
  | _, _ => false
  end.

Lemma disjoint_i_S f (a : arena) (x y : nid) :
  disjoint_i (S f) a x y =
    if is_false_id x || is_false_id y then true
    else if is_true_id x || is_true_id y then false
    else if nid_eqb x y then false
    else if nid_eqb (nnot x) y then true
    else disj_body f a x y.
Proof. reflexivity. Qed.

(** ** the main theorem *)
Theorem disjoint_i_spec : forall fuel (a : arena) (x y : nid),
  Inv a -> valid (length a) x -> valid (length a) y -> rank x + rank y < fuel ->
  disjoint_i fuel a x y = tdisjoint (unfold a x) (unfold a y).
Proof.
  induction fuel as [|f IH]; intros a x y I Vx Vy Hf; [lia|].
  rewrite disjoint_i_S, tdis_eq. unfold tdis_step.
  rewrite (is_true_unfold' a x I Vx), (is_true_unfold' a y I Vy), (is_false_unfold a x I Vx), (is_false_unfold a y I Vy).
  rewrite <- (nid_eqb_trees a x y I Vx Vy).
  rewrite <- (unfold_nnot a x).
  rewrite <- (nid_eqb_trees a (nnot x) y I (proj2 (valid_nnot _ x) Vx) Vy).
  destruct (is_false_id x || is_false_id y) eqn:Ef; [reflexivity|].
  destruct (is_true_id x || is_true_id y) eqn:Et; [reflexivity|].
  destruct (nid_eqb x y) eqn:Exy; [reflexivity|].
  destruct (nid_eqb (nnot x) y) eqn:Enxy; [reflexivity|].
  destruct x as [| |i c]; [cbn [is_true_id orb] in Et; discriminate Et|cbn [is_false_id orb] in Ef; discriminate Ef|].
  destruct y as [| |j c']; [cbn [is_true_id orb] in Et; discriminate Et|cbn [is_false_id orb] in Ef; discriminate Ef|].
  unfold disj_body. cbn [node_at]. cbn [valid] in Vx, Vy.
  destruct (nth_error a i) as [nx|] eqn:Ex; [|apply nth_error_None in Ex; lia].
  destruct (nth_error a j) as [ny|] eqn:Ey; [|apply nth_error_None in Ey; lia].
  pose proof (entry_children a I i nx Ex) as Cx. pose proof (entry_children a I j ny Ey) as Cy.
  rewrite Forall_forall in Cx, Cy.
  pose proof (var_of_unfold a i c nx I Ex) as Kx. pose proof (var_of_unfold a j c' ny I Ey) as Ky.
  cbn [rank] in Hf.
  destruct (cmp (svar nx) (svar ny)) eqn:Cm.
  - (* same variable *)
    rewrite (tdis_core_eq _ _ _ _ Kx Ky Cm).
    apply (disj_app_arm (disjoint_i f a) a i c j c' nx ny I Ex Ey).
    intros ch ch' Ich Ich'. destruct (Cx ch Ich) as [Rc Vc]. destruct (Cy ch' Ich') as [Rc' Vc'].
    apply IH; [exact I|now apply valid_nnegate|now apply valid_nnegate|]. rewrite !rank_nnegate. lia.
  - (* the variable of [x] comes first *)
    rewrite (tdis_core_lt _ _ _ _ Kx Ky Cm).
    apply (disj_map_arm (fun u => disjoint_i f a u (NNode j c')) a i c nx (unfold a (NNode j c')) I Ex).
    intros ch Ich. destruct (Cx ch Ich) as [Rc Vc].
    apply IH; [exact I|now apply valid_nnegate|exact Vy|]. rewrite rank_nnegate. cbn [rank]. lia.
  - (* the variable of [y] comes first: the crate swaps the operands *)
    rewrite (tdis_core_gt _ _ _ _ Kx Ky Cm).
    apply (disj_map_arm (fun u => disjoint_i f a u (NNode i c)) a j c' ny (unfold a (NNode i c)) I Ey).
    intros ch Ich. destruct (Cy ch Ich) as [Rc Vc].
    apply IH; [exact I|now apply valid_nnegate|exact Vx|]. rewrite rank_nnegate. cbn [rank]. lia.
Qed.

(** ** corollaries *)
Corollary disjoint_i_sym (fuel : nat) (a : arena) (x y : nid) :
  Inv a -> valid (length a) x -> valid (length a) y -> rank x + rank y < fuel ->
  disjoint_i fuel a x y = disjoint_i fuel a y x.
Proof.
  intros I Vx Vy Hf. rewrite (disjoint_i_spec fuel a x y I Vx Vy Hf).
  rewrite (disjoint_i_spec fuel a y x I Vy Vx) by lia. apply tdisjoint_sym.
Qed.

(** enough fuel is enough: the verdict does not depend on the amount *)
Corollary disjoint_i_fuel (fuel fuel' : nat) (a : arena) (x y : nid) :
  Inv a -> valid (length a) x -> valid (length a) y -> rank x + rank y < fuel -> rank x + rank y < fuel' ->
  disjoint_i fuel a x y = disjoint_i fuel' a x y.
Proof.
  intros I Vx Vy Hf Hf'. now rewrite (disjoint_i_spec fuel a x y I Vx Vy Hf), (disjoint_i_spec fuel' a x y I Vx Vy Hf').
Qed.

(** later interning never changes a verdict *)
Corollary disjoint_i_ext (fuel : nat) (a a' : arena) (x y : nid) :
  aext a a' -> Inv a -> Inv a' -> valid (length a) x -> valid (length a) y -> rank x + rank y < fuel ->
  disjoint_i fuel a' x y = disjoint_i fuel a x y.
Proof.
  intros E I I' Vx Vy Hf.
  rewrite (disjoint_i_spec fuel a x y I Vx Vy Hf).
  rewrite (disjoint_i_spec fuel a' x y I' (aext_valid a a' x E Vx) (aext_valid a a' y E Vy) Hf).
  now rewrite (aext_unfold a a' x E Vx), (aext_unfold a a' y E Vy).
Qed.

(** ... and this does not even need the invariant of the larger store, nor any fuel bound: the recursion only
    reads entries below its operands *)
Lemma node_at_app (a b : arena) (x : nid) : valid (length a) x -> node_at (a ++ b) x = node_at a x.
Proof. destruct x as [| |i c]; cbn [node_at valid]; [reflexivity|reflexivity|]. intros L. now apply nth_error_app1. Qed.

Lemma node_at_children (a : arena) (x : nid) (n : snode) : Inv a -> node_at a x = Some n ->
  forall ch, In ch (children n) -> valid (length a) ch.
Proof.
  intros I E ch Ich. destruct x as [| |i c]; cbn [node_at] in E; [discriminate|discriminate|].
  pose proof (entry_children a I i n E) as Cn. rewrite Forall_forall in Cn. exact (proj2 (Cn ch Ich)).
Qed.

Theorem disjoint_i_app : forall fuel (a b : arena) (x y : nid),
  Inv a -> valid (length a) x -> valid (length a) y ->
  disjoint_i fuel (a ++ b) x y = disjoint_i fuel a x y.
Proof.
  induction fuel as [|f IH]; intros a b x y I Vx Vy; [reflexivity|].
  rewrite !disjoint_i_S.
  destruct (is_false_id x || is_false_id y); [reflexivity|].
  destruct (is_true_id x || is_true_id y); [reflexivity|].
  destruct (nid_eqb x y); [reflexivity|].
  destruct (nid_eqb (nnot x) y); [reflexivity|].
  unfold disj_body. rewrite (node_at_app a b x Vx), (node_at_app a b y Vy).
  destruct (node_at a x) as [nx|] eqn:Ex; [|reflexivity].
  destruct (node_at a y) as [ny|] eqn:Ey; [|reflexivity].
  pose proof (node_at_children a x nx I Ex) as Cx. pose proof (node_at_children a y ny I Ey) as Cy.
  destruct (cmp (svar nx) (svar ny)).
  - destruct nx as [k d0 ds|k h l], ny as [k' e0 es|k' h' l']; [| reflexivity | reflexivity |]; cbn [children] in Cx, Cy.
    + rewrite (IH a b (nnegate d0 x) (nnegate e0 y) I (proj2 (valid_nnegate _ d0 x) (Cx d0 (or_introl eq_refl)))
                 (proj2 (valid_nnegate _ e0 y) (Cy e0 (or_introl eq_refl)))).
      f_equal.
      set (pairs := merge (fun u v : nid => (u, v)) d0 ds e0 es).
      assert (Forall (fun p : nid * nid => In (fst p) (d0 :: map snd ds) /\ In (snd p) (e0 :: map snd es)) (map snd pairs)) as Hp.
      { apply merge_children. intros u v Hu Hv. cbn [fst snd]. split.
        - destruct Hu as [-> | Iu]; [now left|now right].
        - destruct Hv as [-> | Iv]; [now left|now right]. }
      apply dj_forallb_ext_in. intros p Ip. rewrite Forall_forall in Hp.
      destruct (Hp (snd p) (in_map snd pairs p Ip)) as [I1 I2].
      apply IH; [exact I|apply valid_nnegate; now apply Cx|apply valid_nnegate; now apply Cy].
    + rewrite (IH a b (nnegate h x) (nnegate h' y) I (proj2 (valid_nnegate _ h x) (Cx h (or_introl eq_refl)))
                 (proj2 (valid_nnegate _ h' y) (Cy h' (or_introl eq_refl)))).
      rewrite (IH a b (nnegate l x) (nnegate l' y) I (proj2 (valid_nnegate _ l x) (Cx l (or_intror (or_introl eq_refl))))
                 (proj2 (valid_nnegate _ l' y) (Cy l' (or_intror (or_introl eq_refl))))).
      reflexivity.
  - apply dj_forallb_ext_in. intros ch Ich. apply IH; [exact I|apply valid_nnegate; now apply Cx|exact Vy].
  - apply dj_forallb_ext_in. intros ch Ich. apply IH; [exact I|apply valid_nnegate; now apply Cy|exact Vx].
Qed.

Corollary disjoint_i_ext_strong (fuel : nat) (a a' : arena) (x y : nid) :
  aext a a' -> Inv a -> valid (length a) x -> valid (length a) y ->
  disjoint_i fuel a' x y = disjoint_i fuel a x y.
Proof. intros [b ->] I Vx Vy. now apply disjoint_i_app. Qed.

(** [is_disjoint] answers [true] exactly when [and] returns FALSE *)
Lemma is_false_id_iff (r : nid) : is_false_id r = true <-> r = NFalse.
Proof. destruct r; cbn [is_false_id]; split; congruence. Qed.

Corollary disjoint_i_and (fuel fuel' : nat) (s : ist) (x y : nid) :
  SOK0 s -> valid (length (fst s)) x -> valid (length (fst s)) y -> rank x + rank y < fuel -> enough_fuel x y fuel' ->
  (disjoint_i fuel (fst s) x y = true <-> snd (and_i fuel' s x y) = NFalse).
Proof.
  intros S Vx Vy Hf Hf'. rewrite (disjoint_i_spec fuel (fst s) x y (proj1 S) Vx Vy Hf), tdisjoint_and.
  pose proof (and_i_spec0 fuel' s x y S Vx Vy Hf') as P.
  destruct (and_i fuel' s x y) as [s' r]. destruct P as (S' & E' & V' & U'). cbn [snd].
  rewrite <- U', (is_false_unfold (fst s') r (proj1 S') V'). apply is_false_id_iff.
Qed.
End DisjProofs.

Print Assumptions disjoint_i_spec.
Print Assumptions disjoint_i_sym.
Print Assumptions disjoint_i_fuel.
Print Assumptions disjoint_i_ext.
Print Assumptions disjoint_i_app.
Print Assumptions disjoint_i_ext_strong.
Print Assumptions disjoint_i_and.

(** ** the concrete marker instance *)
From Coq Require Import NArith.
From PV Require Import Marker.Concrete Marker.Expr Interner.Intern Interner.InternProofs.
Local Open Scope nat_scope.

(** [disjoint_i] on interned markers is [m_disjoint] of the markers *)
Corollary disjoint_i_m_disjoint (fuel : nat) (a : marena) (x y : nid) :
  Inv a -> valid (length a) x -> valid (length a) y -> rank x + rank y < fuel ->
  disjoint_i fuel a x y = m_disjoint (unfold a x) (unfold a y).
Proof. exact (disjoint_i_spec fuel a x y). Qed.

Print Assumptions disjoint_i_m_disjoint.

(** non-vacuity: [t1 = (k0 >= '3.8' and os_name == 'b')], [t2 = (k0 < '3.9' and os_name == 'c')] (disjoint: the
    recursion goes through the [Equal] arm with a merge of two cut lists, below complemented edges), and
    [t3 = (os_name < 'c' or extra == 'a')] (overlaps [t1]; [Less] / [Greater] arms); the verdicts are those of
    [m_disjoint], are symmetric, and agree with [and_i] returning FALSE or not *)
Example disjoint_i_example :
  let t1 : mdd := m_and (expression 2%N 1%N (EVersion 0%N OGe [3%N; 8%N])) (expression 2%N 1%N (EString 1%N SEq [98%N])) in
  let t2 : mdd := m_and (expression 2%N 1%N (EVersion 0%N OLt [3%N; 9%N])) (expression 2%N 1%N (EString 1%N SEq [99%N])) in
  let t3 : mdd := m_or (expression 2%N 1%N (EString 1%N SLt [99%N])) (expression 2%N 1%N (EExtra false false [97%N])) in
  let '(a1, x) := intern [] t1 in
  let '(a2, y) := intern a1 t2 in
  let '(a3, z) := intern a2 t3 in
  unfold a3 x = t1 /\ unfold a3 y = t2 /\ unfold a3 z = t3 /\
  disjoint_i (S (rank x + rank y)) a3 x y = true /\ m_disjoint t1 t2 = true /\
  disjoint_i (S (rank y + rank x)) a3 y x = true /\
  snd (and_i (S (rank x + rank y)) (a3, []) x y) = NFalse /\
  disjoint_i (S (rank x + rank z)) a3 x z = false /\ m_disjoint t1 t3 = false /\
  disjoint_i (S (rank z + rank x)) a3 z x = false /\
  snd (and_i (S (rank x + rank z)) (a3, []) x z) <> NFalse /\
  disjoint_i (S (rank x + rank y)) a1 x x = false /\
  disjoint_i (S (rank x + rank y)) a1 x (nnot x) = true.
Proof. vm_compute. repeat split; try reflexivity. discriminate. Qed.
