(** L2: the memoised recursion of [InternerGuard::and] on node ids (src/marker/algebra.rs:270-324), with
    [Edges::map] / [Edges::apply] / [apply_ranges] on id-labelled edges, complemented edges ([negate]),
    the memo cache and [create_node].  Definitions only; AndProofs.v shows that it refines the L1
    operation [tand] on the unfolded diagrams (so that the abstraction made in Intern.v is sound).

    The cache of the crate is a hash map keyed by the ordered pair of ids; it is modelled as an
    association list.  The state is threaded through the children in edge order, as the closures passed to
    [map] / [apply] do.  [fuel] bounds the recursion depth; the theorem shows which fuel suffices. *)
From Coq Require Import List Bool Arith.
From PV Require Import Base.Order Base.CutDef DD.DDModel Interner.Store.
Import ListNotations.

Section AndI.
Context {var val : Type} `{TotalOrder var} `{TotalOrder val}.
Notation cutV := (cut val).
Notation snode := (snode (var:=var) (val:=val)).
Notation arena := (list snode).

Definition cache := list ((nid * nid) * nid).
Fixpoint cache_get (c : cache) (x y : nid) : option nid :=
  match c with
  | [] => None
  | ((x', y'), r) :: c' => if nid_eqb x x' && nid_eqb y y' then Some r else cache_get c' x y
  end.
Definition ist := (arena * cache)%type.

Definition node_at (a : arena) (x : nid) : option snode :=
  match x with NNode i _ => nth_error a i | _ => None end.
Definition svar (n : snode) : var := match n with SR k _ _ | SB k _ _ => k end.
Definition is_false_id (x : nid) : bool := match x with NFalse => true | _ => false end.

(** thread the state through a list of edges, in order *)
Fixpoint map_state {A : Type} (f : ist -> A -> ist * nid) (s : ist) (l : list (cutV * A)) : ist * list (cutV * nid) :=
  match l with
  | [] => (s, [])
  | (c, a) :: l' => let (s1, b) := f s a in let (s2, bs) := map_state f s1 l' in (s2, (c, b) :: bs)
  end.

(** [Edges::map(parent, f)]: every child, un-complemented relative to its parent, through [f]; adjacent
    equal results merged *)
Definition map_node (f : ist -> nid -> ist * nid) (parent : nid) (s : ist) (n : snode) : ist * snode :=
  match n with
  | SR k d0 ds =>
      let (s0, e0) := f s (nnegate d0 parent) in
      let (s1, es) := map_state (fun s c => f s (nnegate c parent)) s0 ds in
      (s1, SR k e0 (coalesce nid_eqb e0 es))
  | SB k hi lo =>
      let (s0, h) := f s (nnegate hi parent) in
      let (s1, l) := f s0 (nnegate lo parent) in
      (s1, SB k h l)
  end.

(** [Edges::apply]: range maps are split into their intersections ([apply_ranges]: here the merge of the
    two cut lists), boolean edges are paired; mixed variants are [unreachable!] *)
Definition apply_node (f : ist -> nid -> nid -> ist * nid) (px py : nid) (s : ist) (nx ny : snode) : ist * snode :=
  match nx, ny with
  | SR k d0 ds, SR _ e0 es =>
      let (s0, r0) := f s (nnegate d0 px) (nnegate e0 py) in
      let pairs := merge (fun a b => (a, b)) d0 ds e0 es in
      let (s1, rs) := map_state (fun s (p : nid * nid) => f s (nnegate (fst p) px) (nnegate (snd p) py)) s0 pairs in
      (s1, SR k r0 (coalesce nid_eqb r0 rs))
  | SB k h l, SB _ h' l' =>
      let (s0, rh) := f s (nnegate h px) (nnegate h' py) in
      let (s1, rl) := f s0 (nnegate l px) (nnegate l' py) in
      (s1, SB k rh rl)
  | _, _ => (s, SB (svar nx) NFalse NFalse)
  end.

Fixpoint and_i (fuel : nat) (s : ist) (x y : nid) {struct fuel} : ist * nid :=
  match fuel with
  | O => (s, NFalse)
  | S f =>
      match x, y with
      | NTrue, _ => (s, y)
      | _, NTrue => (s, x)
      | _, _ =>
          if nid_eqb x y then (s, x)
          else if is_false_id x || is_false_id y then (s, NFalse)
          else if nid_eqb (nnot x) y then (s, NFalse)
          else
            match cache_get (snd s) x y with
            | Some r => (s, r)
            | None =>
                match node_at (fst s) x, node_at (fst s) y with
                | Some nx, Some ny =>
                    let '(s1, n) :=
                      match cmp (svar nx) (svar ny) with
                      | Lt => map_node (fun s c => and_i f s c y) x s nx
                      | Gt => map_node (fun s c => and_i f s c x) y s ny
                      | Eq => apply_node (fun s a b => and_i f s a b) x y s nx ny
                      end in
                    let (a', r) := create_node (fst s1) n in
                    ((a', ((x, y), r) :: snd s1), r)
                | _, _ => (s, NFalse)
                end
            end
      end
  end.

(** [or] is [not (and (not x) (not y))] *)
Definition or_i (fuel : nat) (s : ist) (x y : nid) : ist * nid :=
  let (s', r) := and_i fuel s (nnot x) (nnot y) in (s', nnot r).
End AndI.
