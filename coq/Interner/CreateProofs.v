(** L2: [create_node] keeps the store invariant, only appends, and yields the id whose diagram is the
    reduced node built from the diagrams of the children - for every prior state of the store. *)
From Coq Require Import List Bool Arith Lia.
From PV Require Import Base.ListLemmas Base.Order Base.CutDef Base.CutLemmas DD.DDModel DD.DDBasics DD.DDWfOps Interner.Store Interner.StoreProofs.
Import ListNotations.

Section Create.
Context {var val : Type} `{TotalOrder var} `{TotalOrder val}.
Notation cutV := (cut val).
Notation dd := (dd var val).
Notation snode := (snode (var:=var) (val:=val)).
Notation arena := (list snode).

(** the reduction rule of [create_node], on diagrams *)
Definition reduce_node (t : dd) : dd :=
  match t with
  | RNode k d0 ds => if forallb (dd_eqb d0) (map snd ds) then d0 else t
  | BNode k hi lo => if dd_eqb hi lo then hi else t
  | Leaf _ => t
  end.

Lemma dd_eqb_tneg (x y : dd) : dd_eqb (tneg x) (tneg y) = dd_eqb x y.
Proof.
  destruct (dd_eqb x y) eqn:E.
  - apply dd_eqb_spec in E; subst. apply dd_eqb_refl.
  - apply dd_eqb_false. apply dd_eqb_false in E. intros E'. apply E. now apply tneg_inj.
Qed.

Lemma reduce_node_tneg (t : dd) : reduce_node (tneg t) = tneg (reduce_node t).
Proof.
  destruct t as [b|k d0 ds|k hi lo]; rewrite tneg_eq; cbn [reduce_node]; [reflexivity| |].
  - rewrite map_snd_children, forallb_map'.
    assert (forallb (fun x => dd_eqb (tneg d0) (tneg x)) (map snd ds) = forallb (dd_eqb d0) (map snd ds)) as ->.
    { apply forallb_ext'. intros x. apply dd_eqb_tneg. }
    destruct (forallb (dd_eqb d0) (map snd ds)); [reflexivity|now rewrite (tneg_eq (RNode k d0 ds))].
  - rewrite dd_eqb_tneg. destruct (dd_eqb hi lo); [reflexivity|now rewrite (tneg_eq (BNode k hi lo))].
Qed.

Lemma find_node_spec (n : snode) : forall (a : arena) base,
  match find_node n a base with
  | Some i => exists j, i = base + j /\ nth_error a j = Some n
  | None => forall j, nth_error a j <> Some n
  end.
Proof.
  induction a as [|m a IH]; intros base; cbn [find_node].
  - intros [|j]; discriminate.
  - destruct (snode_eqb n m) eqn:E.
    + apply snode_eqb_spec in E; subst m. exists 0. split; [lia|reflexivity].
    + specialize (IH (S base)). destruct (find_node n a (S base)) as [i|].
      * destruct IH as (j & -> & Ej). exists (S j). split; [lia|exact Ej].
      * intros [|j]; cbn; [|apply IH]. intros [= ->]. assert (snode_eqb n n = true) by (now apply snode_eqb_spec). congruence.
Qed.

Lemma node_not_involutive (n : snode) : node_not (node_not n) = n.
Proof.
  destruct n as [k d0 ds|k h l]; cbn [node_not]; rewrite ?nnot_involutive; [|reflexivity]. f_equal.
  rewrite map_snd_map_snd. rewrite <- (map_snd_id ds) at 2. apply map_snd_ext. apply Forall_forall. intros x _. apply nnot_involutive.
Qed.

Lemma node_valid_not len (n : snode) : node_valid len n -> node_valid len (node_not n).
Proof. unfold node_valid. rewrite children_not, Forall_map. apply Forall_impl. intros x. apply valid_nnot. Qed.

Lemma first_child_not (n : snode) : first_child (node_not n) = nnot (first_child n).
Proof. destruct n; reflexivity. Qed.

Lemma rnode_neq_child k (d : dd) (ds : list (cutV * dd)) : RNode k d ds <> d.
Proof. intros E. apply (f_equal size) in E. cbn [size] in E. lia. Qed.
Lemma bnode_neq_child k (d d' : dd) : BNode k d d' <> d.
Proof. intros E. apply (f_equal size) in E. cbn [size] in E. lia. Qed.

(** equality of valid ids is equality of the diagrams they show *)
Lemma nid_eqb_trees (a : arena) (x y : nid) : Inv a -> valid (length a) x -> valid (length a) y ->
  nid_eqb x y = dd_eqb (unfold a x) (unfold a y).
Proof.
  intros I Vx Vy. destruct (nid_eqb x y) eqn:E.
  - apply nid_eqb_spec in E; subst. symmetry. apply dd_eqb_refl.
  - symmetry. apply dd_eqb_false. intros E'. apply (unfold_inj a x y I Vx Vy) in E'. subst.
    assert (nid_eqb y y = true) by (now apply nid_eqb_spec). congruence.
Qed.

Lemma all_equal_trees (a : arena) (n : snode) : Inv a -> node_valid (length a) n ->
  forallb (nid_eqb (first_child n)) (children n) = true <->
  reduce_node (node_tree (unfold_all a) n) = unfold a (first_child n).
Proof.
  intros I V. unfold node_valid in V. destruct n as [k d0 ds|k h l]; cbn [children first_child node_tree reduce_node forallb] in *.
  - inversion V as [|? ? V0 Vs]; subst.
    assert (nid_eqb d0 d0 = true) as -> by (now apply nid_eqb_spec). cbn [andb].
    assert (forallb (nid_eqb d0) (map snd ds) = forallb (dd_eqb (tree_of (unfold_all a) d0)) (map snd (map_snd (tree_of (unfold_all a)) ds))) as ->.
    { rewrite map_snd_children, (forallb_map' (dd_eqb (tree_of (unfold_all a) d0)) (tree_of (unfold_all a))). apply forallb_ext_in'. intros x Ix. rewrite Forall_forall in Vs. now apply nid_eqb_trees; auto. }
    destruct (forallb _ _) eqn:E; split; auto; try discriminate.
    intros E'. exfalso. unfold unfold in E'. exact (rnode_neq_child _ _ _ E').
  - inversion V as [|? ? Vh Vl]; subst. inversion Vl as [|? ? Vl' _]; subst.
    assert (nid_eqb h h = true) as -> by (now apply nid_eqb_spec). cbn [andb]. rewrite andb_true_r.
    rewrite (nid_eqb_trees a h l I Vh Vl'). unfold unfold.
    destruct (dd_eqb _ _) eqn:E; split; auto; try discriminate.
    intros E'. exfalso. exact (bnode_neq_child _ _ _ E').
Qed.

Lemma not_all_equal_reduce (a : arena) (n : snode) : Inv a -> node_valid (length a) n ->
  forallb (nid_eqb (first_child n)) (children n) = false ->
  reduce_node (node_tree (unfold_all a) n) = node_tree (unfold_all a) n.
Proof.
  intros I V Na. pose proof (all_equal_trees a n I V) as [_ Hall].
  destruct n as [k d0 ds|k h l]; cbn [node_tree reduce_node] in *.
  - destruct (forallb (dd_eqb _) _) eqn:E3; [|reflexivity]. rewrite Hall in Na by reflexivity. discriminate.
  - destruct (dd_eqb (tree_of _ h) _) eqn:E3; [|reflexivity]. rewrite Hall in Na by reflexivity. discriminate.
Qed.

Lemma Inv_snoc (a : arena) (n : snode) : Inv a -> node_valid (length a) n ->
  is_compl (first_child n) = false -> forallb (nid_eqb (first_child n)) (children n) = false ->
  (forall j, nth_error a j <> Some n) -> Inv (a ++ [n]).
Proof.
  intros I V Nc Na Nf.
  assert (forall i m, nth_error (a ++ [n]) i = Some m -> (i < length a /\ nth_error a i = Some m) \/ (i = length a /\ m = n)) as Hcase.
  { intros i m E. destruct (Nat.lt_ge_cases i (length a)) as [L | G].
    - left. rewrite nth_error_app1 in E by exact L. auto.
    - right. rewrite nth_error_app2 in E by exact G. destruct (i - length a) as [|d] eqn:D; cbn in E.
      + injection E as <-. split; [lia|reflexivity].
      + destruct d; discriminate. }
  constructor.
  - intros i m E. destruct (Hcase i m E) as [[L E'] | [Ei Em]].
    + exact (inv_closed _ I i m E').
    + subst i m. exact V.
  - intros i m E. destruct (Hcase i m E) as [[L E'] | [Ei Em]].
    + exact (inv_normal _ I i m E').
    + subst i m. auto.
  - intros i j m Ei Ej. destruct (Hcase i m Ei) as [[Li Ei'] | [Ei1 Ei2]]; destruct (Hcase j m Ej) as [[Lj Ej'] | [Ej1 Ej2]].
    + exact (inv_unique _ I i j m Ei' Ej').
    + subst m. exfalso. exact (Nf i Ei').
    + subst m. exfalso. exact (Nf j Ej').
    + congruence.
Qed.

(** [create_node] for every prior store *)
Theorem create_node_spec (a : arena) (n : snode) : Inv a -> node_valid (length a) n ->
  let r := create_node a n in
  Inv (fst r) /\ (exists b, fst r = a ++ b) /\ valid (length (fst r)) (snd r) /\
  unfold (fst r) (snd r) = reduce_node (node_tree (unfold_all a) n).
Proof.
  intros I V. unfold create_node.
  set (flipped := is_compl (first_child n)).
  set (n' := if flipped then node_not n else n).
  set (first' := if flipped then nnot (first_child n) else first_child n).
  assert (first' = first_child n') as Hf by (unfold first', n'; destruct flipped; [now rewrite first_child_not|reflexivity]).
  assert (node_valid (length a) n') as V' by (unfold n'; destruct flipped; [now apply node_valid_not|exact V]).
  assert (is_compl first' = false) as Nc.
  { unfold first', flipped. destruct (is_compl (first_child n)) eqn:C; [now rewrite is_compl_nnot, C|exact C]. }
  assert (node_tree (unfold_all a) n = if flipped then tneg (node_tree (unfold_all a) n') else node_tree (unfold_all a) n') as Ht.
  { unfold n'. destruct flipped; [now rewrite node_tree_not, tneg_involutive|reflexivity]. }
  assert (valid (length a) first') as Vf.
  { rewrite Hf. unfold node_valid in V'. destruct n'; cbn in *; inversion V'; auto. }
  rewrite Ht.
  assert (reduce_node (if flipped then tneg (node_tree (unfold_all a) n') else node_tree (unfold_all a) n')
          = (fun t => if flipped then tneg t else t) (reduce_node (node_tree (unfold_all a) n'))) as ->
    by (destruct flipped; [apply reduce_node_tneg|reflexivity]).
  rewrite Hf. destruct (forallb (nid_eqb (first_child n')) (children n')) eqn:Eall.
  - (* all children equal: the child itself *)
    cbn [fst snd]. split; [exact I|]. split; [exists []; now rewrite app_nil_r|].
    apply (all_equal_trees a n' I V') in Eall. rewrite Eall. rewrite <- Hf in *.
    split; [destruct flipped; [now apply valid_nnot|exact Vf]|].
    destruct flipped; [apply tree_of_nnot|reflexivity].
  - rewrite (not_all_equal_reduce a n' I V' Eall).
    pose proof (find_node_spec n' a 0) as Hfind. destruct (find_node n' a 0) as [i|].
    + (* an equal node exists *)
      destruct Hfind as (j & -> & Ej). cbn [fst snd plus].
      assert (j < length a) as Lj by (apply nth_error_Some; congruence).
      split; [exact I|]. split; [exists []; now rewrite app_nil_r|]. split; [exact Lj|].
      unfold unfold. rewrite (unfold_node a I j flipped n' Ej). reflexivity.
    + (* a fresh node *)
      cbn [fst snd].
      assert (Inv (a ++ [n'])) as I'.
      { apply Inv_snoc; auto. now rewrite <- Hf. }
      split; [exact I'|]. split; [eexists; reflexivity|]. split; [rewrite app_length; cbn; lia|].
      unfold unfold. cbn [tree_of]. rewrite unfold_all_app, app_nth2 by (rewrite length_unfold_all; lia).
      rewrite length_unfold_all, Nat.sub_diag. reflexivity.
Qed.
End Create.
