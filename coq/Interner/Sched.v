(** C15 (logic part): several threads run programs of marker operations against one shared store.
    A schedule interleaves atomic steps - one whole operation executed under the interner lock.  Every
    thread observes exactly what it would observe running alone on an empty store, and equal markers built on
    different threads are the same id.

    Assumed, not modelled: that the Mutex makes each operation atomic, that boxcar::Vec publishes a pushed
    node before its index can be observed, and that lock-free reads of existing entries see them unchanged. *)
From Coq Require Import List Bool Arith NArith Lia.
From PV Require Import Base.Order Base.CutDef DD.DDModel DD.DDBasics DD.DDWf
  Interner.Store Interner.StoreProofs Interner.CreateProofs Interner.Intern Interner.InternProofs Marker.Concrete Marker.Expr.
Import ListNotations.
Local Open Scope nat_scope.

Section Sched.
Variables pv pfv : N.
Variable progs : nat -> list mop.       (* the program of each thread *)

Record sys := { sy_arena : marena; sy_regs : nat -> list nid; sy_pc : nat -> nat }.

Definition view (s : sys) (t : nat) : istate := {| st_arena := sy_arena s; st_regs := sy_regs s t |}.

(** thread [t] takes the lock and performs its next operation *)
Definition sys_step (s : sys) (t : nat) : sys :=
  match nth_error (progs t) (sy_pc s t) with
  | None => s
  | Some o =>
      let st := mstep pv pfv (view s t) o in
      {| sy_arena := st_arena st;
         sy_regs := fun u => if Nat.eqb u t then st_regs st else sy_regs s u;
         sy_pc := fun u => if Nat.eqb u t then S (sy_pc s t) else sy_pc s u |}
  end.

Definition sys_init : sys := {| sy_arena := []; sy_regs := fun _ => []; sy_pc := fun _ => 0 |}.
Definition sys_run (sched : list nat) : sys := fold_left sys_step sched sys_init.

(** what thread [t] would have after running the same prefix of its program alone *)
Definition solo (s : sys) (t : nat) : istate := mrun pv pfv init (firstn (sy_pc s t) (progs t)).

Definition SysInv (s : sys) : Prop :=
  forall t, SInv (view s t) /\ reg_trees (view s t) = reg_trees (solo s t).

Lemma firstn_snoc {A} (l : list A) n x : nth_error l n = Some x -> firstn (S n) l = firstn n l ++ [x].
Proof.
  revert n. induction l as [|y l IH]; intros [|n] E; try discriminate.
  - cbn in E. injection E as ->. reflexivity.
  - cbn [nth_error] in E. change (firstn (S (S n)) (y :: l)) with (y :: firstn (S n) l). rewrite (IH n E). reflexivity.
Qed.

Lemma sys_step_inv (s : sys) (t : nat) : SysInv s -> SysInv (sys_step s t).
Proof.
  intros SI. unfold sys_step. destruct (nth_error (progs t) (sy_pc s t)) as [o|] eqn:E; [|exact SI].
  destruct (SI t) as [St Et].
  destruct (mstep_spec pv pfv (view s t) o St) as (St' & Ext & Tr).
  intros u. unfold view, solo. cbn [sy_arena sy_regs sy_pc]. destruct (Nat.eqb_spec u t) as [-> | Ne].
  - split; [exact St'|].
    rewrite (firstn_snoc _ _ _ E). unfold mrun. rewrite fold_left_app. cbn [fold_left].
    fold (mrun pv pfv init (firstn (sy_pc s t) (progs t))). fold (solo s t).
    assert (SInv (solo s t)) as Ss by (apply mrun_spec; apply SInv_fresh, Inv_nil).
    destruct (mstep_spec pv pfv (solo s t) o Ss) as (_ & _ & Tr').
    change (reg_trees (mstep pv pfv (view s t) o) = reg_trees (mstep pv pfv (solo s t) o)).
    rewrite Tr, Tr', Et. f_equal. f_equal. now apply mop_tree_trees.
  - destruct (SI u) as [(Iu & Vu & Wu) Eu]. destruct St' as (I' & _ & _). cbn [st_arena st_regs view] in *.
    assert (forall y, In y (sy_regs s u) -> valid (length (st_arena (mstep pv pfv (view s t) o))) y /\
                                          unfold (st_arena (mstep pv pfv (view s t) o)) y = unfold (sy_arena s) y) as Hold.
    { intros y Iy. rewrite Forall_forall in Vu. split; [eapply ext_valid; eauto|apply ext_unfold; auto]. }
    split.
    + split; [exact I'|]. cbn [st_arena st_regs]. split; apply Forall_forall; intros y Iy.
      * exact (proj1 (Hold y Iy)).
      * destruct (Hold y Iy) as [_ Eh]. unfold view in Eh. rewrite Eh. rewrite Forall_forall in Wu. now apply Wu.
    + refine (eq_trans _ Eu). unfold reg_trees, view. cbn [st_arena st_regs]. apply map_ext_in. intros y Iy. exact (proj2 (Hold y Iy)).
Qed.

Lemma sys_init_inv : SysInv sys_init.
Proof.
  intros t. unfold view, solo, sys_init. cbn. split; [apply (SInv_fresh []), Inv_nil|reflexivity].
Qed.

Lemma sys_run_inv : forall sched, SysInv (sys_run sched).
Proof.
  intros sched. unfold sys_run. generalize sys_init_inv. generalize sys_init.
  induction sched as [|t sched IH]; intros s SI; cbn [fold_left]; auto. apply IH. now apply sys_step_inv.
Qed.

(** every thread observes what a sequential execution of its own program observes, under every schedule *)
Theorem sched_indep (sched : list nat) (t : nat) :
  observe (view (sys_run sched) t) = observe (solo (sys_run sched) t).
Proof.
  destruct (sys_run_inv sched t) as [S E]. apply observe_trees; auto. apply mrun_spec. apply SInv_fresh, Inv_nil.
Qed.

(** markers built from the same inputs on different threads are the same marker *)
Theorem cross_thread_identity (sched : list nat) (t u : nat) (x y : nid) :
  In x (sy_regs (sys_run sched) t) -> In y (sy_regs (sys_run sched) u) ->
  (unfold (sy_arena (sys_run sched)) x = unfold (sy_arena (sys_run sched)) y <-> x = y).
Proof.
  intros Ix Iy. destruct (sys_run_inv sched t) as [(I & Vt & _) _]. destruct (sys_run_inv sched u) as [(_ & Vu & _) _].
  cbn [view st_arena st_regs] in *. rewrite Forall_forall in Vt, Vu. apply unfold_inj; auto.
Qed.
End Sched.
